(* Byte-level proofs about the Cubic model (Cubic.v) over Flocq binary64: the slow-start bound on
   window() in bytes, the rounding-sensitive clauses of c15_obs_ok on every model trace, and the
   byte-level form of set_mss rescaling.
   Library axioms (Coq Reals / Flocq) as in Cubic_Proofs.v.  cbrt / powf3 are Section variables
   without hypotheses wherever they occur. *)
From Coq Require Import Reals Lra Lia ZArith Psatz.
From Coq Require Import Floats.SpecFloat.
From Flocq Require Import Core BinarySingleNaN Relative.
From Utp Require Import Base.Prelude Cubic.F64 Cubic.Cubic Cubic.Cubic_Proofs.
Open Scope R_scope.

(* ---- absolute rounding error: |x| <= 2^e  ->  |fl(x) - x| <= 2^(e-54)  (half an ulp) *)
Lemma abs_err : forall x e, (-1021 <= e)%Z -> Rabs x <= bpow radix2 e ->
  Rabs (rnd x - x) <= bpow radix2 (e - 54).
Proof.
  intros x e He Hx.
  destruct (Req_dec x 0) as [->|Nz].
  { rewrite rnd_0, Rminus_0_r, Rabs_R0. apply bpow_ge_0. }
  destruct Hx as [Hlt|Heq].
  - rewrite rnd_FLT. eapply Rle_trans; [apply error_le_half_ulp; auto with typeclass_instances|].
    rewrite ulp_neq_0 by exact Nz. unfold cexp.
    assert (Hm : (mag radix2 x <= e)%Z) by (apply mag_le_bpow; assumption).
    replace (bpow radix2 (e - 54)) with (/ 2 * bpow radix2 (e - 53)).
    + apply Rmult_le_compat_l; [lra|]. apply bpow_le. unfold FLT_exp. lia.
    + replace (e - 53)%Z with (1 + (e - 54))%Z by lia. rewrite bpow_plus.
      change (bpow radix2 1) with 2. field.
  - rewrite rnd_generic.
    + unfold Rminus. rewrite Rplus_opp_r, Rabs_R0. apply bpow_ge_0.
    + apply generic_format_abs_inv. rewrite Heq.
      apply generic_format_FLT_bpow; [auto with typeclass_instances | lia].
Qed.

Lemma err_2_48 : forall x, 0 <= x <= 281474976710656 -> Rabs (rnd x - x) <= / 64.
Proof.
  intros x H. replace (/ 64) with (bpow radix2 (48 - 54)) by reflexivity.
  apply abs_err; [lia|]. rewrite Rabs_pos_eq by lra.
  change (bpow radix2 48) with (IZR (2 ^ 48)). apply H.
Qed.

Lemma err_2_33 : forall x, 0 <= x <= 8589934592 -> Rabs (rnd x - x) <= / 2097152.
Proof.
  intros x H. replace (/ 2097152) with (bpow radix2 (33 - 54)) by reflexivity.
  apply abs_err; [lia|]. rewrite Rabs_pos_eq by lra.
  change (bpow radix2 33) with (IZR (2 ^ 33)). apply H.
Qed.

Lemma err_2_32 : forall x, 0 <= x <= 4294967296 -> Rabs (rnd x - x) <= / 4194304.
Proof.
  intros x H. replace (/ 4194304) with (bpow radix2 (32 - 54)) by reflexivity.
  apply abs_err; [lia|]. rewrite Rabs_pos_eq by lra.
  change (bpow radix2 32) with (IZR (2 ^ 32)). apply H.
Qed.

Lemma rnd_ge_0 : forall x, 0 <= x -> 0 <= rnd x.
Proof. intros x H. rewrite <- rnd_0. apply rnd_le. exact H. Qed.

Lemma rnd_le_fmt : forall x y, generic_format radix2 fexp64 y -> x <= y -> rnd x <= y.
Proof. intros x y Hy H. rewrite <- (rnd_generic y Hy). apply rnd_le. exact H. Qed.

Lemma rnd_ge_fmt : forall x y, generic_format radix2 fexp64 y -> y <= x -> y <= rnd x.
Proof. intros x y Hy H. rewrite <- (rnd_generic y Hy). apply rnd_le. exact H. Qed.

(* the clamp of window() on reals: monotone and 1-Lipschitz *)
Definition clamp (c rho : R) : R := Rmin (Rmax c 2) rho.

Lemma clamp_mono_lip : forall c a rho, c <= a ->
  clamp c rho <= clamp a rho <= clamp c rho + (a - c).
Proof. unfold clamp, Rmin, Rmax; intros; repeat destruct (Rle_dec _ _); lra. Qed.

Lemma clamp_idem : forall a rho, clamp (Rmax (Rmin a rho) 2) rho = clamp a rho.
Proof. unfold clamp, Rmin, Rmax; intros; repeat destruct (Rle_dec _ _); lra. Qed.

Lemma clamp_range : forall c rho, 0 <= rho -> 0 <= clamp c rho <= rho.
Proof. unfold clamp, Rmin, Rmax; intros; repeat destruct (Rle_dec _ _); lra. Qed.

Lemma clamp_small_rho : forall c rho, rho <= 2 -> clamp c rho = rho.
Proof. unfold clamp, Rmin, Rmax; intros; repeat destruct (Rle_dec _ _); lra. Qed.

Lemma Ztrunc_add_le : forall P P' n, 0 <= P -> 0 <= P' -> P' <= P + IZR n + / 2 ->
  (Ztrunc P' <= Ztrunc P + n + 1)%Z.
Proof.
  intros P P' n H0 H0' H. apply Ztrunc_lt_succ; [exact H0'|].
  rewrite (Ztrunc_floor P H0). rewrite !plus_IZR.
  pose proof (Zfloor_ub P). lra.
Qed.

Lemma mss_R : forall m, mss_ok m -> 1 <= IZR m <= 65535.
Proof. intros m H. unfold mss_ok in H. split; apply IZR_le; lia. Qed.

Lemma window_val_fin : forall s, mss_ok (mss s) -> rwnd_ok (rwnd s) -> is_finite (cwnd s) = true ->
  cubic_window s = Ztrunc (rnd (clamp (B2R (cwnd s)) (B2R (rwnd s)) * IZR (mss s))).
Proof.
  intros s Hm Hok Fc. destruct (window_val s Hm Hok) as [E _]. rewrite E, (clampR_finite _ _ Fc).
  reflexivity.
Qed.

(* ---- (1) slow start, bytes: one on_ack changes window() by at least 0 and at most len + 1 *)
Section SlowStartBytes.
Variable powf3 : f64 -> f64.

Lemma slow_start_bytes : forall s now len rtt,
  mss_ok (mss s) -> rwnd_ok (rwnd s) -> (0 <= len < 2 ^ 32)%Z ->
  is_finite (cwnd s) = true -> 0 <= B2R (cwnd s) ->
  flt (cwnd s) (ssthresh s) = true ->
  exists s', cubic_on_ack powf3 s now len rtt = Some s' /\
    mss s' = mss s /\ rwnd s' = rwnd s /\ ssthresh s' = ssthresh s /\
    last_congestion_event s' = last_congestion_event s /\
    (cubic_window s <= cubic_window s' <= cubic_window s + len + 1)%Z.
Proof.
  intros s now len rtt Hm Hok Hl Fc Hc Hlt.
  destruct (Z.eq_dec len 0) as [->|Hnz].
  { exists s. unfold cubic_on_ack. cbn [Z.eqb]. repeat split; try reflexivity; lia. }
  destruct (fge (cwnd s) (rwnd s)) eqn:Hge.
  { exists s. unfold cubic_on_ack. destruct (Z.eqb_spec len 0) as [E|_]; [contradiction|].
    rewrite Hge. repeat split; try reflexivity; lia. }
  assert (Hl' : (0 < len < 2 ^ 32)%Z) by lia.
  destruct (slow_start_mss_units powf3 s now len rtt Hm Hok Hl' Fc Hc Hge Hlt)
    as (s' & E & Ec' & Fc' & Vc' & _ & Es & Em & Er).
  exists s'. split; [exact E|]. split; [exact Em|]. split; [exact Er|]. split; [exact Es|].
  split. { clear Ec' Vc' Fc'. unfold cubic_on_ack in E.
           destruct (Z.eqb_spec len 0) as [E0|_]; [contradiction|]. rewrite Hge, Hlt in E.
           injection E as <-. reflexivity. }
  assert (Hm' : mss_ok (mss s')) by (rewrite Em; exact Hm).
  assert (Hok' : rwnd_ok (rwnd s')) by (rewrite Er; exact Hok).
  rewrite (window_val_fin s Hm Hok Fc), (window_val_fin s' Hm' Hok' Fc'), Em, Er, Vc'.
  destruct Hok as [Frw Hrw].
  assert (Hcr : B2R (cwnd s) < B2R (rwnd s)).
  { unfold fge in Hge. rewrite (Bleb_correct 53 1024 _ _ Frw Fc) in Hge.
    destruct (Rle_bool_spec (B2R (rwnd s)) (B2R (cwnd s))); [discriminate|assumption]. }
  pose proof (mss_R _ Hm) as HM.
  set (rho := B2R (rwnd s)) in *. set (c := B2R (cwnd s)) in *. set (M := IZR (mss s)) in *.
  set (L := IZR len).
  assert (HL : 1 <= L <= 4294967296) by (unfold L; split; apply IZR_le; lia).
  assert (Hinv : / 65536 <= / M <= 1).
  { split; [apply Rinv_le_contravar; lra|]. rewrite <- Rinv_1. apply Rinv_le_contravar; lra. }
  assert (HLM : 0 <= L / M <= 4294967296) by (unfold Rdiv; split; nra).
  set (q := rnd (L / M)).
  assert (Hq : Rabs (q - L / M) <= / 4194304) by (apply err_2_32; exact HLM).
  apply Rabs_le_inv in Hq.
  assert (Hq0 : 0 <= q) by (apply rnd_ge_0; lra).
  assert (Hq1 : q <= 4294967296) by (apply rnd_le_fmt; [exact pow32_fmt | lra]).
  set (a := rnd (c + q)).
  assert (Ha : Rabs (a - (c + q)) <= / 2097152) by (apply err_2_33; lra).
  apply Rabs_le_inv in Ha.
  assert (Hac : c <= a) by (apply rnd_ge_fmt; [apply fmt_B2R | lra]).
  rewrite clamp_idem.
  destruct (clamp_mono_lip c a rho Hac) as [V1 V2].
  destruct (clamp_range c rho (proj1 Hrw)) as [V3 V4].
  destruct (clamp_range a rho (proj1 Hrw)) as [V5 V6].
  set (v := clamp c rho) in *. set (v' := clamp a rho) in *.
  assert (Hx : 0 <= v * M <= 281474976710656) by (split; nra).
  assert (Hx' : 0 <= v' * M <= 281474976710656) by (split; nra).
  assert (Hd : (a - c) * M <= L + 3 / 64).
  { assert ((a - c) <= L / M + 3 / 4194304) by lra.
    assert (L / M * M = L) by (field; lra). nra. }
  assert (Hxx : v' * M <= v * M + L + 3 / 64) by nra.
  pose proof (err_2_48 _ Hx) as HP. apply Rabs_le_inv in HP.
  pose proof (err_2_48 _ Hx') as HP'. apply Rabs_le_inv in HP'.
  split.
  - apply Ztrunc_le, rnd_le. nra.
  - apply Ztrunc_add_le; [apply rnd_ge_0; lra | apply rnd_ge_0; lra | fold L; lra].
Qed.
End SlowStartBytes.

(* M1 helpers for src/congestion/cubic.rs: Rust f64 semantics over Flocq binary64.
   MODEL ONLY (no proofs).  f64 = IEEE 754 binary64 with a single NaN (payloads are
   never observable through the integer observations used here). *)
From Utp Require Import Base.Prelude.
From Flocq Require Import IEEE754.BinarySingleNaN.

Definition f64 : Set := binary_float 53 1024.

Definition f64_prec_gt_0 : FLX.Prec_gt_0 53 := eq_refl.
Definition f64_prec_lt_emax : Prec_lt_emax 53 1024 := eq_refl.

(* Rust `+ - * /` on f64: IEEE 754 round-to-nearest-even. *)
Definition fadd : f64 -> f64 -> f64 := @Bplus 53 1024 f64_prec_gt_0 f64_prec_lt_emax mode_NE.
Definition fsub : f64 -> f64 -> f64 := @Bminus 53 1024 f64_prec_gt_0 f64_prec_lt_emax mode_NE.
Definition fmul : f64 -> f64 -> f64 := @Bmult 53 1024 f64_prec_gt_0 f64_prec_lt_emax mode_NE.
Definition fdiv : f64 -> f64 -> f64 := @Bdiv 53 1024 f64_prec_gt_0 f64_prec_lt_emax mode_NE.

(* Rust `<`, `>=` on f64: false when either side is NaN. *)
Definition flt (a b : f64) : bool := Bltb a b.
Definition fge (a b : f64) : bool := Bleb b a.

Definition f64_nan : f64 := B754_nan.
Definition f64_inf : f64 := B754_infinity false.
Definition f64_zero : f64 := B754_zero false.

(* `x as f64` for an unsigned integer x (usize, u64, u32): round to nearest even. *)
Definition f64_of_Z (z : Z) : f64 :=
  binary_normalize 53 1024 f64_prec_gt_0 f64_prec_lt_emax mode_NE z 0 false.

(* f64::max / f64::min: if one argument is NaN the other is returned.  For two zeros of
   different sign the result sign is unspecified in Rust; no observation used here can
   see it (every result is either compared, clamped by 2., or converted to usize). *)
Definition rust_max (a b : f64) : f64 :=
  match a, b with
  | B754_nan, _ => b
  | _, B754_nan => a
  | _, _ => if Bltb a b then b else a
  end.
Definition rust_min (a b : f64) : f64 :=
  match a, b with
  | B754_nan, _ => b
  | _, B754_nan => a
  | _, _ => if Bltb b a then b else a
  end.

(* `x as usize` for f64 x: saturating, NaN -> 0, truncation toward zero. *)
Definition usize_of_f64 (x : f64) : Z :=
  match x with
  | B754_nan => 0
  | B754_infinity s => if s then 0 else USIZE_MAX
  | B754_zero _ => 0
  | B754_finite _ _ _ _ => Z.min USIZE_MAX (Z.max 0 (Btrunc x))
  end.

(* Duration = total nanoseconds (Z >= 0).  core::time::Duration::as_secs_f64:
     (self.secs as f64) + (self.nanos as f64) / (NANOS_PER_SEC as f64)         *)
Definition CU_NS_PER_SEC : Z := 1000000000.
Definition as_secs_f64 (d : Z) : f64 :=
  fadd (f64_of_Z (d / CU_NS_PER_SEC)) (fdiv (f64_of_Z (d mod CU_NS_PER_SEC)) (f64_of_Z CU_NS_PER_SEC)).
(* Duration::MAX = u64::MAX s + 999_999_999 ns; `Duration + Duration` panics above it. *)
Definition CU_DUR_MAX : Z := (M64 - 1) * CU_NS_PER_SEC + 999999999.
Definition cu_dur_add (a b : Z) : option Z := if a + b <=? CU_DUR_MAX then Some (a + b) else None.

(* Literals.  A decimal literal is the correctly rounded value of the decimal; for
   0.7 = 7/10 and 0.4 = 4/10 that is exactly the IEEE division of the two integers. *)
Definition f64_1 : f64 := f64_of_Z 1.
Definition f64_2 : f64 := f64_of_Z 2.
Definition f64_3 : f64 := f64_of_Z 3.
Definition BETA_CUBIC : f64 := fdiv (f64_of_Z 7) (f64_of_Z 10).   (* 0.7 *)
Definition C_CUBIC : f64 := fdiv (f64_of_Z 4) (f64_of_Z 10).      (* 0.4 *)
(* (1. + BETA_CUBIC) / 2. *)
Definition FAST_CONV_FACTOR : f64 := fdiv (fadd f64_1 BETA_CUBIC) f64_2.
(* (1. - BETA_CUBIC) / C *)
Definition K_FACTOR : f64 := fdiv (fsub f64_1 BETA_CUBIC) C_CUBIC.
(* 3. * (1. - BETA_CUBIC) / (1. + BETA_CUBIC) *)
Definition W_EST_FACTOR : f64 :=
  fdiv (fmul f64_3 (fsub f64_1 BETA_CUBIC)) (fadd f64_1 BETA_CUBIC).

(* bit-level view used by the driver glue and by Examples: (sign, mantissa, exponent) *)
Definition f64_view (x : f64) : Z * Z * Z :=
  match x with
  | B754_zero s => ((if s then 1 else 0), 0, 0)
  | B754_infinity s => ((if s then 1 else 0), -1, 0)
  | B754_nan => (0, -2, 0)
  | B754_finite s m e _ => ((if s then 1 else 0), Zpos m, e)
  end.

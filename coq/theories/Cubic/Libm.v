(* Oracle used ONLY for running the model (correspondence); no theorem mentions it.
   Rust 1.95's f64::cbrt is compiler-builtins' libm port of CORE-MATH cbrt, which is
   correctly rounded (it is NOT the C library's cbrt, which differs in the last bit on
   about half of all inputs).  The correctly rounded cube root is a mathematical function,
   computed here exactly with integers. *)
From Utp Require Import Base.Prelude Cubic.F64.
From Flocq Require Import IEEE754.BinarySingleNaN.

(* floor of the cube root of M, for 0 <= M < 2^(3*(bits+1)) *)
Fixpoint icbrt_go (bits : nat) (M r : Z) : Z :=
  let cand := r + 2 ^ Z.of_nat bits in
  let r' := if cand * cand * cand <=? M then cand else r in
  match bits with O => r' | S b => icbrt_go b M r' end.

Definition cbrt_pos (m e : Z) : f64 :=
  (* |x| = m * 2^e, m > 0.  Scale to M = m * 2^k with 163..165 bits and (e - k) divisible
     by 3: floor(cbrt M) has exactly 55 bits. *)
  let k0 := 163 - (Z.log2 m + 1) in
  let k := k0 + (e - k0) mod 3 in
  let M := m * 2 ^ k in
  let r := icbrt_go 54 M 0 in
  let q := r / 4 in
  let mid := 4 * q + 2 in
  (* a tie would need M = mid^3 with mid odd*2: impossible for a 53-bit m *)
  let q' := if mid * mid * mid <? M then q + 1 else q in
  binary_normalize 53 1024 f64_prec_gt_0 f64_prec_lt_emax mode_NE q' (2 + (e - k) / 3) false.

Definition cbrt_cr (x : f64) : f64 :=
  match x with
  | B754_finite s m e _ =>
      let y := cbrt_pos (Zpos m) e in
      if s then Bopp y else y
  | _ => x   (* cbrt(+-0) = +-0, cbrt(+-inf) = +-inf, cbrt(NaN) = NaN *)
  end.

(* C01 lift, from the ghost streams to what the applications saw.
   - pair_trace_refines_all: the data-path run of a pair trace extends the runs of its prefixes, so
     one guard (that of the whole run) gives the prefix property at every step;
   - the ghost streams g_written / g_read of each endpoint change only by application writes / reads
     (polls, deliveries: data events leave them alone), and the (length, hash) accumulators of the pair
     are those of the ghost streams (acc_inv);
   - hence the extracted predicate c01_dir_ok (cumulative length and hash of what the reader got =
     those of a prefix of what the peer wrote, step by step) holds on every live, guarded pair trace
     (pair_trace_dir_ok). *)
From Utp Require Import Base.Prelude Wire.SeqNr Wire.Header Rtt.Rtte Mtu.SegSizes Rx.Rx Rx.Rx_Proofs Tx.Ring
  Tx.Ring_Proofs Tx.Segments Tx.Segments_Proofs Conn.Recovery Conn.Msg Conn.VSockRec Conn.VSock Conn.VSockRun
  Conn.C10_Pred Conn.VSock_Inv Pair.Pair Pair.DP Pair.DP_Lemmas Pair.DP_Proofs Pair.DP_RxProofs
  Pair.Pair_Refine Pair.Pair_RefineWalk Pair.Pair_RefineWalkPoll Pair.Pair_RefineSim Pair.Pair_RefinePair
  Pair.Pair_RefineTrace.

(* ------------------------------------------------------------------ ghost streams of the components *)
Lemma flush_loop_gread : forall fuel s w fb fp s' w' fb' fp',
  flush_loop fuel s w fb fp = Some (s', w', fb', fp') -> g_read s' = g_read s.
Proof.
  induction fuel as [|fuel IH]; intros s w fb fp s' w' fb' fp'; cbn [flush_loop].
  - intro H; injection H as <- _ _ _. reflexivity.
  - destruct (filled_front s =? 0); [intro H; injection H as <- _ _ _; reflexivity|].
    destruct (ooq_data s) as [|m rest]; [discriminate|].
    destruct (w <? _); [intro H; injection H as <- _ _ _; reflexivity|].
    destruct (reader_dropped s); [intro H; injection H as <- _ _ _; reflexivity|].
    destruct (_ <? _); [discriminate|].
    intro H. rewrite (IH _ _ _ _ _ _ _ _ H). reflexivity.
Qed.

Lemma rx_flush_gread s : g_read (fst (fst (rx_flush s))) = g_read s.
Proof.
  unfold rx_flush.
  match goal with |- context [flush_loop ?f ?s0 ?w 0 0] => destruct (flush_loop f s0 w 0 0) as [[[[s1 w1] fb] fp]|] eqn:E end.
  - apply flush_loop_gread in E. destruct (0 <? fp); cbn [fst set_wakers g_read]; rewrite E; reflexivity.
  - reflexivity.
Qed.

Lemma ooq_add_remove_gread s k p off : g_read (fst (ooq_add_remove s k p off)) = g_read s.
Proof.
  unfold ooq_add_remove. destruct (ooq_is_full s); [reflexivity|]. destruct (_ <=? _); [reflexivity|].
  destruct k; destruct p; try reflexivity;
    (destruct (nth_error _ _); [|reflexivity]; destruct (negb _); [reflexivity|];
     destruct (take_while_filled _) as [n b]; reflexivity).
Qed.

Lemma rx_add_remove_gread s k p off : g_read (fst (fst (rx_add_remove s k p off))) = g_read s.
Proof.
  unfold rx_add_remove. pose proof (ooq_add_remove_gread s k p off) as H.
  destruct (ooq_add_remove s k p off) as [s1 r]. cbn [fst] in H.
  destruct r; try exact H.
  destruct (_ && _); [|exact H].
  pose proof (rx_flush_gread s1) as H2. destruct (rx_flush s1) as [[s2 fr] w]. cbn [fst] in H2.
  destruct fr; cbn [fst]; congruence.
Qed.

Lemma read_loop_gread : forall fuel s room out s' out' dead err,
  read_loop fuel s room out = (s', out', dead, err) -> g_read s' = g_read s.
Proof.
  induction fuel as [|fuel IH]; intros s room out s' out' dead err; cbn [read_loop].
  - intro H; injection H as <- _ _ _. reflexivity.
  - destruct (room <=? 0); [intro H; injection H as <- _ _ _; reflexivity|].
    destruct (current s) as [|c cs].
    + destruct (is_eof s); [intro H; injection H as <- _ _ _; reflexivity|].
      destruct (q s) as [|item qrest].
      * destruct (vsock_closed s); intro H; injection H as <- _ _ _; reflexivity.
      * destruct item.
        -- intro H. rewrite (IH _ _ _ _ _ _ _ H). reflexivity.
        -- intro H; injection H as <- _ _ _. reflexivity.
        -- intro H; injection H as <- _ _ _. reflexivity.
    + intro H. rewrite (IH _ _ _ _ _ _ _ H). reflexivity.
Qed.

Definition read_bytes (r : read_result) : list Z := match r with RdOk bs => bs | _ => [] end.

Lemma rx_read_gread s n s' r w : rx_read s n = (s', r, w) -> g_read s' = g_read s ++ read_bytes r.
Proof.
  unfold rx_read. destruct (read_loop _ s n []) as [[[s1 out] dead] err] eqn:E.
  apply read_loop_gread in E.
  destruct err; [intro H; injection H as <- <- _; cbn [read_bytes]; rewrite app_nil_r; exact E|].
  destruct out as [|b bs].
  - destruct (is_eof s1); [|destruct dead]; intro H; injection H as <- <- _; cbn [read_bytes]; rewrite app_nil_r; exact E.
  - intro H; injection H as <- <- _. cbn [g_read read_bytes]. rewrite E. reflexivity.
Qed.

Definition write_bytes (buf : list Z) (r : write_result) : list Z :=
  match r with WrOk n => firstn (Z.to_nat n) buf | _ => [] end.

Lemma poll_write_gw t buf t' r w : poll_write t buf = (t', r, w) -> g_written t' = g_written t ++ write_bytes buf r.
Proof.
  unfold poll_write. destruct (YIELD_EVERY <? _); [intro H; injection H as <- <- _; cbn; rewrite app_nil_r; reflexivity|].
  destruct (t_vsock_closed t); [intro H; injection H as <- <- _; cbn; rewrite app_nil_r; reflexivity|].
  destruct (writer_shutdown t); [intro H; injection H as <- <- _; cbn; rewrite app_nil_r; reflexivity|].
  destruct (writer_dropped t); [intro H; injection H as <- <- _; cbn; rewrite app_nil_r; reflexivity|].
  destruct (_ =? 0); intro H; injection H as <- <- _; cbn [upd g_written write_bytes]; [rewrite app_nil_r|]; reflexivity.
Qed.

(* a data event leaves both ghost streams alone *)
Lemma dapply_ghost st e :
  g_written (x_tx (dapply st e)) = g_written (x_tx st) /\ g_read (x_rx (dapply st e)) = g_read (x_rx st).
Proof.
  destruct e; cbn [dapply].
  - destruct (pend_safe_op o) eqn:Eo; [|auto].
    assert (Hfl : is_flag_tx_op o = true) by (destruct o; try discriminate; reflexivity).
    destruct (tx_step (x_tx st) o) as [[t out] w] eqn:E.
    destruct (tx_flag_frame _ _ _ _ _ Hfl E) as (F1 & _). cbn [set_xtx x_tx x_rx]. auto.
  - destruct (_ =? 0); [|auto]. cbn [set_xtx x_tx x_rx]. split; [|reflexivity].
    unfold register_dispatcher_if_empty. destruct (ring (x_tx st)); reflexivity.
  - destruct (grow (x_tx st) mx) as [t g] eqn:E. cbn [set_xtx x_tx x_rx]. split; [|reflexivity].
    unfold grow in E. destruct (_ <=? _); injection E as <- _; reflexivity.
  - destruct (remove_up_to_ack _ _ _ _) as [sg res]. cbn [x_tx x_rx]. auto.
  - cbn [x_tx x_rx]. split; [|reflexivity]. destruct (tx_skip_fields (x_tx st) (x_pend st)) as (_&_&_&_&_&_&_&_&F&_). exact F.
  - destruct (calc_pipe _ _ _ _ _) as [[[sg ?] ?]|]; cbn [set_xsegs x_tx x_rx]; auto.
  - destruct (pop_expired_mtu_probe _ _ _) as [sg pe]. destruct pe; cbn [set_xsegs x_tx x_rx]; auto.
  - destruct (pop_mtu_probe _ _) as [sg popped]. destruct popped; cbn [set_xsegs x_tx x_rx]; auto.
  - destruct (_ && _ && _); cbn [set_xsegs x_tx x_rx]; auto.
  - destruct (negb _); [auto|]. destruct (nth_error _ _) as [f|]; [|auto].
    destruct (_ || _ || _); cbn [x_tx x_rx]; auto.
  - unfold data_apply. destruct (_ <? 0); cbn [x_tx x_rx]; [auto|].
    pose proof (rx_add_remove_gread (x_rx st) KData payload (seq_sub seq (wadd16 (x_lc st) 1))) as H.
    destruct (rx_add_remove _ _ _ _) as [[r ar] w]. cbn [fst] in H.
    destruct ar as [[n b| | | | |]|]; cbn [x_tx x_rx]; auto.
  - pose proof (rx_add_remove_gread (x_rx st) KFin payload (seq_sub seq (wadd16 (x_lc st) 1))) as H.
    destruct (rx_add_remove _ _ _ _) as [[r ar] w]. cbn [fst] in H. cbn [x_tx x_rx]. auto.
  - pose proof (rx_flush_gread (x_rx st)) as H. destruct (rx_flush _) as [[r fr] w]. cbn [fst] in H.
    cbn [set_xrx x_tx x_rx]. auto.
  - destruct (is_flag_rx_op o) eqn:Eo; [|auto].
    destruct o; try discriminate; cbn [rx_step].
    + destruct (reader_dropped (x_rx st)); cbn [set_xrx x_tx x_rx]; auto.
    + unfold rx_mark_vsock_closed. destruct (vsock_closed (x_rx st)); cbn [set_xrx x_tx x_rx]; auto.
  - cbn [set_xrx x_tx x_rx rx_enqueue_error fst]. auto.
Qed.

Lemma drun_ghost : forall evs st,
  g_written (x_tx (drun st evs)) = g_written (x_tx st) /\ g_read (x_rx (drun st evs)) = g_read (x_rx st).
Proof.
  induction evs as [|e evs IH]; intros st; cbn [drun]; [auto|].
  destruct (IH (dapply st e)) as [H1 H2]. destruct (dapply_ghost st e) as [G1 G2]. split; congruence.
Qed.

(* ------------------------------------------------------------------ the hash accumulators *)
Lemma hacc_add_app a l1 l2 : hacc_add a (l1 ++ l2) = hacc_add (hacc_add a l1) l2.
Proof. unfold hacc_add. apply fold_left_app. Qed.

Lemma ha_len_add : forall l a, ha_len (hacc_add a l) = ha_len a + Z.of_nat (length l).
Proof.
  induction l as [|x l IH]; intros a; cbn [hacc_add fold_left length]; [lia|].
  change (fold_left hacc_byte l (hacc_byte a x)) with (hacc_add (hacc_byte a x) l).
  rewrite IH. cbn [hacc_byte ha_len]. lia.
Qed.

Section Obs.
Context {CC : Type} (cci : cc_iface CC).
Notation vsock := (vsock CC).
Notation pair := (pair (CC:=CC)).

(* ------------------------------------------------------------------ one connection event *)
Definition vwrote (o : vop) (out : vout) : list Z :=
  match o, out with VoWrite buf, VrWrite r => write_bytes buf r | _, _ => [] end.
Definition vread (out : vout) : list Z :=
  match out with VrRead r => read_bytes r | _ => [] end.

Lemma vstep_ghost (s : vsock) o s' out dw sw :
  ss_ok (v_ss s) -> vstep cci s o = (s', out, dw, sw) ->
  g_written (v_tx s') = g_written (v_tx s) ++ vwrote o out /\
  g_read (v_rx s') = g_read (v_rx s) ++ vread out.
Proof.
  intro Hss. destruct o; cbn [vstep].
  - intro H; injection H as <- <- _ _. vsimpl. cbn [vwrote vread]. rewrite !app_nil_r. auto.
  - intro H; injection H as <- <- _ _. vsimpl. cbn [vwrote vread]. rewrite !app_nil_r. auto.
  - (* poll *)
    pose proof (poll_ev cci (set_sends s script)) as Hp.
    destruct (poll cci (set_sends s script)) as [s1 res]. intro H; injection H as <- <- _ _.
    assert (Hss' : ss_ok (v_ss (set_sends s script))) by (vsimpl; exact Hss).
    destruct (Hp Hss') as (p' & (evs & V1 & _) & _). cbn [fst] in V1.
    destruct (drun_ghost evs (dview_of 0 (poll_reset (set_sends s script)))) as [G1 G2].
    rewrite <- V1 in G1, G2. unfold dview_of, poll_reset in G1, G2. cbn [x_tx x_rx] in G1, G2. vsimpl.
    cbn [vwrote vread]. rewrite !app_nil_r. auto.
  - destruct (v_inbox_closed s); intro H; injection H as <- <- _ _; vsimpl; cbn [vwrote vread]; rewrite !app_nil_r; auto.
  - intro H; injection H as <- <- _ _. vsimpl. cbn [vwrote vread]. rewrite !app_nil_r. auto.
  - destruct (writer_dropped (v_tx s)); [intro H; injection H as <- <- _ _; cbn [vwrote vread]; rewrite !app_nil_r; auto|].
    destruct (poll_write (v_tx s) buf) as [[tx1 r] w] eqn:E. intro H; injection H as <- <- _ _. vsimpl.
    cbn [vwrote vread]. rewrite app_nil_r. split; [exact (poll_write_gw _ _ _ _ _ E)|reflexivity].
  - destruct (writer_dropped (v_tx s)); [intro H; injection H as <- <- _ _; cbn [vwrote vread]; rewrite !app_nil_r; auto|].
    destruct (poll_flush (v_tx s)) as [[tx1 r] w] eqn:E. intro H; injection H as <- <- _ _. vsimpl.
    cbn [vwrote vread]. rewrite !app_nil_r. split; [|reflexivity].
    unfold poll_flush in E. destruct (ring (v_tx s)); [|destruct (t_vsock_closed (v_tx s))]; injection E as <- _ _; reflexivity.
  - destruct (writer_dropped (v_tx s)); [intro H; injection H as <- <- _ _; cbn [vwrote vread]; rewrite !app_nil_r; auto|].
    destruct (poll_shutdown (v_tx s)) as [[tx1 r] w] eqn:E. intro H; injection H as <- <- _ _. vsimpl.
    cbn [vwrote vread]. rewrite !app_nil_r. split; [|reflexivity].
    unfold poll_shutdown in E.
    destruct (ring (v_tx s)); destruct (t_vsock_closed (v_tx s)); try destruct (writer_shutdown (v_tx s));
      injection E as <- _ _; reflexivity.
  - destruct (reader_dropped (v_rx s)); [intro H; injection H as <- <- _ _; cbn [vwrote vread]; rewrite !app_nil_r; auto|].
    destruct (rx_read (v_rx s) n) as [[rx1 r] w] eqn:E. intro H; injection H as <- <- _ _. vsimpl.
    cbn [vwrote vread]. rewrite app_nil_r. split; [reflexivity|exact (rx_read_gread _ _ _ _ _ E)].
  - destruct (reader_dropped (v_rx s)); [intro H; injection H as <- <- _ _; cbn [vwrote vread]; rewrite !app_nil_r; auto|].
    destruct (rx_drop_reader (v_rx s)) as [rx1 w] eqn:E. intro H; injection H as <- <- _ _. vsimpl.
    cbn [vwrote vread]. rewrite !app_nil_r. split; [reflexivity|].
    unfold rx_drop_reader in E. injection E as <- _. reflexivity.
  - destruct (drop_writer (v_tx s)) as [tx1 w] eqn:E. intro H; injection H as <- <- _ _. vsimpl.
    cbn [vwrote vread]. rewrite !app_nil_r. split; [|reflexivity].
    unfold drop_writer in E. destruct (writer_dropped (v_tx s)); injection E as <- _; reflexivity.
Qed.

Lemma vstep_poll_out (s : vsock) script s' out dw sw :
  vstep cci s (VoPoll script) = (s', out, dw, sw) -> vwrote (VoPoll script) out = [] /\ vread out = [].
Proof.
  cbn [vstep]. destruct (poll cci (set_sends s script)) as [s1 res]. intro E; injection E as _ <- _ _.
  split; reflexivity.
Qed.

Lemma vstep_deliver_out (s : vsock) m s' out dw sw :
  vstep cci s (VoDeliver m) = (s', out, dw, sw) -> vwrote (VoDeliver m) out = [] /\ vread out = [].
Proof.
  cbn [vstep]. destruct (v_inbox_closed s); intro E; injection E as _ <- _ _; split; reflexivity.
Qed.

(* ------------------------------------------------------------------ one pair step *)
Definition gw (s : pair) (sd : side) : list Z := g_written (v_tx (ep s sd)).
Definition gr (s : pair) (sd : side) : list Z := g_read (v_rx (ep s sd)).
Definition wacc (s : pair) (sd : side) : hacc := match sd with SA => p_wa s | SB => p_wb s end.
Definition racc (s : pair) (sd : side) : hacc := match sd with SA => p_ra s | SB => p_rb s end.

(* bytes a read returned *)
Definition rd_of (o : pop) (out : vout) (sd : side) : list Z :=
  match o with PoApp s0 _ => if side_eqb s0 sd then vread out else [] | _ => [] end.

Ltac pair_simpl :=
  cbn [fst snd ep other net_from fin_of set_ep set_net set_fin set_hole count_io gw gr wacc racc
       p_a p_b p_fin_a p_fin_b p_ab p_ba p_hole p_wa p_ra p_wb p_rb po_out po_side side_eqb] in *.

Lemma wrote_of_app sd0 a out sd :
  wrote_of (PoApp sd0 a) out sd = if side_eqb sd0 sd then vwrote (vop_of_aop a) out else [].
Proof.
  unfold wrote_of, vwrote. destruct a; cbn [vop_of_aop]; destruct out; try (destruct (side_eqb sd0 sd); reflexivity).
  destruct r; try (destruct (side_eqb sd0 sd); reflexivity).
Qed.

Lemma pstep_ghost (s : pair) o sd :
  ss_ok (v_ss (p_a s)) -> ss_ok (v_ss (p_b s)) ->
  let s' := fst (pstep cci s o) in
  let out := po_out (snd (pstep cci s o)) in
  gw s' sd = gw s sd ++ wrote_of o out sd /\ gr s' sd = gr s sd ++ rd_of o out sd /\
  wacc s' sd = hacc_add (wacc s sd) (wrote_of o out sd) /\ racc s' sd = hacc_add (racc s sd) (rd_of o out sd).
Proof.
  intros Ha Hb. cbv zeta.
  assert (Hsame : forall s' : pair, gw s' sd = gw s sd -> gr s' sd = gr s sd -> wacc s' sd = wacc s sd ->
            racc s' sd = racc s sd ->
            gw s' sd = gw s sd ++ [] /\ gr s' sd = gr s sd ++ [] /\
            wacc s' sd = hacc_add (wacc s sd) [] /\ racc s' sd = hacc_add (racc s sd) []).
  { intros s' E1 E2 E3 E4. rewrite !app_nil_r. cbn [hacc_add fold_left]. auto. }
  assert (Hss : forall x, ss_ok (v_ss (ep s x))) by (intros [|]; assumption).
  destruct o; cbn [pstep].
  - cbn [fst snd po_out wrote_of rd_of]. apply Hsame; destruct sd; pair_simpl; vsimpl; reflexivity.
  - cbn [fst snd po_out wrote_of rd_of]. apply Hsame; destruct sd; pair_simpl; reflexivity.
  - (* application op *)
    destruct (vstep cci (ep s sd0) (vop_of_aop o)) as [[[v' out] dw] sw] eqn:E.
    destruct (vstep_ghost (ep s sd0) _ _ _ _ _ (Hss sd0) E) as [G1 G2].
    cbn [fst snd po_out]. rewrite wrote_of_app. cbn [rd_of].
    assert (Hw : match o, out with AWrite buf, VrWrite (WrOk n) => firstn (Z.to_nat n) buf | _, _ => [] end =
                 vwrote (vop_of_aop o) out).
    { unfold vwrote. destruct o; cbn [vop_of_aop]; destruct out; try reflexivity; try (destruct r; reflexivity). }
    assert (Hr : match out with VrRead (RdOk bs) => bs | _ => [] end = vread out).
    { unfold vread. destruct out; try reflexivity; try (destruct r; reflexivity). }
    destruct sd, sd0; pair_simpl; rewrite ?Hw, ?Hr, ?app_nil_r; cbn [hacc_add fold_left]; auto.
  - (* poll *)
    destruct (fin_of s sd0).
    { cbn [fst snd po_out wrote_of rd_of]. apply Hsame; reflexivity. }
    destruct (vstep cci (ep s sd0) (VoPoll script)) as [[[v' out] dw] sw] eqn:E.
    destruct (vstep_ghost (ep s sd0) _ _ _ _ _ (Hss sd0) E) as [G1 G2].
    destruct (vstep_poll_out _ _ _ _ _ _ E) as [Ho1 Ho2]. rewrite Ho1, Ho2, app_nil_r in *.
    cbn [fst snd po_out wrote_of rd_of].
    destruct (poll_finished out); apply Hsame; destruct sd, sd0; pair_simpl; auto.
  - (* deliver *)
    destruct (pick_idx (net_from s from) i) as [k|]; [|cbn [fst snd po_out wrote_of rd_of]; apply Hsame; reflexivity].
    destruct (nth_error (net_from s from) k) as [pk|]; [|cbn [fst snd po_out wrote_of rd_of]; apply Hsame; reflexivity].
    destruct (vstep cci (ep (set_net s from (remove_nth k (net_from s from))) (other from)) (VoDeliver (msg_of_packet pk)))
      as [[[v' out] dw] sw] eqn:E.
    assert (Hss' : ss_ok (v_ss (ep (set_net s from (remove_nth k (net_from s from))) (other from))))
      by (destruct from; pair_simpl; assumption).
    destruct (vstep_ghost _ _ _ _ _ _ Hss' E) as [G1 G2].
    destruct (vstep_deliver_out _ _ _ _ _ _ E) as [Ho1 Ho2]. rewrite Ho1, Ho2, app_nil_r in *.
    cbn [fst snd po_out wrote_of rd_of].
    apply Hsame; destruct sd, from; pair_simpl; auto.
  - cbn [fst snd po_out wrote_of rd_of].
    destruct (pick_idx (net_from s from) i) as [k|]; apply Hsame; destruct sd, from; pair_simpl; reflexivity.
  - cbn [fst snd po_out wrote_of rd_of].
    destruct (pick_idx (net_from s from) i) as [k|]; [|apply Hsame; reflexivity].
    destruct (nth_error (net_from s from) k) as [pk|]; apply Hsame; destruct sd, from; pair_simpl; reflexivity.
Qed.

(* the accumulators of the pair are those of the ghost streams *)
Definition acc_inv (s : pair) : Prop :=
  forall sd, wacc s sd = hacc_add hacc0 (gw s sd) /\ racc s sd = hacc_add hacc0 (gr s sd).

Lemma acc_inv_step (s : pair) o :
  ss_ok (v_ss (p_a s)) -> ss_ok (v_ss (p_b s)) -> acc_inv s -> acc_inv (fst (pstep cci s o)).
Proof.
  intros Ha Hb Hinv sd. destruct (pstep_ghost s o sd Ha Hb) as (G1 & G2 & G3 & G4). cbv zeta in *.
  destruct (Hinv sd) as [I1 I2]. rewrite G1, G2, G3, G4, I1, I2, !hacc_add_app. auto.
Qed.

(* ------------------------------------------------------------------ the checker of c01_dir_ok *)
Definition dc_inv (rd : side) (s : pair) (dc : dchk) : Prop :=
  dc_acc dc = hacc_add hacc0 (gr s rd) /\
  dc_pending dc = skipn (length (gr s rd)) (gw s (writer_of rd)) /\
  is_prefix (gr s rd) (gw s (writer_of rd)).

Fixpoint good_run (rd : side) (s : pair) (ops : list pop) : Prop :=
  match ops with
  | [] => True
  | o :: r =>
      let s' := fst (pstep cci s o) in
      ss_ok (v_ss (p_a s)) /\ ss_ok (v_ss (p_b s)) /\
      is_prefix (gr s' rd) (gw s' (writer_of rd)) /\ good_run rd s' r
  end.

Lemma skipn_app_le {A} (l1 l2 : list A) n : (n <= length l1)%nat -> skipn n (l1 ++ l2) = skipn n l1 ++ l2.
Proof. intro H. rewrite skipn_app. replace (n - length l1)%nat with 0%nat by lia. reflexivity. Qed.

Lemma dchk_step_ok rd (s : pair) o dc :
  ss_ok (v_ss (p_a s)) -> ss_ok (v_ss (p_b s)) -> acc_inv s -> dc_inv rd s dc ->
  let s' := fst (pstep cci s o) in
  let out := snd (pstep cci s o) in
  is_prefix (gr s' rd) (gw s' (writer_of rd)) ->
  exists dc', dchk_step dc (wrote_of o (po_out out) (writer_of rd)) (ha_len (racc s' rd), ha_h (racc s' rd)) = Some dc' /\
              dc_inv rd s' dc'.
Proof.
  intros Ha Hb Hacc (D1 & D2 & (restW & D3)). cbv zeta. intros (rest' & Hp').
  destruct (pstep_ghost s o rd Ha Hb) as (_ & G2 & _ & _).
  destruct (pstep_ghost s o (writer_of rd) Ha Hb) as (G1 & _ & _ & _). cbv zeta in *.
  pose proof (acc_inv_step s o Ha Hb Hacc rd) as [_ A2].
  set (s' := fst (pstep cci s o)) in *. set (out := po_out (snd (pstep cci s o))) in *.
  set (R := gr s rd) in *. set (W := gw s (writer_of rd)) in *.
  set (new := rd_of o out rd) in *. set (wrote := wrote_of o out (writer_of rd)) in *.
  (* W ++ wrote = (R ++ new) ++ rest' and W = R ++ restW *)
  rewrite G1, G2 in Hp'.
  assert (Hrest : restW ++ wrote = new ++ rest').
  { rewrite D3 in Hp'. rewrite <- !app_assoc in Hp'. apply app_inv_head in Hp'. exact Hp'. }
  unfold dchk_step. cbn [fst snd]. rewrite D1, D2, A2, G2.
  rewrite !ha_len_add. cbn [hacc0 ha_len].
  assert (Hpend : skipn (length R) W ++ wrote = new ++ rest').
  { rewrite D3, skipn_app_le by lia. rewrite skipn_all2 by lia. exact Hrest. }
  rewrite Hpend.
  replace (0 + Z.of_nat (length (R ++ new)) - (0 + Z.of_nat (length R))) with (Z.of_nat (length new))
    by (rewrite app_length; lia).
  replace ((Z.of_nat (length new) <? 0) || (Z.of_nat (length (new ++ rest')) <? Z.of_nat (length new))) with false
    by (rewrite app_length; symmetry; lia).
  rewrite Nat2Z.id.
  rewrite firstn_app, Nat.sub_diag, firstn_all, firstn_O, app_nil_r.
  rewrite <- hacc_add_app, Z.eqb_refl.
  eexists. split; [reflexivity|].
  unfold dc_inv; cbn [dc_acc dc_pending]. fold s'. rewrite G1, G2. fold R W new wrote.
  split; [reflexivity|]. split.
  - rewrite skipn_app, skipn_all, Nat.sub_diag. cbn [skipn app].
    rewrite Hp', skipn_app_le by lia. rewrite skipn_all2 by lia. reflexivity.
  - exists rest'. exact Hp'.
Qed.

Lemma good_run_dir_ok rd : forall ops (s : pair) dc i,
  acc_inv s -> dc_inv rd s dc -> good_run rd s ops ->
  c01_dir_bad rd i dc (zip_obs ops (ptrace cci s ops)) = None.
Proof.
  induction ops as [|o ops IH]; intros s dc i Hacc Hdc Hg; cbn [ptrace zip_obs c01_dir_bad]; [reflexivity|].
  cbn [good_run] in Hg. destruct Hg as (Ha & Hb & Hp & Hg).
  destruct (dchk_step_ok rd s o dc Ha Hb Hacc Hdc Hp) as (dc' & Hstep & Hdc').
  pose proof (acc_inv_step s o Ha Hb Hacc) as Hacc'.
  destruct (pstep cci s o) as [s' out] eqn:Eps. cbn [fst snd] in *. cbn [c01_dir_bad].
  match goal with |- context [dchk_step dc ?A ?B] =>
    replace A with (wrote_of o (po_out out) (writer_of rd)) by (destruct rd; reflexivity);
    replace B with (ha_len (racc s' rd), ha_h (racc s' rd)) by (destruct rd; reflexivity) end.
  rewrite Hstep.
  destruct (is_poll_panic (po_out out)); [destruct ops; reflexivity|].
  apply IH; assumption.
Qed.

(* ------------------------------------------------------------------ every live, guarded pair trace *)
Lemma psim_prefix c sd (s : pair) dops :
  pconfig_ok c = true ->
  psim (dir_isn sd c) (pc_tx_init c) sd s (dp_run (dir_init sd c) dops) ->
  dp_guards (dp_run (dir_init sd c) dops) = true ->
  is_prefix (gr s (other sd)) (gw s sd).
Proof.
  intros Hok H Hg.
  destruct (pconfig_ok_facts c Hok) as (C1 & C2 & C3 & C4 & C5 & C6 & C7).
  assert (Hisn : 0 <= dir_isn sd c < M16) by (destruct sd; cbn [dir_isn]; [apply wadd16_range|exact C2]).
  assert (Hrx : 0 < dir_max_rx sd c) by (destruct sd; cbn [dir_max_rx]; assumption).
  assert (Hin : 0 < dir_max_in sd c).
  { destruct sd; cbn [dir_max_in]; [pose proof (VSock_Lemmas.mss_ss_new_pos (ss_config_of (cfg_b c)))|
                                    pose proof (VSock_Lemmas.mss_ss_new_pos (ss_config_of (cfg_a c)))]; lia. }
  pose proof (dp_prefix (dir_isn sd c) (pc_tx_init c) (dir_max_rx sd c) (dir_max_in sd c) dops Hisn C3 Hrx Hin Hg) as Hp.
  fold (dir_init sd c) in Hp.
  destruct H as [_ _ (p & _ & P2 & _) R _ _ _ _ _].
  rewrite R, P2 in Hp. destruct (tx_skip_fields (v_tx (ep s sd)) p) as (_&_&_&_&_&_&_&_&F9&_).
  rewrite F9 in Hp. exact Hp.
Qed.

Lemma psim_ss isn ti sd (s : pair) d : psim isn ti sd s d -> ss_ok (v_ss (p_a s)) /\ ss_ok (v_ss (p_b s)).
Proof. intros [_ _ _ _ _ _ _ H1 H2]. destruct sd; cbn [ep other] in H1, H2; auto. Qed.

Lemma pair_trace_good c sd : forall ops (s : pair) pre,
  pconfig_ok c = true ->
  psim (dir_isn sd c) (pc_tx_init c) sd s (dp_run (dir_init sd c) pre) ->
  live_run cci sd s ops = true ->
  exists dops,
    psim (dir_isn sd c) (pc_tx_init c) sd (prun cci s ops) (dp_run (dir_init sd c) (pre ++ dops)) /\
    (dp_guards (dp_run (dir_init sd c) (pre ++ dops)) = true -> good_run (other sd) s ops).
Proof.
  induction ops as [|o ops IH]; intros s pre Hok H Hl; cbn [live_run good_run prun] in *.
  - exists []. rewrite app_nil_r. auto.
  - apply andb_true_iff in Hl. destruct Hl as [Hl1 Hl2].
    destruct (pstep_refines cci _ _ sd s _ o H Hl1) as (o1 & H1).
    rewrite <- dp_run_app in H1.
    destruct (IH _ (pre ++ o1) Hok H1 Hl2) as (o2 & H2 & H3).
    exists (o1 ++ o2). rewrite app_assoc. split; [exact H2|]. intro Hg.
    destruct (psim_ss _ _ _ _ _ H) as [Sa Sb].
    split; [exact Sa|]. split; [exact Sb|]. split; [|apply H3; exact Hg].
    assert (Hw : writer_of (other sd) = sd) by (destruct sd; reflexivity). rewrite Hw.
    apply (psim_prefix c sd _ (pre ++ o1) Hok H1).
    rewrite dp_run_app in Hg. apply guards_mono_run in Hg. exact Hg.
Qed.

Lemma pair_new_acc (mk_cc : Z -> Z -> CC) c (s0 : pair) :
  pair_new cci mk_cc c = Some s0 -> acc_inv s0 /\ forall rd, dc_inv rd s0 dchk0.
Proof.
  unfold pair_new.
  destruct (vsock_new cci mk_cc (cfg_a c)) as [a|] eqn:Ea; [|discriminate].
  destruct (vsock_new cci mk_cc (cfg_b c)) as [b|] eqn:Eb; [|discriminate].
  intro H; injection H as <-.
  destruct (vsock_new_fields cci _ _ _ Ea) as (A1 & _ & A3 & _).
  destruct (vsock_new_fields cci _ _ _ Eb) as (B1 & _ & B3 & _).
  assert (Hg : forall sd, gw {| p_a := a; p_b := b; p_fin_a := false; p_fin_b := false; p_ab := []; p_ba := [];
                               p_hole := None; p_wa := hacc0; p_ra := hacc0; p_wb := hacc0; p_rb := hacc0 |} sd = [] /\
                          gr {| p_a := a; p_b := b; p_fin_a := false; p_fin_b := false; p_ab := []; p_ba := [];
                               p_hole := None; p_wa := hacc0; p_ra := hacc0; p_wb := hacc0; p_rb := hacc0 |} sd = []).
  { intros [|]; unfold gw, gr; cbn [ep p_a p_b]; rewrite ?A1, ?A3, ?B1, ?B3; split; reflexivity. }
  split.
  - intros sd. destruct (Hg sd) as [G1 G2]. rewrite G1, G2. destruct sd; split; reflexivity.
  - intros rd. destruct (Hg rd) as [_ G2]. destruct (Hg (writer_of rd)) as [G1 _].
    unfold dc_inv. rewrite G1, G2. cbn. split; [reflexivity|]. split; [reflexivity|exists []; reflexivity].
Qed.

(* the extracted predicate of one direction holds on every live pair trace whose data-path run is guarded *)
Theorem pair_trace_dir_ok (mk_cc : Z -> Z -> CC) c (s0 : pair) sd ops :
  pconfig_ok c = true -> pair_new cci mk_cc c = Some s0 -> live_run cci sd s0 ops = true ->
  exists dops,
    psim (dir_isn sd c) (pc_tx_init c) sd (prun cci s0 ops) (dp_run (dir_init sd c) dops) /\
    (dp_guards (dp_run (dir_init sd c) dops) = true ->
     c01_dir_ok (other sd) (zip_obs ops (ptrace cci s0 ops)) = true).
Proof.
  intros Hok Hnew Hlive.
  pose proof (pair_new_psim cci mk_cc c s0 sd Hok Hnew) as H0.
  destruct (pair_new_acc mk_cc c s0 Hnew) as [Hacc Hdc].
  destruct (pair_trace_good c sd ops s0 [] Hok H0 Hlive) as (dops & H1 & H2). cbn [app] in H1, H2.
  exists dops. split; [exact H1|]. intro Hg.
  unfold c01_dir_ok. rewrite (good_run_dir_ok (other sd) ops s0 dchk0 0 Hacc (Hdc _) (H2 Hg)). reflexivity.
Qed.

End Obs.

(* C01 lift, the walk through VirtualSocket::poll, part 3: the receive path.
   process_incoming_message = EvAck (remove_up_to_ack; the acknowledged bytes stay pending),
   possibly EvPipe (entering recovery), then EvData for an ST_DATA message, EvFin (+ the closed
   flag of the ring) for an accepted ST_FIN; process_all_incoming_messages ends with EvTrunc
   (truncate_front of everything pending), the writer wake-up and calc_pipe. *)
From Utp Require Import Base.Prelude Wire.SeqNr Wire.Header Rtt.Rtte Mtu.SegSizes Rx.Rx Tx.Ring
  Tx.Segments Tx.Segments_Proofs Conn.Recovery Conn.Msg Conn.VSockRec Conn.VSock Conn.VSockRun Conn.VSock_Inv
  Conn.VSock_LemmasTx Conn.VSock_LemmasIn Conn.C17_StepLemmas Rx.Rx_Slots Pair.DP Pair.DP_Lemmas Pair.Pair_Refine Pair.Pair_RefineWalk
  Pair.Pair_RefineWalkTx.

Arguments SOk {CC A}. Arguments SErr {CC A}. Arguments SPanic {CC A}.
Arguments TblDrop {CC}. Arguments TblErr {CC}. Arguments TblContinue {CC}.

(* ---- counts returned by remove_up_to_ack (no invariant needed) ---- *)
Lemma rua_counts t now ack sk t' r :
  remove_up_to_ack t now ack sk = (t', r) ->
  0 <= ar_acked_segments r /\ (ar_acked_segments r = 0 -> ar_acked_bytes r = 0).
Proof.
  unfold remove_up_to_ack.
  match goal with |- context [drain_acc ?L now ?A] => set (drained := L); set (a0 := A) end.
  destruct (sack_phase _ _ _ _ _ _ _) as [[[rest2 a2] depth] lse].
  destruct (strip_delivered rest2 0 0) as [[rest3 cnt3] bytes3] eqn:Es.
  intro H; injection H as _ <-. cbn [ar_acked_segments ar_acked_bytes].
  destruct (drain_acc_spec drained now a0) as [D1 D2]. unfold a0 in D1, D2; cbn [ac_cnt ac_bytes] in D1, D2.
  destruct (strip_delivered_spec _ _ _ _ _ _ Es) as (dropped & _ & S1 & S2 & _).
  fold a0 in D1, D2. rewrite D1, D2, S1, S2. split; [lia|].
  intro H0.
  assert (Hd : drained = []) by (apply length_zero_iff_nil; lia).
  assert (Hp : dropped = []) by (apply length_zero_iff_nil; lia).
  rewrite Hd, Hp. reflexivity.
Qed.

Section WalkIn.
Context {CC : Type} (cci : cc_iface CC).
Notation vsock := (vsock CC).
Notation step := (@step CC).

(* recovery_on_ack touches the table only through calc_pipe *)
Lemma roa_segs r h segs ls cc now rtt r' segs' cc' :
  recovery_on_ack cci r h segs ls cc now rtt = Some (r', segs', cc') ->
  segs' = segs \/ exists hr hd rt nw p rc, calc_pipe segs hr hd rt nw = Some (segs', p, rc).
Proof.
  unfold recovery_on_ack. cbn [rv_phase rv_supports_sack rv_last_ack].
  destruct (rv_phase r) as [rp|dup|rc].
  - destruct (seq_ge _ _); intro H; injection H as _ <- _; left; reflexivity.
  - destruct (ss_segs segs); [intro H; injection H as _ <- _; left; reflexivity|].
    match goal with |- match ?X with _ => _ end = _ -> _ => destruct X as [[dup' la']|] end; [|discriminate].
    destruct (dup' <? _); [intro H; injection H as _ <- _; left; reflexivity|].
    destruct (calc_pipe segs _ _ _ _) as [[[sg pp] rcl]|] eqn:Ecp; [|discriminate].
    intro H; injection H as _ <- _. right. eauto 10.
  - destruct (seq_ge _ _); intro H; injection H as _ <- _; left; reflexivity.
Qed.

(* ------------------------------------------------------------------ one message, by parts
   (the parts pim_ack / pim_data / pim_fin / pim_cont of Conn/VSock_LemmasIn.v) *)

(* ACK processing: EvAck, and EvPipe when recovery is entered *)
Lemma pim_ack_ev ib (s1 : vsock) h s2 res p :
  pim_ack cci s1 h = Some (s2, res) ->
  devs ib false p s1 (p + ar_acked_bytes res) s2 /\ v_state s2 = v_state s1 /\
  0 <= ar_acked_segments res /\ (ar_acked_segments res = 0 -> ar_acked_bytes res = 0).
Proof.
  unfold pim_ack.
  destruct (remove_up_to_ack (v_segs s1) (v_now s1) (ch_ack h) (ch_sack h)) as [segs1 res0] eqn:Erua.
  destruct (rua_counts _ _ _ _ _ _ Erua) as [Hc1 Hc2].
  destruct (match is_recovering (v_recovery s1) with true => _ | false => _ end) as [rtte1|]; [|discriminate].
  destruct (cc_on_ack cci _ _ _ _) as [cc3|]; [|discriminate].
  destruct (recovery_on_ack cci _ _ _ _ _ _ _) as [[[rec1 segs2] cc4]|] eqn:Eroa; [|discriminate].
  intro H; injection H as <- <-.
  split; [|split; [vsimpl; reflexivity|split; assumption]].
  destruct (roa_segs _ _ _ _ _ _ _ _ _ _ Eroa) as [->|(hr & hd & rt & nw & pp & rcl & Ecp)].
  - apply (devs_plain ib false [EvAck (v_now s1) (ch_ack h) (ch_sack h)]).
    + cbn [drun]. unfold dview_of; vsimpl. cbn [dapply x_segs x_tx x_rx x_lc x_out x_pend].
      rewrite Erua. reflexivity.
    + repeat constructor.
    + vsimpl; reflexivity.
    + unfold rfin; vsimpl; auto.
    + vsimpl. intro H. apply delivered_ss_ok. exact H.
  - apply (devs_plain ib false [EvAck (v_now s1) (ch_ack h) (ch_sack h); EvPipe hr hd rt nw]).
    + cbn [drun]. unfold dview_of; vsimpl. cbn [dapply x_segs x_tx x_rx x_lc x_out x_pend].
      rewrite Erua. cbn [dapply x_segs x_tx x_rx x_lc x_out x_pend]. rewrite Ecp. reflexivity.
    + repeat constructor.
    + vsimpl; reflexivity.
    + unfold rfin; vsimpl; auto.
    + vsimpl. intro H. apply delivered_ss_ok. exact H.
Qed.

(* the tail of the ST_DATA handling, after the receiver was called *)
Definition pim_data_tail (s4 : vsock) (was_empty : bool) (r : add_result) (res : on_ack_result) : step on_ack_result :=
  match add_err r with
  | Some e => SErr s4 e
  | None =>
      let s5 :=
        match r with
        | ArConsumed n bytes =>
            set_cbu
              (set_last_consumed (restart_remote_inactivity_timer s4)
                 (wadd16 (v_last_consumed s4) (n mod M16)))
              (sat_add_usize (v_cbu s4) bytes)
        | _ => s4
        end in
      if negb (ooq_is_empty (v_rx s5)) || negb was_empty then
        sbind (send_ack (force_immediate_ack s5)) (fun s6 _ => SOk s6 res)
      else SOk s5 res
  end.

Definition data_s4 (s2 : vsock) (m : msg) (rx1 : rx) (w : list Rx.wake) : vsock :=
  let ss2 := on_payload_delivered (v_ss s2) (Z.of_nat (length (m_payload m))) in
  add_wakes (set_rx (set_cc (set_ss s2 ss2) (cc_set_mss cci (v_cc s2) (mss ss2))) rx1) (rx_wakes w).

Lemma pim_data_eq (s2 : vsock) m res offset :
  pim_data cci s2 m res offset =
  if offset <? 0 then SOk (force_immediate_ack s2) res
  else
    let '(rx1, ar, w) := rx_add_remove (v_rx s2) KData (m_payload m) offset in
    match ar with
    | UarPanic => SPanic
    | UarOk r => pim_data_tail (data_s4 s2 m rx1 w) (ooq_is_empty (v_rx s2)) r res
    end.
Proof.
  unfold pim_data. destruct (offset <? 0); [reflexivity|]. vsimpl.
  destruct (rx_add_remove (v_rx s2) KData (m_payload m) offset) as [[rx1 ar] w].
  destruct ar; reflexivity.
Qed.

Definition lc_after (lc : Z) (r : add_result) : Z :=
  match r with ArConsumed n _ => wadd16 lc (n mod M16) | _ => lc end.

Definition tail_rel (s4 : vsock) (r : add_result) (s' : vsock) : Prop :=
  v_tx s' = v_tx s4 /\ v_segs s' = v_segs s4 /\ v_rx s' = v_rx s4 /\
  v_last_consumed s' = lc_after (v_last_consumed s4) r /\
  data_view (v_out s') = data_view (v_out s4) /\ v_inbox s' = v_inbox s4 /\ v_ss s' = v_ss s4 /\
  v_state s' = v_state s4.

Lemma tail_rel_svs s4 r s5 s6 : tail_rel s4 r s5 -> svs s5 s6 -> tail_rel s4 r s6.
Proof.
  intros (A1 & A2 & A3 & A4 & A5 & A6 & A7 & A8) ((B1 & B2 & B3 & B4 & B5 & B6 & B7) & B8).
  unfold tail_rel. repeat split; congruence.
Qed.

Lemma pim_data_tail_ev (s4 : vsock) we r res :
  stp (pim_data_tail s4 we r res) (fun s' r' => r' = res /\ tail_rel s4 r s') (fun s' => tail_rel s4 r s').
Proof.
  unfold pim_data_tail.
  assert (H5 : forall s5, s5 = match r with
                               | ArConsumed n bytes =>
                                   set_cbu (set_last_consumed (restart_remote_inactivity_timer s4)
                                              (wadd16 (v_last_consumed s4) (n mod M16)))
                                           (sat_add_usize (v_cbu s4) bytes)
                               | _ => s4 end -> tail_rel s4 r s5).
  { intros s5 ->. unfold tail_rel, lc_after, restart_remote_inactivity_timer.
    destruct r; vsimpl; repeat split. }
  destruct (add_err r) eqn:Eerr.
  { cbn [stp]. apply H5. destruct r; try reflexivity; discriminate. }
  cbv zeta.
  match goal with |- context [ooq_is_empty (v_rx ?S)] => set (s5 := S) end.
  specialize (H5 s5 eq_refl). clearbody s5.
  assert (Hf : svs s5 (force_immediate_ack s5)) by (unfold force_immediate_ack, svs, same_view; vsimpl; repeat split).
  destruct (negb _ || negb we); [|cbn [stp]; split; [reflexivity|exact H5]].
  eapply stp_bind'; [apply send_ack_svs| |].
  - intros s6 H6. eapply tail_rel_svs; [exact H5|]. exact (svs_trans _ _ _ Hf H6).
  - intros s6 b H6. cbn [stp]. split; [reflexivity|]. eapply tail_rel_svs; [exact H5|]. exact (svs_trans _ _ _ Hf H6).
Qed.

Lemma pim_data_ev (s2 : vsock) m res P :
  ch_type (m_hdr m) = ST_DATA ->
  stp (pim_data cci s2 m res (seq_sub (ch_seq (m_hdr m)) (wadd16 (v_last_consumed s2) 1)))
      (fun s' r' => r' = res /\ devs [m] false P s2 P s') (fun s' => devs [m] false P s2 P s').
Proof.
  intro Hty. rewrite pim_data_eq.
  destruct (Z.ltb_spec (seq_sub (ch_seq (m_hdr m)) (wadd16 (v_last_consumed s2) 1)) 0) as [Hneg|Hoff].
  { cbn [stp]. split; [reflexivity|].
    apply devs_same_state; unfold force_immediate_ack, same_view; vsimpl; repeat split. }
  destruct (rx_add_remove (v_rx s2) KData (m_payload m) _) as [[rx1 ar] w] eqn:Era.
  destruct ar as [r|]; [|exact I].
  assert (Hsrc : ev_src [m] (EvData (ch_seq (m_hdr m)) (m_payload m))).
  { exists m. split; [left; reflexivity|]. unfold is_data_msg. auto. }
  assert (Hoffb : (seq_sub (ch_seq (m_hdr m)) (wadd16 (v_last_consumed s2) 1) <? 0) = false) by lia.
  assert (Hgen : forall s', tail_rel (data_s4 s2 m rx1 w) r s' -> devs [m] false P s2 P s').
  { intros s' (A1 & A2 & A3 & A4 & A5 & A6 & A7 & A8).
    unfold data_s4, add_wakes in A1, A2, A3, A4, A5, A6, A7, A8. vsimpl.
    apply (devs_one [m] false (EvData (ch_seq (m_hdr m)) (m_payload m))).
    - unfold dview_of. rewrite A1, A2, A3, A4, A5.
      cbn [dapply x_segs x_tx x_rx x_lc x_out x_pend]. unfold data_apply. rewrite Hoffb, Era.
      unfold lc_after. destruct r; reflexivity.
    - exact Hsrc.
    - discriminate.
    - discriminate.
    - exact A6.
    - unfold rfin. rewrite A8. auto.
    - rewrite A7. intro H. apply delivered_ss_ok. exact H. }
  eapply stp_weaken; [apply pim_data_tail_ev| |].
  - intros s' r' [-> H]. split; [reflexivity|apply Hgen; exact H].
  - intros s' H. apply Hgen. exact H.
Qed.

(* an accepted FIN: EvFin, then the ring is marked closed *)
Lemma pim_fin_ev (s2 : vsock) m res seen P :
  ch_type (m_hdr m) = ST_FIN -> (seen = false -> rfin s2 = true) ->
  stp (pim_fin s2 m res (seq_sub (ch_seq (m_hdr m)) (wadd16 (v_last_consumed s2) 1)) seen)
      (fun s' r' => r' = res /\ devs [m] false P s2 P s') (fun s' => devs [m] false P s2 P s').
Proof.
  intros Hty Hseen. unfold pim_fin. cbv zeta.
  destruct seen; cbn [negb andb].
  { cbn [stp]. split; [reflexivity|].
    apply devs_same_state; unfold force_immediate_ack, same_view; vsimpl; repeat split. }
  specialize (Hseen eq_refl).
  destruct (0 <=? _).
  2:{ cbn [stp]. split; [reflexivity|].
      apply devs_same_state; unfold force_immediate_ack, same_view; vsimpl; repeat split. }
  unfold force_immediate_ack; vsimpl.
  destruct (rx_add_remove (v_rx s2) KFin (m_payload m) _) as [[rx1 ar] w] eqn:Era.
  destruct ar as [r|]; [|exact I].
  match goal with |- context [add_wakes (set_rx ?S rx1) (rx_wakes w)] =>
    set (s5 := add_wakes (set_rx S rx1) (rx_wakes w)) end.
  assert (H5 : devs [m] false P s2 P s5).
  { apply (devs_one [m] false (EvFin (ch_seq (m_hdr m)) (m_payload m))).
    - unfold s5, dview_of, add_wakes; vsimpl.
      cbn [dapply x_segs x_tx x_rx x_lc x_out x_pend]. rewrite Era. reflexivity.
    - exact I.
    - intros _. unfold s5, rfin, add_wakes; vsimpl. exact Hseen.
    - discriminate.
    - unfold s5, add_wakes; vsimpl. reflexivity.
    - unfold s5, rfin, add_wakes; vsimpl. auto.
    - unfold s5, add_wakes; vsimpl. auto. }
  clearbody s5.
  destruct (add_err r); [cbn [stp]; exact H5|].
  destruct (mark_vsock_closed (v_tx s5)) as [tx1 w2] eqn:Emc. cbn [stp]. split; [reflexivity|].
  eapply devs_trans; [exact H5|].
  apply (devs_plain [m] false [EvTxFlag ToMarkClosed]).
  - cbn [drun]. unfold dview_of, add_wakes; vsimpl. cbn [dapply x_tx pend_safe_op tx_step]. rewrite Emc. reflexivity.
  - repeat constructor.
  - unfold add_wakes; vsimpl. reflexivity.
  - unfold rfin, add_wakes; vsimpl. auto.
  - unfold add_wakes; vsimpl. auto.
Qed.

Definition pim_post (m : msg) (p : Z) (s : vsock) (s' : vsock) (res : on_ack_result) : Prop :=
  devs [m] false p s (p + ar_acked_bytes res) s' /\
  0 <= ar_acked_segments res /\ (ar_acked_segments res = 0 -> ar_acked_bytes res = 0).

Lemma pim_ev (s : vsock) (m : msg) (p : Z) :
  stp (process_incoming_message cci s m) (pim_post m p s) (fun s' => exists p', devs [m] false p s p' s').
Proof.
  rewrite process_incoming_message_eq.
  pose proof (state_table_sv s (m_hdr m)) as [Hsv Hrf].
  destruct (state_table s (m_hdr m)) as [s1|s1 e|s1] eqn:Etbl; cbn [tbl_state] in Hsv, Hrf.
  - cbn [stp]. unfold pim_post. cbn [on_ack_result_default ar_acked_bytes ar_acked_segments].
    rewrite Z.add_0_r. split; [apply devs_same; assumption|lia].
  - cbn [stp]. exists p. apply devs_same; assumption.
  - unfold pim_cont.
    destruct (pim_ack cci s1 (m_hdr m)) as [[s2 res]|] eqn:Eack; [|exact I].
    destruct (pim_ack_ev [m] _ _ _ _ p Eack) as (H2 & Hs2 & Hc1 & Hc2).
    set (P := p + ar_acked_bytes res) in *.
    assert (H02 : devs [m] false p s P s2).
    { eapply devs_trans; [apply (devs_same [m] false p s s1); assumption|exact H2]. }
    assert (Hfin : forall s', devs [m] false P s2 P s' -> pim_post m p s s' res).
    { intros s' H. split; [eapply devs_trans; [exact H02|exact H]|split; assumption]. }
    assert (Herr : forall s', devs [m] false P s2 P s' -> exists p', devs [m] false p s p' s').
    { intros s' H. exists P. eapply devs_trans; [exact H02|exact H]. }
    destruct (ch_type (m_hdr m)) eqn:Hty.
    + eapply stp_weaken; [apply (pim_data_ev s2 m res P Hty)| |].
      * intros s' r' [-> H]. apply Hfin. exact H.
      * intros s' H. apply Herr. exact H.
    + eapply stp_weaken; [apply (pim_fin_ev s2 m res _ P Hty)| |].
      * intro Hseen. unfold rfin. rewrite Hs2. apply (state_table_fin s (m_hdr m) s1 Hty Etbl).
      * intros s' r' [-> H]. apply Hfin. exact H.
      * intros s' H. apply Herr. exact H.
    + cbn [stp]. apply Hfin. apply devs_refl.
    + cbn [stp]. apply Hfin. apply devs_refl.
    + cbn [stp]. apply Hfin. apply devs_refl.
Qed.

(* ------------------------------------------------------------------ the receive loop *)
(* the accumulated result and the bytes pending *)
Definition pacc_ok (p : Z) (acc : on_ack_result) : Prop :=
  p = ar_acked_bytes acc /\ 0 <= ar_acked_segments acc /\ (ar_acked_segments acc = 0 -> ar_acked_bytes acc = 0).

Lemma devs_set_inbox ib err p (s : vsock) m rest p' s' :
  v_inbox s = m :: rest -> devs ib err p (set_inbox s rest) p' s' -> devs ib err p s p' s'.
Proof.
  intros Hib (evs & A1 & A2 & (pre & A3) & A4 & A5 & A6 & A7). exists evs.
  split; [exact A1|]. split; [exact A2|].
  split; [exists (m :: pre); rewrite Hib; vsimpl; rewrite A3; reflexivity|].
  split; [exact A4|]. split; [exact A5|]. split; [exact A6|exact A7].
Qed.

Lemma devs_inbox_incl ib err p (s : vsock) p' s' :
  devs ib err p s p' s' -> incl (v_inbox s) ib -> incl (v_inbox s') ib.
Proof.
  intros (evs & _ & _ & (pre & A3) & _) Hi x Hx. apply Hi. rewrite A3. apply in_or_app. right. exact Hx.
Qed.

Lemma transition_sv (s : vsock) :
  same_view s (transition_to_fin_wait_1 s) /\ rfin (transition_to_fin_wait_1 s) = rfin s.
Proof.
  unfold transition_to_fin_wait_1, rfin, same_view.
  destruct (v_state s) eqn:Es; vsimpl; rewrite ?Es; repeat split.
Qed.

Lemma recv_loop_ev ib : forall fuel (s : vsock) acc p,
  pacc_ok p acc -> incl (v_inbox s) ib ->
  stp (recv_loop cci fuel s acc)
      (fun s' res => exists p', devs ib false p s p' s' /\ pacc_ok p' (fst res))
      (fun s' => exists p', devs ib false p s p' s').
Proof.
  induction fuel as [|m0 fuel IH]; intros s acc p Hacc Hib.
  - cbn [recv_loop]. destruct (v_inbox s) as [|m rest] eqn:Eib; [|exact I].
    destruct (v_inbox_closed s).
    + destruct (transition_sv s) as [T1 T2].
      eapply stp_bind'; [apply maybe_send_fin_svs| |].
      * intros s2 [H2 H2']. exists p. eapply devs_trans; [apply devs_same; [exact T1|rewrite T2; auto]|].
        apply devs_same_state; assumption.
      * intros s2 b [H2 H2']. cbn [stp fst]. exists p. split; [|exact Hacc].
        eapply devs_trans; [apply devs_same; [exact T1|rewrite T2; auto]|].
        eapply devs_trans; [apply devs_same_state; [exact H2|exact H2']|].
        apply devs_same; [unfold same_view; vsimpl; repeat split|unfold rfin; vsimpl; reflexivity].
    + cbn [stp fst]. exists p. split; [|exact Hacc].
      apply devs_same_state; [unfold same_view; vsimpl; repeat split|vsimpl; reflexivity].
  - cbn [recv_loop]. destruct (v_inbox s) as [|m rest] eqn:Eib.
    + destruct (v_inbox_closed s).
      * destruct (transition_sv s) as [T1 T2].
        eapply stp_bind'; [apply maybe_send_fin_svs| |].
        -- intros s2 [H2 H2']. exists p. eapply devs_trans; [apply devs_same; [exact T1|rewrite T2; auto]|].
           apply devs_same_state; assumption.
        -- intros s2 b [H2 H2']. cbn [stp fst]. exists p. split; [|exact Hacc].
           eapply devs_trans; [apply devs_same; [exact T1|rewrite T2; auto]|].
           eapply devs_trans; [apply devs_same_state; [exact H2|exact H2']|].
           apply devs_same; [unfold same_view; vsimpl; repeat split|unfold rfin; vsimpl; reflexivity].
      * cbn [stp fst]. exists p. split; [|exact Hacc].
        apply devs_same_state; [unfold same_view; vsimpl; repeat split|vsimpl; reflexivity].
    + assert (Hm : incl [m] ib).
      { intros x [<-|[]]. apply Hib. left. reflexivity. }
      eapply stp_bind'; [apply (pim_ev (set_inbox s rest) m p)| |].
      * intros s1 (p' & H1). exists p'. eapply devs_set_inbox; [exact Eib|]. eapply devs_ib_mono; [exact Hm|exact H1].
      * intros s1 r (H1 & Hc1 & Hc2).
        assert (H1' : devs ib false p s (p + ar_acked_bytes r) s1).
        { eapply devs_set_inbox; [exact Eib|]. eapply devs_ib_mono; [exact Hm|exact H1]. }
        assert (Hacc1 : pacc_ok (p + ar_acked_bytes r) (result_update acc r)).
        { destruct Hacc as (A1 & A2 & A3). unfold pacc_ok, result_update; cbn [ar_acked_bytes ar_acked_segments].
          split; [lia|]. split; [lia|]. intro H0. rewrite A3, Hc2 by lia. reflexivity. }
        destruct (_ || _).
        -- cbn [stp fst]. exists (p + ar_acked_bytes r). split; assumption.
        -- eapply stp_weaken; [apply (IH s1 (result_update acc r) _ Hacc1)| |].
           ++ eapply devs_inbox_incl; [exact H1'|rewrite Eib; exact Hib].
           ++ intros s' res (p' & H & Ha). exists p'. split; [eapply devs_trans; eauto|exact Ha].
           ++ intros s' (p' & H). exists p'. eapply devs_trans; eauto.
Qed.

(* ------------------------------------------------------------------ the bookkeeping after the loop *)
Lemma pa_tail_ev ib (s1 : vsock) r early p :
  pacc_ok p r ->
  stp (pa_tail s1 (r, early)) (fun s' _ => devs ib false p s1 0 s') (fun s' => devs ib false p s1 0 s').
Proof.
  intros (Hp & Hs0 & Hs1). unfold pa_tail. cbv beta iota zeta.
  match goal with |- context [acked_counts_as_sent ?x] =>
    assert (F2 : svs s1 x); [|abs_as x F2 s2] end.
  { destruct (_ || _); [|apply svs_refl].
    destruct (ss_segs _); [destruct (our_fin_if_unacked _)|];
      unfold restart_remote_inactivity_timer, svs, same_view; vsimpl; repeat split. }
  assert (K : forall s3 : vsock, devs ib false p s1 0 s3 ->
     stp (match rv_phase (v_recovery s3) with
          | Recovering rc =>
              match calc_pipe (v_segs s3) (rc_high_rxt rc) (v_last_sent_seq_nr s3)
                              (roundtrip_time (v_rtte s3)) (v_now s3) with
              | None => SPanic
              | Some (segs', pipe, recalc) =>
                  SOk (set_recovering (VSockRec.set_segs s3 segs')
                         {| rc_recovery_point := rc_recovery_point rc; rc_high_rxt := rc_high_rxt rc;
                            rc_total_retx := rc_total_retx rc; rc_pipe := pipe; rc_recalc := recalc;
                            rc_cwnd := rc_cwnd rc |}) tt
              end
          | _ => SOk s3 tt
          end) (fun s' (_ : unit) => devs ib false p s1 0 s') (fun s' => devs ib false p s1 0 s')).
  { intros s3 F3. destruct (rv_phase _) as [rp|d|rc]; try (cbn [stp]; exact F3).
    destruct (calc_pipe _ _ _ _ _) as [[[segs' pipe] recalc]|] eqn:Ecp; [|exact I].
    cbn [stp]. eapply devs_trans; [exact F3|].
    apply (devs_plain ib false [EvPipe (rc_high_rxt rc) (v_last_sent_seq_nr s3) (roundtrip_time (v_rtte s3)) (v_now s3)]).
    - cbn [drun]. unfold dview_of, set_recovering; vsimpl. cbn [dapply x_segs]. rewrite Ecp. reflexivity.
    - repeat constructor.
    - unfold set_recovering; vsimpl. reflexivity.
    - unfold rfin, set_recovering; vsimpl. auto.
    - unfold set_recovering; vsimpl. auto. }
  destruct (Z.ltb_spec 0 (ar_acked_segments r)) as [Hpos|Hzero].
  - assert (Ha : svs s1 (acked_counts_as_sent s2)).
    { eapply svs_trans; [exact F2|]. unfold acked_counts_as_sent.
      destruct (seq_gt _ _ && seq_lt _ _); [unfold svs, same_view; vsimpl; repeat split|apply svs_refl]. }
    revert Ha. generalize (acked_counts_as_sent s2). intros s2' Ha.
    destruct (truncate_front (v_tx s2') (ar_acked_bytes r)) as [tx1 tr] eqn:Et.
    assert (Ht : devs ib false p s1 0 (set_tx s2' tx1)).
    { eapply devs_trans; [apply devs_svs; exact Ha|].
      apply (devs_plain ib false [EvTrunc]).
      - cbn [drun]. unfold dview_of; vsimpl. cbn [dapply x_segs x_tx x_rx x_lc x_out x_pend].
        unfold tx_skip. rewrite Hp, Et. reflexivity.
      - repeat constructor.
      - vsimpl. reflexivity.
      - unfold rfin; vsimpl. auto.
      - vsimpl. auto. }
    destruct tr; cbn [sbind]; [|cbn [stp]; exact Ht].
    destruct (wake_writer tx1) as [tx2 w] eqn:Ew. apply K.
    eapply devs_trans; [exact Ht|].
    apply (devs_plain ib false [EvTxFlag ToWakeWriter]).
    + cbn [drun]. unfold dview_of, add_wakes; vsimpl. cbn [dapply x_tx pend_safe_op tx_step]. rewrite Ew. reflexivity.
    + repeat constructor.
    + unfold add_wakes; vsimpl. reflexivity.
    + unfold rfin, add_wakes; vsimpl. auto.
    + unfold add_wakes; vsimpl. auto.
  - cbn [sbind]. apply K.
    assert (Hp0 : p = 0) by (rewrite Hp; apply Hs1; lia). rewrite Hp0. apply devs_svs. exact F2.
Qed.

Lemma process_all_ev (s : vsock) :
  stp (process_all_incoming_messages cci s)
      (fun s' _ => devs (v_inbox s) false 0 s 0 s')
      (fun s' => exists p', devs (v_inbox s) false 0 s p' s').
Proof.
  rewrite process_all_eq.
  eapply stp_bind.
  { apply (recv_loop_ev (v_inbox s) _ s on_ack_result_default 0).
    - unfold pacc_ok. cbn. lia.
    - apply incl_refl. }
  intros s1 [r early] (p' & H1 & Hacc). cbn [fst] in Hacc.
  eapply stp_weaken; [apply (pa_tail_ev (v_inbox s) s1 r early p' Hacc)| |].
  - intros s' u H. eapply devs_trans; eauto.
  - intros s' H. exists 0. eapply devs_trans; eauto.
Qed.

End WalkIn.

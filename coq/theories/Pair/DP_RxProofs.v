(* C01 on the data-path system, receiver side and composition (T2, T3). *)
From Utp Require Import Base.Prelude Wire.SeqNr Rx.Rx Rx.Rx_Proofs Rx.Rx_Slots Tx.Ring Tx.Ring_Proofs
  Tx.Segments Tx.Segments_Proofs Pair.DP Pair.DP_Lemmas Pair.DP_Proofs.

(* which payload belongs to absolute index k under the current assignment *)
Definition want_of (W : list Z) (asg : list (Z * Z)) (k : Z) : option (list Z) :=
  if k <? 0 then None
  else match nth_error asg (Z.to_nat k) with
       | Some (o, l) => Some (slice W o l)
       | None => None
       end.

(* stream offset at which absolute index k starts *)
Definition aoff (asg : list (Z * Z)) (k : Z) : Z := asum (firstn (Z.to_nat k) asg).

Record dp_rx_inv (isn : Z) (d : dp) : Prop := {
  ri_rx : rx_inv (d_rx d);
  ri_lc : d_lc d = (isn - 1 + rx_consumed (d_rx d)) mod M16;
  ri_cons : rx_consumed (d_rx d) <= lenz (d_asg d);
  ri_noerr : no_qerror (d_rx d);
  ri_slots : slots_ok (want_of (g_written (d_tx d)) (d_asg d)) (g_base (d_rx d)) (ooq_data (d_rx d));
  ri_stream : stream (d_rx d) =
              firstn (Z.to_nat (aoff (d_asg d) (rx_consumed (d_rx d)))) (g_written (d_tx d));
}.

Lemma rx_consumed_nonneg r : rx_inv r -> 0 <= g_base r /\ 0 <= filled_front r /\ 0 <= rx_consumed r.
Proof.
  intro H. pose proof (inv_ff_bounds r H). destruct H as (_ & _ & _ & _ & _ & _ & _ & _ & Hg).
  unfold rx_consumed. lia.
Qed.

Lemma init_rx_inv isn tx_cap max_rx max_in :
  0 <= isn < M16 -> 0 < max_rx -> 0 < max_in -> dp_rx_inv isn (dp_init isn tx_cap max_rx max_in).
Proof.
  intros Hi Hr Hm. unfold dp_init. constructor; dsimpl.
  - apply build_inv; assumption.
  - unfold rx_consumed, rx_build; cbn [g_base filled_front]. unfold wsub16, M16 in *. f_equal. lia.
  - unfold rx_consumed, rx_build, lenz; cbn. lia.
  - unfold no_qerror, rx_build; cbn. constructor.
  - intros i sl Hn Hd. unfold rx_build in Hn; cbn [ooq_data] in Hn.
    apply nth_error_repeat in Hn. subst sl. discriminate.
  - unfold stream, pending, rx_consumed, rx_build, aoff; cbn. reflexivity.
Qed.

(* ---- extension of the written stream / of the assignment keeps the receiver's view ---- *)
Lemma want_of_ext isn ti d e x k bs :
  dp_tx_inv isn ti d ->
  want_of (g_written (d_tx d)) (d_asg d) k = Some bs ->
  want_of (g_written (d_tx d) ++ e) (d_asg d ++ x) k = Some bs.
Proof.
  intros [I1 I2 I3 I4 I5 I6 I7 I8 I9 I10]. unfold want_of.
  destruct (k <? 0); [discriminate|].
  destruct (nth_error (d_asg d) (Z.to_nat k)) as [[o l]|] eqn:En; [|discriminate].
  intro H; injection H as <-.
  rewrite nth_error_app1 by (apply nth_error_Some; rewrite En; discriminate). rewrite En.
  destruct (atiled_nth _ _ _ _ _ I8 En) as (A & B & C & D).
  pose proof (asum_firstn_le 0 (d_asg d) (Z.to_nat k) I8).
  f_equal. unfold lenz in *. apply slice_app_stable; lia.
Qed.

Lemma rxi_ext isn ti d d' e x :
  dp_tx_inv isn ti d -> dp_rx_inv isn d ->
  d_rx d' = d_rx d -> d_lc d' = d_lc d ->
  g_written (d_tx d') = g_written (d_tx d) ++ e -> d_asg d' = d_asg d ++ x ->
  dp_rx_inv isn d'.
Proof.
  intros Ht [R1 R2 R3 R4 R5 R6] Er El Ew Ea.
  pose proof Ht as [I1 I2 I3 I4 I5 I6 I7 I8 I9 I10].
  constructor; rewrite ?Er, ?El, ?Ew, ?Ea; try assumption.
  - unfold lenz in *. rewrite app_length. lia.
  - eapply slots_ok_want_ext; [exact R5|]. intros i sl bs _ _ Hw. eapply want_of_ext; eauto.
  - rewrite R6. unfold aoff.
    destruct (rx_consumed_nonneg _ R1) as (_ & _ & Hc).
    rewrite (firstn_app_stable (d_asg d) x) by (unfold lenz in *; lia).
    pose proof (asum_firstn_le 0 (d_asg d) (Z.to_nat (rx_consumed (d_rx d))) I8).
    symmetry. apply firstn_app_stable. unfold lenz in *. lia.
Qed.

Lemma rxi_same isn ti d d' :
  dp_tx_inv isn ti d -> dp_rx_inv isn d ->
  d_rx d' = d_rx d -> d_lc d' = d_lc d ->
  g_written (d_tx d') = g_written (d_tx d) -> d_asg d' = d_asg d ->
  dp_rx_inv isn d'.
Proof.
  intros Ht Hr Er El Ew Ea. apply (rxi_ext isn ti d d' [] []); try assumption; rewrite app_nil_r; assumption.
Qed.

(* ---- a clean pop: the popped index is not held by the receiver ---- *)
Lemma want_of_removelast W asg k bs :
  want_of W asg k = Some bs -> k <> lenz asg - 1 -> want_of W (removelast asg) k = Some bs.
Proof.
  unfold want_of. destruct (Z.ltb_spec k 0); [discriminate|].
  destruct (nth_error asg (Z.to_nat k)) as [[o l]|] eqn:En; [|discriminate].
  intros Hw Hk. assert (Hlt : (Z.to_nat k < length asg)%nat) by (apply nth_error_Some; rewrite En; discriminate).
  rewrite nth_error_removelast by (unfold lenz in *; lia). rewrite En. exact Hw.
Qed.

Lemma rxi_pop isn ti d sg' cl :
  dp_tx_inv isn ti d -> dp_rx_inv isn d ->
  slot_taken (d_rx d) (lenz (d_asg d) - 1) = false -> d_asg d <> [] ->
  dp_rx_inv isn (upd_dp d (d_tx d) sg' (d_rx d) (d_lc d) (d_net d) (d_una d) (removelast (d_asg d)) cl (d_wrap d)).
Proof.
  intros Ht [R1 R2 R3 R4 R5 R6] Hst Hne.
  destruct (rx_consumed_nonneg _ R1) as (Hg & Hf & Hc).
  unfold slot_taken in Hst. apply orb_false_iff in Hst. destruct Hst as [H1 H2].
  apply Z.ltb_ge in H1. apply negb_false_iff in H2.
  assert (Hlen : lenz (removelast (d_asg d)) = lenz (d_asg d) - 1).
  { destruct (exists_last Hne) as (A & t & ->). rewrite removelast_last. unfold lenz. rewrite app_length. cbn. lia. }
  constructor; dsimpl; try assumption.
  - lia.
  - intros i sl Hn Hd. destruct (R5 i sl Hn Hd) as (bs & Hw & ->). exists bs. split; [|reflexivity].
    apply want_of_removelast; [exact Hw|].
    intro Heq.
    replace (Z.to_nat (lenz (d_asg d) - 1 - g_base (d_rx d))) with i in H2 by (unfold rx_consumed in *; lia).
    rewrite (nth_error_nth _ _ slot_default Hn) in H2. congruence.
  - rewrite R6. unfold aoff. f_equal. f_equal.
    destruct (exists_last Hne) as (A & t & HA). rewrite HA, removelast_last.
    rewrite HA in H1. unfold lenz in H1. rewrite app_length in H1. cbn [length] in H1.
    rewrite firstn_app_stable by lia. reflexivity.
Qed.

(* ---- flush ---- *)
Lemma rxi_flush isn ti d r fr w :
  dp_tx_inv isn ti d -> dp_rx_inv isn d -> rx_flush (d_rx d) = (r, fr, w) -> dp_rx_inv isn (set_drx d r).
Proof.
  intros Ht [R1 R2 R3 R4 R5 R6] E.
  destruct (rx_flush_spec _ _ _ _ R1 E) as (F0 & _ & F1 & F2 & _).
  destruct (rx_flush_data _ _ _ _ E) as ((m & m' & Hd & Hg) & Hq).
  assert (Hc : rx_consumed r = rx_consumed (d_rx d)) by exact F2.
  constructor; dsimpl; rewrite ?Hc; try assumption.
  - apply Hq. exact R4.
  - rewrite Hd, Hg. apply slots_ok_shift. exact R5.
  - rewrite F1. exact R6.
Qed.

(* ---- consecutive non-default slots hold consecutive pieces of the written stream ---- *)
Lemma slots_run W asg : atiled 0 asg ->
  forall l k, 0 <= k -> k <= lenz asg ->
  slots_ok (want_of W asg) k l -> (forall sl, In sl l -> slot_is_default sl = false) ->
  k + lenz l <= lenz asg /\ slots_bytes l = slice W (aoff asg k) (aoff asg (k + lenz l) - aoff asg k).
Proof.
  intros Hat. induction l as [|x xs IH]; intros k Hk Hkl Hok Hnd.
  - unfold lenz in *; cbn [length]. change (Z.of_nat 0) with 0. rewrite Z.add_0_r, Z.sub_diag. split; [lia|reflexivity].
  - destruct (Hok 0%nat x eq_refl (Hnd x (or_introl eq_refl))) as (bs & Hw & ->).
    rewrite Z.add_0_r in Hw. unfold want_of in Hw. destruct (Z.ltb_spec k 0); [lia|].
    destruct (nth_error asg (Z.to_nat k)) as [[o ln]|] eqn:En; [|discriminate]. injection Hw as <-.
    assert (Hlt : (Z.to_nat k < length asg)%nat) by (apply nth_error_Some; rewrite En; discriminate).
    destruct (atiled_nth _ _ _ _ _ Hat En) as (A & B & C & D).
    destruct (IH (k + 1)) as [IH1 IH2]; [lia|unfold lenz in *; lia|eapply slots_ok_tail; exact Hok|
      intros sl Hin; apply Hnd; right; exact Hin|].
    assert (Hl : lenz (SPayload (slice W o ln) :: xs) = 1 + lenz xs) by (unfold lenz; cbn [length]; lia).
    rewrite Hl. split; [lia|].
    cbn [slots_bytes]. rewrite IH2.
    assert (E1 : aoff asg (k + 1) = aoff asg k + ln).
    { unfold aoff. replace (Z.to_nat (k + 1)) with (S (Z.to_nat k)) by lia. exact C. }
    assert (E0 : o = aoff asg k) by (unfold aoff; lia).
    replace (k + (1 + lenz xs)) with (k + 1 + lenz xs) by lia.
    pose proof (asum_firstn_le 0 asg (Z.to_nat k) Hat) as Hb0.
    assert (Hmono : aoff asg (k + 1) <= aoff asg (k + 1 + lenz xs)).
    { unfold aoff. replace (Z.to_nat (k + 1 + lenz xs)) with (Z.to_nat (k + 1) + length xs)%nat by (unfold lenz; lia).
      rewrite firstn_add, asum_app.
      pose proof (firstn_skipn (Z.to_nat (k + 1)) asg) as Hfs. rewrite <- Hfs in Hat.
      apply atiled_app in Hat. destruct Hat as [_ Hat2].
      pose proof (asum_firstn_le _ _ (length xs) Hat2). lia. }
    rewrite E0, E1.
    replace (aoff asg (k + 1 + lenz xs) - aoff asg k) with (ln + (aoff asg (k + 1 + lenz xs) - (aoff asg k + ln))) by lia.
    apply slice_cat; unfold aoff in *; lia.
Qed.

Lemma slots_ok_firstn want k l n : slots_ok want k l -> slots_ok want k (firstn n l).
Proof.
  intros Hok i sl Hn Hd.
  assert (Hlt : (i < length (firstn n l))%nat) by (apply nth_error_Some; rewrite Hn; discriminate).
  rewrite firstn_length in Hlt. rewrite nth_error_firstn_lt in Hn by lia. exact (Hok i sl Hn Hd).
Qed.

Lemma slots_ok_skipn want k l (m : nat) : slots_ok want k l -> slots_ok want (k + Z.of_nat m) (skipn m l).
Proof.
  intro H. pose proof (slots_ok_shift want k l m 0 H) as H'. cbn [repeat] in H'. rewrite app_nil_r in H'. exact H'.
Qed.

(* ---- 16-bit arithmetic of the receiver, isolated ---- *)
Lemma offset_exact isn kidx R cap ff kseq lc off :
  kseq = (isn + kidx) mod M16 -> lc = (isn - 1 + R) mod M16 ->
  (off - (kseq - wadd16 lc 1)) mod M16 = 0 -> - M16 < off < M16 ->
  0 <= off -> 0 <= ff -> off + ff < cap ->
  R - (M16 - cap) <= kidx -> kidx < R + M16 ->
  off = kidx - R.
Proof. intros -> -> Hc Hr H0 Hf Hcap H1 H2. unfold wadd16, M16 in *. lia. Qed.

Lemma lc_advance isn R n lc : lc = (isn - 1 + R) mod M16 ->
  wadd16 lc (n mod M16) = (isn - 1 + (R + n)) mod M16.
Proof. intros ->. unfold wadd16, M16. lia. Qed.

(* ---- an accepted delivery ---- *)
Lemma rxi_deliver isn ti d p r n b w :
  dp_tx_inv isn ti d -> dp_rx_inv isn d -> In p (d_net d) ->
  0 <= seq_sub (k_seq p) (wadd16 (d_lc d) 1) ->
  rx_add_remove (d_rx d) KData (k_bytes p) (seq_sub (k_seq p) (wadd16 (d_lc d) 1)) = (r, UarOk (ArConsumed n b), w) ->
  asg_matches (d_asg d) p = true -> wrap_ok_at (d_rx d) p = true ->
  forall cl wr,
  dp_rx_inv isn (upd_dp d (d_tx d) (d_segs d) r (wadd16 (d_lc d) (n mod M16)) (d_net d) (d_una d) (d_asg d) cl wr).
Proof.
  intros Ht [R1 R2 R3 R4 R5 R6] Hin Hoff E Hm Hw cl wr.
  pose proof Ht as [I1 I2 I3 I4 I5 I6 I7 I8 I9 I10].
  rewrite Forall_forall in I10. destruct (I10 _ Hin) as (P1 & P2 & P3 & P4 & P5 & P6).
  set (off := seq_sub (k_seq p) (wadd16 (d_lc d) 1)) in *.
  set (rx0 := d_rx d) in *. set (W := g_written (d_tx d)) in *. set (asg := d_asg d) in *.
  destruct (rx_consumed_nonneg _ R1) as (Hg & Hf & Hc).
  (* the guards *)
  unfold asg_matches in Hm. destruct (nth_error asg (Z.to_nat (k_idx p))) as [[o l]|] eqn:En; [|discriminate].
  apply andb_true_iff in Hm. destruct Hm as [Hm Hm3]. apply andb_true_iff in Hm. destruct Hm as [_ Hm2].
  apply Z.eqb_eq in Hm2. apply Z.eqb_eq in Hm3. subst o l.
  unfold wrap_ok_at in Hw. apply andb_true_iff in Hw. destruct Hw as [Hw1 Hw2].
  apply Z.leb_le in Hw1. apply Z.ltb_lt in Hw2.
  (* the insertion *)
  unfold rx_add_remove in E.
  destruct (ooq_add_remove rx0 KData (k_bytes p) off) as [s1 ar] eqn:E1.
  pose proof (ooq_add_data _ _ _ _ _ R1 Hoff E1) as Had.
  pose proof (ooq_add_remove_inv _ _ _ _ _ _ R1 Hoff E1) as Hinv1.
  assert (Har : ar = ArConsumed n b).
  { destruct ar as [n0 b0| | | | |]; try (inversion E; fail).
    destruct ((0 <? n0) && ooq_is_full s1).
    - destruct (rx_flush s1) as [[s2 fr] w2]. destruct fr; inversion E; reflexivity.
    - inversion E; reflexivity. }
  subst ar. cbv zeta in Had.
  destruct Had as (He & Hdef & _ & Hdata & Hgb & Hq1 & Hgr & Hff & Hn0 & Hntw & Hstr).
  (* the 16-bit offset is the true distance *)
  assert (Hlcr : 0 <= wadd16 (d_lc d) 1 < M16) by apply wadd16_range.
  assert (Hseqr : 0 <= k_seq p < M16) by (rewrite P2; unfold M16; lia).
  destruct (seq_sub_cong (k_seq p) (wadd16 (d_lc d) 1) Hseqr Hlcr) as [Hcong Hrng]. fold off in Hcong, Hrng.
  assert (Hcap : Z.of_nat (length (ooq_data rx0)) = ooq_capacity rx0) by (destruct R1 as (Hl & _); exact Hl).
  assert (Hoffk : off = k_idx p - rx_consumed rx0).
  { apply (offset_exact isn (k_idx p) (rx_consumed rx0) (ooq_capacity rx0) (filled_front rx0) (k_seq p) (d_lc d) off
             P2 R2 Hcong Hrng Hoff Hf).
    - clear - He Hcap Hoff Hf. lia.
    - rewrite <- Hcap. exact Hw1.
    - exact Hw2. }
  assert (Hlc : wadd16 (d_lc d) (n mod M16) = (isn - 1 + (rx_consumed rx0 + n)) mod M16)
    by (apply lc_advance; exact R2).
  clear Hcong Hrng Hseqr Hlcr P2 R2 I6.
  assert (Hek : Z.to_nat (off + filled_front rx0) = Z.to_nat (k_idx p - g_base rx0))
    by (unfold rx_consumed in *; f_equal; lia).
  (* the slot view after the insertion *)
  assert (Hwant : want_of W asg (g_base rx0 + Z.of_nat (Z.to_nat (off + filled_front rx0))) = Some (k_bytes p)).
  { replace (g_base rx0 + Z.of_nat (Z.to_nat (off + filled_front rx0))) with (k_idx p)
      by (unfold rx_consumed in *; lia).
    unfold want_of. destruct (Z.ltb_spec (k_idx p) 0); [lia|]. rewrite En. f_equal. symmetry. exact P6. }
  assert (Hok1 : slots_ok (want_of W asg) (g_base s1) (ooq_data s1)).
  { rewrite Hgb, Hdata. apply slots_ok_set_nth; assumption. }
  (* the run of newly consumed slots *)
  set (ffn := Z.to_nat (filled_front rx0)) in *.
  set (run := firstn (Z.to_nat n) (skipn ffn (ooq_data s1))) in *.
  assert (Hrun_ok : slots_ok (want_of W asg) (rx_consumed rx0) run).
  { unfold run. apply slots_ok_firstn.
    replace (rx_consumed rx0) with (g_base s1 + Z.of_nat ffn) by (unfold rx_consumed, ffn; rewrite Hgb; lia).
    apply slots_ok_skipn. exact Hok1. }
  assert (Hrun_nd : forall sl, In sl run -> slot_is_default sl = false).
  { unfold run. intros sl Hsl. rewrite Hntw in Hsl. eapply firstn_twf_nondefault; exact Hsl. }
  assert (Hrun_len : lenz run = n).
  { unfold run, lenz. rewrite firstn_length.
    pose proof (twf_n_nonneg (skipn ffn (ooq_data s1))) as Hb'. rewrite <- Hntw in Hb'. lia. }
  destruct (slots_run W asg I8 run (rx_consumed rx0) Hc R3 Hrun_ok Hrun_nd) as [Hb Hbytes].
  rewrite Hrun_len in Hb, Hbytes.
  assert (Hcons1 : rx_consumed s1 = rx_consumed rx0 + n) by (unfold rx_consumed; rewrite Hgb, Hff; lia).
  assert (Hmono : aoff asg (rx_consumed rx0) <= aoff asg (rx_consumed rx0 + n)).
  { unfold aoff. replace (Z.to_nat (rx_consumed rx0 + n)) with (Z.to_nat (rx_consumed rx0) + Z.to_nat n)%nat by lia.
    rewrite firstn_add, asum_app.
    pose proof (firstn_skipn (Z.to_nat (rx_consumed rx0)) asg) as Hfs. pose proof I8 as Hat. rewrite <- Hfs in Hat.
    apply atiled_app in Hat. destruct Hat as [_ Hat2].
    pose proof (asum_firstn_le _ _ (Z.to_nat n) Hat2). lia. }
  assert (Hstream1 : stream s1 = firstn (Z.to_nat (aoff asg (rx_consumed s1))) W).
  { rewrite Hstr. fold run. rewrite R6, Hbytes, Hcons1.
    pose proof (asum_firstn_le 0 asg (Z.to_nat (rx_consumed rx0)) I8).
    rewrite firstn_slice_cat by (unfold aoff in *; lia). f_equal. f_equal. lia. }
  assert (Hnq1 : no_qerror s1) by (unfold no_qerror; rewrite Hq1; exact R4).
  (* with or without the flush that follows a full queue *)
  destruct ((0 <? n) && ooq_is_full s1).
  - destruct (rx_flush s1) as [[s2 fr] w2] eqn:Ef.
    assert (r = s2) by (destruct fr; inversion E; reflexivity). subst s2.
    destruct (rx_flush_spec _ _ _ _ Hinv1 Ef) as (F0 & _ & F1 & F2 & _).
    destruct (rx_flush_data _ _ _ _ Ef) as ((m & m' & Hd & Hgm) & Hq).
    assert (Hc2 : rx_consumed r = rx_consumed s1) by exact F2.
    constructor; dsimpl; rewrite ?Hc2, ?Hcons1.
    + exact F0.
    + exact Hlc.
    + exact Hb.
    + apply Hq. exact Hnq1.
    + rewrite Hd, Hgm. apply slots_ok_shift. exact Hok1.
    + rewrite F1, Hstream1, Hcons1. reflexivity.
  - injection E as <- _. constructor; dsimpl; rewrite ?Hcons1; try assumption.
    rewrite Hstream1, Hcons1. reflexivity.
Qed.

(* a delivery that is not accepted leaves the receiver as it was *)
Lemma deliver_rejected r k p off r' ar w :
  rx_inv r -> 0 <= off -> rx_add_remove r k p off = (r', ar, w) -> k = KData ->
  (forall n b, ar <> UarOk (ArConsumed n b)) -> r' = r.
Proof.
  intros Hinv Hoff E -> Hne. unfold rx_add_remove in E.
  destruct (ooq_add_remove r KData p off) as [s1 a] eqn:E1.
  pose proof (ooq_add_data _ _ _ _ _ Hinv Hoff E1) as Had.
  pose proof (ooq_add_remove_inv _ _ _ _ _ _ Hinv Hoff E1) as Hinv1.
  destruct a as [n b| | | | |]; try (injection E as <- _ _; exact Had).
  exfalso. destruct ((0 <? n) && ooq_is_full s1).
  - destruct (rx_flush s1) as [[s2 fr] w2] eqn:Ef.
    destruct (rx_flush_spec _ _ _ _ Hinv1 Ef) as (_ & (fb & -> & _) & _).
    injection E as _ <- _. eapply Hne. reflexivity.
  - injection E as _ <- _. eapply Hne. reflexivity.
Qed.

(* ---- the guards only ever go from true to false ---- *)
Lemma guards_mono d o : dp_guards (dp_step d o) = true -> dp_guards d = true.
Proof.
  unfold dp_guards.
  assert (Hand : forall a b c e : bool, (a && c) && (b && e) = true -> a && b = true).
  { intros a b c e H. destruct a, b, c, e; try discriminate; reflexivity. }
  destruct o; cbn [dp_step].
  - destruct (tx_step _ _) as [[t ?] ?]. intro H; exact H.
  - destruct (is_flag_tx_op o); [destruct (tx_step _ _) as [[t ?] ?]|]; intro H; exact H.
  - destruct ((0 <? len) && (len <=? unsegmented d)); intro H; exact H.
  - destruct (nth_error _ _); [|intro H; exact H]. destruct (_ || _ || _); intro H; exact H.
  - destruct (pop_mtu_probe _ _) as [sg popped]. destruct popped; dsimpl; [|intro H; exact H].
    intro H. apply andb_true_iff in H. destruct H as [H1 H2]. apply andb_true_iff in H1. destruct H1 as [H1 _].
    rewrite H1, H2. reflexivity.
  - destruct (pop_expired_mtu_probe _ _ _) as [sg pe]. destruct pe; dsimpl; try (intro H; exact H).
    intro H. apply andb_true_iff in H. destruct H as [H1 H2]. apply andb_true_iff in H1. destruct H1 as [H1 _].
    rewrite H1, H2. reflexivity.
  - destruct (remove_up_to_ack _ _ _ _) as [sg res]. destruct (truncate_front _ _) as [t tr]. intro H; exact H.
  - destruct (calc_pipe _ _ _ _ _) as [[[sg ?] ?]|]; intro H; exact H.
  - destruct (grow _ _) as [t g]. intro H; exact H.
  - destruct (nth_error _ _) as [p|]; [|intro H; exact H]. destruct (_ <? 0); [intro H; exact H|].
    destruct (rx_add_remove _ _ _ _) as [[r ar] w]. destruct ar as [[n b| | | | |]|]; dsimpl; try (intro H; exact H).
    apply Hand.
  - destruct (rx_flush _) as [[r ?] ?]. intro H; exact H.
  - destruct (is_flag_rx_op o); [destruct (rx_step _ _) as [[r ?] ?]|]; intro H; exact H.
  - destruct (rx_step _ _) as [[r ?] ?]. intro H; exact H.
Qed.

(* ---- one step of the receiver invariant ---- *)
Lemma dp_step_rx_inv isn ti d o :
  dp_tx_inv isn ti d -> dp_rx_inv isn d -> dp_guards (dp_step d o) = true -> dp_rx_inv isn (dp_step d o).
Proof.
  intros Ht Hr. pose proof Hr as [R1 R2 R3 R4 R5 R6]. pose proof Ht as [(mx & I1) I2 I3 I4 I5 I6 I7 I8 I9 I10].
  destruct o; cbn [dp_step].
  - (* write *)
    intros _. destruct (tx_step (d_tx d) (ToWrite buf)) as [[t out] w] eqn:E. cbn [tx_step] in E.
    destruct (writer_dropped (d_tx d)); [injection E as <- _ _; eapply rxi_same; eauto|].
    destruct (poll_write (d_tx d) buf) as [[t1 r] w1] eqn:Ew. injection E as <- _ _.
    destruct (poll_write_spec _ _ _ _ _ _ _ I1 Ew) as (_ & _ & _ & W4 & _).
    destruct r as [n| | | |];
      try (destruct W4 as [_ Hw]; eapply rxi_same; eauto; dsimpl; exact Hw).
    destruct W4 as (_ & _ & Hw). apply (rxi_ext isn ti d _ (firstn (Z.to_nat n) buf) []); dsimpl; auto.
    rewrite app_nil_r. reflexivity.
  - intros _. destruct (is_flag_tx_op o) eqn:Ef; [|exact Hr].
    destruct (tx_step (d_tx d) o) as [[t out] w] eqn:E.
    destruct (tx_flag_frame _ _ _ _ _ Ef E) as (F1 & _ & _). eapply rxi_same; eauto.
  - intros _. destruct ((0 <? len) && (len <=? unsegmented d)); [|exact Hr].
    apply (rxi_ext isn ti d _ [] [(ss_offset (d_segs d), len)]); dsimpl; auto. rewrite app_nil_r. reflexivity.
  - intros _. destruct (nth_error (iter_for_sending (d_segs d) None) i) as [f|]; [|exact Hr].
    destruct (_ || _ || _); [exact Hr|]. eapply rxi_same; eauto.
  - (* pop_mtu_probe *)
    destruct (pop_mtu_probe (d_segs d) seq) as [sg popped] eqn:E. destruct popped; [|intros _; exact Hr].
    destruct (pop_mtu_probe_popped _ _ _ E) as (init & s & Hs & _ & _ & _).
    destruct (pop_back_split _ _ _ _ _ Ht Hs) as (A & o0 & HA & _).
    unfold dp_guards; dsimpl. intro Hg. apply andb_true_iff in Hg. destruct Hg as [Hg _].
    apply andb_true_iff in Hg. destruct Hg as [_ Hg]. apply negb_true_iff in Hg.
    apply rxi_pop with (ti := ti); try assumption. rewrite HA. destruct A; discriminate.
  - destruct (pop_expired_mtu_probe (d_segs d) timed_out max_retx) as [sg pe] eqn:E.
    destruct pe; try (intros _; exact Hr).
    destruct (pop_expired_popped _ _ _ _ _ _ E) as (init & s & Hs & _ & _ & _).
    destruct (pop_back_split _ _ _ _ _ Ht Hs) as (A & o0 & HA & _).
    unfold dp_guards; dsimpl. intro Hg. apply andb_true_iff in Hg. destruct Hg as [Hg _].
    apply andb_true_iff in Hg. destruct Hg as [_ Hg]. apply negb_true_iff in Hg.
    apply rxi_pop with (ti := ti); try assumption. rewrite HA. destruct A; discriminate.
  - intros _. destruct (remove_up_to_ack (d_segs d) now ack sk) as [sg res] eqn:E.
    destruct (truncate_front (d_tx d) (ar_acked_bytes res)) as [t tr] eqn:Et.
    destruct (remove_up_to_ack_inv _ _ _ _ _ _ I2 E) as (_ & _ & R3' & _).
    destruct (truncate_spec _ _ _ _ _ _ I1 R3' Et) as (_ & _ & U3 & _).
    eapply rxi_same; eauto.
  - intros _. destruct (calc_pipe (d_segs d) high_rxt high_data rtt now) as [[[sg p] rc]|]; [|exact Hr].
    eapply rxi_same; eauto.
  - intros _. destruct (grow (d_tx d) mx0) as [t g] eqn:E. unfold grow in E.
    destruct (mx0 <=? cap (d_tx d)); injection E as <- _; eapply rxi_same; eauto.
  - (* deliver *)
    destruct (nth_error (d_net d) j) as [p|] eqn:En; [|intros _; exact Hr].
    destruct (Z.ltb_spec (seq_sub (k_seq p) (wadd16 (d_lc d) 1)) 0) as [|Hoff]; [intros _; exact Hr|].
    destruct (rx_add_remove (d_rx d) KData (k_bytes p) (seq_sub (k_seq p) (wadd16 (d_lc d) 1))) as [[r ar] w] eqn:E.
    assert (Hrej : (forall n b, ar <> UarOk (ArConsumed n b)) -> dp_rx_inv isn (set_drx d r)).
    { intro Hne. rewrite (deliver_rejected _ _ _ _ _ _ _ R1 Hoff E eq_refl Hne).
      eapply rxi_same; eauto. }
    destruct ar as [[n b| | | | |]|]; try (intros _; apply Hrej; intros; discriminate).
    unfold dp_guards; dsimpl. intro Hg. apply andb_true_iff in Hg. destruct Hg as [Hg1 Hg2].
    apply andb_true_iff in Hg1. destruct Hg1 as [_ Hm]. apply andb_true_iff in Hg2. destruct Hg2 as [_ Hw].
    eapply rxi_deliver; eauto. eapply nth_error_In; exact En.
  - intros _. destruct (rx_flush (d_rx d)) as [[r fr] w] eqn:E. eapply rxi_flush; eauto.
  - intros _. destruct (is_flag_rx_op o) eqn:Ef; [|exact Hr].
    destruct (rx_step (d_rx d) o) as [[r out] w] eqn:E.
    assert (Hok : op_ok o) by (destruct o; cbn [is_flag_rx_op] in Ef; try discriminate; exact I).
    destruct (rx_step_spec _ _ _ _ _ R1 Hok E) as (Hinv' & _).
    assert (Hf : ooq_data r = ooq_data (d_rx d) /\ g_base r = g_base (d_rx d) /\ filled_front r = filled_front (d_rx d) /\
                 q r = q (d_rx d) /\ stream r = stream (d_rx d)).
    { destruct o; cbn [is_flag_rx_op] in Ef; try discriminate; cbn [rx_step] in E.
      - destruct (reader_dropped (d_rx d)); [injection E as <- _ _; repeat split|].
        unfold rx_drop_reader in E. injection E as <- _ _. cbn. repeat split.
      - unfold rx_mark_vsock_closed in E. destruct (vsock_closed (d_rx d)); injection E as <- _ _; cbn; repeat split. }
    destruct Hf as (F1 & F2 & F3 & F4 & F5).
    assert (Hc : rx_consumed r = rx_consumed (d_rx d)) by (unfold rx_consumed; congruence).
    constructor; dsimpl; rewrite ?Hc, ?F1, ?F2, ?F5; try assumption.
    unfold no_qerror in *. rewrite F4. exact R4.
  - intros _. destruct (rx_step (d_rx d) (ORead n)) as [[r out] w] eqn:E. cbn [rx_step] in E.
    destruct (reader_dropped (d_rx d)); [injection E as <- _ _; eapply rxi_same; eauto|].
    destruct (rx_read (d_rx d) n) as [[r1 rr] w1] eqn:Er. injection E as <- _ _.
    destruct (rx_read_no_error _ _ _ _ _ R1 R4 Er) as (A1 & A2 & A3 & A4 & A5 & A6 & A7 & _).
    assert (Hc : rx_consumed r1 = rx_consumed (d_rx d)) by (unfold rx_consumed; congruence).
    constructor; dsimpl; rewrite ?Hc, ?A5, ?A6, ?A3; assumption.
Qed.

(* ------------------------------------------------------------------ all op lists *)
Lemma dp_run_tx_inv isn ti : forall ops d, dp_tx_inv isn ti d -> dp_tx_inv isn ti (dp_run d ops).
Proof.
  induction ops as [|o ops IH]; intros d H; cbn [dp_run]; [exact H|]. apply IH. apply dp_step_tx_inv. exact H.
Qed.

Lemma guards_mono_run : forall ops d, dp_guards (dp_run d ops) = true -> dp_guards d = true.
Proof.
  induction ops as [|o ops IH]; intros d H; cbn [dp_run] in H; [exact H|].
  eapply guards_mono. apply IH. exact H.
Qed.

Lemma dp_run_rx_inv isn ti : forall ops d,
  dp_tx_inv isn ti d -> dp_rx_inv isn d -> dp_guards (dp_run d ops) = true -> dp_rx_inv isn (dp_run d ops).
Proof.
  induction ops as [|o ops IH]; intros d Ht Hr Hg; cbn [dp_run] in *; [exact Hr|].
  apply IH; [apply dp_step_tx_inv; exact Ht| |exact Hg].
  apply (dp_step_rx_inv isn ti); [exact Ht|exact Hr|]. eapply guards_mono_run. exact Hg.
Qed.

Definition is_prefix (a b : list Z) : Prop := exists rest, b = a ++ rest.

Lemma rx_inv_prefix isn d : dp_rx_inv isn d -> is_prefix (g_read (d_rx d)) (g_written (d_tx d)).
Proof.
  intros [R1 R2 R3 R4 R5 R6]. unfold stream in R6.
  set (m := Z.to_nat (aoff (d_asg d) (rx_consumed (d_rx d)))) in *.
  exists (pending (d_rx d) ++ skipn m (g_written (d_tx d))).
  rewrite app_assoc, R6, firstn_skipn. reflexivity.
Qed.

(* T3 on the data-path system *)
Lemma dp_prefix isn ti max_rx max_in ops :
  0 <= isn < M16 -> 0 < ti -> 0 < max_rx -> 0 < max_in ->
  let d := dp_run (dp_init isn ti max_rx max_in) ops in
  dp_guards d = true -> is_prefix (g_read (d_rx d)) (g_written (d_tx d)).
Proof.
  intros Hi Ht Hr Hm d Hg. apply (rx_inv_prefix isn).
  apply (dp_run_rx_inv isn ti); [apply init_tx_inv; assumption|apply init_rx_inv; assumption|exact Hg].
Qed.

(* C01, T1 on the data-path system, stated without the invariant record: what every packet ever
   sent carries, how the assignment (absolute index -> stream offset, length) evolves, and that
   the panic / Bug exits of send_data are unreachable. *)
From Utp Require Import Base.Prelude Wire.SeqNr Rx.Rx Rx.Rx_Proofs Tx.Ring Tx.Ring_Proofs
  Tx.Segments Tx.Segments_Proofs Pair.DP Pair.DP_Lemmas Pair.DP_Proofs Pair.DP_RxProofs.

Definition is_pop (o : dop) : bool :=
  match o with DPopProbe _ | DPopExpired _ _ => true | _ => false end.

(* every packet ever put on the wire carries the bytes of the written stream at its (ghost)
   offset, is numbered (isn + index) mod 2^16, is non-empty; the current assignment tiles a
   prefix of the written stream contiguously, in index order *)
Lemma dp_packets_bytes isn ti max_rx max_in ops :
  0 <= isn < M16 -> 0 < ti ->
  let d := dp_run (dp_init isn ti max_rx max_in) ops in
  Forall (fun p => k_bytes p = slice (g_written (d_tx d)) (k_off p) (lenz (k_bytes p)) /\
                   k_seq p = (isn + k_idx p) mod M16 /\ k_bytes p <> [] /\
                   0 <= k_off p /\ k_off p + lenz (k_bytes p) <= lenz (g_written (d_tx d))) (d_net d) /\
  atiled 0 (d_asg d) /\ asum (d_asg d) <= lenz (g_written (d_tx d)).
Proof.
  intros Hi Ht d.
  pose proof (dp_run_tx_inv isn ti ops _ (init_tx_inv isn ti max_rx max_in Hi Ht)) as [I1 I2 I3 I4 I5 I6 I7 I8 I9 I10].
  fold d in I1, I2, I3, I4, I5, I6, I7, I8, I9, I10.
  split; [|split; [exact I8|rewrite I9; exact I4]].
  eapply Forall_impl; [|exact I10]. intros p (A & B & C & D & E & F). repeat split; assumption.
Qed.

(* the assignment only grows at the end, except that a probe pop removes its LAST entry *)
Lemma dp_step_asg d o :
  d_asg (dp_step d o) = d_asg d \/ (exists x, d_asg (dp_step d o) = d_asg d ++ [x]) \/
  (d_asg (dp_step d o) = removelast (d_asg d) /\ is_pop o = true).
Proof.
  destruct o; cbn [dp_step is_pop].
  - destruct (tx_step _ _) as [[t ?] ?]. left; reflexivity.
  - destruct (is_flag_tx_op o); [destruct (tx_step _ _) as [[t ?] ?]|]; left; reflexivity.
  - destruct ((0 <? len) && (len <=? unsegmented d)); [right; left; eexists; reflexivity|left; reflexivity].
  - destruct (nth_error _ _); [|left; reflexivity]. destruct (_ || _ || _); left; reflexivity.
  - destruct (pop_mtu_probe _ _) as [sg popped]. destruct popped; [right; right; split; reflexivity|left; reflexivity].
  - destruct (pop_expired_mtu_probe _ _ _) as [sg pe]. destruct pe; try (left; reflexivity).
    right; right; split; reflexivity.
  - destruct (remove_up_to_ack _ _ _ _) as [sg res]. destruct (truncate_front _ _) as [t tr]. left; reflexivity.
  - destruct (calc_pipe _ _ _ _ _) as [[[sg ?] ?]|]; left; reflexivity.
  - destruct (grow _ _) as [t g]. left; reflexivity.
  - destruct (nth_error _ _) as [p|]; [|left; reflexivity]. destruct (_ <? 0); [left; reflexivity|].
    destruct (rx_add_remove _ _ _ _) as [[r ar] w]. destruct ar as [[n b| | | | |]|]; left; reflexivity.
  - destruct (rx_flush _) as [[r ?] ?]. left; reflexivity.
  - destruct (is_flag_rx_op o); [destruct (rx_step _ _) as [[r ?] ?]|]; left; reflexivity.
  - destruct (rx_step _ _) as [[r ?] ?]. left; reflexivity.
Qed.

(* hence: the (offset, length) assigned to an absolute index never changes, unless it is the last
   one and the step is a probe pop (the one exception of the design: KF1) *)
Lemma dp_asg_stable d o (k : nat) e :
  nth_error (d_asg d) k = Some e ->
  nth_error (d_asg (dp_step d o)) k = Some e \/ (S k = length (d_asg d) /\ is_pop o = true).
Proof.
  intro Hn. assert (Hlt : (k < length (d_asg d))%nat) by (apply nth_error_Some; rewrite Hn; discriminate).
  destruct (dp_step_asg d o) as [->|[(x & ->)|[-> Hp]]].
  - left; exact Hn.
  - left. rewrite nth_error_app1 by exact Hlt. exact Hn.
  - destruct (Nat.eq_dec (S k) (length (d_asg d))) as [He|Hne]; [right; auto|].
    left. rewrite nth_error_removelast by lia. exact Hn.
Qed.

(* a packet, when it is sent, is cut according to the assignment of that moment, and the panic /
   Bug exits of send_data (offset < 0, offset or length beyond the ring) are not taken *)
Lemma dp_send_matches isn ti d i now f :
  dp_tx_inv isn ti d -> nth_error (iter_for_sending (d_segs d) None) i = Some f ->
  (fs_payload_offset f <? 0) || (lenz (ring (d_tx d)) <? fs_payload_offset f)
    || (lenz (ring (d_tx d)) <? fs_payload_offset f + sg_size (fs_seg f)) = false /\
  exists p, d_net (dp_step d (DSend i now)) = d_net d ++ [p] /\ asg_matches (d_asg d) p = true /\
            k_seq p = fs_seq f /\ k_off p = sg_abs (fs_seg f) /\ k_idx p = d_una d + Z.of_nat (fs_idx f).
Proof.
  intros Hinv En.
  destruct (send_item_ok _ _ _ _ Hinv (nth_error_In _ _ En)) as (S1 & S2 & S3 & S4 & S5 & S6 & S7).
  assert (Hg : (fs_payload_offset f <? 0) || (lenz (ring (d_tx d)) <? fs_payload_offset f)
                || (lenz (ring (d_tx d)) <? fs_payload_offset f + sg_size (fs_seg f)) = false).
  { unfold lenz in *. destruct (Z.ltb_spec (fs_payload_offset f) 0); [lia|].
    destruct (Z.ltb_spec (Z.of_nat (length (ring (d_tx d)))) (fs_payload_offset f)); [lia|].
    destruct (Z.ltb_spec (Z.of_nat (length (ring (d_tx d)))) (fs_payload_offset f + sg_size (fs_seg f))); [lia|].
    reflexivity. }
  split; [exact Hg|]. cbn [dp_step]. rewrite En. unfold lenz in Hg. rewrite Hg.
  eexists. split; [reflexivity|]. cbn [k_seq k_off k_idx]. split; [|repeat split].
  destruct Hinv as [(mx & I1) I2 I3 I4 I5 I6 I7 I8 I9 I10].
  unfold asg_matches; cbn [k_idx k_off k_bytes].
  replace (Z.to_nat (d_una d + Z.of_nat (fs_idx f))) with (Z.to_nat (d_una d) + fs_idx f)%nat by lia.
  rewrite S4.
  assert (Hlen : Z.of_nat (length (firstn (Z.to_nat (sg_size (fs_seg f)))
                   (skipn (Z.to_nat (fs_payload_offset f)) (ring (d_tx d))))) = sg_size (fs_seg f)).
  { rewrite firstn_length, skipn_length. unfold lenz in *. lia. }
  rewrite Hlen. rewrite !Z.eqb_refl. replace (0 <=? d_una d + Z.of_nat (fs_idx f)) with true by lia. reflexivity.
Qed.

Lemma dp_sender_invariant isn ti max_rx max_in ops :
  0 <= isn < M16 -> 0 < ti -> dp_tx_inv isn ti (dp_run (dp_init isn ti max_rx max_in) ops).
Proof. intros Hi Ht. apply dp_run_tx_inv. apply init_tx_inv; assumption. Qed.

Lemma dp_receiver_invariant isn ti max_rx max_in ops :
  0 <= isn < M16 -> 0 < ti -> 0 < max_rx -> 0 < max_in ->
  dp_guards (dp_run (dp_init isn ti max_rx max_in) ops) = true ->
  dp_rx_inv isn (dp_run (dp_init isn ti max_rx max_in) ops).
Proof.
  intros Hi Ht Hr Hm Hg. apply (dp_run_rx_inv isn ti); [apply init_tx_inv; assumption|apply init_rx_inv; assumption|exact Hg].
Qed.

(* The DATA-PATH system of C01: one direction of a connection reduced to the objects that carry
   bytes — the TX ring (Tx/Ring.v), the segment table (Tx/Segments.v), a network bag, the
   receiver (Rx/Rx.v) and its 16-bit ack counter — composed with exactly the glue Conn/VSock.v
   uses:
     send_data                       payload = firstn size (skipn (sg_abs - ss_removed) ring)
     process_incoming_message        offset = seq_sub seq (last_consumed + 1); < 0 -> drop;
                                     rx_add_remove KData payload offset; last_consumed += n
     process_all_incoming_messages   remove_up_to_ack, then truncate_front acked_bytes
     split_tx_queue_into_segments    enqueue (<= unsegmented bytes), pop_expired_mtu_probe, grow
     send_tx_queue                   pop_mtu_probe, on_sent, calc_pipe
   The ops may come in ANY order with ANY arguments (any ack number and SACK, any packet of the
   bag any number of times, any read size): a superset of what VirtualSocket::poll can do with
   these objects.  Ghost fields record the absolute index of every segment and packet.
   Model only; proofs are in DP_Proofs.v. *)
From Utp Require Import Base.Prelude Wire.SeqNr Rx.Rx Tx.Ring Tx.Segments.

(* a data packet in the bag; k_idx / k_off are ghosts: the absolute index of the segment it was
   cut from (0 = the first segment of the connection) and the absolute stream offset of its bytes *)
Record dpkt := { k_seq : Z; k_bytes : list Z; k_idx : Z; k_off : Z }.

Record dp := {
  d_tx : tx;
  d_segs : segments;
  d_rx : rx;
  d_lc : Z;                    (* the receiver's last_consumed_remote_seq_nr *)
  d_net : list dpkt;           (* every data packet ever sent *)
  (* ghosts *)
  d_una : Z;                   (* segments ever removed from the front of the table *)
  d_asg : list (Z * Z);        (* absolute index -> (stream offset, length), current assignment *)
  d_clean : bool;              (* guard KF1: every probe pop and every accepted packet was clean *)
  d_wrap : bool;               (* guard 16-bit: every accepted packet was inside the unambiguous range *)
}.

Inductive dop :=
| DWrite (buf : list Z)
| DTxFlag (o : tx_op)                      (* flush / shutdown / drop / mark closed / wakers *)
| DEnqueue (len : Z) (probe : bool)
| DSend (i : nat) (now : Z)                (* the i-th item of iter_for_sending *)
| DPopProbe (seq : Z)
| DPopExpired (timed_out : bool) (max_retx : Z)
| DAck (now ack : Z) (sk : option sackbits)
| DPipe (high_rxt high_data rtt now : Z)
| DGrow (mx : Z)
| DDeliver (j : nat)                       (* the j-th packet of the bag; it stays in the bag *)
| DFlush
| DRxFlag (o : rx_op)                      (* drop reader / mark closed *)
| DRead (n : Z).

Definition dp_init (isn tx_cap max_rx max_in : Z) : dp :=
  {| d_tx := tx_new tx_cap; d_segs := segments_new isn; d_rx := rx_build max_rx max_in;
     d_lc := wsub16 isn 1; d_net := []; d_una := 0; d_asg := []; d_clean := true; d_wrap := true |}.

Definition upd_dp (d : dp) (t : tx) (sg : segments) (r : rx) (lc : Z) (net : list dpkt)
  (una : Z) (asg : list (Z * Z)) (cl wr : bool) : dp :=
  {| d_tx := t; d_segs := sg; d_rx := r; d_lc := lc; d_net := net; d_una := una; d_asg := asg;
     d_clean := cl; d_wrap := wr |}.

Definition set_dtx (d : dp) (t : tx) : dp :=
  upd_dp d t (d_segs d) (d_rx d) (d_lc d) (d_net d) (d_una d) (d_asg d) (d_clean d) (d_wrap d).
Definition set_dsegs (d : dp) (sg : segments) : dp :=
  upd_dp d (d_tx d) sg (d_rx d) (d_lc d) (d_net d) (d_una d) (d_asg d) (d_clean d) (d_wrap d).
Definition set_drx (d : dp) (r : rx) : dp :=
  upd_dp d (d_tx d) (d_segs d) r (d_lc d) (d_net d) (d_una d) (d_asg d) (d_clean d) (d_wrap d).

Definition unsegmented (d : dp) : Z :=
  Z.of_nat (length (ring (d_tx d))) - ss_len_bytes (d_segs d).

(* sequence numbers the receiver has consumed so far, relative to the first one *)
Definition rx_consumed (r : rx) : Z := g_base r + filled_front r.

(* has the receiver a payload for absolute index k (consumed, or held out of order)? *)
Definition slot_taken (r : rx) (k : Z) : bool :=
  (k <? rx_consumed r) ||
  negb (slot_is_default (nth (Z.to_nat (k - g_base r)) (ooq_data r) slot_default)).

Definition asg_matches (asg : list (Z * Z)) (p : dpkt) : bool :=
  match nth_error asg (Z.to_nat (k_idx p)) with
  | Some (o, l) => (0 <=? k_idx p) && (o =? k_off p) && (l =? Z.of_nat (length (k_bytes p)))
  | None => false
  end.

(* the accepted packet is not more than 2^16 - capacity behind and less than 2^16 ahead of the
   next expected sequence number: the 16-bit offset computation is then unambiguous *)
Definition wrap_ok_at (r : rx) (p : dpkt) : bool :=
  (rx_consumed r - (M16 - Z.of_nat (length (ooq_data r))) <=? k_idx p) &&
  (k_idx p <? rx_consumed r + M16).

Definition is_flag_tx_op (o : tx_op) : bool :=
  match o with ToWrite _ | ToTruncate _ | ToGrow _ => false | _ => true end.
Definition is_flag_rx_op (o : rx_op) : bool :=
  match o with ODropReader | OMarkClosed => true | _ => false end.



Definition dp_step (d : dp) (o : dop) : dp :=
  match o with
  | DWrite buf => let '(t, _, _) := tx_step (d_tx d) (ToWrite buf) in set_dtx d t
  | DTxFlag op => if is_flag_tx_op op then let '(t, _, _) := tx_step (d_tx d) op in set_dtx d t else d
  | DEnqueue len probe =>
      if (0 <? len) && (len <=? unsegmented d) then
        upd_dp d (d_tx d) (enqueue (d_segs d) len probe) (d_rx d) (d_lc d) (d_net d) (d_una d)
               (d_asg d ++ [(ss_offset (d_segs d), len)]) (d_clean d) (d_wrap d)
      else d
  | DSend i now =>
      match nth_error (iter_for_sending (d_segs d) None) i with
      | None => d
      | Some f =>
          let off := fs_payload_offset f in
          let plen := sg_size (fs_seg f) in
          let ringlen := Z.of_nat (length (ring (d_tx d))) in
          if (off <? 0) || (ringlen <? off) || (ringlen <? off + plen) then d   (* panic / Bug exits *)
          else
            let p := {| k_seq := fs_seq f;
                        k_bytes := firstn (Z.to_nat plen) (skipn (Z.to_nat off) (ring (d_tx d)));
                        k_idx := d_una d + Z.of_nat (fs_idx f); k_off := sg_abs (fs_seg f) |} in
            upd_dp d (d_tx d) (on_sent (d_segs d) (fs_idx f) now) (d_rx d) (d_lc d) (d_net d ++ [p])
                   (d_una d) (d_asg d) (d_clean d) (d_wrap d)
      end
  | DPopProbe seq =>
      let '(sg, popped) := pop_mtu_probe (d_segs d) seq in
      if popped then
        upd_dp d (d_tx d) sg (d_rx d) (d_lc d) (d_net d) (d_una d) (removelast (d_asg d))
               (d_clean d && negb (slot_taken (d_rx d) (Z.of_nat (length (d_asg d)) - 1))) (d_wrap d)
      else d
  | DPopExpired to mr =>
      let '(sg, pe) := pop_expired_mtu_probe (d_segs d) to mr in
      match pe with
      | PeExpired _ _ =>
          upd_dp d (d_tx d) sg (d_rx d) (d_lc d) (d_net d) (d_una d) (removelast (d_asg d))
                 (d_clean d && negb (slot_taken (d_rx d) (Z.of_nat (length (d_asg d)) - 1))) (d_wrap d)
      | _ => d
      end
  | DAck now ack sk =>
      let '(sg, res) := remove_up_to_ack (d_segs d) now ack sk in
      let '(t, _) := truncate_front (d_tx d) (ar_acked_bytes res) in
      upd_dp d t sg (d_rx d) (d_lc d) (d_net d) (d_una d + ar_acked_segments res) (d_asg d)
             (d_clean d) (d_wrap d)
  | DPipe hr hd rtt now =>
      match calc_pipe (d_segs d) hr hd rtt now with
      | Some (sg, _, _) => set_dsegs d sg
      | None => d
      end
  | DGrow mx => let '(t, _) := grow (d_tx d) mx in set_dtx d t
  | DDeliver j =>
      match nth_error (d_net d) j with
      | None => d
      | Some p =>
          let off := seq_sub (k_seq p) (wadd16 (d_lc d) 1) in
          if off <? 0 then d
          else
            let '(r, ar, _) := rx_add_remove (d_rx d) KData (k_bytes p) off in
            match ar with
            | UarOk (ArConsumed n _) =>
                upd_dp d (d_tx d) (d_segs d) r (wadd16 (d_lc d) (n mod M16)) (d_net d) (d_una d) (d_asg d)
                       (d_clean d && asg_matches (d_asg d) p) (d_wrap d && wrap_ok_at (d_rx d) p)
            | _ => set_drx d r
            end
      end
  | DFlush => let '(r, _, _) := rx_flush (d_rx d) in set_drx d r
  | DRxFlag op => if is_flag_rx_op op then let '(r, _, _) := rx_step (d_rx d) op in set_drx d r else d
  | DRead n => let '(r, _, _) := rx_step (d_rx d) (ORead n) in set_drx d r
  end.

Fixpoint dp_run (d : dp) (ops : list dop) : dp :=
  match ops with [] => d | o :: r => dp_run (dp_step d o) r end.

(* the guards as one decidable predicate of the op list *)
Definition dp_guards (d : dp) : bool := d_clean d && d_wrap d.

(* l1 is a prefix of l2, decidable *)
Fixpoint prefixb (l1 l2 : list Z) : bool :=
  match l1, l2 with
  | [], _ => true
  | x :: r1, y :: r2 => (x =? y) && prefixb r1 r2
  | _ :: _, [] => false
  end.

Definition dp_prefix_ok (d : dp) : bool := prefixb (g_read (d_rx d)) (g_written (d_tx d)).

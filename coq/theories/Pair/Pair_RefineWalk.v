(* C01 lift, the walk through VirtualSocket::poll, part 1: the functions that send control packets
   leave the data view alone; the state table; send_data is the event EvSend. *)
From Utp Require Import Base.Prelude Wire.SeqNr Wire.Header Rtt.Rtte Mtu.SegSizes Rx.Rx Tx.Ring
  Tx.Segments Tx.Segments_Proofs Conn.Recovery Conn.Msg Conn.VSockRec Conn.VSock Conn.VSockRun Conn.VSock_Inv
  Rx.Rx_Slots Pair.DP Pair.DP_Lemmas Pair.Pair_Refine.

Arguments SOk {CC A}. Arguments SErr {CC A}. Arguments SPanic {CC A}.
Arguments TblDrop {CC}. Arguments TblErr {CC}. Arguments TblContinue {CC}.

Section Walk.
Context {CC : Type} (cci : cc_iface CC).
Notation vsock := (vsock CC).
Notation step := (@step CC).

(* same data view and same connection state *)
Definition svs (s s' : vsock) : Prop := same_view s s' /\ v_state s' = v_state s.

Lemma svs_refl s : svs s s.
Proof. split; [apply same_view_refl|reflexivity]. Qed.

Lemma svs_trans a b c : svs a b -> svs b c -> svs a c.
Proof. intros [A1 A2] [B1 B2]. split; [eapply same_view_trans; eauto|congruence]. Qed.

Lemma devs_svs ib err p s s' : svs s s' -> devs ib err p s p s'.
Proof. intros [H1 H2]. apply devs_same_state; assumption. Qed.

Lemma D0_svs s s' : svs s s' -> D0 s s'.
Proof. intros H ib. apply devs_svs. exact H. Qed.

Ltac sv_auto := unfold svs, same_view; vsimpl; repeat split; auto.

Lemma next_send_svs (s : vsock) size s1 o :
  next_send s size = (s1, o) -> svs s s1 /\ v_out s1 = v_out s /\ v_now s1 = v_now s /\ v_opts s1 = v_opts s.
Proof.
  unfold next_send. destruct (v_sends s) as [|o0 r].
  - destruct (v_emsg_limit s) as [m|]; [destruct (m <? size)|]; intro H; injection H as <- _;
      (split; [apply svs_refl|auto]).
  - destruct o0; destruct (v_emsg_limit s) as [m|]; try destruct (m <? size); intro H; injection H as <- _;
      (split; [sv_auto|vsimpl; auto]).
Qed.

Lemma data_view_cons_ctl pk out : ch_type (p_hdr pk) <> ST_DATA -> data_view (pk :: out) = data_view out.
Proof.
  intro H. unfold data_view. cbn [flat_map]. destruct (ch_type (p_hdr pk)); try reflexivity. congruence.
Qed.

Lemma send_control_packet_svs (s : vsock) h :
  ch_type h <> ST_DATA ->
  stp (send_control_packet s h) (fun s' _ => svs s s') (fun s' => svs s s').
Proof.
  intro Hty. unfold send_control_packet.
  destruct (v_transport_pending s); [cbn [stp]; apply svs_refl|].
  destruct (next_send s _) as [s1 o] eqn:E.
  destruct (next_send_svs _ _ _ _ E) as (((A1 & A2 & A3 & A4 & A5 & A6 & A7) & A8) & A9 & _).
  destruct o; cbn [stp].
  - unfold on_packet_sent, emit, svs, same_view; vsimpl.
    rewrite data_view_cons_ctl by (cbn [p_hdr hdr_with ch_type]; exact Hty).
    repeat split; auto.
  - unfold svs, same_view; vsimpl. repeat split; auto.
  - unfold svs, same_view. repeat split; auto.
  - unfold svs, same_view. repeat split; auto.
Qed.

Lemma send_ack_svs (s : vsock) : stp (send_ack s) (fun s' _ => svs s s') (fun s' => svs s s').
Proof. unfold send_ack. apply send_control_packet_svs. cbn [hdr_with ch_type]. discriminate. Qed.

Lemma maybe_send_fin_svs (s : vsock) : stp (maybe_send_fin s) (fun s' _ => svs s s') (fun s' => svs s s').
Proof.
  unfold maybe_send_fin.
  destruct (v_transport_pending s); [cbn [stp]; apply svs_refl|].
  destruct (our_fin_if_unacked (v_state s)) as [f|]; [|cbn [stp]; apply svs_refl].
  destruct (negb _); [cbn [stp]; apply svs_refl|].
  eapply stp_bind; [apply send_control_packet_svs; cbn [hdr_with ch_type]; discriminate|].
  intros s1 sent H1. destruct sent; cbn [stp]; [|exact H1].
  eapply svs_trans; [exact H1|]. sv_auto.
Qed.

Lemma maybe_send_ack_svs (s : vsock) : stp (maybe_send_ack s) (fun s' _ => svs s s') (fun s' => svs s s').
Proof.
  unfold maybe_send_ack.
  destruct (immediate_ack_to_transmit s); [apply send_ack_svs|].
  destruct (should_send_window_update s); [apply send_ack_svs|].
  destruct (timer_expired _ _).
  - destruct (ack_to_transmit s); [apply send_ack_svs|]. cbn [stp]. sv_auto.
  - destruct (0 <? v_cbu s); cbn [stp]; [sv_auto|apply svs_refl].
Qed.

(* the handshake changes the state, but only between states before the remote FIN *)
Lemma maybe_send_syn_ack_sv (s : vsock) :
  stp (maybe_send_syn_ack s)
      (fun s' _ => same_view s s' /\ rfin s' = rfin s)
      (fun s' => same_view s s' /\ rfin s' = rfin s).
Proof.
  assert (Hgo : forall c, rfin s = false ->
    stp (if c =? o_max_retx (v_opts s) then SErr s ErrMaxSynAckRetransmissionsReached
         else sbind (send_ack s) (fun s1 sent =>
           if sent then
             SOk (set_t_syn_ack_resend (set_state s1 (SynAckSent (c + 1)))
                    (timer_arm (v_t_syn_ack_resend s1) (v_now s1) SYNACK_RESEND_INTERNAL true)) tt
           else SOk s1 tt))
        (fun s' _ => same_view s s' /\ rfin s' = rfin s) (fun s' => same_view s s' /\ rfin s' = rfin s)).
  { intros c Hr. destruct (c =? _); [cbn [stp]; split; [apply same_view_refl|reflexivity]|].
    eapply stp_bind'; [apply send_ack_svs| |].
    { intros s1 [H1 H2]. split; [exact H1|unfold rfin; rewrite H2; reflexivity]. }
    intros s1 sent [H1 H2].
    destruct sent; cbn [stp].
    - split; [eapply same_view_trans; [exact H1|]; unfold same_view; vsimpl; repeat split|].
      unfold rfin in *. vsimpl. cbn [is_remote_fin_or_later]. symmetry. exact Hr.
    - split; [exact H1|unfold rfin; rewrite H2; reflexivity]. }
  unfold maybe_send_syn_ack. destruct (v_state s) eqn:Es.
  - apply Hgo. unfold rfin. rewrite Es. reflexivity.
  - destruct (timer_expired _ _); [apply Hgo; unfold rfin; rewrite Es; reflexivity|].
    cbn [stp]. split; [apply same_view_refl|reflexivity].
  - cbn [stp]. split; [unfold same_view; vsimpl; repeat split|unfold rfin; vsimpl; reflexivity].
  - cbn [stp]. split; [unfold same_view; vsimpl; repeat split|unfold rfin; vsimpl; reflexivity].
  - cbn [stp]. split; [unfold same_view; vsimpl; repeat split|unfold rfin; vsimpl; reflexivity].
  - cbn [stp]. split; [unfold same_view; vsimpl; repeat split|unfold rfin; vsimpl; reflexivity].
  - cbn [stp]. split; [unfold same_view; vsimpl; repeat split|unfold rfin; vsimpl; reflexivity].
Qed.

(* ------------------------------------------------------------------ the state table *)
Definition tbl_state (r : table_res (CC:=CC)) : vsock :=
  match r with TblDrop s | TblErr s _ | TblContinue s => s end.

Lemma state_table_sv (s : vsock) h :
  same_view s (tbl_state (state_table s h)) /\
  (rfin s = true -> rfin (tbl_state (state_table s h)) = true).
Proof.
  unfold state_table, same_view, rfin, restart_remote_inactivity_timer.
  destruct (ch_type h); destruct (v_state s) eqn:Es;
    repeat match goal with
    | |- context [if ?c then _ else _] => destruct c
    end; cbn [tbl_state]; vsimpl; rewrite ?Es; cbn [is_remote_fin_or_later]; repeat split; auto.
Qed.

(* a FIN that passes the table leaves the connection in a state after the remote FIN *)
Lemma state_table_fin (s : vsock) h s1 :
  ch_type h = ST_FIN -> state_table s h = TblContinue s1 -> rfin s1 = true.
Proof.
  intros Hty. unfold state_table, rfin, restart_remote_inactivity_timer. rewrite Hty.
  destruct (v_state s) eqn:Es;
    repeat match goal with
    | |- context [if ?c then _ else _] => destruct c
    end; intro H; try discriminate; injection H as <-; vsimpl; rewrite ?Es; reflexivity.
Qed.

(* ------------------------------------------------------------------ items of the sending iterator *)
Definition item_ok (t : segments) (f : for_sending) : Prop :=
  exists g, nth_error (ss_segs t) (fs_idx f) = Some g /\ sg_delivered g = false /\
            sg_size g = sg_size (fs_seg f) /\
            fs_payload_offset f = sg_abs g - ss_removed t /\
            fs_seq f = wadd16 (ss_snd_una t) (Z.of_nat (fs_idx f) mod M16).

Lemma enum_from_nth_in {A} : forall (l : list A) i j x, In (j, x) (enum_from i l) ->
  (i <= j)%nat /\ nth_error l (j - i) = Some x.
Proof.
  induction l as [|y l IH]; intros i j x H; cbn [enum_from] in H; [destruct H|].
  destruct H as [H|H].
  - injection H as <- <-. split; [lia|]. rewrite Nat.sub_diag. reflexivity.
  - destruct (IH _ _ _ H) as [H1 H2]. split; [lia|].
    replace (j - i)%nat with (S (j - S i)) by lia. exact H2.
Qed.

Lemma iter_item_ok t st f : In f (iter_for_sending t st) -> item_ok t f.
Proof.
  unfold iter_for_sending. intro H. apply filter_In in H. destruct H as [H Hd].
  apply in_map_iff in H. destruct H as ([i g] & <- & Hin). cbn [fs_seg] in Hd.
  apply enum_from_nth_in in Hin. destruct Hin as [Hle Hn]. rewrite nth_error_skipn in Hn.
  exists g. cbn [fs_idx fs_seg fs_payload_offset fs_seq].
  split; [rewrite <- Hn; f_equal; lia|]. split; [apply negb_true_iff in Hd; exact Hd|]. auto.
Qed.

Lemma nth_error_update_nth {A} (f : A -> A) : forall (l : list A) n i,
  nth_error (update_nth l n f) i = if Nat.eqb i n then option_map f (nth_error l i) else nth_error l i.
Proof.
  induction l as [|x l IH]; intros n i; cbn [update_nth].
  - destruct i; cbn [nth_error]; destruct (Nat.eqb _ n); reflexivity.
  - destruct n as [|n]; destruct i as [|i]; cbn [nth_error Nat.eqb option_map update_nth]; try reflexivity.
    apply IH.
Qed.

Lemma item_ok_on_sent t f idx now : item_ok t f -> item_ok (on_sent t idx now) f.
Proof.
  intros (g & H1 & H2 & H3 & H4 & H5). unfold item_ok, on_sent, Segments.set_segs.
  cbn [ss_segs ss_removed ss_snd_una]. rewrite nth_error_update_nth, H1.
  destruct (Nat.eqb (fs_idx f) idx); cbn [option_map]; eexists; (split; [reflexivity|]);
    cbn [seg_on_sent sg_delivered sg_size sg_abs]; auto.
Qed.

(* the position of an undelivered segment in the iterator that starts at the front *)
Lemma enum_from_in {A} : forall (l : list A) i k x, nth_error l k = Some x -> In ((i + k)%nat, x) (enum_from i l).
Proof.
  induction l as [|y l IH]; intros i k x H; [destruct k; discriminate|].
  destruct k as [|k]; cbn [nth_error] in H; cbn [enum_from].
  - injection H as ->. left. f_equal. lia.
  - right. replace (i + S k)%nat with (S i + k)%nat by lia. apply IH. exact H.
Qed.

Lemma iter_none_index t idx g :
  nth_error (ss_segs t) idx = Some g -> sg_delivered g = false ->
  exists i, nth_error (iter_for_sending t None) i =
            Some {| fs_idx := idx; fs_seq := wadd16 (ss_snd_una t) (Z.of_nat idx mod M16);
                    fs_payload_offset := sg_abs g - ss_removed t; fs_seg := g |}.
Proof.
  intros Hn Hd. apply In_nth_error. unfold iter_for_sending. apply filter_In.
  split; [|cbn [fs_seg]; rewrite Hd; reflexivity].
  apply in_map_iff. exists (idx, g). split; [reflexivity|].
  cbn [skipn]. apply (enum_from_in (ss_segs t) 0 idx g Hn).
Qed.

(* ------------------------------------------------------------------ send_data *)
Lemma data_view_cons_data pk out :
  ch_type (p_hdr pk) = ST_DATA -> data_view (pk :: out) = (ch_seq (p_hdr pk), p_payload pk) :: data_view out.
Proof. intro H. unfold data_view. cbn [flat_map]. rewrite H. reflexivity. Qed.

Lemma send_data_ev (s : vsock) h f :
  item_ok (v_segs s) f ->
  stp (send_data s h f)
      (fun s' _ => D0 s s' /\ (forall f', item_ok (v_segs s) f' -> item_ok (v_segs s') f'))
      (fun s' => svs s s').
Proof.
  intros (g & G1 & G2 & G3 & G4 & G5). unfold send_data.
  destruct (_ =? o_max_retx _); [cbn [stp]; apply svs_refl|].
  destruct (Z.ltb_spec (fs_payload_offset f) 0) as [|Hp0]; [exact I|].
  destruct (Z.ltb_spec (Z.of_nat (length (ring (v_tx s)))) (fs_payload_offset f)) as [|Hp1];
    [cbn [stp]; apply svs_refl|].
  destruct (Z.ltb_spec (Z.of_nat (length (ring (v_tx s)))) (fs_payload_offset f + sg_size (fs_seg f))) as [|Hp2];
    [cbn [stp]; apply svs_refl|].
  destruct (next_send s _) as [s1 o] eqn:E.
  destruct (next_send_svs _ _ _ _ E) as (((A1 & A2 & A3 & A4 & A5 & A6 & A7) & A8) & A9 & A10 & _).
  destruct o; cbn [stp].
  - (* sent *)
    destruct (iter_none_index _ _ _ G1 G2) as (i & Hi).
    assert (Hg : (sg_abs g - ss_removed (v_segs s) <? 0)
                 || (Z.of_nat (length (ring (v_tx s))) <? sg_abs g - ss_removed (v_segs s))
                 || (Z.of_nat (length (ring (v_tx s))) <? sg_abs g - ss_removed (v_segs s) + sg_size g) = false).
    { rewrite <- G4, G3. lia. }
    destruct (seq_gt _ _); [destruct (seq_gt _ _)|]; unfold on_packet_sent, emit; (split;
      [intro ib; apply (devs_one ib false (EvSend i (v_now s)));
        [unfold dview_of; vsimpl; cbn [dapply x_pend x_segs x_tx x_rx x_lc x_out];
         change (negb (0 =? 0)) with false; cbv iota; rewrite Hi;
         cbn [fs_payload_offset fs_seg fs_idx fs_seq]; rewrite Hg;
         rewrite data_view_cons_data by reflexivity; cbn [p_hdr p_payload ch_seq];
         rewrite A1, A2, A3, A4, A9, A10, <- G4, G3, <- G5; reflexivity
        |exact I|discriminate|discriminate|vsimpl; exact A6
        |unfold rfin; vsimpl; rewrite A8; auto|vsimpl; rewrite A7; auto]
      |intros f' Hf'; vsimpl; rewrite A2, A10; apply item_ok_on_sent; exact Hf']).
  - split; [intro ib; apply devs_same_state; [unfold same_view; vsimpl; repeat split; auto|vsimpl; exact A8]|].
    intros f' Hf'. vsimpl. rewrite A2. exact Hf'.
  - split; [intro ib; apply devs_same_state; [unfold same_view; repeat split; auto|exact A8]|].
    intros f' Hf'. rewrite A2. exact Hf'.
  - unfold svs, same_view. repeat split; auto.
Qed.

End Walk.

(* C01 lift: every step of the pair model refines data-path ops (pstep_refines); the initial pair
   state is the initial data-path state of each direction (pair_new_psim); hence every pair trace
   along which the direction stays live has a data-path run with the same byte-carrying components
   (pair_trace_refines), and what the reader has read is a prefix of what the writer wrote whenever
   that run is guarded (pair_trace_prefix). *)
From Utp Require Import Base.Prelude Wire.SeqNr Wire.Header Rtt.Rtte Mtu.SegSizes Rx.Rx Rx.Rx_Proofs Tx.Ring
  Tx.Ring_Proofs Tx.Segments Tx.Segments_Proofs Conn.Recovery Conn.Msg Conn.VSockRec Conn.VSock Conn.VSockRun
  Conn.C10_Pred Conn.VSock_Inv Conn.VSock_Lemmas Pair.Pair Pair.DP Pair.DP_Lemmas Pair.DP_Proofs Pair.DP_RxProofs
  Pair.Pair_Refine Pair.Pair_RefineWalk Pair.Pair_RefineWalkPoll Pair.Pair_RefineSim Pair.Pair_RefinePair.

Lemma In_remove_nth {A} : forall (l : list A) k x, In x (remove_nth k l) -> In x l.
Proof.
  induction l as [|y l IH]; intros k x H; [destruct k; exact H|].
  destruct k as [|k]; cbn [remove_nth] in H; [right; exact H|].
  destruct H as [H|H]; [left; exact H|right; eapply IH; exact H].
Qed.

Section Trace.
Context {CC : Type} (cci : cc_iface CC).
Notation vsock := (vsock CC).
Notation pair := (pair (CC:=CC)).

(* the direction whose writer is sd is live: the reader's future is not gone and the reader has
   not accepted the writer's FIN (nor closed) *)
Definition dir_live (sd : side) (s : pair) : bool :=
  negb (fin_of s (other sd)) && negb (rfin (ep s (other sd))).

Ltac pair_simpl :=
  cbn [fst snd ep other net_from fin_of set_ep set_net set_fin set_hole count_io
       p_a p_b p_fin_a p_fin_b p_ab p_ba p_hole p_wa p_ra p_wb p_rb] in *.

Lemma pstep_refines isn ti sd (s : pair) d o :
  psim isn ti sd s d -> dir_live sd (fst (pstep cci s o)) = true ->
  exists dops, psim isn ti sd (fst (pstep cci s o)) (dp_run d dops).
Proof.
  unfold psim, dir_live. intros H Hlive. destruct o; cbn [pstep] in *.
  - (* clock *)
    exists []. cbn [dp_run]. destruct sd; pair_simpl;
      (eapply psimr_reader_same; [eapply psimr_writer_same; [exact H| | |]| | | |]); vsimpl; reflexivity.
  - (* hole *)
    exists []. cbn [dp_run]. destruct sd; pair_simpl; exact H.
  - (* application op *)
    destruct (vstep cci (ep s sd0) (vop_of_aop o)) as [[[v' out] dw] sw] eqn:E.
    destruct sd, sd0; pair_simpl.
    + eapply writer_app_refines; eauto.
    + eapply reader_app_refines; eauto.
    + eapply reader_app_refines; eauto.
    + eapply writer_app_refines; eauto.
  - (* poll *)
    destruct (fin_of s sd0) eqn:Ef; [exists []; exact H|].
    destruct (vstep cci (ep s sd0) (VoPoll script)) as [[[v' out] dw] sw] eqn:E.
    destruct sd, sd0; pair_simpl.
    + rewrite Ef in H. destruct (writer_poll_refines cci isn ti _ _ _ _ _ _ _ _ _ (p_hole s) H E) as (dops & Hd).
      exists dops. destruct (poll_finished out); pair_simpl; rewrite ?Ef; exact Hd.
    + assert (Hnf : poll_finished out = false).
      { destruct (poll_finished out); [|reflexivity]. pair_simpl. discriminate. }
      rewrite Hnf in *. pair_simpl. apply andb_true_iff in Hlive. destruct Hlive as [_ Hl].
      apply negb_true_iff in Hl.
      eapply reader_poll_refines; eauto.
    + assert (Hnf : poll_finished out = false).
      { destruct (poll_finished out); [|reflexivity]. pair_simpl. discriminate. }
      rewrite Hnf in *. pair_simpl. apply andb_true_iff in Hlive. destruct Hlive as [_ Hl].
      apply negb_true_iff in Hl.
      eapply reader_poll_refines; eauto.
    + rewrite Ef in H. destruct (writer_poll_refines cci isn ti _ _ _ _ _ _ _ _ _ (p_hole s) H E) as (dops & Hd).
      exists dops. destruct (poll_finished out); pair_simpl; rewrite ?Ef; exact Hd.
  - (* deliver *)
    destruct (pick_idx (net_from s from) i) as [k|]; [|exists []; exact H].
    destruct (nth_error (net_from s from) k) as [pk|] eqn:En; [|exists []; exact H].
    destruct (vstep cci (ep (set_net s from (remove_nth k (net_from s from))) (other from)) (VoDeliver (msg_of_packet pk)))
      as [[[v' out] dw] sw] eqn:E.
    exists []. cbn [dp_run]. destruct sd, from; pair_simpl.
    + eapply psimr_net_sub; [eapply reader_deliver_refines; [exact H|eapply nth_error_In; exact En|exact E]|].
      apply In_remove_nth.
    + eapply writer_deliver_same; eauto.
    + eapply writer_deliver_same; eauto.
    + eapply psimr_net_sub; [eapply reader_deliver_refines; [exact H|eapply nth_error_In; exact En|exact E]|].
      apply In_remove_nth.
  - (* drop *)
    exists []. cbn [dp_run].
    destruct (pick_idx (net_from s from) i) as [k|]; [|exact H].
    destruct sd, from; pair_simpl; try exact H; (eapply psimr_net_sub; [exact H|apply In_remove_nth]).
  - (* duplicate *)
    exists []. cbn [dp_run].
    destruct (pick_idx (net_from s from) i) as [k|]; [|exact H].
    destruct (nth_error (net_from s from) k) as [pk|] eqn:En; [|exact H].
    destruct sd, from; pair_simpl; try exact H;
      (eapply psimr_net_sub; [exact H|]; intros x Hx; apply in_app_or in Hx; destruct Hx as [Hx|[<-|[]]];
       [exact Hx|eapply nth_error_In; exact En]).
Qed.

(* ------------------------------------------------------------------ traces *)
Fixpoint live_run (sd : side) (s : pair) (ops : list pop) : bool :=
  match ops with
  | [] => true
  | o :: r => let s' := fst (pstep cci s o) in dir_live sd s' && live_run sd s' r
  end.

Theorem pair_trace_refines isn ti sd : forall ops (s : pair) d,
  psim isn ti sd s d -> live_run sd s ops = true ->
  exists dops, psim isn ti sd (prun cci s ops) (dp_run d dops).
Proof.
  induction ops as [|o ops IH]; intros s d H Hl; cbn [prun live_run] in *.
  - exists []. exact H.
  - apply andb_true_iff in Hl. destruct Hl as [Hl1 Hl2].
    destruct (pstep_refines isn ti sd s d o H Hl1) as (o1 & H1).
    destruct (IH _ _ H1 Hl2) as (o2 & H2).
    exists (o1 ++ o2). rewrite dp_run_app. exact H2.
Qed.

(* ------------------------------------------------------------------ the initial state *)
Definition dir_isn (sd : side) (c : pconfig) : Z :=
  match sd with SA => wadd16 (pc_syn_seq c) 1 | SB => pc_isn_b c end.
Definition dir_max_rx (sd : side) (c : pconfig) : Z :=
  match sd with SA => pc_rx_b c | SB => pc_rx_a c end.
Definition dir_max_in (sd : side) (c : pconfig) : Z :=
  match sd with SA => mss (ss_new (ss_config_of (cfg_b c))) | SB => mss (ss_new (ss_config_of (cfg_a c))) end.
Definition dir_init (sd : side) (c : pconfig) : dp :=
  dp_init (dir_isn sd c) (pc_tx_init c) (dir_max_rx sd c) (dir_max_in sd c).

Definition pconfig_ok (c : pconfig) : bool := vconfig_ok (cfg_a c) && vconfig_ok (cfg_b c).

Lemma pconfig_ok_facts c : pconfig_ok c = true ->
  0 <= pc_syn_seq c < M16 /\ 0 <= pc_isn_b c < M16 /\ 0 < pc_tx_init c /\ 0 < pc_rx_a c /\ 0 < pc_rx_b c /\
  ss_ok (ss_new (ss_config_of (cfg_a c))) /\ ss_ok (ss_new (ss_config_of (cfg_b c))).
Proof.
  unfold pconfig_ok. intro H. apply andb_true_iff in H. destruct H as [Ha Hb].
  assert (Hssa : ss_ok (ss_new (ss_config_of (cfg_a c)))).
  { apply ss_new_ok. unfold vconfig_ok in Ha. repeat (apply andb_true_iff in Ha; destruct Ha as [Ha ?]). lia. }
  assert (Hssb : ss_ok (ss_new (ss_config_of (cfg_b c)))).
  { apply ss_new_ok. unfold vconfig_ok in Hb. repeat (apply andb_true_iff in Hb; destruct Hb as [Hb ?]). lia. }
  unfold vconfig_ok in Ha, Hb.
  repeat (apply andb_true_iff in Ha; destruct Ha as [Ha ?]).
  repeat (apply andb_true_iff in Hb; destruct Hb as [Hb ?]).
  cbn [cfg_a cfg_b vc_isn vc_tx_init vc_rx_buf] in *.
  split; [lia|]. split; [lia|]. split; [lia|]. split; [lia|]. split; [lia|]. split; assumption.
Qed.

Lemma vsock_new_fields (mk_cc : Z -> Z -> CC) c v :
  vsock_new cci mk_cc c = Some v ->
  v_tx v = tx_new (vc_tx_init c) /\
  v_segs v = segments_new (if vc_incoming c then vc_isn c else wadd16 (vc_isn c) 1) /\
  v_rx v = rx_build (vc_rx_buf c) (mss (ss_new (ss_config_of c))) /\
  v_last_consumed v = (if vc_incoming c then vc_remote_seq c else wsub16 (vc_remote_seq c) 1) /\
  v_inbox v = [] /\ v_ss v = ss_new (ss_config_of c).
Proof.
  unfold vsock_new. fold (ss_config_of c).
  destruct (match (if vc_incoming c then None else Some (sat_sub (vc_now0 c) (vc_syn_sent c))) with
            | Some r => sample rtte_default r | None => Some rtte_default end) as [rtte0|]; [|discriminate].
  intro H; injection H as <-. cbn. repeat split.
Qed.

Lemma pair_new_psim (mk_cc : Z -> Z -> CC) c (s0 : pair) sd :
  pconfig_ok c = true -> pair_new cci mk_cc c = Some s0 ->
  psim (dir_isn sd c) (pc_tx_init c) sd s0 (dir_init sd c).
Proof.
  intros Hok. destruct (pconfig_ok_facts c Hok) as (C1 & C2 & C3 & C4 & C5 & C6 & C7).
  unfold pair_new.
  destruct (vsock_new cci mk_cc (cfg_a c)) as [a|] eqn:Ea; [|discriminate].
  destruct (vsock_new cci mk_cc (cfg_b c)) as [b|] eqn:Eb; [|discriminate].
  intro H; injection H as <-.
  destruct (vsock_new_fields _ _ _ Ea) as (A1 & A2 & A3 & A4 & A5 & A6).
  destruct (vsock_new_fields _ _ _ Eb) as (B1 & B2 & B3 & B4 & B5 & B6).
  cbn [cfg_a cfg_b vc_incoming vc_isn vc_tx_init vc_rx_buf vc_remote_seq] in A1, A2, A3, A4, B1, B2, B3, B4.
  unfold psim, dir_init. destruct sd; cbn [ep other net_from fin_of p_a p_b p_ab p_ba p_fin_a p_fin_b dir_isn dir_max_rx dir_max_in].
  - constructor.
    + apply init_tx_inv; [apply wadd16_range|exact C3].
    + unfold dp_init; dsimpl. rewrite A2. reflexivity.
    + exists 0. unfold dp_init; dsimpl. rewrite tx_skip_0, A1. split; [lia|]. split; [reflexivity|left; reflexivity].
    + unfold dp_init; dsimpl. rewrite B3. reflexivity.
    + unfold dp_init; dsimpl. rewrite B4. unfold wsub16, wadd16, M16 in *. lia.
    + constructor.
    + rewrite B5. constructor.
    + rewrite A6. exact C6.
    + rewrite B6. exact C7.
  - constructor.
    + apply init_tx_inv; [exact C2|exact C3].
    + unfold dp_init; dsimpl. rewrite B2. reflexivity.
    + exists 0. unfold dp_init; dsimpl. rewrite tx_skip_0, B1. split; [lia|]. split; [reflexivity|left; reflexivity].
    + unfold dp_init; dsimpl. rewrite A3. reflexivity.
    + unfold dp_init; dsimpl. rewrite A4. reflexivity.
    + constructor.
    + rewrite A5. constructor.
    + rewrite B6. exact C7.
    + rewrite A6. exact C6.
Qed.

(* ------------------------------------------------------------------ the prefix property of pair traces *)
Theorem pair_trace_prefix (mk_cc : Z -> Z -> CC) c (s0 : pair) sd ops :
  pconfig_ok c = true -> pair_new cci mk_cc c = Some s0 -> live_run sd s0 ops = true ->
  exists dops,
    let d := dp_run (dir_init sd c) dops in
    let s := prun cci s0 ops in
    psim (dir_isn sd c) (pc_tx_init c) sd s d /\
    (dp_guards d = true -> is_prefix (g_read (v_rx (ep s (other sd)))) (g_written (v_tx (ep s sd)))).
Proof.
  intros Hok Hnew Hlive.
  destruct (pair_trace_refines _ _ sd ops s0 _ (pair_new_psim mk_cc c s0 sd Hok Hnew) Hlive) as (dops & H).
  exists dops. cbv zeta. split; [exact H|]. intro Hg.
  destruct (pconfig_ok_facts c Hok) as (C1 & C2 & C3 & C4 & C5 & C6 & C7).
  assert (Hisn : 0 <= dir_isn sd c < M16) by (destruct sd; cbn [dir_isn]; [apply wadd16_range|exact C2]).
  assert (Hrx : 0 < dir_max_rx sd c) by (destruct sd; cbn [dir_max_rx]; assumption).
  assert (Hin : 0 < dir_max_in sd c).
  { destruct sd; cbn [dir_max_in]; [pose proof (mss_ss_new_pos (ss_config_of (cfg_b c)))|
                                    pose proof (mss_ss_new_pos (ss_config_of (cfg_a c)))]; lia. }
  pose proof (dp_prefix (dir_isn sd c) (pc_tx_init c) (dir_max_rx sd c) (dir_max_in sd c) dops Hisn C3 Hrx Hin Hg) as Hp.
  fold (dir_init sd c) in Hp.
  destruct H as [_ _ (p & _ & P2 & _) R _ _ _ _ _].
  rewrite R, P2 in Hp. destruct (tx_skip_fields (v_tx (ep (prun cci s0 ops) sd)) p) as (_&_&_&_&_&_&_&_&F9&_).
  rewrite F9 in Hp. exact Hp.
Qed.

End Trace.

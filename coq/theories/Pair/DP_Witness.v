(* C01 on the data-path system: non-vacuity of the guards and the refutation witness for the
   unguarded statement (KF1: a delivered MTU probe is popped and re-segmented). *)
From Utp Require Import Base.Prelude Wire.SeqNr Rx.Rx Tx.Ring Tx.Segments Pair.DP Pair.DP_Lemmas
  Pair.DP_Proofs Pair.DP_RxProofs.

Definition wpattern (n : nat) : list Z := map (fun j => Z.of_nat j mod 251) (seq 0 n).

(* a clean transfer across the 16-bit wrap: two segments (the second an MTU probe), delivered out
   of order and duplicated, acknowledged, read *)
Definition clean_ops : list dop :=
  [DWrite (wpattern 3000); DEnqueue 528 false; DEnqueue 991 true; DSend 0 10; DSend 1 10;
   DDeliver 1; DDeliver 1; DDeliver 0; DDeliver 0; DFlush; DRead 700;
   DAck 20 1 None; DEnqueue 400 false; DSend 0 30; DDeliver 2; DFlush; DRead 5000].

Example dp_clean_run :
  let d := dp_run (dp_init 65535 4096 100000 1000) clean_ops in
  dp_guards d = true /\ g_read (d_rx d) = firstn 1919 (wpattern 3000) /\
  dp_prefix_ok d = true /\ d_una d = 2 /\ g_removed (d_tx d) = 1519 /\ d_lc d = 1.
Proof. vm_compute. repeat split. Qed.

(* KF1: the probe (index 1, 991 bytes) reaches the receiver, its acknowledgement does not reach
   the sender, the probe expires and is popped; its bytes are re-segmented as index 1 (528 bytes)
   and index 2 (463 bytes); the receiver, which holds the old index 1, accepts the new index 2
   behind it: bytes 1056..1518 arrive twice. *)
Definition kf1_ops : list dop :=
  [DWrite (wpattern 3000); DEnqueue 528 false; DEnqueue 991 true; DSend 0 10; DSend 1 10;
   DDeliver 0; DDeliver 1; DPopExpired true 0; DEnqueue 528 false; DEnqueue 463 false;
   DSend 1 50; DSend 2 50; DDeliver 2; DDeliver 3; DFlush; DRead 5000].

Lemma dp_prefix_unguarded_refuted :
  exists isn ti max_rx max_in ops,
    0 <= isn < M16 /\ 0 < ti /\ 0 < max_rx /\ 0 < max_in /\
    let d := dp_run (dp_init isn ti max_rx max_in) ops in
    d_wrap d = true /\ d_clean d = false /\ dp_prefix_ok d = false /\
    Z.of_nat (length (g_read (d_rx d))) = 1982.
Proof.
  exists 100, 4096, 100000, 1000, kf1_ops. vm_compute. repeat split; try discriminate; reflexivity.
Qed.

(* the boolean prefix test agrees with the Prop *)
Lemma prefixb_spec : forall a b, prefixb a b = true <-> is_prefix a b.
Proof.
  induction a as [|x xs IH]; intros b; cbn [prefixb].
  - split; [intros _; exists b; reflexivity|reflexivity].
  - destruct b as [|y ys].
    + split; [discriminate|]. intros (r & Hr). discriminate.
    + rewrite andb_true_iff, IH, Z.eqb_eq. split.
      * intros (-> & r & ->). exists r. reflexivity.
      * intros (r & Hr). injection Hr as -> ->. split; [reflexivity|exists r; reflexivity].
Qed.

(* C01 on the data-path system (Pair/DP.v): invariants by induction over ALL op lists.
   T1 (sender)   dp_tx_inv: every packet ever sent carries g_written[k_off, k_off+len), its
                 sequence number is (isn + k_idx) mod 2^16, the current assignment tiles the
                 written stream; no guard needed.
   T2/T3         dp_rx_inv (under the guards d_clean, d_wrap): the receiver's in-order stream is
                 g_written[0, A(consumed)); hence what was read is a prefix of what was written. *)
From Utp Require Import Base.Prelude Wire.SeqNr Rx.Rx Rx.Rx_Proofs Rx.Rx_Slots Tx.Ring Tx.Ring_Proofs
  Tx.Segments Tx.Segments_Proofs Pair.DP Pair.DP_Lemmas.

Definition lenz {A} (l : list A) : Z := Z.of_nat (length l).

Ltac dsimpl := cbn [d_tx d_segs d_rx d_lc d_net d_una d_asg d_clean d_wrap upd_dp set_dtx set_dsegs set_drx] in *.

(* ------------------------------------------------------------------ T1: the sender invariant *)
Definition pkt_ok (isn : Z) (W : list Z) (p : dpkt) : Prop :=
  0 <= k_idx p /\ k_seq p = (isn + k_idx p) mod M16 /\ k_bytes p <> [] /\
  0 <= k_off p /\ k_off p + lenz (k_bytes p) <= lenz W /\
  k_bytes p = slice W (k_off p) (lenz (k_bytes p)).

Record dp_tx_inv (isn ti : Z) (d : dp) : Prop := {
  ti_tx : exists mx, tx_inv ti mx (d_tx d);
  ti_seg : seg_inv (d_segs d);
  ti_rem : g_removed (d_tx d) = ss_removed (d_segs d);
  ti_off : ss_offset (d_segs d) <= lenz (g_written (d_tx d));
  ti_una : 0 <= d_una d <= lenz (d_asg d);
  ti_snd : ss_snd_una (d_segs d) = (isn + d_una d) mod M16;
  ti_shape : map swap2 (skipn (Z.to_nat (d_una d)) (d_asg d)) = shape (ss_segs (d_segs d));
  ti_tiled : atiled 0 (d_asg d);
  ti_sum : asum (d_asg d) = ss_offset (d_segs d);
  ti_net : Forall (pkt_ok isn (g_written (d_tx d))) (d_net d);
}.

Lemma pkt_ok_ext isn W e p : pkt_ok isn W p -> pkt_ok isn (W ++ e) p.
Proof.
  unfold pkt_ok, lenz. intros (A & B & C & D & E & F). rewrite app_length.
  repeat split; try assumption; try lia.
  rewrite slice_app_stable; [exact F|lia|lia|lia].
Qed.

Lemma init_tx_inv isn ti max_rx max_in :
  0 <= isn < M16 -> 0 < ti -> dp_tx_inv isn ti (dp_init isn ti max_rx max_in).
Proof.
  intros Hi Ht. unfold dp_init. constructor; dsimpl.
  - exists ti. apply Ring_Proofs.new_inv. exact Ht.
  - apply Segments_Proofs.new_inv. exact Hi.
  - reflexivity.
  - cbn. lia.
  - cbn. lia.
  - cbn [segments_new ss_snd_una]. unfold M16 in *. rewrite Z.add_0_r. symmetry. apply Z.mod_small. lia.
  - reflexivity.
  - exact I.
  - reflexivity.
  - constructor.
Qed.

(* a step that only touches the ring: appended bytes, same removal count *)
Lemma txi_tx_frame isn ti d t' e :
  dp_tx_inv isn ti d -> (exists mx, tx_inv ti mx t') ->
  g_written t' = g_written (d_tx d) ++ e -> g_removed t' = g_removed (d_tx d) ->
  dp_tx_inv isn ti (set_dtx d t').
Proof.
  intros [I1 I2 I3 I4 I5 I6 I7 I8 I9 I10] Ht Hw Hr. constructor; dsimpl; try assumption.
  - congruence.
  - rewrite Hw. unfold lenz in *. rewrite app_length. lia.
  - rewrite Hw. eapply Forall_impl; [|exact I10]. intros p. apply pkt_ok_ext.
Qed.

Lemma tx_flag_frame t o t' out w :
  is_flag_tx_op o = true -> tx_step t o = (t', out, w) ->
  g_written t' = g_written t /\ g_removed t' = g_removed t /\ ring t' = ring t.
Proof.
  destruct o; cbn [is_flag_tx_op tx_step]; try discriminate; intros _.
  - destruct (writer_dropped t); [intro H; injection H as <- _ _; auto|].
    unfold poll_flush. destruct (ring t) eqn:Er; [intro H; injection H as <- _ _; auto|].
    destruct (t_vsock_closed t); intro H; injection H as <- _ _; cbn [upd g_written g_removed ring]; auto.
  - destruct (writer_dropped t); [intro H; injection H as <- _ _; auto|].
    unfold poll_shutdown. destruct (ring t) eqn:Er;
      destruct (t_vsock_closed t); try destruct (writer_shutdown t);
      intro H; injection H as <- _ _; cbn [upd g_written g_removed ring]; auto.
  - unfold drop_writer. destruct (writer_dropped t); intro H; injection H as <- _ _;
      cbn [upd g_written g_removed ring]; auto.
  - unfold mark_vsock_closed. intro H; injection H as <- _ _. cbn [upd g_written g_removed ring]; auto.
  - unfold register_dispatcher_if_empty. destruct (ring t) eqn:Er; intro H; injection H as <- _ _;
      cbn [upd g_written g_removed ring]; auto.
  - unfold wake_writer. intro H; injection H as <- _ _. cbn [upd g_written g_removed ring]; auto.
Qed.

Lemma tx_flag_ok mx o : is_flag_tx_op o = true -> tx_op_ok mx o.
Proof. destruct o; cbn; try discriminate; auto. Qed.

(* a step that only re-labels segments (on_sent, calc_pipe) *)
Lemma txi_segs_frame isn ti d sg' net' :
  dp_tx_inv isn ti d -> seg_inv sg' ->
  shape (ss_segs sg') = shape (ss_segs (d_segs d)) -> ss_removed sg' = ss_removed (d_segs d) ->
  ss_offset sg' = ss_offset (d_segs d) -> ss_snd_una sg' = ss_snd_una (d_segs d) ->
  Forall (pkt_ok isn (g_written (d_tx d))) net' ->
  dp_tx_inv isn ti (upd_dp d (d_tx d) sg' (d_rx d) (d_lc d) net' (d_una d) (d_asg d) (d_clean d) (d_wrap d)).
Proof.
  intros [I1 I2 I3 I4 I5 I6 I7 I8 I9 I10] Hs Hsh Hr Ho Hu Hn. constructor; dsimpl; try assumption; congruence.
Qed.

(* the table's segments are the tail of the assignment *)
Lemma asg_of_seg isn ti d i g :
  dp_tx_inv isn ti d -> nth_error (ss_segs (d_segs d)) i = Some g ->
  nth_error (d_asg d) (Z.to_nat (d_una d) + i) = Some (sg_abs g, sg_size g).
Proof.
  intros [I1 I2 I3 I4 I5 I6 I7 I8 I9 I10] Hn.
  assert (H : nth_error (shape (ss_segs (d_segs d))) i = Some (sg_size g, sg_abs g))
    by (unfold shape; rewrite nth_error_map, Hn; reflexivity).
  rewrite <- I7, nth_error_map, nth_error_skipn in H.
  destruct (nth_error (d_asg d) (Z.to_nat (d_una d) + i)) as [[o l]|]; [|discriminate].
  cbn [option_map swap2 fst snd] in H. injection H as -> ->. reflexivity.
Qed.

(* T1, the no-panic / no-Bug part: an item of the sending iterator lies inside the ring *)
Lemma send_item_ok isn ti d f :
  dp_tx_inv isn ti d -> In f (iter_for_sending (d_segs d) None) ->
  0 <= fs_payload_offset f /\ 0 < sg_size (fs_seg f) /\
  fs_payload_offset f + sg_size (fs_seg f) <= lenz (ring (d_tx d)) /\
  nth_error (d_asg d) (Z.to_nat (d_una d) + fs_idx f) = Some (sg_abs (fs_seg f), sg_size (fs_seg f)) /\
  fs_seq f = (isn + d_una d + Z.of_nat (fs_idx f)) mod M16 /\
  g_removed (d_tx d) + fs_payload_offset f = sg_abs (fs_seg f) /\
  sg_abs (fs_seg f) + sg_size (fs_seg f) <= lenz (g_written (d_tx d)).
Proof.
  intros Hinv Hin. destruct (iter_none_item _ _ Hin) as (Hn & Hs & Hp).
  pose proof (asg_of_seg _ _ _ _ _ Hinv Hn) as Ha.
  destruct Hinv as [(mx & I1) I2 I3 I4 I5 I6 I7 I8 I9 I10].
  destruct I2 as (Hlb & Hoff & Ht & Hr & Hu).
  destruct (tiled_in' _ _ _ Ht (nth_error_In _ _ Hn)) as (A1 & A2 & A3).
  destruct (atiled_nth _ _ _ _ _ I8 Ha) as (B1 & B2 & B3 & B4).
  destruct I1 as (T1 & T2 & T3 & T4 & T5).
  unfold lenz in *.
  split; [lia|]. split; [lia|]. split; [lia|]. split; [exact Ha|].
  split; [rewrite Hs, I6; unfold wadd16, M16; lia|]. split; lia.
Qed.

(* popping the last segment gives its bytes back and forgets its assignment *)
Lemma pop_back_split isn ti d init s :
  dp_tx_inv isn ti d -> ss_segs (d_segs d) = init ++ [s] ->
  exists A o, d_asg d = A ++ [(o, sg_size s)] /\ o = sg_abs s /\ d_una d <= lenz A /\
              map swap2 (skipn (Z.to_nat (d_una d)) A) = shape init.
Proof.
  intros [I1 I2 I3 I4 I5 I6 I7 I8 I9 I10] Hs.
  rewrite Hs, shape_app in I7. cbn [shape map] in I7.
  apply map_eq_app in I7. destruct I7 as (T0 & T1 & HT & H0 & H1).
  destruct T1 as [|[o l] [|? ?]]; cbn [map swap2 fst snd] in H1; try discriminate.
  injection H1 as -> ->.
  exists (firstn (Z.to_nat (d_una d)) (d_asg d) ++ T0), (sg_abs s).
  assert (Hl : length (firstn (Z.to_nat (d_una d)) (d_asg d)) = Z.to_nat (d_una d))
    by (apply firstn_length_le; unfold lenz in *; lia).
  split; [rewrite <- app_assoc, <- HT, firstn_skipn; reflexivity|].
  split; [reflexivity|]. split; [unfold lenz; rewrite app_length; lia|].
  rewrite skipn_app, skipn_all2 by lia. rewrite Hl, Nat.sub_diag. exact H0.
Qed.

Lemma pop_back_tx_inv isn ti d init s :
  dp_tx_inv isn ti d -> ss_segs (d_segs d) = init ++ [s] ->
  forall cl, dp_tx_inv isn ti
    (upd_dp d (d_tx d) (set_segs (d_segs d) init (ss_len_bytes (d_segs d) - sg_size s)
                                 (ss_offset (d_segs d) - sg_size s))
            (d_rx d) (d_lc d) (d_net d) (d_una d) (removelast (d_asg d)) cl (d_wrap d)).
Proof.
  intros Hinv Hs cl. destruct (pop_back_split _ _ _ _ _ Hinv Hs) as (A & o & HA & -> & Hu & Hsh).
  destruct Hinv as [I1 I2 I3 I4 I5 I6 I7 I8 I9 I10].
  rewrite HA in *. rewrite removelast_last.
  apply atiled_app in I8. destruct I8 as [I8 I8']. cbn [atiled] in I8'.
  rewrite asum_app in I9. cbn [asum] in I9.
  unfold lenz in *. rewrite app_length in I5. cbn [length] in I5.
  destruct I8' as (Ho & Hsz & _).
  constructor; dsimpl; unfold set_segs, lenz; cbn [ss_segs ss_removed ss_offset ss_snd_una ss_len_bytes].
  - exact I1.
  - apply (pop_back_inv (d_segs d) init s I2 Hs).
  - exact I3.
  - lia.
  - lia.
  - exact I6.
  - exact Hsh.
  - exact I8.
  - lia.
  - exact I10.
Qed.

Lemma dp_step_tx_inv isn ti d o : dp_tx_inv isn ti d -> dp_tx_inv isn ti (dp_step d o).
Proof.
  intros Hinv. pose proof Hinv as [(mx & I1) I2 I3 I4 I5 I6 I7 I8 I9 I10].
  destruct o; cbn [dp_step].
  - (* write *)
    destruct (tx_step (d_tx d) (ToWrite buf)) as [[t out] w] eqn:E. cbn [tx_step] in E.
    destruct (writer_dropped (d_tx d)).
    { injection E as <- _ _. apply (txi_tx_frame _ _ _ _ []); [exact Hinv|eauto|rewrite app_nil_r; reflexivity|reflexivity]. }
    destruct (poll_write (d_tx d) buf) as [[t1 r] w1] eqn:Ew. injection E as <- _ _.
    destruct (poll_write_spec _ _ _ _ _ _ _ I1 Ew) as (W1 & _ & W3 & W4 & _).
    destruct r as [n| | | |].
    + destruct W4 as (_ & _ & Hw). eapply txi_tx_frame; [exact Hinv|eauto|exact Hw|exact W3].
    + destruct W4 as [_ Hw]. apply (txi_tx_frame _ _ _ _ []); [exact Hinv|eauto|rewrite app_nil_r; exact Hw|exact W3].
    + destruct W4 as [_ Hw]. apply (txi_tx_frame _ _ _ _ []); [exact Hinv|eauto|rewrite app_nil_r; exact Hw|exact W3].
    + destruct W4 as [_ Hw]. apply (txi_tx_frame _ _ _ _ []); [exact Hinv|eauto|rewrite app_nil_r; exact Hw|exact W3].
    + destruct W4 as [_ Hw]. apply (txi_tx_frame _ _ _ _ []); [exact Hinv|eauto|rewrite app_nil_r; exact Hw|exact W3].
  - (* flag ops of the ring *)
    destruct (is_flag_tx_op o) eqn:Ef; [|exact Hinv].
    destruct (tx_step (d_tx d) o) as [[t out] w] eqn:E.
    destruct (tx_flag_frame _ _ _ _ _ Ef E) as (F1 & F2 & _).
    apply (txi_tx_frame _ _ _ _ []); [exact Hinv| |rewrite app_nil_r; exact F1|exact F2].
    exists mx. eapply tx_step_inv; [exact I1|apply tx_flag_ok; exact Ef|exact E].
  - (* enqueue *)
    destruct ((0 <? len) && (len <=? unsegmented d)) eqn:Eg; [|exact Hinv].
    apply andb_true_iff in Eg. destruct Eg as [Hl0 Hl1]. unfold unsegmented in Hl1.
    destruct (enqueue_fields (d_segs d) len probe) as (F1 & F2 & F3 & F4 & F5).
    pose proof I2 as (Hlb & Hoff & Ht & Hr & Hu).
    destruct I1 as (T1 & T2 & T3 & T4 & T5). unfold lenz in *.
    constructor; dsimpl; unfold lenz.
    + exists mx. unfold tx_inv; tauto.
    + apply enqueue_inv; [exact I2|lia].
    + rewrite F2. exact I3.
    + rewrite F3. lia.
    + rewrite app_length. cbn [length]. lia.
    + rewrite F4. exact I6.
    + rewrite F1, shape_app, skipn_app, map_app, I7.
      replace (Z.to_nat (d_una d) - length (d_asg d))%nat with 0%nat by lia. reflexivity.
    + apply atiled_app. split; [exact I8|]. cbn [atiled]. rewrite I9. repeat split; lia.
    + rewrite asum_app, F3. cbn [asum]. lia.
    + exact I10.
  - (* send *)
    destruct (nth_error (iter_for_sending (d_segs d) None) i) as [f|] eqn:En; [|exact Hinv].
    destruct (_ || _ || _) eqn:Eg; [exact Hinv|].
    destruct (send_item_ok _ _ _ _ Hinv (nth_error_In _ _ En)) as (S1 & S2 & S3 & S4 & S5 & S6 & S7).
    destruct (on_sent_shape (d_segs d) (fs_idx f) now) as (O1 & O2 & O3 & O4 & _).
    apply txi_segs_frame; try assumption; [apply on_sent_inv; exact I2|].
    apply Forall_app. split; [exact I10|]. constructor; [|constructor].
    assert (Hb : firstn (Z.to_nat (sg_size (fs_seg f))) (skipn (Z.to_nat (fs_payload_offset f)) (ring (d_tx d))) =
                 slice (g_written (d_tx d)) (sg_abs (fs_seg f)) (sg_size (fs_seg f))).
    { rewrite (ring_slice _ _ _ _ _ I1 S1). f_equal. exact S6. }
    assert (Hlen : lenz (slice (g_written (d_tx d)) (sg_abs (fs_seg f)) (sg_size (fs_seg f))) = sg_size (fs_seg f)).
    { unfold lenz in *. apply slice_length; try lia. destruct I1 as (_ & _ & T3 & _). lia. }
    unfold pkt_ok; cbn [k_idx k_seq k_bytes k_off]. rewrite Hb, Hlen.
    destruct I1 as (_ & _ & T3 & _).
    split; [lia|]. split; [rewrite S5; f_equal; lia|].
    split; [intro Hnil; rewrite Hnil in Hlen; cbn in Hlen; unfold lenz in Hlen; cbn in Hlen; lia|].
    split; [lia|]. split; [lia|reflexivity].
  - (* pop_mtu_probe *)
    destruct (pop_mtu_probe (d_segs d) seq) as [sg popped] eqn:E. destruct popped; [|exact Hinv].
    destruct (pop_mtu_probe_popped _ _ _ E) as (init & s & Hs & _ & _ & ->).
    apply (pop_back_tx_inv isn ti d init s Hinv Hs).
  - (* pop_expired_mtu_probe *)
    destruct (pop_expired_mtu_probe (d_segs d) timed_out max_retx) as [sg pe] eqn:E.
    destruct pe; try exact Hinv.
    destruct (pop_expired_popped _ _ _ _ _ _ E) as (init & s & Hs & _ & _ & ->).
    apply (pop_back_tx_inv isn ti d init s Hinv Hs).
  - (* ack + truncate *)
    destruct (remove_up_to_ack (d_segs d) now ack sk) as [sg res] eqn:E.
    destruct (truncate_front (d_tx d) (ar_acked_bytes res)) as [t tr] eqn:Et.
    destruct (remove_up_to_ack_inv _ _ _ _ _ _ I2 E) as (R1 & R2 & R3 & R4 & R5 & R6).
    destruct (remove_up_to_ack_shape _ _ _ _ _ _ I2 E) as (Q1 & Q2 & Q3).
    destruct (truncate_spec _ _ _ _ _ _ I1 R3 Et) as (U1 & _ & U3 & _ & U5 & _).
    pose proof I2 as (Hlb & Hoff & Ht & Hr & Hu).
    pose proof R1 as (Hlb' & Hoff' & Ht' & Hr' & Hu').
    pose proof (tiled_sizes_nonneg _ _ Ht') as Hnn.
    pose proof I1 as (T1 & T2 & T3 & T4 & T5). unfold lenz in *.
    assert (Hlen_seg : length (ss_segs (d_segs d)) = (length (d_asg d) - Z.to_nat (d_una d))%nat).
    { rewrite <- shape_length, <- I7, map_length, skipn_length. reflexivity. }
    constructor; dsimpl; unfold lenz.
    + eauto.
    + exact R1.
    + rewrite U5. lia.
    + rewrite U3, R4. exact I4.
    + lia.
    + rewrite Q3, I6. unfold M16. lia.
    + rewrite Q2, <- I7, skipn_map, skipn_skipn'. f_equal. f_equal. lia.
    + exact I8.
    + rewrite R4. exact I9.
    + rewrite U3. exact I10.
  - (* calc_pipe *)
    destruct (calc_pipe (d_segs d) high_rxt high_data rtt now) as [[[sg p] rc]|] eqn:E; [|exact Hinv].
    destruct (calc_pipe_fields _ _ _ _ _ _ _ _ E) as (C1 & C2 & C3 & C4 & _).
    apply (txi_segs_frame isn ti d sg (d_net d)); try assumption. eapply calc_pipe_inv; eauto.
  - (* grow *)
    destruct (grow (d_tx d) mx0) as [t g] eqn:E. unfold grow in E.
    destruct (Z.leb_spec mx0 (cap (d_tx d))) as [Hle|Hgt]; injection E as <- _.
    + apply (txi_tx_frame _ _ _ _ []); [exact Hinv|eauto|rewrite app_nil_r; reflexivity|reflexivity].
    + apply (txi_tx_frame _ _ _ _ []); [exact Hinv| |rewrite app_nil_r; reflexivity|reflexivity].
      exists (Z.max mx mx0). destruct I1 as (T1 & T2 & T3 & T4 & T5).
      unfold tx_inv; cbn [upd ring cap g_removed g_written]. repeat split; try assumption; lia.
  - (* deliver: the sender side is untouched *)
    destruct (nth_error (d_net d) j) as [p|]; [|exact Hinv].
    destruct (_ <? 0); [exact Hinv|].
    destruct (rx_add_remove _ _ _ _) as [[r ar] w].
    destruct ar as [[n b| | | | |]|]; constructor; dsimpl; eauto.
  - destruct (rx_flush (d_rx d)) as [[r fr] w]. constructor; dsimpl; eauto.
  - destruct (is_flag_rx_op o); [|exact Hinv].
    destruct (rx_step (d_rx d) o) as [[r out] w]. constructor; dsimpl; eauto.
  - destruct (rx_step (d_rx d) (ORead n)) as [[r out] w]. constructor; dsimpl; eauto.
Qed.

(* C01, connection and pair level.
   - send_data_payload (T1 at the connection): the datagram send_data emits carries exactly
     g_written[sg_abs, sg_abs + size) under the ring/segment relation of vs_inv (p = 0).
   - c01_prefix_of_dp_view (T3, composition, PARTIAL): a pair state whose byte-carrying components
     (A's ring and segment table, B's receiver and ack counter) form a guarded reachable state of
     the data-path system satisfies the prefix property.  What is NOT proved is that every
     reachable pair state has such a view (`poll_refines_dp`, stated below).
   - c01_pair_unguarded_refuted: the pair model exhibits KF1; the classifier recognises it.
   - c01_pair_channel_closed_regression: the former D17 witness now satisfies the predicate. *)
From Utp Require Import Base.Prelude Wire.SeqNr Wire.Header Rtt.Rtte Mtu.SegSizes Rx.Rx Rx.Rx_Proofs Tx.Ring
  Tx.Ring_Proofs Tx.Segments Tx.Segments_Proofs Conn.Recovery Conn.Msg Conn.VSockRec Conn.VSock
  Conn.VSockRun Conn.VObs Conn.C10_Pred Conn.VSock_Inv Pair.Pair Pair.DP Pair.DP_Lemmas Pair.DP_Proofs
  Pair.DP_RxProofs Pair.DP_Witness.

(* ------------------------------------------------------------------ T1 at the connection *)
Section Conn.
Context {CC : Type}.
Notation vsock := (vsock CC).

Lemma next_send_frame (s : vsock) size s1 o :
  next_send s size = (s1, o) ->
  v_out s1 = v_out s /\ v_tx s1 = v_tx s /\ v_rx s1 = v_rx s /\ v_segs s1 = v_segs s /\
  v_last_consumed s1 = v_last_consumed s.
Proof.
  unfold next_send. destruct (v_sends s) as [|o0 r].
  - destruct (v_emsg_limit s) as [m|]; [destruct (m <? size)|]; intro H; injection H as <- _; repeat split.
  - destruct o0; destruct (v_emsg_limit s) as [m|]; try destruct (m <? size); intro H; injection H as <- _;
      vsimpl; repeat split.
Qed.

(* the payload of a data packet is the slice of the written stream its segment was assigned *)
Lemma send_data_payload ti tm (s : vsock) h f s' :
  tx_inv ti tm (v_tx s) -> g_removed (v_tx s) = ss_removed (v_segs s) ->
  fs_payload_offset f = sg_abs (fs_seg f) - ss_removed (v_segs s) ->
  send_data s h f = SOk s' SdSent ->
  exists hd,
    v_out s' = {| p_hdr := hd;
                  p_payload := slice (g_written (v_tx s)) (sg_abs (fs_seg f)) (sg_size (fs_seg f)) |} :: v_out s /\
    ch_type hd = ST_DATA /\ ch_seq hd = fs_seq f /\ v_tx s' = v_tx s /\ v_rx s' = v_rx s.
Proof.
  intros Htx Hrem Hoff. unfold send_data.
  destruct (_ =? o_max_retx _); [discriminate|].
  destruct (Z.ltb_spec (fs_payload_offset f) 0) as [|Hp0]; [discriminate|].
  destruct (_ <? fs_payload_offset f); [discriminate|].
  destruct (_ <? fs_payload_offset f + _); [discriminate|].
  destruct (next_send s _) as [s1 o] eqn:E.
  destruct (next_send_frame _ _ _ _ E) as (F1 & F2 & F3 & F4 & F5).
  destruct o; try discriminate.
  intro H; injection H as <-.
  eexists. split; [|split; [|split; [|split]]].
  - unfold on_packet_sent, emit. destruct (seq_gt _ _); [destruct (seq_gt _ _)|]; vsimpl; rewrite F1; f_equal; f_equal;
      rewrite (ring_slice _ _ _ _ _ Htx Hp0); f_equal; lia.
  - reflexivity.
  - reflexivity.
  - unfold on_packet_sent, emit. destruct (seq_gt _ _); [destruct (seq_gt _ _)|]; vsimpl; exact F2.
  - unfold on_packet_sent, emit. destruct (seq_gt _ _); [destruct (seq_gt _ _)|]; vsimpl; exact F3.
Qed.

(* under the joint invariant every item of the sending iterator qualifies, whenever no
   acknowledged-but-not-yet-truncated bytes are pending (p = 0: everywhere in poll except between
   remove_up_to_ack and truncate_front inside process_all_incoming_messages) *)
Lemma iter_items_qualify ti tm (s : vsock) st f :
  vs_inv_p ti tm 0 s -> v_state s <> Closed -> In f (iter_for_sending (v_segs s) st) ->
  tx_inv ti tm (v_tx s) /\ g_removed (v_tx s) = ss_removed (v_segs s) /\
  fs_payload_offset f = sg_abs (fs_seg f) - ss_removed (v_segs s).
Proof.
  intros Hinv Hst Hin. destruct (inv_parts _ _ _ _ Hinv) as (_ & _ & I3 & _ & (R0 & R1 & R2 & R3) & _).
  split; [exact I3|]. split; [specialize (R2 Hst); lia|].
  unfold iter_for_sending in Hin. apply filter_In in Hin. destruct Hin as [Hin _].
  apply in_map_iff in Hin. destruct Hin as ([i g] & <- & _). reflexivity.
Qed.

End Conn.

(* ------------------------------------------------------------------ T3, composition (partial) *)
(* the byte-carrying components of the direction A -> B of a pair, seen as a data-path state *)
Definition dp_view {CC} (a b : vsock CC) (d : dp) : Prop :=
  d_tx d = v_tx a /\ d_segs d = v_segs a /\ d_rx d = v_rx b /\ d_lc d = v_last_consumed b.

Lemma c01_prefix_of_dp_view {CC} (a b : vsock CC) isn ti max_rx max_in ops :
  0 <= isn < M16 -> 0 < ti -> 0 < max_rx -> 0 < max_in ->
  let d := dp_run (dp_init isn ti max_rx max_in) ops in
  dp_view a b d -> dp_guards d = true ->
  is_prefix (g_read (v_rx b)) (g_written (v_tx a)).
Proof.
  intros Hi Ht Hr Hm d (V1 & _ & V3 & _) Hg.
  pose proof (dp_prefix isn ti max_rx max_in ops Hi Ht Hr Hm Hg) as H. fold d in H.
  rewrite V1, V3 in H. exact H.
Qed.

(* what remains for the whole pair (NOT proved): every step of the pair model is matched by a
   list of data-path ops on the view of each direction.  For the direction A -> B: *)
Definition poll_refines_dp {CC} (cci : cc_iface CC) (isn ti max_rx max_in : Z) : Prop :=
  forall (s : pair (CC := CC)) (o : pop) (ops : list dop),
    dp_view (p_a s) (p_b s) (dp_run (dp_init isn ti max_rx max_in) ops) ->
    exists ops', dp_view (p_a (fst (pstep cci s o))) (p_b (fst (pstep cci s o)))
                         (dp_run (dp_init isn ti max_rx max_in) (ops ++ ops')).

(* ------------------------------------------------------------------ KF1 on the pair model *)
Definition kf1_cfg : pconfig :=
  {| pc_ipv4 := true; pc_mtu_a := 1500; pc_mtu_b := 1500; pc_rx_a := 1048576; pc_rx_b := 1048576;
     pc_tx_init := 32768; pc_tx_max := 1048576; pc_nagle_a := true; pc_nagle_b := true; pc_max_retx := 5;
     pc_inactivity := 10000000000; pc_wait_last_ack := true; pc_probe_retx := 0; pc_syn_seq := 100;
     pc_isn_b := 200; pc_conn_id := 7; pc_syn_rtt := 1000000 |}.

(* A writes 1980 bytes; segments 101 (528 bytes) and 102 (MTU probe, 991 bytes) reach B; B's
   acknowledgements are lost; after the retransmission timeout the probe is popped and its bytes
   re-segmented as 102 (528) and 103 (463 + ...); B, which holds the old 102, accepts the new 103. *)
Definition kf1_pair_ops : list pop :=
  [PoApp SA (AWrite (wpattern 1980)); PoPoll SA []; PoDeliver SA 0; PoDeliver SA 0; PoPoll SB [];
   PoDrop SB 0; PoDrop SB 0; PoDrop SB 0; PoNow 1500000000; PoPoll SA [];
   PoDeliver SA 0; PoDeliver SA 0; PoDeliver SA 0; PoPoll SB []; PoApp SB (ARead 5000)].

Lemma c01_pair_unguarded_refuted :
  exists w cfg ops s0,
    pair_new (fixed_cc w) (fun _ _ => tt) cfg = Some s0 /\
    let tr := ptrace (fixed_cc w) s0 ops in
    let evs := pevents (fixed_cc w) s0 ops in
    c01_pair_ok (zip_obs ops tr) = false /\ c01_kf1_class evs = true /\
    c01_pair_guarded evs (zip_obs ops tr) = true /\
    ha_len (p_rb (prun (fixed_cc w) s0 ops)) = 2047 /\ ha_len (p_wa (prun (fixed_cc w) s0 ops)) = 1980.
Proof.
  exists 100000, kf1_cfg, kf1_pair_ops.
  destruct (pair_new (fixed_cc 100000) (fun _ _ => tt) kf1_cfg) as [s0|] eqn:E; [|vm_compute in E; discriminate].
  exists s0. split; [reflexivity|].
  vm_compute in E. injection E as <-. vm_compute. repeat split.
Qed.

(* ------------------------------------------------------------------ D17 on the pair model (repaired)
   A's message channel is closed (its socket dispatcher is gone) while an acknowledgement for
   segment 101 is queued and 102 is outstanding.  Before the repair process_all_incoming_messages
   took the channel-closed arm and returned BEFORE truncate_front; the retransmission timer had
   expired, and segment 102 was retransmitted from the un-truncated ring, carrying the bytes of
   101, which B read twice.  Now the bookkeeping runs on that arm too: on the same op list A
   retransmits nothing after the close, B has read exactly bytes 0..527, and the prefix predicate
   holds at every step. *)
Definition d17_cfg : pconfig :=
  {| pc_ipv4 := true; pc_mtu_a := 576; pc_mtu_b := 576; pc_rx_a := 1048576; pc_rx_b := 1048576;
     pc_tx_init := 32768; pc_tx_max := 1048576; pc_nagle_a := true; pc_nagle_b := true; pc_max_retx := 5;
     pc_inactivity := 10000000000; pc_wait_last_ack := true; pc_probe_retx := 1; pc_syn_seq := 100;
     pc_isn_b := 200; pc_conn_id := 7; pc_syn_rtt := 1000000 |}.

Definition d17_pair_ops : list pop :=
  [PoPoll SB []; PoDeliver SB 0; PoApp SA (AWrite (wpattern 3000)); PoPoll SA []; PoDeliver SA 0;
   PoDrop SA 0; PoDrop SA 0; PoDrop SA 0; PoDrop SA 0; PoDrop SA 0;
   PoPoll SB []; PoNow 50000000; PoPoll SB []; PoDeliver SB 0; PoApp SA ACloseInbox; PoNow 5000000000;
   PoPoll SA []; PoDeliver SA 0; PoDeliver SA 0; PoDeliver SA 0; PoPoll SB []; PoApp SB (ARead 5000)].

Lemma c01_pair_channel_closed_regression :
  exists s0,
    pair_new (fixed_cc 100000) (fun _ _ => tt) d17_cfg = Some s0 /\
    let tr := ptrace (fixed_cc 100000) s0 d17_pair_ops in
    let evs := pevents (fixed_cc 100000) s0 d17_pair_ops in
    c01_pair_ok (zip_obs d17_pair_ops tr) = true /\ c01_kf1_class evs = false /\ c01_d17_class evs = false /\
    In (KeClose SA) evs /\
    ha_len (p_rb (prun (fixed_cc 100000) s0 d17_pair_ops)) = 528 /\
    ha_len (p_wa (prun (fixed_cc 100000) s0 d17_pair_ops)) = 3000.
Proof.
  destruct (pair_new (fixed_cc 100000) (fun _ _ => tt) d17_cfg) as [s0|] eqn:E; [|vm_compute in E; discriminate].
  exists s0. split; [reflexivity|].
  vm_compute in E. injection E as <-. vm_compute. repeat split.
  repeat (try (left; reflexivity); right).
Qed.

(* the predicate is sound for what it states: when it holds, each reader's cumulative length
   never exceeds what the peer has written, step by step (the hash equality is the content check) *)
Lemma dchk_step_len d wrote rd d' :
  dchk_step d wrote rd = Some d' ->
  ha_len (dc_acc d) <= fst rd <= ha_len (dc_acc d) + Z.of_nat (length (dc_pending d ++ wrote)).
Proof.
  unfold dchk_step.
  destruct (Z.ltb_spec (fst rd - ha_len (dc_acc d)) 0); [discriminate|].
  destruct (Z.ltb_spec (Z.of_nat (length (dc_pending d ++ wrote))) (fst rd - ha_len (dc_acc d))); [discriminate|].
  cbn [orb]. destruct (_ =? snd rd); [|discriminate]. intros _. lia.
Qed.

(* C01 lift, the walk through VirtualSocket::poll, part 4: death, poll_body, the restart loop, poll.
   Result (poll_ev): the data view after a poll is the data view before it (with no datagram
   emitted yet) transformed by a list of data events; deliveries come from the inbox; an error event
   only when the poll returned Ready; bytes stay pending (acknowledged, not yet truncated) only when
   the connection died inside the receive loop, and then its ring is marked closed. *)
From Utp Require Import Base.Prelude Wire.SeqNr Wire.Header Rtt.Rtte Mtu.SegSizes Rx.Rx Tx.Ring
  Tx.Segments Tx.Segments_Proofs Conn.Recovery Conn.Msg Conn.VSockRec Conn.VSock Conn.VSockRun Conn.VSock_Inv
  Conn.VSock_LemmasTx Conn.VSock_LemmasIn Conn.VSock_LemmasFin Conn.C17_StepLemmas Rx.Rx_Slots Pair.DP Pair.DP_Lemmas
  Pair.Pair_Refine Pair.Pair_RefineWalk Pair.Pair_RefineWalkTx Pair.Pair_RefineWalkIn.

Arguments SOk {CC A}. Arguments SErr {CC A}. Arguments SPanic {CC A}.
Arguments BrReturn {CC}. Arguments BrRestart {CC}. Arguments BrPanic {CC}.

Definition is_pending (r : poll_result) : bool := match r with PollPending => true | _ => false end.

Section WalkPoll.
Context {CC : Type} (cci : cc_iface CC).
Notation vsock := (vsock CC).
Notation step := (@step CC).

Lemma devs_any_err ib e p (s : vsock) p' s' : devs ib false p s p' s' -> devs ib e p s p' s'.
Proof. destruct e; [apply devs_weaken|auto]. Qed.

(* ------------------------------------------------------------------ death *)
Lemma mark_both_closed_ev ib err p (s : vsock) :
  devs ib err p s p (mark_both_closed s) /\ t_vsock_closed (v_tx (mark_both_closed s)) = true /\
  v_state (mark_both_closed s) = v_state s.
Proof.
  unfold mark_both_closed.
  destruct (rx_mark_vsock_closed (v_rx s)) as [rx1 w1] eqn:Er.
  destruct (mark_vsock_closed (v_tx s)) as [tx1 w2] eqn:Et.
  split; [|split; [|unfold add_wakes; vsimpl; reflexivity]].
  - apply (devs_plain ib err [EvRxFlag OMarkClosed; EvTxFlag ToMarkClosed]).
    + cbn [drun]. unfold dview_of, add_wakes; vsimpl.
      cbn [dapply x_rx x_tx is_flag_rx_op pend_safe_op rx_step tx_step]. rewrite Er.
      unfold set_xrx. cbn [dapply x_rx x_tx x_segs x_lc x_out x_pend pend_safe_op tx_step]. rewrite Et. reflexivity.
    + repeat constructor.
    + unfold add_wakes; vsimpl. reflexivity.
    + unfold rfin, add_wakes; vsimpl. auto.
    + unfold add_wakes; vsimpl. auto.
  - unfold add_wakes; vsimpl. unfold mark_vsock_closed in Et. injection Et as <- _. reflexivity.
Qed.

Lemma just_before_death_ev ib p (s : vsock) err :
  devs ib true p s p (just_before_death s err) /\ t_vsock_closed (v_tx (just_before_death s err)) = true.
Proof.
  unfold just_before_death.
  match goal with |- context [mark_both_closed ?x] =>
    assert (F1 : devs ib true p s p x); [|abs_as x F1 s1] end.
  { destruct err as [e|]; [|apply devs_refl].
    destruct (rx_enqueue_error (v_rx s)) as [rx1 w] eqn:Ee.
    apply (devs_one ib true EvRxErr); try reflexivity; try exact I; try discriminate.
    - unfold dview_of, add_wakes; vsimpl. cbn [dapply x_rx]. rewrite Ee. reflexivity.
    - unfold rfin, add_wakes; vsimpl. auto.
    - unfold add_wakes; vsimpl. auto. }
  destruct (mark_both_closed_ev ib true p s1) as (F2 & Hc & Hst).
  revert F2 Hc Hst. generalize (mark_both_closed s1). intros s2 F2 Hc Hst.
  pose proof (devs_trans _ _ _ _ _ _ _ _ F1 F2) as F12.
  destruct err as [e|]; [|split; assumption].
  destruct (negb _); [|split; assumption].
  match goal with |- context [send_control_packet ?x ?h] =>
    assert (F3 : svs s2 x) by (unfold svs, same_view; vsimpl; repeat split);
    pose proof (send_control_packet_svs x h) as Hsc; revert F3 Hsc; generalize x; intros s3 F3 Hsc end.
  assert (Hty : ch_type (hdr_with (outgoing_header s2) ST_FIN (v_seq_nr s2) None) <> ST_DATA)
    by (cbn [hdr_with ch_type]; discriminate).
  specialize (Hsc Hty).
  assert (Hfin : forall s4, svs s3 s4 -> devs ib true p s p s4 /\ t_vsock_closed (v_tx s4) = true).
  { intros s4 H4. pose proof (svs_trans _ _ _ F3 H4) as H24.
    split; [eapply devs_trans; [exact F12|apply devs_svs; exact H24]|].
    destruct H24 as ((A1 & _) & _). rewrite A1. exact Hc. }
  destruct (send_control_packet s3 _) as [s4 b|s4 e'|]; cbn [stp] in Hsc.
  - apply Hfin. exact Hsc.
  - apply Hfin. exact Hsc.
  - apply Hfin. apply svs_refl.
Qed.

(* ------------------------------------------------------------------ the exits of poll_body *)
Definition bpost (ib : list msg) (s0 : vsock) (b : body_res (CC:=CC)) : Prop :=
  match b with
  | BrReturn s' r =>
      exists p', devs ib (negb (is_pending r)) 0 s0 p' s' /\
                 (p' = 0 \/ (t_vsock_closed (v_tx s') = true /\ is_pending r = false))
  | BrRestart s' => devs ib false 0 s0 0 s'
  | BrPanic => True
  end.

Lemma die_ev ib (s0 s : vsock) p' e :
  devs ib false 0 s0 p' s -> bpost ib s0 (die s e).
Proof.
  intro H. unfold die. cbn [bpost is_pending negb].
  destruct (just_before_death_ev ib p' s (Some e)) as [H1 H2].
  exists p'. split; [eapply devs_trans; [apply devs_weaken; exact H|exact H1]|]. right. auto.
Qed.

Lemma bail_ev {A} ib (s0 : vsock) (m : step A) (k : vsock -> A -> body_res) (Q : vsock -> A -> Prop) :
  stp m (fun s a => devs ib false 0 s0 0 s /\ Q s a) (fun s => exists p', devs ib false 0 s0 p' s) ->
  (forall s a, devs ib false 0 s0 0 s -> Q s a -> bpost ib s0 (k s a)) ->
  bpost ib s0 (bail m k).
Proof.
  intros Hm Hk. destruct m as [s a|s e|]; cbn [stp bail] in *.
  - destruct Hm as [H1 H2]. destruct (v_restart s); [exact H1|apply Hk; assumption].
  - destruct Hm as (p' & H). eapply die_ev. exact H.
  - exact I.
Qed.

Lemma pend_ev {A} ib (s0 : vsock) (m : step A) (k : vsock -> A -> body_res) (Q : vsock -> A -> Prop) :
  stp m (fun s a => devs ib false 0 s0 0 s /\ Q s a) (fun s => exists p', devs ib false 0 s0 p' s) ->
  (forall s a, devs ib false 0 s0 0 s -> Q s a -> bpost ib s0 (k s a)) ->
  bpost ib s0 (pend m k).
Proof.
  intros Hm Hk. unfold pend. eapply bail_ev; [exact Hm|].
  intros s a H1 H2. destruct (v_transport_pending s).
  - cbn [bpost is_pending negb]. exists 0. split; [exact H1|left; reflexivity].
  - destruct (v_restart s); [exact H1|apply Hk; assumption].
Qed.

(* a function that leaves the view and the state alone, as a step of the body *)
Lemma stp_svs_D {A} ib (s0 s : vsock) (m : step A) :
  devs ib false 0 s0 0 s ->
  stp m (fun s' _ => svs s s') (fun s' => svs s s') ->
  stp m (fun s' _ => devs ib false 0 s0 0 s' /\ True) (fun s' => exists p', devs ib false 0 s0 p' s').
Proof.
  intros H0 Hm. destruct m as [s' a|s' e|]; cbn [stp] in *; [|exists 0|exact I];
    try split; try exact I; (eapply devs_trans; [exact H0|apply devs_svs; exact Hm]).
Qed.

Lemma stp_D0_D {A} ib (s0 s : vsock) (m : step A) :
  devs ib false 0 s0 0 s ->
  stp m (fun s' _ => D0 s s') (fun s' => D0 s s') ->
  stp m (fun s' _ => devs ib false 0 s0 0 s' /\ True) (fun s' => exists p', devs ib false 0 s0 p' s').
Proof.
  intros H0 Hm. destruct m as [s' a|s' e|]; cbn [stp] in *; [|exists 0|exact I];
    try split; try exact I; (eapply devs_trans; [exact H0|apply Hm]).
Qed.

(* ------------------------------------------------------------------ poll_body *)
Lemma poll_body_ev ib (s0 : vsock) :
  incl (v_inbox s0) ib -> ss_ok (v_ss s0) -> bpost ib s0 (poll_body cci s0).
Proof.
  intros Hib Hss0. rewrite poll_body_parts. unfold body_front, body_head.
  assert (Hs : devs ib false 0 s0 0 (body_start s0)).
  { apply devs_same_state; unfold body_start, same_view; vsimpl; repeat split. }
  revert Hs. generalize (body_start s0). intros sa Hs.
  (* maybe_send_syn_ack *)
  apply pend_ev with (Q := fun _ _ => True).
  { pose proof (maybe_send_syn_ack_sv sa) as Hm.
    destruct (maybe_send_syn_ack sa) as [s' a|s' e|]; cbn [stp] in *; [|exists 0|exact I];
      try split; try exact I;
      (eapply devs_trans; [exact Hs|]; destruct Hm as [Hm1 Hm2]; apply devs_same; [exact Hm1|rewrite Hm2; auto]). }
  intros s1 _ H1 _.
  (* the immediate ACK *)
  apply pend_ev with (Q := fun _ _ => True).
  { destruct (immediate_ack_to_transmit s1); [apply (stp_svs_D ib s0 s1); [exact H1|apply send_ack_svs]|].
    cbn [stp]. split; [exact H1|exact I]. }
  intros s2 _ H2 _.
  (* the incoming messages *)
  apply pend_ev with (Q := fun _ _ => True).
  { pose proof (process_all_ev cci s2) as Hp.
    assert (Hi2 : incl (v_inbox s2) ib) by (eapply devs_inbox_incl; [exact H2|exact Hib]).
    destruct (process_all_incoming_messages cci s2) as [s' a|s' e|]; cbn [stp] in *; [| |exact I].
    - split; [|exact I]. eapply devs_trans; [exact H2|]. eapply devs_ib_mono; [exact Hi2|exact Hp].
    - destruct Hp as (p' & Hp). exists p'. eapply devs_trans; [exact H2|]. eapply devs_ib_mono; [exact Hi2|exact Hp]. }
  intros s3 _ H3 _.
  (* flush *)
  unfold body_mid. destruct (rx_flush (v_rx s3)) as [[rx1 fr] w] eqn:Efl. destruct fr; cbv beta iota zeta; [|exact I].
  assert (H4 : devs ib false 0 s0 0 (add_wakes (set_rx s3 rx1) (rx_wakes w))).
  { eapply devs_trans; [exact H3|].
    apply (devs_plain ib false [EvFlush]).
    - cbn [drun]. unfold dview_of, add_wakes; vsimpl. cbn [dapply x_rx]. rewrite Efl. reflexivity.
    - repeat constructor.
    - unfold add_wakes; vsimpl. reflexivity.
    - unfold rfin, add_wakes; vsimpl. auto.
    - unfold add_wakes; vsimpl. auto. }
  revert H4. generalize (add_wakes (set_rx s3 rx1) (rx_wakes w)). intros s4 H4.
  destruct (timer_expired _ _); [eapply die_ev; exact H4|].
  (* segmentation *)
  assert (Hss4 : ss_ok (v_ss s4)).
  { destruct H4 as (evs & _ & _ & _ & _ & _ & _ & K). apply K. exact Hss0. }
  apply bail_ev with (Q := fun _ _ => True).
  { apply (stp_D0_D ib s0 s4); [exact H4|]. apply split_ev. exact Hss4. }
  intros s5 _ H5 _.
  (* the send queue *)
  apply pend_ev with (Q := fun _ _ => True).
  { apply (stp_D0_D ib s0 s5); [exact H5|]. apply send_tx_queue_ev. }
  intros s6 _ H6 _.
  unfold body_back.
  assert (H7 : devs ib false 0 s0 0 (if should_close_on_own_initiative s6 then transition_to_fin_wait_1 s6 else s6)).
  { destruct (should_close_on_own_initiative s6); [|exact H6].
    destruct (transition_sv s6) as [T1 T2]. eapply devs_trans; [exact H6|]. apply devs_same; [exact T1|rewrite T2; auto]. }
  revert H7. generalize (if should_close_on_own_initiative s6 then transition_to_fin_wait_1 s6 else s6).
  intros s7 H7.
  apply pend_ev with (Q := fun _ _ => True).
  { apply (stp_svs_D ib s0 s7); [exact H7|apply maybe_send_fin_svs]. }
  intros s8 _ H8 _.
  apply pend_ev with (Q := fun _ _ => True).
  { apply (stp_svs_D ib s0 s8); [exact H8|apply maybe_send_ack_svs]. }
  intros s9 _ H9 _.
  unfold body_finish. destruct (state_is_closed _ _).
  { cbn [bpost is_pending negb]. destruct (just_before_death_ev ib 0 s9 None) as [J1 J2].
    exists 0. split; [eapply devs_trans; [apply devs_weaken; exact H9|exact J1]|left; reflexivity]. }
  match goal with |- context [next_timer_to_poll ?x] =>
    assert (H10 : devs ib false 0 s0 0 x); [|revert H10; generalize x; intros s10 H10] end.
  { destruct (is_local_fin_or_later (v_state s9)); [|exact H9].
    eapply devs_trans; [exact H9|]. apply devs_same_state; [unfold same_view; vsimpl; repeat split|vsimpl; reflexivity]. }
  assert (Hfin : forall s', svs s10 s' -> bpost ib s0 (BrReturn s' PollPending)).
  { intros s' Hs'. cbn [bpost is_pending negb]. exists 0.
    split; [eapply devs_trans; [exact H10|apply devs_svs; exact Hs']|left; reflexivity]. }
  unfold next_timer_to_poll, arm_in, add_wakes. destruct (v_transport_pending s10).
  - destruct (v_t_inactivity s10); [|apply Hfin; apply svs_refl].
    destruct (_ <=? _); apply Hfin; unfold svs, same_view; vsimpl; repeat split.
  - match goal with |- bpost _ _ (BrReturn match ?t with _ => _ end _) => destruct t end;
      [destruct (_ <=? _)|]; apply Hfin; unfold svs, same_view; vsimpl; repeat split.
Qed.

(* ------------------------------------------------------------------ the restart loop and poll *)
Definition poll_post (ib : list msg) (s : vsock) (res : vsock * poll_result) : Prop :=
  exists p', devs ib (negb (is_pending (snd res))) 0 s p' (fst res) /\
             (p' = 0 \/ (t_vsock_closed (v_tx (fst res)) = true /\ is_pending (snd res) = false)).

Lemma poll_loop_ev ib : forall fuel (s : vsock),
  incl (v_inbox s) ib -> ss_ok (v_ss s) -> poll_post ib s (poll_loop cci fuel s).
Proof.
  induction fuel as [|fuel IH]; intros s Hib Hss; cbn [poll_loop].
  - exists 0. cbn [fst snd is_pending negb]. split; [apply devs_refl|left; reflexivity].
  - pose proof (poll_body_ev ib s Hib Hss) as Hb.
    destruct (poll_body cci s) as [s' r|s'|]; cbn [bpost] in Hb.
    + exact Hb.
    + assert (Hib' : incl (v_inbox s') ib) by (eapply devs_inbox_incl; [exact Hb|exact Hib]).
      assert (Hss' : ss_ok (v_ss s')) by (destruct Hb as (evs & _ & _ & _ & _ & _ & _ & K); apply K; exact Hss).
      destruct (IH s' Hib' Hss') as (p' & H1 & H2). exists p'.
      split; [eapply devs_trans; [apply devs_any_err; exact Hb|exact H1]|exact H2].
    + exists 0. cbn [fst snd is_pending negb]. split; [apply devs_refl|left; reflexivity].
Qed.

(* the state a poll starts from: nothing emitted yet *)
Definition poll_reset (s : vsock) : vsock := set_arm_in (set_wakes (set_out s []) []) None.

Theorem poll_ev (s : vsock) :
  ss_ok (v_ss s) -> poll_post (v_inbox s) (poll_reset s) (poll cci s).
Proof.
  intro Hss. unfold poll. apply (poll_loop_ev (v_inbox s) 64 (poll_reset s)).
  - unfold poll_reset; vsimpl. apply incl_refl.
  - unfold poll_reset; vsimpl. exact Hss.
Qed.

End WalkPoll.

(* C01 lift: the hypotheses of pair_trace_prefix are satisfiable.  On the two recorded pair traces
   (a 3000-byte transfer with loss and a closed message channel; the KF1 trace) the configuration
   is valid and the direction A -> B is live at every step; on the first one B reads 528 bytes of the
   3000 written.  (On the KF1 trace the prefix property fails: by pair_trace_prefix the data-path run
   that matches it cannot be guarded.) *)
From Utp Require Import Base.Prelude Wire.SeqNr Conn.Msg Conn.VSockRec Conn.VSock Conn.VSockRun Conn.VSock_Inv
  Rx.Rx Tx.Ring Pair.Pair Pair.DP Pair.DP_Witness Pair.Pair_Proofs Pair.Pair_Refine Pair.Pair_RefineTrace.

Lemma live_run_nonvacuous :
  exists s0 : pair (CC := unit),
    pair_new (fixed_cc 100000) (fun _ _ => tt) d17_cfg = Some s0 /\
    pconfig_ok d17_cfg = true /\
    live_run (fixed_cc 100000) SA s0 d17_pair_ops = true /\
    ha_len (p_rb (prun (fixed_cc 100000) s0 d17_pair_ops)) = 528 /\
    ha_len (p_wa (prun (fixed_cc 100000) s0 d17_pair_ops)) = 3000.
Proof.
  destruct (pair_new (fixed_cc 100000) (fun _ _ => tt) d17_cfg) as [s0|] eqn:E; [|vm_compute in E; discriminate].
  exists s0. split; [reflexivity|].
  vm_compute in E. injection E as <-. vm_compute. repeat split.
Qed.

Lemma live_run_kf1 :
  exists s0 : pair (CC := unit),
    pair_new (fixed_cc 100000) (fun _ _ => tt) kf1_cfg = Some s0 /\
    pconfig_ok kf1_cfg = true /\
    live_run (fixed_cc 100000) SA s0 kf1_pair_ops = true /\
    live_run (fixed_cc 100000) SB s0 kf1_pair_ops = true.
Proof.
  destruct (pair_new (fixed_cc 100000) (fun _ _ => tt) kf1_cfg) as [s0|] eqn:E; [|vm_compute in E; discriminate].
  exists s0. split; [reflexivity|].
  vm_compute in E. injection E as <-. vm_compute. repeat split.
Qed.

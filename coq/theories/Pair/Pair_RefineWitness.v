(* C01 lift: the hypotheses of pair_trace_prefix are satisfiable.  On the two recorded pair traces
   (a 3000-byte transfer with loss and a closed message channel; the KF1 trace) the configuration
   is valid and the direction A -> B is live at every step; on the first one B reads 528 bytes of the
   3000 written.  (On the KF1 trace the prefix property fails: by pair_trace_prefix the data-path run
   that matches it cannot be guarded.) *)
From Utp Require Import Base.Prelude Wire.SeqNr Conn.Msg Conn.VSockRec Conn.VSock Conn.VSockRun Conn.VSock_Inv
  Rx.Rx Tx.Ring Pair.Pair Pair.DP Pair.DP_Witness Pair.Pair_Proofs Pair.Pair_Refine Pair.Pair_RefineTrace.

Lemma live_run_nonvacuous :
  exists s0 : pair (CC := unit),
    pair_new (fixed_cc 100000) (fun _ _ => tt) d17_cfg = Some s0 /\
    pconfig_ok d17_cfg = true /\
    live_run (fixed_cc 100000) SA s0 d17_pair_ops = true /\
    ha_len (p_rb (prun (fixed_cc 100000) s0 d17_pair_ops)) = 528 /\
    ha_len (p_wa (prun (fixed_cc 100000) s0 d17_pair_ops)) = 3000.
Proof.
  destruct (pair_new (fixed_cc 100000) (fun _ _ => tt) d17_cfg) as [s0|] eqn:E; [|vm_compute in E; discriminate].
  exists s0. split; [reflexivity|].
  vm_compute in E. injection E as <-. vm_compute. repeat split.
Qed.

Lemma live_run_kf1 :
  exists s0 : pair (CC := unit),
    pair_new (fixed_cc 100000) (fun _ _ => tt) kf1_cfg = Some s0 /\
    pconfig_ok kf1_cfg = true /\
    live_run (fixed_cc 100000) SA s0 kf1_pair_ops = true /\
    live_run (fixed_cc 100000) SB s0 kf1_pair_ops = true.
Proof.
  destruct (pair_new (fixed_cc 100000) (fun _ _ => tt) kf1_cfg) as [s0|] eqn:E; [|vm_compute in E; discriminate].
  exists s0. split; [reflexivity|].
  vm_compute in E. injection E as <-. vm_compute. repeat split.
Qed.

(* ------------------------------------------------------------------ the KF1 classifier is incomplete
   A variant of KF1 with a DELAYED (not lost) acknowledgement: segments 101 (528 bytes) and 102 (MTU
   probe, 991 bytes) reach B; B's ACK 102 stays in flight; A's retransmission timer fires in a poll in
   which the transport answers Pending: the probe is popped and its bytes re-segmented as 102 (528) and
   103 (528), nothing is sent.  Then the old ACK 102 reaches A: remove_up_to_ack takes it for the NEW
   102, which was never sent, and truncates 528 + 528 bytes; A sends 103 = W[1056, 1584); B, which has
   consumed the old 102 = W[528, 1519), accepts it as the next segment and the reader sees
   W[1056, 1519) twice.  No sequence number is ever emitted with two different lengths, so the
   classifier c01_kf1_class does not recognise the trace and the guarded predicate c01_pair_guarded is
   FALSE on it.  (The data-path guard d_clean does flag it: the probe is popped while the receiver
   holds its index; the direction is live throughout, so pair_trace_prefix applies.) *)
Definition kf1_delayed_ack_ops : list pop :=
  [PoApp SA (AWrite (wpattern 1980)); PoPoll SA []; PoDeliver SA 0; PoDeliver SA 0; PoPoll SB [];
   PoDrop SB 0; PoNow 50000000; PoPoll SB []; PoNow 1500000000; PoPoll SA [TPending];
   PoDeliver SB 0; PoPoll SA []; PoDeliver SA 0; PoDeliver SA 0; PoDeliver SA 0; PoPoll SB [];
   PoApp SB (ARead 5000)].

Lemma c01_pair_guarded_refuted :
  exists s0 : pair (CC := unit),
    pair_new (fixed_cc 100000) (fun _ _ => tt) kf1_cfg = Some s0 /\
    pconfig_ok kf1_cfg = true /\
    live_run (fixed_cc 100000) SA s0 kf1_delayed_ack_ops = true /\
    let tr := ptrace (fixed_cc 100000) s0 kf1_delayed_ack_ops in
    let evs := pevents (fixed_cc 100000) s0 kf1_delayed_ack_ops in
    c01_pair_ok (zip_obs kf1_delayed_ack_ops tr) = false /\ c01_kf1_class evs = false /\
    c01_d17_class evs = false /\
    c01_pair_guarded evs (zip_obs kf1_delayed_ack_ops tr) = false /\
    evs = [KeEmit SA 101 528; KeEmit SA 102 991; KeDeliver SA 101 528; KeDeliver SA 102 991;
           KeEmit SA 103 528; KeDeliver SA 103 528] /\
    ha_len (p_rb (prun (fixed_cc 100000) s0 kf1_delayed_ack_ops)) = 2047 /\
    ha_len (p_wa (prun (fixed_cc 100000) s0 kf1_delayed_ack_ops)) = 1980.
Proof.
  destruct (pair_new (fixed_cc 100000) (fun _ _ => tt) kf1_cfg) as [s0|] eqn:E; [|vm_compute in E; discriminate].
  exists s0. split; [reflexivity|].
  vm_compute in E. injection E as <-. vm_compute. repeat split.
Qed.

(* ------------------------------------------------------------------ the widened class (Pair/C01_Pred2.v)
   recognises the delayed-ACK trace and the original KF1 trace (by the pop alone), and not the lossy
   3000-byte transfer, on which the guarded predicate holds without excuse. *)
From Utp Require Import Conn.VObs Pair.C01_Pred2.

Lemma c01_kf1_class2_witnesses :
  (exists s0 : pair (CC := unit),
     pair_new (fixed_cc 100000) (fun _ _ => tt) kf1_cfg = Some s0 /\
     let tr := ptrace (fixed_cc 100000) s0 kf1_delayed_ack_ops in
     let evs := pevents (fixed_cc 100000) s0 kf1_delayed_ack_ops in
     let fps := pair_fps (fixed_cc 100000) s0 tr in
     c01_kf1_class evs = false /\ c01_kf1_popped_dir SA fps evs = true /\ c01_kf1_class2 fps evs = true /\
     pops_of SA fps = [(102, 991)] /\
     c01_pair_guarded2 fps evs (zip_obs kf1_delayed_ack_ops tr) = true) /\
  (exists s0 : pair (CC := unit),
     pair_new (fixed_cc 100000) (fun _ _ => tt) kf1_cfg = Some s0 /\
     let tr := ptrace (fixed_cc 100000) s0 kf1_pair_ops in
     let evs := pevents (fixed_cc 100000) s0 kf1_pair_ops in
     let fps := pair_fps (fixed_cc 100000) s0 tr in
     c01_kf1_class evs = true /\ c01_kf1_popped_dir SA fps evs = true /\ c01_kf1_class2 fps evs = true /\
     c01_pair_guarded2 fps evs (zip_obs kf1_pair_ops tr) = true) /\
  (exists s0 : pair (CC := unit),
     pair_new (fixed_cc 100000) (fun _ _ => tt) d17_cfg = Some s0 /\
     let tr := ptrace (fixed_cc 100000) s0 d17_pair_ops in
     let evs := pevents (fixed_cc 100000) s0 d17_pair_ops in
     let fps := pair_fps (fixed_cc 100000) s0 tr in
     c01_kf1_class2 fps evs = false /\ c01_pair_ok (zip_obs d17_pair_ops tr) = true /\
     c01_pair_guarded2 fps evs (zip_obs d17_pair_ops tr) = true).
Proof.
  split; [|split].
  - destruct (pair_new (fixed_cc 100000) (fun _ _ => tt) kf1_cfg) as [s0|] eqn:E; [|vm_compute in E; discriminate].
    exists s0. split; [reflexivity|]. vm_compute in E. injection E as <-. vm_compute. repeat split.
  - destruct (pair_new (fixed_cc 100000) (fun _ _ => tt) kf1_cfg) as [s0|] eqn:E; [|vm_compute in E; discriminate].
    exists s0. split; [reflexivity|]. vm_compute in E. injection E as <-. vm_compute. repeat split.
  - destruct (pair_new (fixed_cc 100000) (fun _ _ => tt) d17_cfg) as [s0|] eqn:E; [|vm_compute in E; discriminate].
    exists s0. split; [reflexivity|]. vm_compute in E. injection E as <-. vm_compute. repeat split.
Qed.

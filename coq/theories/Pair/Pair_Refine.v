(* C01, the lift from the data-path system DP (Pair/DP.v) to the connection model: DATA EVENTS.

   What one VirtualSocket::poll does to the objects that carry bytes (its ring and segment table as
   a sender; its receiver and ack counter as a receiver; the data packets it emits) is a list of
   primitive DATA EVENTS `dev`, applied in order to the data view `dst` of the connection
   (Pair_RefineWalk*.v prove this, function by function, for the whole of poll).  The events of
   the sender side are the data-path ops of DP on (d_tx, d_segs, d_net), those of the receiver
   side the ops on (d_rx, d_lc) (Pair_RefineSim.v).  This file: the events, their semantics, the
   relation `devs` ("s' is reached from s by data events") and its algebra.

   x_pend: bytes acknowledged by messages already processed in this poll but not yet removed from
   the ring (process_all_incoming_messages calls remove_up_to_ack per message and truncate_front
   once at the end; DP's DAck does both at once). *)
From Utp Require Import Base.Prelude Wire.SeqNr Wire.Header Rtt.Rtte Mtu.SegSizes Rx.Rx Tx.Ring
  Tx.Segments Conn.Recovery Conn.Msg Conn.VSockRec Conn.VSock Conn.VSockRun Conn.VSock_Inv Pair.DP.

Arguments SOk {CC A}. Arguments SErr {CC A}. Arguments SPanic {CC A}.

Record dst := mk_dst {
  x_tx : tx; x_segs : segments; x_rx : rx; x_lc : Z;
  x_out : list (Z * list Z);        (* (seq, payload) of the data packets emitted, newest first *)
  x_pend : Z;
}.

Inductive dev :=
| EvTxFlag (o : tx_op)                 (* mark closed, wake the writer: independent of the ring content *)
| EvRegister                           (* register_dispatcher_if_empty *)
| EvGrow (mx : Z)
| EvAck (now ack : Z) (sk : option sackbits)
| EvTrunc
| EvPipe (hr hd rtt now : Z)
| EvPopExpired (timed_out : bool) (max_retx : Z)
| EvPopProbe (seq : Z)
| EvEnqueue (len : Z) (probe : bool)
| EvSend (i : nat) (now : Z)
| EvData (seq : Z) (payload : list Z)
| EvFin (seq : Z) (payload : list Z)
| EvFlush
| EvRxFlag (o : rx_op)
| EvRxErr.

Definition tx_skip (t : tx) (p : Z) : tx := fst (truncate_front t p).

Definition set_xtx (st : dst) (t : tx) : dst :=
  mk_dst t (x_segs st) (x_rx st) (x_lc st) (x_out st) (x_pend st).
Definition set_xsegs (st : dst) (sg : segments) : dst :=
  mk_dst (x_tx st) sg (x_rx st) (x_lc st) (x_out st) (x_pend st).
Definition set_xrx (st : dst) (r : rx) : dst :=
  mk_dst (x_tx st) (x_segs st) r (x_lc st) (x_out st) (x_pend st).

(* ring operations whose effect does not depend on the ring content (they commute with the pending
   truncation) *)
Definition pend_safe_op (o : tx_op) : bool :=
  match o with ToMarkClosed | ToWakeWriter | ToDropWriter => true | _ => false end.

(* the receiver's reaction to one ST_DATA message: exactly DP's DDeliver *)
Definition data_apply (r : rx) (lc seq : Z) (payload : list Z) : rx * Z :=
  let off := seq_sub seq (wadd16 lc 1) in
  if off <? 0 then (r, lc)
  else
    let '(r1, ar, _) := rx_add_remove r KData payload off in
    match ar with
    | UarOk (ArConsumed n _) => (r1, wadd16 lc (n mod M16))
    | _ => (r1, lc)
    end.

Definition dapply (st : dst) (e : dev) : dst :=
  match e with
  | EvTxFlag o => if pend_safe_op o then let '(t, _, _) := tx_step (x_tx st) o in set_xtx st t else st
  | EvRegister => if x_pend st =? 0 then set_xtx st (register_dispatcher_if_empty (x_tx st)) else st
  | EvGrow mx => let '(t, _) := grow (x_tx st) mx in set_xtx st t
  | EvAck now ack sk =>
      let '(sg, res) := remove_up_to_ack (x_segs st) now ack sk in
      mk_dst (x_tx st) sg (x_rx st) (x_lc st) (x_out st) (x_pend st + ar_acked_bytes res)
  | EvTrunc => mk_dst (tx_skip (x_tx st) (x_pend st)) (x_segs st) (x_rx st) (x_lc st) (x_out st) 0
  | EvPipe hr hd rtt now =>
      match calc_pipe (x_segs st) hr hd rtt now with
      | Some (sg, _, _) => set_xsegs st sg
      | None => st
      end
  | EvPopExpired to mr =>
      let '(sg, pe) := pop_expired_mtu_probe (x_segs st) to mr in
      match pe with PeExpired _ _ => set_xsegs st sg | _ => st end
  | EvPopProbe seq =>
      let '(sg, popped) := pop_mtu_probe (x_segs st) seq in
      if popped then set_xsegs st sg else st
  | EvEnqueue len probe =>
      if (x_pend st =? 0) && (0 <? len) &&
         (len <=? Z.of_nat (length (ring (x_tx st))) - ss_len_bytes (x_segs st))
      then set_xsegs st (enqueue (x_segs st) len probe) else st
  | EvSend i now =>
      if negb (x_pend st =? 0) then st
      else
        match nth_error (iter_for_sending (x_segs st) None) i with
        | None => st
        | Some f =>
            let off := fs_payload_offset f in
            let plen := sg_size (fs_seg f) in
            let ringlen := Z.of_nat (length (ring (x_tx st))) in
            if (off <? 0) || (ringlen <? off) || (ringlen <? off + plen) then st
            else
              mk_dst (x_tx st) (on_sent (x_segs st) (fs_idx f) now) (x_rx st) (x_lc st)
                     ((fs_seq f, firstn (Z.to_nat plen) (skipn (Z.to_nat off) (ring (x_tx st)))) :: x_out st)
                     (x_pend st)
        end
  | EvData seq payload =>
      let '(r, lc) := data_apply (x_rx st) (x_lc st) seq payload in
      mk_dst (x_tx st) (x_segs st) r lc (x_out st) (x_pend st)
  | EvFin seq payload =>
      let '(r, _, _) := rx_add_remove (x_rx st) KFin payload (seq_sub seq (wadd16 (x_lc st) 1)) in
      mk_dst (x_tx st) (x_segs st) r seq (x_out st) (x_pend st)
  | EvFlush => let '(r, _, _) := rx_flush (x_rx st) in set_xrx st r
  | EvRxFlag o => if is_flag_rx_op o then let '(r, _, _) := rx_step (x_rx st) o in set_xrx st r else st
  | EvRxErr => set_xrx st (fst (rx_enqueue_error (x_rx st)))
  end.

Fixpoint drun (st : dst) (evs : list dev) : dst :=
  match evs with [] => st | e :: r => drun (dapply st e) r end.

Lemma drun_app : forall a b st, drun st (a ++ b) = drun (drun st a) b.
Proof. induction a as [|e a IH]; intros b st; cbn [drun app]; [reflexivity|apply IH]. Qed.

(* events that end the simulation of the receiver by DP: the peer's FIN was accepted (DP has no
   end-of-stream marker), an error was queued for the reader (the connection died) *)
Definition is_fin_ev (e : dev) : bool := match e with EvFin _ _ => true | _ => false end.
Definition is_err_ev (e : dev) : bool := match e with EvRxErr => true | _ => false end.

(* the data packets among the datagrams emitted *)
Definition data_view (out : list packet) : list (Z * list Z) :=
  flat_map (fun pk => match ch_type (p_hdr pk) with
                      | ST_DATA => [(ch_seq (p_hdr pk), p_payload pk)]
                      | _ => []
                      end) out.

Definition is_data_msg (m : msg) (seq : Z) (payload : list Z) : Prop :=
  ch_type (m_hdr m) = ST_DATA /\ ch_seq (m_hdr m) = seq /\ m_payload m = payload.

(* a data event comes from a message of the inbox *)
Definition ev_src (inbox : list msg) (e : dev) : Prop :=
  match e with
  | EvData seq payload => exists m, In m inbox /\ is_data_msg m seq payload
  | _ => True
  end.

Lemma ev_src_incl a b e : incl a b -> ev_src a e -> ev_src b e.
Proof.
  intros Hi. destruct e; cbn [ev_src]; auto. intros (m & Hm & Hd). exists m. split; [apply Hi; exact Hm|exact Hd].
Qed.

Section Devs.
Context {CC : Type}.
Notation vsock := (vsock CC).

Definition dview_of (p : Z) (s : vsock) : dst :=
  mk_dst (v_tx s) (v_segs s) (v_rx s) (v_last_consumed s) (data_view (v_out s)) p.

Definition rfin (s : vsock) : bool := is_remote_fin_or_later (v_state s).

(* s' is reached from s by a list of data events.  ib = the messages the delivery events may come
   from, err = the list may contain EvRxErr. *)
Definition devs (ib : list msg) (err : bool) (p : Z) (s : vsock) (p' : Z) (s' : vsock) : Prop :=
  exists evs,
    dview_of p' s' = drun (dview_of p s) evs /\
    Forall (ev_src ib) evs /\
    (exists pre, v_inbox s = pre ++ v_inbox s') /\
    (rfin s = true -> rfin s' = true) /\
    (existsb is_fin_ev evs = true -> rfin s' = true) /\
    (existsb is_err_ev evs = true -> err = true) /\
    (ss_ok (v_ss s) -> ss_ok (v_ss s')).

Lemma devs_refl ib err p s : devs ib err p s p s.
Proof.
  exists []. cbn [drun existsb].
  split; [reflexivity|]. split; [constructor|]. split; [exists []; reflexivity|].
  split; [auto|]. split; [discriminate|]. split; [discriminate|auto].
Qed.

Lemma devs_trans ib err p0 s0 p1 s1 p2 s2 :
  devs ib err p0 s0 p1 s1 -> devs ib err p1 s1 p2 s2 -> devs ib err p0 s0 p2 s2.
Proof.
  intros (e1 & A1 & A2 & (pre1 & A3) & A4 & A5 & A6 & A7) (e2 & B1 & B2 & (pre2 & B3) & B4 & B5 & B6 & B7).
  exists (e1 ++ e2). rewrite drun_app, <- A1, <- B1.
  split; [reflexivity|]. split; [apply Forall_app; split; assumption|].
  split; [exists (pre1 ++ pre2); rewrite A3, B3, app_assoc; reflexivity|].
  split; [auto|]. split.
  { rewrite existsb_app. intro H. apply orb_true_iff in H. destruct H as [H|H]; auto. }
  split; [rewrite existsb_app; intro H; apply orb_true_iff in H; destruct H as [H|H]; auto|auto].
Qed.

Lemma devs_weaken ib p s p' s' : devs ib false p s p' s' -> devs ib true p s p' s'.
Proof.
  intros (e & A1 & A2 & A3 & A4 & A5 & A6 & A7). exists e.
  split; [exact A1|]. split; [exact A2|]. split; [exact A3|]. split; [exact A4|]. split; [exact A5|].
  split; [reflexivity|exact A7].
Qed.

Lemma devs_ib_mono ib ib' err p s p' s' : incl ib ib' -> devs ib err p s p' s' -> devs ib' err p s p' s'.
Proof.
  intros Hi (e & A1 & A2 & A3 & A4 & A5 & A6 & A7). exists e.
  split; [exact A1|]. split; [eapply Forall_impl; [|exact A2]; intro x; apply ev_src_incl; exact Hi|].
  split; [exact A3|]. split; [exact A4|]. split; [exact A5|]. split; [exact A6|exact A7].
Qed.

(* a step that leaves the data view alone *)
Definition same_view (s s' : vsock) : Prop :=
  v_tx s' = v_tx s /\ v_segs s' = v_segs s /\ v_rx s' = v_rx s /\ v_last_consumed s' = v_last_consumed s /\
  data_view (v_out s') = data_view (v_out s) /\ v_inbox s' = v_inbox s /\ v_ss s' = v_ss s.

Lemma same_view_refl s : same_view s s.
Proof. unfold same_view. repeat split. Qed.

Lemma same_view_trans a b c : same_view a b -> same_view b c -> same_view a c.
Proof.
  unfold same_view. intros (A1 & A2 & A3 & A4 & A5 & A6 & A7) (B1 & B2 & B3 & B4 & B5 & B6 & B7).
  repeat split; congruence.
Qed.

Lemma devs_same ib err p s s' :
  same_view s s' -> (rfin s = true -> rfin s' = true) -> devs ib err p s p s'.
Proof.
  intros (A1 & A2 & A3 & A4 & A5 & A6 & A7) Hf. exists []. cbn [drun existsb].
  split; [unfold dview_of; rewrite A1, A2, A3, A4, A5; reflexivity|].
  split; [constructor|]. split; [exists []; rewrite A6; reflexivity|].
  split; [exact Hf|]. split; [discriminate|]. split; [discriminate|]. rewrite A7. auto.
Qed.

Lemma devs_same_state ib err p s s' :
  same_view s s' -> v_state s' = v_state s -> devs ib err p s p s'.
Proof. intros H Hs. apply devs_same; [exact H|]. unfold rfin. rewrite Hs. auto. Qed.

(* one event; a delivery must come from ib, a FIN event must leave the state after the remote FIN *)
Lemma devs_one ib err e p s p' s' :
  dview_of p' s' = dapply (dview_of p s) e ->
  ev_src ib e -> (is_fin_ev e = true -> rfin s' = true) -> (is_err_ev e = true -> err = true) ->
  v_inbox s' = v_inbox s -> (rfin s = true -> rfin s' = true) -> (ss_ok (v_ss s) -> ss_ok (v_ss s')) ->
  devs ib err p s p' s'.
Proof.
  intros H Hsrc Hf He Hi Hr Hss. exists [e]. cbn [drun existsb]. rewrite !orb_false_r.
  split; [exact H|]. split; [constructor; [exact Hsrc|constructor]|].
  split; [exists []; rewrite Hi; reflexivity|]. split; [exact Hr|]. split; [exact Hf|].
  split; [exact He|exact Hss].
Qed.

(* "s' is reached from s by data events that are no deliveries, outside
   process_all_incoming_messages" *)
Definition D0 (s s' : vsock) : Prop := forall ib, devs ib false 0 s 0 s'.

Lemma D0_refl s : D0 s s.
Proof. intro ib. apply devs_refl. Qed.
Lemma D0_trans a b c : D0 a b -> D0 b c -> D0 a c.
Proof. intros H1 H2 ib. eapply devs_trans; [apply H1|apply H2]. Qed.

(* ------------------------------------------------------------------ a triple for the step monad *)
Definition stp {A} (m : step (CC:=CC) A) (Q : vsock -> A -> Prop) (E : vsock -> Prop) : Prop :=
  match m with SOk s a => Q s a | SErr s e => E s | SPanic => True end.

Lemma stp_bind {A B} (m : step A) (f : vsock -> A -> step B) Q1 Q2 E :
  stp m Q1 E -> (forall s a, Q1 s a -> stp (f s a) Q2 E) -> stp (sbind m f) Q2 E.
Proof. destruct m as [s a|s e|]; cbn [stp sbind]; auto. Qed.

Lemma stp_bind' {A B} (m : step A) (f : vsock -> A -> step B) Q1 Q2 (E1 E : vsock -> Prop) :
  stp m Q1 E1 -> (forall s, E1 s -> E s) -> (forall s a, Q1 s a -> stp (f s a) Q2 E) -> stp (sbind m f) Q2 E.
Proof. destruct m as [s a|s e|]; cbn [stp sbind]; auto. Qed.

Lemma stp_weaken {A} (m : step A) (Q1 Q2 : vsock -> A -> Prop) (E1 E2 : vsock -> Prop) :
  stp m Q1 E1 -> (forall s a, Q1 s a -> Q2 s a) -> (forall s, E1 s -> E2 s) -> stp m Q2 E2.
Proof. destruct m as [s a|s e|]; cbn [stp]; auto. Qed.

End Devs.

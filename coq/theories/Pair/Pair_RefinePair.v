(* C01 lift: every step of the PAIR model (Pair/Pair.v) refines a list of data-path ops.

   psim isn ti sd s d: for the direction whose writer is the endpoint `sd`, the data-path state d
   has the writer's ring and segment table, the reader's receiver and ack counter, and its bag holds
   every data packet that is in flight from the writer or waits in the reader's inbox.
   pstep_refines: each pair op (clock, hole, application op of either endpoint, poll of either
   endpoint, deliver / drop / duplicate) maps to a list of DP ops that re-establishes psim, as long
   as the direction is LIVE after the step: the reader's future is not gone and the reader has not
   accepted the writer's FIN (DP has no end-of-stream marker; see the report). *)
From Utp Require Import Base.Prelude Wire.SeqNr Wire.Header Rtt.Rtte Mtu.SegSizes Rx.Rx Rx.Rx_Proofs Tx.Ring
  Tx.Ring_Proofs Tx.Segments Tx.Segments_Proofs Conn.Recovery Conn.Msg Conn.VSockRec Conn.VSock Conn.VSockRun
  Conn.VSock_Inv Pair.Pair Pair.DP Pair.DP_Lemmas Pair.DP_Proofs Pair.DP_RxProofs
  Pair.Pair_Refine Pair.Pair_RefineWalk Pair.Pair_RefineWalkPoll Pair.Pair_RefineSim.

(* ------------------------------------------------------------------ application ops on a closed ring *)
Lemma closed_write_skip t p buf :
  t_vsock_closed t = true ->
  fst (fst (tx_step (tx_skip t p) (ToWrite buf))) = tx_skip (fst (fst (tx_step t (ToWrite buf)))) p.
Proof.
  intro Hc. destruct (tx_skip_fields t p) as (A1 & A2 & A3 & A4 & A5 & A6 & A7 & A8 & A9 & A10).
  cbn [tx_step]. rewrite A4. destruct (writer_dropped t) eqn:Ewd; cbn [fst]; [reflexivity|].
  unfold poll_write. rewrite A8, A3, Hc. destruct (YIELD_EVERY <? written_without_yield t); cbn [fst]; [|reflexivity].
  match goal with |- _ = tx_skip ?T p => destruct (tx_skip_fields T p) as (B1 & B2 & B3 & B4 & B5 & B6 & B7 & B8 & B9 & B10) end.
  cbn [upd ring cap t_vsock_closed writer_dropped writer_shutdown t_disp_waker writer_waker
       written_without_yield g_written g_removed] in *.
  apply tx_eq; cbn [upd ring cap t_vsock_closed writer_dropped writer_shutdown t_disp_waker writer_waker
       written_without_yield g_written g_removed]; congruence.
Qed.

Lemma closed_flush_same t : t_vsock_closed t = true -> fst (fst (tx_step t ToFlush)) = t.
Proof.
  intro Hc. cbn [tx_step]. destruct (writer_dropped t); cbn [fst]; [reflexivity|].
  unfold poll_flush. destruct (ring t); cbn [fst]; [reflexivity|]. rewrite Hc. reflexivity.
Qed.

Lemma closed_shutdown_same t : t_vsock_closed t = true -> fst (fst (tx_step t ToShutdown)) = t.
Proof.
  intro Hc. cbn [tx_step]. destruct (writer_dropped t); cbn [fst]; [reflexivity|].
  unfold poll_shutdown. destruct (ring t); rewrite Hc; reflexivity.
Qed.

Lemma skip_closed t p : t_vsock_closed (tx_skip t p) = t_vsock_closed t.
Proof. destruct (tx_skip_fields t p) as (_ & _ & H & _). exact H. Qed.

Section PairRefine.
Context {CC : Type} (cci : cc_iface CC).
Notation vsock := (vsock CC).
Notation pair := (pair (CC:=CC)).

Definition pkt_in_net (d : dp) (hdr : chdr) (payload : list Z) : Prop :=
  ch_type hdr = ST_DATA -> in_net d (ch_seq hdr, payload).

(* the relation, by roles: writer w, reader r, datagrams in flight from w, "w's future is gone" *)
Record psimr (isn ti : Z) (w r : vsock) (nt : list packet) (finw : bool) (d : dp) : Prop := {
  ps_inv : dp_tx_inv isn ti d;
  ps_segs : d_segs d = v_segs w;
  ps_tx : exists p, 0 <= p /\ d_tx d = tx_skip (v_tx w) p /\
                    (p = 0 \/ (t_vsock_closed (v_tx w) = true /\ finw = true));
  ps_rx : d_rx d = v_rx r;
  ps_lc : d_lc d = v_last_consumed r;
  ps_net : Forall (fun pk => pkt_in_net d (p_hdr pk) (p_payload pk)) nt;
  ps_inbox : Forall (fun m => pkt_in_net d (m_hdr m) (m_payload m)) (v_inbox r);
  ps_ssw : ss_ok (v_ss w);
  ps_ssr : ss_ok (v_ss r);
}.

Definition psim (isn ti : Z) (sd : side) (s : pair) (d : dp) : Prop :=
  psimr isn ti (ep s sd) (ep s (other sd)) (net_from s sd) (fin_of s sd) d.

Lemma pkt_in_net_mono d d' h pl :
  (exists new, d_net d' = d_net d ++ new) -> pkt_in_net d h pl -> pkt_in_net d' h pl.
Proof. intros Hn H Hty. eapply in_net_frame; [exact Hn|apply H; exact Hty]. Qed.

(* a writer that changes nothing the relation looks at *)
Lemma psimr_writer_same isn ti w w' r nt finw d :
  psimr isn ti w r nt finw d -> v_tx w' = v_tx w -> v_segs w' = v_segs w -> v_ss w' = v_ss w ->
  psimr isn ti w' r nt finw d.
Proof. intros [I1 I2 I3 I4 I5 I6 I7 I8 I9] E1 E2 E3. constructor; rewrite ?E1, ?E2, ?E3; assumption. Qed.

Lemma psimr_reader_same isn ti w r r' nt finw d :
  psimr isn ti w r nt finw d -> v_rx r' = v_rx r -> v_last_consumed r' = v_last_consumed r ->
  v_inbox r' = v_inbox r -> v_ss r' = v_ss r -> psimr isn ti w r' nt finw d.
Proof. intros [I1 I2 I3 I4 I5 I6 I7 I8 I9] E1 E2 E3 E4. constructor; rewrite ?E1, ?E2, ?E3, ?E4; assumption. Qed.

Lemma psimr_net_sub isn ti w r nt nt' finw d :
  psimr isn ti w r nt finw d -> (forall x, In x nt' -> In x nt) -> psimr isn ti w r nt' finw d.
Proof.
  intros [I1 I2 I3 I4 I5 I6 I7 I8 I9] Hs. constructor; try assumption.
  rewrite Forall_forall in *. intros x Hx. apply I6. apply Hs. exact Hx.
Qed.

Lemma psimr_fin isn ti w r nt d : psimr isn ti w r nt false d -> psimr isn ti w r nt true d.
Proof.
  intros [I1 I2 I3 I4 I5 I6 I7 I8 I9]. constructor; try assumption.
  destruct I3 as (p & P1 & P2 & [P3|[_ P3]]); [|discriminate]. exists p. auto.
Qed.

(* ------------------------------------------------------------------ application ops *)
(* a sender-side DP op that maps the ring as the model does *)
Lemma psimr_tx_op isn ti w r nt finw d (tx' : tx) (o : dop) :
  psimr isn ti w r nt finw d ->
  (forall p, d_tx d = tx_skip (v_tx w) p -> (p = 0 \/ t_vsock_closed (v_tx w) = true) ->
             dp_step d o = set_dtx d (tx_skip tx' p)) ->
  (t_vsock_closed (v_tx w) = true -> t_vsock_closed tx' = true) ->
  psimr isn ti (set_tx w tx') r nt finw (dp_run d [o]).
Proof.
  intros [I1 I2 I3 I4 I5 I6 I7 I8 I9] Hstep Hcl. destruct I3 as (p & P1 & P2 & P3).
  assert (Hs : dp_step d o = set_dtx d (tx_skip tx' p)).
  { apply Hstep; [exact P2|]. destruct P3 as [P3|[P3 _]]; auto. }
  cbn [dp_run]. constructor.
  - apply dp_step_tx_inv. exact I1.
  - rewrite Hs. unfold set_dtx; dsimpl. vsimpl. exact I2.
  - exists p. rewrite Hs. unfold set_dtx; dsimpl. vsimpl. split; [exact P1|]. split; [reflexivity|].
    destruct P3 as [P3|[P3 P4]]; [left; exact P3|right; split; [apply Hcl; exact P3|exact P4]].
  - rewrite Hs. unfold set_dtx; dsimpl. exact I4.
  - rewrite Hs. unfold set_dtx; dsimpl. exact I5.
  - rewrite Hs. unfold set_dtx; dsimpl. exact I6.
  - rewrite Hs. unfold set_dtx; dsimpl. exact I7.
  - vsimpl. exact I8.
  - exact I9.
Qed.

Lemma writer_app_refines isn ti w r nt finw d (a : aop) w' out dw sw :
  psimr isn ti w r nt finw d -> vstep cci w (vop_of_aop a) = (w', out, dw, sw) ->
  exists dops, psimr isn ti w' r nt finw (dp_run d dops).
Proof.
  intros H. destruct a; cbn [vop_of_aop vstep].
  - (* write *)
    destruct (writer_dropped (v_tx w)) eqn:Ewd.
    { intro E; injection E as <- _ _ _. exists []. exact H. }
    destruct (poll_write (v_tx w) buf) as [[tx1 r1] w1] eqn:Ew. intro E; injection E as <- _ _ _.
    exists [DWrite buf]. apply psimr_tx_op; [exact H| |].
    + intros p Hp Hc. cbn [dp_step]. rewrite Hp.
      assert (Hfst : fst (fst (tx_step (tx_skip (v_tx w) p) (ToWrite buf))) = tx_skip tx1 p).
      { destruct Hc as [->|Hc].
        - rewrite !tx_skip_0. cbn [tx_step]. rewrite Ewd, Ew. reflexivity.
        - rewrite closed_write_skip by exact Hc. cbn [tx_step]. rewrite Ewd, Ew. reflexivity. }
      destruct (tx_step (tx_skip (v_tx w) p) (ToWrite buf)) as [[t1 o1] ww]. cbn [fst] in Hfst. rewrite Hfst. reflexivity.
    + intro Hc. unfold poll_write in Ew. rewrite Hc in Ew.
      destruct (YIELD_EVERY <? _); injection Ew as <- _ _; cbn [upd t_vsock_closed]; first [exact Hc|reflexivity].
  - (* read: the writer's own receiver is not part of this direction *)
    destruct (reader_dropped (v_rx w)); [intro E; injection E as <- _ _ _; exists []; exact H|].
    destruct (rx_read (v_rx w) n) as [[rx1 r1] w1]. intro E; injection E as <- _ _ _.
    exists []. eapply psimr_writer_same; [exact H| | |]; vsimpl; reflexivity.
  - (* flush *)
    destruct (writer_dropped (v_tx w)) eqn:Ewd.
    { intro E; injection E as <- _ _ _. exists []. exact H. }
    destruct (poll_flush (v_tx w)) as [[tx1 r1] w1] eqn:Ew. intro E; injection E as <- _ _ _.
    exists [DTxFlag ToFlush]. apply psimr_tx_op; [exact H| |].
    + intros p Hp Hc. cbn [dp_step is_flag_tx_op]. rewrite Hp.
      assert (Hfst : fst (fst (tx_step (tx_skip (v_tx w) p) ToFlush)) = tx_skip tx1 p).
      { destruct Hc as [->|Hc].
        - rewrite !tx_skip_0. cbn [tx_step]. rewrite Ewd, Ew. reflexivity.
        - rewrite closed_flush_same by (rewrite skip_closed; exact Hc).
          pose proof (closed_flush_same _ Hc) as H1. cbn [tx_step] in H1. rewrite Ewd, Ew in H1. cbn [fst] in H1.
          rewrite H1. reflexivity. }
      destruct (tx_step (tx_skip (v_tx w) p) ToFlush) as [[t1 o1] ww]. cbn [fst] in Hfst. rewrite Hfst. reflexivity.
    + intro Hc. pose proof (closed_flush_same _ Hc) as H1. cbn [tx_step] in H1. rewrite Ewd, Ew in H1. cbn [fst] in H1.
      rewrite H1. exact Hc.
  - (* shutdown *)
    destruct (writer_dropped (v_tx w)) eqn:Ewd.
    { intro E; injection E as <- _ _ _. exists []. exact H. }
    destruct (poll_shutdown (v_tx w)) as [[tx1 r1] w1] eqn:Ew. intro E; injection E as <- _ _ _.
    exists [DTxFlag ToShutdown]. apply psimr_tx_op; [exact H| |].
    + intros p Hp Hc. cbn [dp_step is_flag_tx_op]. rewrite Hp.
      assert (Hfst : fst (fst (tx_step (tx_skip (v_tx w) p) ToShutdown)) = tx_skip tx1 p).
      { destruct Hc as [->|Hc].
        - rewrite !tx_skip_0. cbn [tx_step]. rewrite Ewd, Ew. reflexivity.
        - rewrite closed_shutdown_same by (rewrite skip_closed; exact Hc).
          pose proof (closed_shutdown_same _ Hc) as H1. cbn [tx_step] in H1. rewrite Ewd, Ew in H1. cbn [fst] in H1.
          rewrite H1. reflexivity. }
      destruct (tx_step (tx_skip (v_tx w) p) ToShutdown) as [[t1 o1] ww]. cbn [fst] in Hfst. rewrite Hfst. reflexivity.
    + intro Hc. pose proof (closed_shutdown_same _ Hc) as H1. cbn [tx_step] in H1. rewrite Ewd, Ew in H1.
      cbn [fst] in H1. rewrite H1. exact Hc.
  - (* drop reader *)
    destruct (reader_dropped (v_rx w)); [intro E; injection E as <- _ _ _; exists []; exact H|].
    destruct (rx_drop_reader (v_rx w)) as [rx1 w1]. intro E; injection E as <- _ _ _.
    exists []. eapply psimr_writer_same; [exact H| | |]; vsimpl; reflexivity.
  - (* drop writer *)
    destruct (drop_writer (v_tx w)) as [tx1 w1] eqn:Ew. intro E; injection E as <- _ _ _.
    exists [DTxFlag ToDropWriter]. apply psimr_tx_op; [exact H| |].
    + intros p Hp _. cbn [dp_step is_flag_tx_op]. rewrite Hp.
      pose proof (pend_safe_skip (v_tx w) p ToDropWriter eq_refl) as Hfst.
      cbn [tx_step] in Hfst. rewrite Ew in Hfst. cbn [fst] in Hfst.
      cbn [tx_step]. destruct (drop_writer (tx_skip (v_tx w) p)) as [t1 ww]. cbn [fst] in Hfst. rewrite Hfst. reflexivity.
    + intro Hc. unfold drop_writer in Ew. destruct (writer_dropped (v_tx w)); injection Ew as <- _;
        cbn [upd t_vsock_closed]; exact Hc.
  - (* limit *)
    intro E; injection E as <- _ _ _. exists []. eapply psimr_writer_same; [exact H| | |]; vsimpl; reflexivity.
  - (* close inbox *)
    intro E; injection E as <- _ _ _. exists []. eapply psimr_writer_same; [exact H| | |]; vsimpl; reflexivity.
Qed.

Lemma reader_app_refines isn ti w r nt finw d (a : aop) r' out dw sw :
  psimr isn ti w r nt finw d -> vstep cci r (vop_of_aop a) = (r', out, dw, sw) ->
  exists dops, psimr isn ti w r' nt finw (dp_run d dops).
Proof.
  intros H. pose proof H as [I1 I2 I3 I4 I5 I6 I7 I8 I9].
  assert (Hrx : forall (o : dop) rx1, dp_step d o = set_drx d rx1 ->
                  psimr isn ti w (set_rx r rx1) nt finw (dp_run d [o])).
  { intros o rx1 Hs. cbn [dp_run]. constructor.
    - apply dp_step_tx_inv. exact I1.
    - rewrite Hs. unfold set_drx; dsimpl. exact I2.
    - rewrite Hs. unfold set_drx; dsimpl. exact I3.
    - rewrite Hs. unfold set_drx; dsimpl. vsimpl. reflexivity.
    - rewrite Hs. unfold set_drx; dsimpl. vsimpl. exact I5.
    - rewrite Hs. exact I6.
    - rewrite Hs. vsimpl. exact I7.
    - exact I8.
    - vsimpl. exact I9. }
  destruct a; cbn [vop_of_aop vstep].
  - destruct (writer_dropped (v_tx r)); [intro E; injection E as <- _ _ _; exists []; exact H|].
    destruct (poll_write (v_tx r) buf) as [[tx1 r1] w1]. intro E; injection E as <- _ _ _.
    exists []. eapply psimr_reader_same; [exact H| | | |]; vsimpl; reflexivity.
  - (* read *)
    destruct (reader_dropped (v_rx r)) eqn:Erd; [intro E; injection E as <- _ _ _; exists []; exact H|].
    destruct (rx_read (v_rx r) n) as [[rx1 r1] w1] eqn:Er. intro E; injection E as <- _ _ _.
    exists [DRead n]. apply Hrx. cbn [dp_step rx_step]. rewrite I4, Erd, Er. reflexivity.
  - destruct (writer_dropped (v_tx r)); [intro E; injection E as <- _ _ _; exists []; exact H|].
    destruct (poll_flush (v_tx r)) as [[tx1 r1] w1]. intro E; injection E as <- _ _ _.
    exists []. eapply psimr_reader_same; [exact H| | | |]; vsimpl; reflexivity.
  - destruct (writer_dropped (v_tx r)); [intro E; injection E as <- _ _ _; exists []; exact H|].
    destruct (poll_shutdown (v_tx r)) as [[tx1 r1] w1]. intro E; injection E as <- _ _ _.
    exists []. eapply psimr_reader_same; [exact H| | | |]; vsimpl; reflexivity.
  - (* drop reader *)
    destruct (reader_dropped (v_rx r)) eqn:Erd; [intro E; injection E as <- _ _ _; exists []; exact H|].
    destruct (rx_drop_reader (v_rx r)) as [rx1 w1] eqn:Er. intro E; injection E as <- _ _ _.
    exists [DRxFlag ODropReader]. apply Hrx. cbn [dp_step is_flag_rx_op rx_step]. rewrite I4, Erd, Er. reflexivity.
  - destruct (drop_writer (v_tx r)) as [tx1 w1]. intro E; injection E as <- _ _ _.
    exists []. eapply psimr_reader_same; [exact H| | | |]; vsimpl; reflexivity.
  - intro E; injection E as <- _ _ _. exists []. eapply psimr_reader_same; [exact H| | | |]; vsimpl; reflexivity.
  - intro E; injection E as <- _ _ _. exists []. eapply psimr_reader_same; [exact H| | | |]; vsimpl; reflexivity.
Qed.

(* ------------------------------------------------------------------ polls *)
Lemma data_view_in out pk :
  In pk out -> ch_type (p_hdr pk) = ST_DATA -> In (ch_seq (p_hdr pk), p_payload pk) (data_view out).
Proof.
  intros Hin Hty. unfold data_view. apply in_flat_map. exists pk. split; [exact Hin|]. rewrite Hty. left. reflexivity.
Qed.

Lemma poll_reset_view (s : vsock) :
  dview_of 0 (poll_reset s) = mk_dst (v_tx s) (v_segs s) (v_rx s) (v_last_consumed s) [] 0.
Proof. unfold dview_of, poll_reset; vsimpl. reflexivity. Qed.

Lemma writer_poll_refines isn ti w r nt d script w' out dw sw (hole : option Z) :
  psimr isn ti w r nt false d -> vstep cci w (VoPoll script) = (w', out, dw, sw) ->
  exists dops,
    psimr isn ti w' r (nt ++ filter (passes hole) (match out with VrPoll _ pk _ _ => pk | _ => [] end))
          (poll_finished out) (dp_run d dops).
Proof.
  intros [I1 I2 I3 I4 I5 I6 I7 I8 I9]. cbn [vstep].
  pose proof (poll_ev cci (set_sends w script)) as Hp.
  destruct (poll cci (set_sends w script)) as [s' res] eqn:Epoll. intro E; injection E as <- <- _ _.
  assert (Hss : ss_ok (v_ss (set_sends w script))) by (vsimpl; exact I8).
  destruct (Hp Hss) as (p' & (evs & V1 & V2 & V3 & V4 & V5 & V6 & V7) & Hp'). cbn [fst snd] in *.
  destruct I3 as (p & P1 & P2 & [->|[_ Hf]]); [|discriminate]. rewrite tx_skip_0 in P2.
  rewrite poll_reset_view in V1. vsimpl.
  set (st0 := mk_dst (v_tx w) (v_segs w) (v_rx w) (v_last_consumed w) [] 0) in *.
  assert (Hw0 : wrel st0 d).
  { unfold wrel, st0; cbn [x_tx x_segs x_out x_pend]. rewrite tx_skip_0.
    split; [exact I2|]. split; [exact P2|]. split; [lia|constructor]. }
  destruct (wsim_run isn ti evs st0 d I1 Hw0) as (dops & (W1 & W2 & W3 & W4) & (F1 & F2 & F3 & F4)).
  rewrite <- V1 in W1, W2, W3, W4. unfold dview_of in W1, W2, W3, W4. cbn [x_tx x_segs x_out x_pend] in W1, W2, W3, W4.
  exists dops. constructor.
  - apply dp_run_tx_inv. exact I1.
  - exact W1.
  - exists p'. split; [exact W3|]. split; [exact W2|].
    destruct Hp' as [->|[Hc Hnp]]; [left; reflexivity|right; split; [exact Hc|]].
    cbn [poll_finished]. destruct res; try reflexivity; discriminate.
  - rewrite F1. exact I4.
  - rewrite F2. exact I5.
  - apply Forall_app. split.
    + eapply Forall_impl; [|exact I6]. intros pk. apply pkt_in_net_mono. exact F4.
    + rewrite Forall_forall. intros pk Hpk Hty. apply filter_In in Hpk. destruct Hpk as [Hpk _].
      apply in_rev in Hpk. rewrite Forall_forall in W4. apply W4. apply data_view_in; assumption.
  - eapply Forall_impl; [|exact I7]. intros m. apply pkt_in_net_mono. exact F4.
  - apply V7. exact Hss.
  - exact I9.
Qed.

Lemma reader_poll_refines isn ti w r nt finw d script r' out dw sw :
  psimr isn ti w r nt finw d -> vstep cci r (VoPoll script) = (r', out, dw, sw) ->
  poll_finished out = false -> rfin r' = false ->
  exists dops, psimr isn ti w r' nt finw (dp_run d dops).
Proof.
  intros [I1 I2 I3 I4 I5 I6 I7 I8 I9]. cbn [vstep].
  pose proof (poll_ev cci (set_sends r script)) as Hp.
  destruct (poll cci (set_sends r script)) as [s' res] eqn:Epoll. intro E; injection E as <- <- _ _.
  intros Hnf Hrf.
  assert (Hss : ss_ok (v_ss (set_sends r script))) by (vsimpl; exact I9).
  destruct (Hp Hss) as (p' & (evs & V1 & V2 & (pre & V3) & V4 & V5 & V6 & V7) & Hp'). cbn [fst snd] in *.
  assert (Hpend : res = PollPending) by (cbn [poll_finished] in Hnf; destruct res; try discriminate; reflexivity).
  subst res. cbn [is_pending negb] in V6.
  rewrite poll_reset_view in V1. unfold poll_reset in V2, V3; vsimpl.
  set (st0 := mk_dst (v_tx r) (v_segs r) (v_rx r) (v_last_consumed r) [] 0) in *.
  assert (Hr0 : rrel st0 d) by (unfold rrel, st0; cbn [x_rx x_lc]; auto).
  assert (Hsrc : Forall (fun e => forall seq pl, e = EvData seq pl -> in_net d (seq, pl)) evs).
  { eapply Forall_impl; [|exact V2]. intros e He seq pl ->. cbn [ev_src] in He.
    destruct He as (m & Hm & Hty & Hseq & Hpl). rewrite Forall_forall in I7.
    specialize (I7 m Hm Hty). rewrite Hseq, Hpl in I7. exact I7. }
  assert (Hnofin : existsb is_fin_ev evs = false).
  { destruct (existsb is_fin_ev evs); [|reflexivity]. rewrite V5 in Hrf by reflexivity. discriminate. }
  assert (Hnoerr : existsb is_err_ev evs = false).
  { destruct (existsb is_err_ev evs); [|reflexivity]. discriminate (V6 eq_refl). }
  destruct (rsim_run evs st0 d Hr0 Hsrc Hnofin Hnoerr) as (dops & (R1 & R2) & (F1 & F2 & F3 & F4 & F5)).
  rewrite <- V1 in R1, R2. unfold dview_of in R1, R2. cbn [x_rx x_lc] in R1, R2.
  exists dops. constructor.
  - apply dp_run_tx_inv. exact I1.
  - rewrite F2. exact I2.
  - rewrite F1. exact I3.
  - exact R1.
  - exact R2.
  - eapply Forall_impl; [|exact I6]. intros pk. apply pkt_in_net_mono. exists []. rewrite F3, app_nil_r. reflexivity.
  - rewrite V3 in I7. apply Forall_app in I7. destruct I7 as [_ I7].
    eapply Forall_impl; [|exact I7]. intros m. apply pkt_in_net_mono. exists []. rewrite F3, app_nil_r. reflexivity.
  - exact I8.
  - apply V7. exact Hss.
Qed.

(* ------------------------------------------------------------------ the network *)
Lemma reader_deliver_refines isn ti w r nt finw d pk r' out dw sw :
  psimr isn ti w r nt finw d -> In pk nt ->
  vstep cci r (VoDeliver (msg_of_packet pk)) = (r', out, dw, sw) ->
  psimr isn ti w r' nt finw d.
Proof.
  intros H Hin. pose proof H as [I1 I2 I3 I4 I5 I6 I7 I8 I9]. cbn [vstep].
  destruct (v_inbox_closed r); intro E; injection E as <- _ _ _; [exact H|].
  constructor; vsimpl; try assumption.
  apply Forall_app. split; [exact I7|]. constructor; [|constructor].
  rewrite Forall_forall in I6. exact (I6 pk Hin).
Qed.

Lemma writer_deliver_same isn ti w r nt finw d m w' out dw sw :
  psimr isn ti w r nt finw d -> vstep cci w (VoDeliver m) = (w', out, dw, sw) -> psimr isn ti w' r nt finw d.
Proof.
  intros H. cbn [vstep]. destruct (v_inbox_closed w); intro E; injection E as <- _ _ _; [exact H|].
  eapply psimr_writer_same; [exact H| | |]; vsimpl; reflexivity.
Qed.

End PairRefine.

(* M5 (pair tier): two connection models (Conn/VSockRun.v) joined by a simulated network = two
   lists of in-flight datagrams.  A is built as the outgoing side (new_outgoing from B's SYN-ACK),
   B as the incoming side (new_incoming from A's SYN).  Packets carry real bytes.
   Model only; proofs are in Pair_Proofs.v. *)
From Utp Require Import Base.Prelude Wire.SeqNr Wire.Header Rtt.Rtte Mtu.SegSizes Rx.Rx Tx.Ring
  Tx.Segments Conn.Recovery Conn.Msg Conn.VSockRec Conn.VSock Conn.VSockRun.
From Utp Require Import Cubic.F64 Cubic.Cubic.

(* ------------------------------------------------------------------ position-dependent hash
   h = sum (b_i + 1) * 31^i mod 1000000007, computed incrementally (the same function as
   hash_bytes of the harness and the driver) *)
Definition HASH_P : Z := 1000000007.
Record hacc := { ha_len : Z; ha_h : Z; ha_p : Z }.
Definition hacc0 : hacc := {| ha_len := 0; ha_h := 0; ha_p := 1 |}.
Definition hacc_byte (a : hacc) (b : Z) : hacc :=
  {| ha_len := ha_len a + 1;
     ha_h := (ha_h a + (b + 1) * ha_p a) mod HASH_P;
     ha_p := (ha_p a * 31) mod HASH_P |}.
Definition hacc_add (a : hacc) (bs : list Z) : hacc := fold_left hacc_byte bs a.

(* ------------------------------------------------------------------ configuration *)
Record pconfig := {
  pc_ipv4 : bool;
  pc_mtu_a : Z; pc_mtu_b : Z;
  pc_rx_a : Z; pc_rx_b : Z;
  pc_tx_init : Z; pc_tx_max : Z;
  pc_nagle_a : bool; pc_nagle_b : bool;
  pc_max_retx : Z;
  pc_inactivity : Z;
  pc_wait_last_ack : bool;
  pc_probe_retx : Z;
  pc_syn_seq : Z;        (* seq_nr of A's SYN *)
  pc_isn_b : Z;          (* B's next_seq_nr = seq_nr of its SYN-ACK *)
  pc_conn_id : Z;        (* connection id of the SYN *)
  pc_syn_rtt : Z;        (* ns between A's SYN and the SYN-ACK *)
}.

Definition cfg_a (c : pconfig) : vconfig :=
  {| vc_incoming := false; vc_ipv4 := pc_ipv4 c; vc_link_mtu := pc_mtu_a c; vc_rx_buf := pc_rx_a c;
     vc_tx_init := pc_tx_init c; vc_tx_max := pc_tx_max c; vc_nagle := pc_nagle_a c;
     vc_max_retx := pc_max_retx c; vc_inactivity := pc_inactivity c;
     vc_wait_last_ack := pc_wait_last_ack c; vc_mtu_probe_max_retx := pc_probe_retx c;
     vc_isn := pc_syn_seq c; vc_remote_seq := pc_isn_b c; vc_remote_conn_id := pc_conn_id c;
     vc_remote_wnd := pc_rx_b c; vc_remote_ts := 0; vc_syn_sent := 0; vc_now0 := pc_syn_rtt c |}.

Definition cfg_b (c : pconfig) : vconfig :=
  {| vc_incoming := true; vc_ipv4 := pc_ipv4 c; vc_link_mtu := pc_mtu_b c; vc_rx_buf := pc_rx_b c;
     vc_tx_init := pc_tx_init c; vc_tx_max := pc_tx_max c; vc_nagle := pc_nagle_b c;
     vc_max_retx := pc_max_retx c; vc_inactivity := pc_inactivity c;
     vc_wait_last_ack := pc_wait_last_ack c; vc_mtu_probe_max_retx := pc_probe_retx c;
     vc_isn := pc_isn_b c; vc_remote_seq := pc_syn_seq c; vc_remote_conn_id := pc_conn_id c;
     vc_remote_wnd := 0; vc_remote_ts := 0; vc_syn_sent := 0; vc_now0 := 0 |}.

Inductive side := SA | SB.

(* application-side events of one endpoint *)
Inductive aop :=
| AWrite (buf : list Z) | ARead (n : Z) | AFlush | AShutdown | ADropReader | ADropWriter
| ALimit (m : option Z)       (* EMSGSIZE limit of this endpoint's own transport *)
| ACloseInbox.                (* the socket dispatcher drops this connection's message channel *)

Definition vop_of_aop (o : aop) : vop :=
  match o with
  | AWrite b => VoWrite b | ARead n => VoRead n | AFlush => VoFlush | AShutdown => VoShutdown
  | ADropReader => VoDropReader | ADropWriter => VoDropWriter | ALimit m => VoSetLimit m
  | ACloseInbox => VoCloseInbox
  end.

Inductive pop :=
| PoNow (t : Z)                                   (* advance the clock of both endpoints *)
| PoHole (m : option Z)                           (* datagrams above m bytes are silently discarded *)
| PoApp (sd : side) (o : aop)
| PoPoll (sd : side) (script : list send_outcome)
| PoDeliver (from : side) (i : Z)                 (* i-th in-flight datagram sent by `from` *)
| PoDrop (from : side) (i : Z)
| PoDup (from : side) (i : Z).

(* wire size of a datagram: 20-byte header, 10-byte SACK extension, payload *)
Definition pkt_size (p : packet) : Z :=
  (match ch_sack (p_hdr p) with Some _ => 30 | None => 20 end) + Z.of_nat (length (p_payload p)).

Definition passes (hole : option Z) (p : packet) : bool :=
  match hole with Some m => pkt_size p <=? m | None => true end.

Definition msg_of_packet (p : packet) : msg := {| m_hdr := p_hdr p; m_payload := p_payload p |}.

(* index modulo the number of in-flight datagrams; None when there are none *)
Definition pick_idx {A} (l : list A) (i : Z) : option nat :=
  match l with
  | [] => None
  | _ => Some (Z.to_nat (i mod Z.of_nat (length l)))
  end.

Fixpoint remove_nth {A} (n : nat) (l : list A) : list A :=
  match l, n with
  | [], _ => []
  | _ :: r, O => r
  | x :: r, S n' => x :: remove_nth n' r
  end.

Section WithCC.
Context {CC : Type} (cci : cc_iface CC).
Notation vsock := (vsock CC).

Record pair := {
  p_a : vsock; p_b : vsock;
  p_fin_a : bool; p_fin_b : bool;        (* the endpoint's poll returned Ready: its future is gone *)
  p_ab : list packet; p_ba : list packet;
  p_hole : option Z;
  p_wa : hacc; p_ra : hacc; p_wb : hacc; p_rb : hacc;   (* written / read so far, per endpoint *)
}.

Definition pair_new (mk_cc : Z -> Z -> CC) (c : pconfig) : option pair :=
  match vsock_new cci mk_cc (cfg_a c), vsock_new cci mk_cc (cfg_b c) with
  | Some a, Some b =>
      Some {| p_a := a; p_b := b; p_fin_a := false; p_fin_b := false; p_ab := []; p_ba := [];
              p_hole := None; p_wa := hacc0; p_ra := hacc0; p_wb := hacc0; p_rb := hacc0 |}
  | _, _ => None
  end.

Definition ep (s : pair) (sd : side) : vsock := match sd with SA => p_a s | SB => p_b s end.
Definition fin_of (s : pair) (sd : side) : bool := match sd with SA => p_fin_a s | SB => p_fin_b s end.
Definition net_from (s : pair) (sd : side) : list packet := match sd with SA => p_ab s | SB => p_ba s end.
Definition other (sd : side) : side := match sd with SA => SB | SB => SA end.

Definition set_ep (s : pair) (sd : side) (v : vsock) : pair :=
  match sd with
  | SA => {| p_a := v; p_b := p_b s; p_fin_a := p_fin_a s; p_fin_b := p_fin_b s; p_ab := p_ab s;
             p_ba := p_ba s; p_hole := p_hole s; p_wa := p_wa s; p_ra := p_ra s; p_wb := p_wb s;
             p_rb := p_rb s |}
  | SB => {| p_a := p_a s; p_b := v; p_fin_a := p_fin_a s; p_fin_b := p_fin_b s; p_ab := p_ab s;
             p_ba := p_ba s; p_hole := p_hole s; p_wa := p_wa s; p_ra := p_ra s; p_wb := p_wb s;
             p_rb := p_rb s |}
  end.

Definition set_net (s : pair) (sd : side) (l : list packet) : pair :=
  match sd with
  | SA => {| p_a := p_a s; p_b := p_b s; p_fin_a := p_fin_a s; p_fin_b := p_fin_b s; p_ab := l;
             p_ba := p_ba s; p_hole := p_hole s; p_wa := p_wa s; p_ra := p_ra s; p_wb := p_wb s;
             p_rb := p_rb s |}
  | SB => {| p_a := p_a s; p_b := p_b s; p_fin_a := p_fin_a s; p_fin_b := p_fin_b s; p_ab := p_ab s;
             p_ba := l; p_hole := p_hole s; p_wa := p_wa s; p_ra := p_ra s; p_wb := p_wb s;
             p_rb := p_rb s |}
  end.

Definition set_fin (s : pair) (sd : side) : pair :=
  {| p_a := p_a s; p_b := p_b s;
     p_fin_a := match sd with SA => true | SB => p_fin_a s end;
     p_fin_b := match sd with SB => true | SA => p_fin_b s end;
     p_ab := p_ab s; p_ba := p_ba s; p_hole := p_hole s; p_wa := p_wa s; p_ra := p_ra s;
     p_wb := p_wb s; p_rb := p_rb s |}.

Definition set_hole (s : pair) (m : option Z) : pair :=
  {| p_a := p_a s; p_b := p_b s; p_fin_a := p_fin_a s; p_fin_b := p_fin_b s; p_ab := p_ab s;
     p_ba := p_ba s; p_hole := m; p_wa := p_wa s; p_ra := p_ra s; p_wb := p_wb s; p_rb := p_rb s |}.

(* the cumulative written/read accumulators follow the results the application saw *)
Definition count_io (s : pair) (sd : side) (o : aop) (out : vout) : pair :=
  let w := match o, out with
           | AWrite buf, VrWrite (WrOk n) => firstn (Z.to_nat n) buf
           | _, _ => []
           end in
  let r := match out with VrRead (RdOk bs) => bs | _ => [] end in
  match sd with
  | SA => {| p_a := p_a s; p_b := p_b s; p_fin_a := p_fin_a s; p_fin_b := p_fin_b s; p_ab := p_ab s;
             p_ba := p_ba s; p_hole := p_hole s; p_wa := hacc_add (p_wa s) w;
             p_ra := hacc_add (p_ra s) r; p_wb := p_wb s; p_rb := p_rb s |}
  | SB => {| p_a := p_a s; p_b := p_b s; p_fin_a := p_fin_a s; p_fin_b := p_fin_b s; p_ab := p_ab s;
             p_ba := p_ba s; p_hole := p_hole s; p_wa := p_wa s; p_ra := p_ra s;
             p_wb := hacc_add (p_wb s) w; p_rb := hacc_add (p_rb s) r |}
  end.

(* what one op shows: which endpoint acted, its result as the `vsock` component shows it *)
Record pout := { po_side : side; po_out : vout; po_disp_woken : bool; po_self_woken : bool }.

Definition pstep (s : pair) (o : pop) : pair * pout :=
  match o with
  | PoNow t =>
      (set_ep (set_ep s SA (set_env_now (p_a s) t)) SB (set_env_now (p_b s) t),
       {| po_side := SA; po_out := VrNone; po_disp_woken := false; po_self_woken := false |})
  | PoHole m =>
      (set_hole s m, {| po_side := SA; po_out := VrNone; po_disp_woken := false; po_self_woken := false |})
  | PoApp sd a =>
      let '(v', out, dw, sw) := vstep cci (ep s sd) (vop_of_aop a) in
      (count_io (set_ep s sd v') sd a out,
       {| po_side := sd; po_out := out; po_disp_woken := dw; po_self_woken := sw |})
  | PoPoll sd script =>
      if fin_of s sd then
        (s, {| po_side := sd; po_out := VrNone; po_disp_woken := false; po_self_woken := false |})
      else
        let '(v', out, dw, sw) := vstep cci (ep s sd) (VoPoll script) in
        let pkts := match out with VrPoll _ pk _ _ => pk | _ => [] end in
        let s1 := set_ep s sd v' in
        let s2 := set_net s1 sd (net_from s1 sd ++ filter (passes (p_hole s1)) pkts) in
        let s3 := if poll_finished out then set_fin s2 sd else s2 in
        (s3, {| po_side := sd; po_out := out; po_disp_woken := dw; po_self_woken := sw |})
  | PoDeliver from i =>
      match pick_idx (net_from s from) i with
      | None => (s, {| po_side := other from; po_out := VrNone; po_disp_woken := false;
                       po_self_woken := false |})
      | Some k =>
          match nth_error (net_from s from) k with
          | None => (s, {| po_side := other from; po_out := VrNone; po_disp_woken := false;
                           po_self_woken := false |})
          | Some p =>
              let s1 := set_net s from (remove_nth k (net_from s from)) in
              let '(v', out, dw, sw) := vstep cci (ep s1 (other from)) (VoDeliver (msg_of_packet p)) in
              (set_ep s1 (other from) v',
               {| po_side := other from; po_out := out; po_disp_woken := dw; po_self_woken := sw |})
          end
      end
  | PoDrop from i =>
      let s' := match pick_idx (net_from s from) i with
                | None => s
                | Some k => set_net s from (remove_nth k (net_from s from))
                end in
      (s', {| po_side := other from; po_out := VrNone; po_disp_woken := false; po_self_woken := false |})
  | PoDup from i =>
      let s' := match pick_idx (net_from s from) i with
                | None => s
                | Some k => match nth_error (net_from s from) k with
                            | None => s
                            | Some p => set_net s from (net_from s from ++ [p])
                            end
                end in
      (s', {| po_side := other from; po_out := VrNone; po_disp_woken := false; po_self_woken := false |})
  end.

Fixpoint prun (s : pair) (ops : list pop) : pair :=
  match ops with [] => s | o :: r => prun (fst (pstep s o)) r end.

Definition is_poll_panic (o : vout) : bool :=
  match o with VrPoll PollPanic _ _ _ => true | _ => false end.

Record pobs := { pb_out : pout; pb_state : pair }.

(* a panic ends the trace; an endpoint whose poll returned Ready is never polled again *)
Fixpoint ptrace (s : pair) (ops : list pop) : list pobs :=
  match ops with
  | [] => []
  | o :: rest =>
      let '(s', out) := pstep s o in
      {| pb_out := out; pb_state := s' |} :: (if is_poll_panic (po_out out) then [] else ptrace s' rest)
  end.

End WithCC.

(* ------------------------------------------------------------------ C01 as a boolean predicate
   over what the applications saw.  One record per op: the bytes each side's write accepted in this
   op, and the cumulative (length, hash) of what each side has read after it.  For each direction
   the checker keeps the written-but-not-yet-read bytes and the hash accumulator of the read
   prefix: the reader's cumulative (length, hash) must at every step be that of a prefix of the
   bytes the peer has written so far. *)
Record pstep_obs := {
  so_wrote_a : list Z; so_wrote_b : list Z;
  so_read_a : Z * Z; so_read_b : Z * Z;
}.

Record dchk := { dc_pending : list Z; dc_acc : hacc }.
Definition dchk0 : dchk := {| dc_pending := []; dc_acc := hacc0 |}.

Definition dchk_step (d : dchk) (wrote : list Z) (rd : Z * Z) : option dchk :=
  let pend := dc_pending d ++ wrote in
  let k := fst rd - ha_len (dc_acc d) in
  if (k <? 0) || (Z.of_nat (length pend) <? k) then None
  else
    let acc' := hacc_add (dc_acc d) (firstn (Z.to_nat k) pend) in
    if ha_h acc' =? snd rd then Some {| dc_pending := skipn (Z.to_nat k) pend; dc_acc := acc' |}
    else None.

(* one direction: `rd = SB` checks what B has read against what A has written *)
Definition so_wrote (sd : side) (o : pstep_obs) : list Z :=
  match sd with SA => so_wrote_a o | SB => so_wrote_b o end.
Definition so_read (sd : side) (o : pstep_obs) : Z * Z :=
  match sd with SA => so_read_a o | SB => so_read_b o end.
Definition writer_of (rd : side) : side := match rd with SA => SB | SB => SA end.

(* index of the first step at which the prefix relation fails for the reader `rd`; None = holds *)
Fixpoint c01_dir_bad (rd : side) (i : Z) (d : dchk) (l : list pstep_obs) : option Z :=
  match l with
  | [] => None
  | o :: r =>
      match dchk_step d (so_wrote (writer_of rd) o) (so_read rd o) with
      | None => Some i
      | Some d' => c01_dir_bad rd (i + 1) d' r
      end
  end.

Definition c01_dir_ok (rd : side) (l : list pstep_obs) : bool :=
  match c01_dir_bad rd 0 dchk0 l with None => true | Some _ => false end.

Definition c01_pair_ok (l : list pstep_obs) : bool := c01_dir_ok SA l && c01_dir_ok SB l.

(* ---- classifier of the known design finding KF1 (DESIGN.md section 7): an MTU probe that was
   popped and re-segmented under the same sequence number although a copy of it reached the peer.
   Over the data packets of one direction in trace order: an emitted (seq, len), later an emitted
   (seq, len') with len' <> len, and a delivered (seq, len) anywhere. *)
Inductive kev := KeEmit (sd : side) (seq len : Z) | KeDeliver (from : side) (seq len : Z)
  | KeClose (sd : side).          (* sd's message channel was closed by its socket dispatcher *)

Definition side_eqb (a b : side) : bool :=
  match a, b with SA, SA | SB, SB => true | _, _ => false end.

Definition is_deliver_of (sd : side) (seq len : Z) (e : kev) : bool :=
  match e with KeDeliver f q l => side_eqb f sd && (q =? seq) && (l =? len) | _ => false end.
Definition is_reemit_of (sd : side) (seq len : Z) (e : kev) : bool :=
  match e with KeEmit f q l => side_eqb f sd && (q =? seq) && negb (l =? len) | _ => false end.

Fixpoint kf1_scan (all : list kev) (l : list kev) : bool :=
  match l with
  | [] => false
  | KeEmit sd seq len :: r =>
      (existsb (is_reemit_of sd seq len) r && existsb (is_deliver_of sd seq len) all) || kf1_scan all r
  | _ :: r => kf1_scan all r
  end.

Definition is_from (sd : side) (e : kev) : bool :=
  match e with KeEmit f _ _ | KeDeliver f _ _ | KeClose f => side_eqb f sd end.

(* the class, for the data sent by `sd` *)
Definition c01_kf1_class_dir (sd : side) (l : list kev) : bool :=
  let l' := filter (is_from sd) l in
  (Z.of_nat (length l') <? 65536) && kf1_scan l' l'.

Definition c01_kf1_class (l : list kev) : bool :=
  c01_kf1_class_dir SA l || c01_kf1_class_dir SB l.

(* ---- classifier of the former finding D17 (repaired; kept for the regression theorem): after
   its message channel was closed (the socket dispatcher is gone) an endpoint retransmits a data
   segment.  Before the repair process_all_incoming_messages returned early there, after
   remove_up_to_ack but before truncate_front, and the retransmission was cut from the wrong place of
   the ring; c01_pair_guarded used to excuse this class and no longer does.  Class, for the data sent
   by `sd`: KeClose sd, later an emitted data seq that had been emitted before. *)
Fixpoint d17_scan (sd : side) (closed : bool) (seen : list Z) (l : list kev) : bool :=
  match l with
  | [] => false
  | KeClose f :: r => d17_scan sd (closed || side_eqb f sd) seen r
  | KeEmit f q _ :: r =>
      if side_eqb f sd then
        if closed && existsb (Z.eqb q) seen then true else d17_scan sd closed (q :: seen) r
      else d17_scan sd closed seen r
  | _ :: r => d17_scan sd closed seen r
  end.

Definition c01_d17_class_dir (sd : side) (l : list kev) : bool := d17_scan sd false [] l.
Definition c01_d17_class (l : list kev) : bool := c01_d17_class_dir SA l || c01_d17_class_dir SB l.

(* the guarded statement (what the theorems give): for each direction, either the trace is in a
   known class for the data of that direction's writer, or the reader saw a prefix throughout *)
Definition c01_pair_guarded (evs : list kev) (l : list pstep_obs) : bool :=
  (c01_kf1_class_dir SB evs || c01_dir_ok SA l) &&
  (c01_kf1_class_dir SA evs || c01_dir_ok SB l).

(* the events of a model trace *)
Section Events.
Context {CC : Type}.

Definition data_events_of_packets (sd : side) (pk : list packet) : list kev :=
  flat_map (fun p => match ch_type (p_hdr p) with
                     | ST_DATA => [KeEmit sd (ch_seq (p_hdr p)) (Z.of_nat (length (p_payload p)))]
                     | _ => []
                     end) pk.

(* bytes a write accepted *)
Definition wrote_of (o : pop) (out : vout) (sd : side) : list Z :=
  match o, out with
  | PoApp s0 (AWrite buf), VrWrite (WrOk n) => if side_eqb s0 sd then firstn (Z.to_nat n) buf else []
  | _, _ => []
  end.

Definition pstep_obs_of (o : pop) (ob : pobs (CC := CC)) : pstep_obs :=
  let s := pb_state ob in
  {| so_wrote_a := wrote_of o (po_out (pb_out ob)) SA;
     so_wrote_b := wrote_of o (po_out (pb_out ob)) SB;
     so_read_a := (ha_len (p_ra s), ha_h (p_ra s));
     so_read_b := (ha_len (p_rb s), ha_h (p_rb s)) |}.

Fixpoint zip_obs (ops : list pop) (tr : list (pobs (CC := CC))) : list pstep_obs :=
  match ops, tr with
  | o :: r, ob :: t => pstep_obs_of o ob :: zip_obs r t
  | _, _ => []
  end.
End Events.

(* the KF1-classifier events of a model run (the driver rebuilds the same list from the
   implementation's observations) *)
Section ModelEvents.
Context {CC : Type} (cci : cc_iface CC).

Definition deliver_event (s : pair (CC := CC)) (from : side) (i : Z) : list kev :=
  match pick_idx (net_from s from) i with
  | None => []
  | Some k =>
      match nth_error (net_from s from) k with
      | Some p => match ch_type (p_hdr p) with
                  | ST_DATA => [KeDeliver from (ch_seq (p_hdr p)) (Z.of_nat (length (p_payload p)))]
                  | _ => []
                  end
      | None => []
      end
  end.

Fixpoint pevents (s : pair (CC := CC)) (ops : list pop) : list kev :=
  match ops with
  | [] => []
  | o :: rest =>
      let '(s', out) := pstep cci s o in
      (match o with
       | PoPoll sd _ => match po_out out with
                        | VrPoll _ pk _ _ => data_events_of_packets sd pk
                        | _ => []
                        end
       | PoDeliver from i => deliver_event s from i
       | PoApp sd ACloseInbox => [KeClose sd]
       | _ => []
       end) ++ (if is_poll_panic (po_out out) then [] else pevents s' rest)
  end.
End ModelEvents.

(* ---- the CUBIC instance (for the correspondence) ---- *)
Section CubicInstance.
Variable cbrt : f64 -> f64.
Variable powf3 : f64 -> f64.

Definition pair_new_cubic (c : pconfig) : option (pair (CC := cubic)) :=
  pair_new (cubic_iface cbrt powf3) cubic_new c.

Definition ptrace_cubic (s : pair (CC := cubic)) (ops : list pop) : list (pobs (CC := cubic)) :=
  ptrace (cubic_iface cbrt powf3) s ops.
End CubicInstance.

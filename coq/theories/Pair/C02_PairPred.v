(* C02 at the pair tier — everything written is eventually read once the network delivers.  Model-only file.
   Evaluated on traces of the `pair_settle` generator (tools/props/c02.py): a lossy phase in which no segment can
   have used up its retransmission budget, followed by a SETTLE phase in which every datagram in flight is
   delivered, both endpoints are polled, both applications read, and the clock advances past every retransmission
   timeout that can be armed, for longer than the inactivity limit allows silence.  Claim of the property for such
   a history: no endpoint gives up (`died = false`: no poll returned Ready with an error) and, at the end, each
   application has read exactly the bytes the other one was told were accepted (length here; content is C01's
   clause and is checked by c01_pair_ok on the same trace).  Monitored on implementation traces; not a theorem
   (eventual delivery is the liveness half of C02, DESIGN.md section 6). *)
From Utp Require Import Base.Prelude Pair.Pair.

Definition wrote_total (sd : side) (l : list pstep_obs) : Z :=
  fold_left (fun acc o => acc + Z.of_nat (length (so_wrote sd o))) l 0.

Definition read_final (sd : side) (l : list pstep_obs) : Z :=
  match rev l with
  | [] => 0
  | o :: _ => fst (so_read sd o)
  end.

Definition c02_dir_complete (rd : side) (l : list pstep_obs) : bool :=
  read_final rd l =? wrote_total (writer_of rd) l.

Definition c02_pair_settled_ok (died : bool) (l : list pstep_obs) : bool :=
  negb died && c02_dir_complete SA l && c02_dir_complete SB l.

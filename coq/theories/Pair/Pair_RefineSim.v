(* C01 lift: data events are data-path ops.
   wsim_run: the sender-side events of a connection, applied to its data view, are matched by DP
             ops on a data-path state whose (d_tx, d_segs) is that view (d_tx being the ring with the
             pending acknowledged bytes already removed) and whose bag holds every datagram emitted;
             these ops leave (d_rx, d_lc, d_wrap) alone and only add to the bag.
   rsim_run: the receiver-side events are matched by DP ops on a state whose (d_rx, d_lc) is the
             view, provided every delivery is of a datagram of the bag and no FIN / error event
             occurs; these ops leave the sender side and the bag alone. *)
From Utp Require Import Base.Prelude Wire.SeqNr Wire.Header Rtt.Rtte Mtu.SegSizes Rx.Rx Rx.Rx_Proofs Tx.Ring
  Tx.Ring_Proofs Tx.Segments Tx.Segments_Proofs Conn.Recovery Conn.Msg Pair.DP Pair.DP_Lemmas Pair.DP_Proofs
  Pair.DP_RxProofs Pair.Pair_Refine.

(* ------------------------------------------------------------------ the pending truncation *)
Lemma tx_skip_fields t p :
  ring (tx_skip t p) = skipn (Z.to_nat (Z.min p (Z.of_nat (length (ring t))))) (ring t) /\
  cap (tx_skip t p) = cap t /\ t_vsock_closed (tx_skip t p) = t_vsock_closed t /\
  writer_dropped (tx_skip t p) = writer_dropped t /\ writer_shutdown (tx_skip t p) = writer_shutdown t /\
  t_disp_waker (tx_skip t p) = t_disp_waker t /\ writer_waker (tx_skip t p) = writer_waker t /\
  written_without_yield (tx_skip t p) = written_without_yield t /\
  g_written (tx_skip t p) = g_written t /\
  g_removed (tx_skip t p) = g_removed t + Z.min p (Z.of_nat (length (ring t))).
Proof.
  unfold tx_skip, truncate_front. destruct (_ =? p); cbn [fst upd ring cap t_vsock_closed writer_dropped
    writer_shutdown t_disp_waker writer_waker written_without_yield g_written g_removed]; repeat split.
Qed.

Lemma tx_eq (a b : tx) :
  ring a = ring b -> cap a = cap b -> t_vsock_closed a = t_vsock_closed b ->
  writer_dropped a = writer_dropped b -> writer_shutdown a = writer_shutdown b ->
  t_disp_waker a = t_disp_waker b -> writer_waker a = writer_waker b ->
  written_without_yield a = written_without_yield b -> g_written a = g_written b ->
  g_removed a = g_removed b -> a = b.
Proof. destruct a, b; cbn. intros; subst; reflexivity. Qed.

Lemma tx_skip_0 t : tx_skip t 0 = t.
Proof.
  destruct (tx_skip_fields t 0) as (F1 & F2 & F3 & F4 & F5 & F6 & F7 & F8 & F9 & F10).
  apply tx_eq; try assumption.
  - rewrite F1. replace (Z.to_nat _) with 0%nat by lia. reflexivity.
  - rewrite F10. lia.
Qed.

Lemma tx_skip_add t a b : 0 <= a -> 0 <= b -> tx_skip (tx_skip t a) b = tx_skip t (a + b).
Proof.
  intros Ha Hb.
  destruct (tx_skip_fields t a) as (A1 & A2 & A3 & A4 & A5 & A6 & A7 & A8 & A9 & A10).
  destruct (tx_skip_fields (tx_skip t a) b) as (B1 & B2 & B3 & B4 & B5 & B6 & B7 & B8 & B9 & B10).
  destruct (tx_skip_fields t (a + b)) as (C1 & C2 & C3 & C4 & C5 & C6 & C7 & C8 & C9 & C10).
  assert (Hlen : Z.of_nat (length (ring (tx_skip t a))) =
                 Z.of_nat (length (ring t)) - Z.min a (Z.of_nat (length (ring t)))).
  { rewrite A1, skipn_length. lia. }
  apply tx_eq; try congruence.
  - rewrite B1, C1, Hlen, A1, skipn_skipn'. f_equal. lia.
  - rewrite B10, C10, Hlen, A10. lia.
Qed.

Lemma truncate_skip t p n : 0 <= p -> 0 <= n -> fst (truncate_front (tx_skip t p) n) = tx_skip t (p + n).
Proof. intros. apply (tx_skip_add t p n); assumption. Qed.

Lemma grow_skip t p mx : fst (grow (tx_skip t p) mx) = tx_skip (fst (grow t mx)) p.
Proof.
  destruct (tx_skip_fields t p) as (A1 & A2 & A3 & A4 & A5 & A6 & A7 & A8 & A9 & A10).
  unfold grow. rewrite A2. destruct (mx <=? cap t); cbn [fst]; [reflexivity|].
  destruct (tx_skip_fields (upd t (ring t) (Z.min (cap t * 2) mx) (t_vsock_closed t) (writer_dropped t)
                                (writer_shutdown t) (t_disp_waker t) (writer_waker t) (written_without_yield t)
                                (g_written t) (g_removed t)) p)
    as (B1 & B2 & B3 & B4 & B5 & B6 & B7 & B8 & B9 & B10).
  cbn [upd ring cap t_vsock_closed writer_dropped writer_shutdown t_disp_waker writer_waker
       written_without_yield g_written g_removed] in *.
  apply tx_eq; cbn [upd ring cap t_vsock_closed writer_dropped writer_shutdown t_disp_waker writer_waker
       written_without_yield g_written g_removed]; congruence.
Qed.

Lemma pend_safe_skip t p o :
  pend_safe_op o = true -> fst (fst (tx_step (tx_skip t p) o)) = tx_skip (fst (fst (tx_step t o))) p.
Proof.
  destruct (tx_skip_fields t p) as (A1 & A2 & A3 & A4 & A5 & A6 & A7 & A8 & A9 & A10).
  destruct o; cbn [pend_safe_op]; try discriminate; intros _; cbn [tx_step].
  - (* drop writer *)
    unfold drop_writer. rewrite A4. destruct (writer_dropped t); cbn [fst]; [reflexivity|].
    match goal with |- _ = tx_skip ?T p => destruct (tx_skip_fields T p) as (B1 & B2 & B3 & B4 & B5 & B6 & B7 & B8 & B9 & B10) end.
    cbn [upd ring cap t_vsock_closed writer_dropped writer_shutdown t_disp_waker writer_waker
         written_without_yield g_written g_removed] in *.
    apply tx_eq; cbn [upd ring cap t_vsock_closed writer_dropped writer_shutdown t_disp_waker writer_waker
         written_without_yield g_written g_removed]; congruence.
  - (* mark closed *)
    unfold mark_vsock_closed. cbn [fst].
    match goal with |- _ = tx_skip ?T p => destruct (tx_skip_fields T p) as (B1 & B2 & B3 & B4 & B5 & B6 & B7 & B8 & B9 & B10) end.
    cbn [upd ring cap t_vsock_closed writer_dropped writer_shutdown t_disp_waker writer_waker
         written_without_yield g_written g_removed] in *.
    apply tx_eq; cbn [upd ring cap t_vsock_closed writer_dropped writer_shutdown t_disp_waker writer_waker
         written_without_yield g_written g_removed]; congruence.
  - (* wake writer *)
    unfold wake_writer. cbn [fst].
    match goal with |- _ = tx_skip ?T p => destruct (tx_skip_fields T p) as (B1 & B2 & B3 & B4 & B5 & B6 & B7 & B8 & B9 & B10) end.
    cbn [upd ring cap t_vsock_closed writer_dropped writer_shutdown t_disp_waker writer_waker
         written_without_yield g_written g_removed] in *.
    apply tx_eq; cbn [upd ring cap t_vsock_closed writer_dropped writer_shutdown t_disp_waker writer_waker
         written_without_yield g_written g_removed]; congruence.
Qed.

(* ------------------------------------------------------------------ the two relations *)
Definition in_net (d : dp) (sp : Z * list Z) : Prop :=
  exists pk, In pk (d_net d) /\ k_seq pk = fst sp /\ k_bytes pk = snd sp.

Definition wrel (st : dst) (d : dp) : Prop :=
  d_segs d = x_segs st /\ d_tx d = tx_skip (x_tx st) (x_pend st) /\ 0 <= x_pend st /\
  Forall (in_net d) (x_out st).

Definition wframe (d d' : dp) : Prop :=
  d_rx d' = d_rx d /\ d_lc d' = d_lc d /\ d_wrap d' = d_wrap d /\ exists new, d_net d' = d_net d ++ new.

Lemma wframe_refl d : wframe d d.
Proof. unfold wframe. repeat split. exists []. rewrite app_nil_r. reflexivity. Qed.

Lemma wframe_trans a b c : wframe a b -> wframe b c -> wframe a c.
Proof.
  intros (A1 & A2 & A3 & (n1 & A4)) (B1 & B2 & B3 & (n2 & B4)). unfold wframe.
  repeat split; try congruence. exists (n1 ++ n2). rewrite B4, A4, app_assoc. reflexivity.
Qed.

Lemma in_net_frame d d' sp : (exists new, d_net d' = d_net d ++ new) -> in_net d sp -> in_net d' sp.
Proof.
  intros (new & Hn) (pk & H1 & H2). exists pk. split; [rewrite Hn; apply in_or_app; left; exact H1|exact H2].
Qed.

Definition rrel (st : dst) (d : dp) : Prop := d_rx d = x_rx st /\ d_lc d = x_lc st.

Definition rframe (d d' : dp) : Prop :=
  d_tx d' = d_tx d /\ d_segs d' = d_segs d /\ d_net d' = d_net d /\ d_una d' = d_una d /\ d_asg d' = d_asg d.

Lemma rframe_refl d : rframe d d.
Proof. unfold rframe. repeat split. Qed.
Lemma rframe_trans a b c : rframe a b -> rframe b c -> rframe a c.
Proof. unfold rframe. intros (A1 & A2 & A3 & A4 & A5) (B1 & B2 & B3 & B4 & B5). repeat split; congruence. Qed.

Lemma dp_run_app : forall a b d, dp_run d (a ++ b) = dp_run (dp_run d a) b.
Proof. induction a as [|o a IH]; intros b d; cbn [dp_run app]; [reflexivity|apply IH]. Qed.

(* ------------------------------------------------------------------ sender side *)
Lemma wsim_ev isn ti st d e :
  dp_tx_inv isn ti d -> wrel st d ->
  exists dops, wrel (dapply st e) (dp_run d dops) /\ wframe d (dp_run d dops).
Proof.
  intros Hinv (W1 & W2 & W3 & W4).
  assert (Hnone : exists dops, wrel st (dp_run d dops) /\ wframe d (dp_run d dops)).
  { exists []. split; [unfold wrel; auto|apply wframe_refl]. }
  assert (Hrx : forall st', x_tx st' = x_tx st -> x_segs st' = x_segs st -> x_out st' = x_out st ->
                            x_pend st' = x_pend st ->
                            exists dops, wrel st' (dp_run d dops) /\ wframe d (dp_run d dops)).
  { intros st' E1 E2 E3 E4. exists []. split; [|apply wframe_refl].
    unfold wrel. rewrite E1, E2, E3, E4. auto. }
  destruct e; cbn [dapply].
  - (* tx flag *)
    destruct (pend_safe_op o) eqn:Eo; [|exact Hnone].
    assert (Hfl : is_flag_tx_op o = true) by (destruct o; try discriminate; reflexivity).
    exists [DTxFlag o]. cbn [dp_run dp_step]. rewrite Hfl.
    pose proof (pend_safe_skip (x_tx st) (x_pend st) o Eo) as Hc. rewrite <- W2 in Hc.
    destruct (tx_step (d_tx d) o) as [[t1 o1] w1]. destruct (tx_step (x_tx st) o) as [[t2 o2] w2].
    cbn [fst] in Hc. subst t1.
    split; [|unfold wframe, set_dtx; dsimpl; repeat split; exists []; rewrite app_nil_r; reflexivity].
    unfold wrel, set_dtx, set_xtx; dsimpl; cbn [x_tx x_segs x_out x_pend]. auto.
  - (* register *)
    destruct (Z.eqb_spec (x_pend st) 0) as [Hp0|]; [|exact Hnone].
    exists [DTxFlag ToRegisterIfEmpty]. cbn [dp_run dp_step is_flag_tx_op tx_step].
    split; [|unfold wframe, set_dtx; dsimpl; repeat split; exists []; rewrite app_nil_r; reflexivity].
    unfold wrel, set_dtx, set_xtx; dsimpl; cbn [x_tx x_segs x_out x_pend].
    rewrite W2, Hp0, !tx_skip_0. rewrite Hp0 in W3. auto.
  - (* grow *)
    exists [DGrow mx]. cbn [dp_run dp_step].
    pose proof (grow_skip (x_tx st) (x_pend st) mx) as Hc. rewrite <- W2 in Hc.
    destruct (grow (d_tx d) mx) as [t1 g1]. destruct (grow (x_tx st) mx) as [t2 g2]. cbn [fst] in Hc. subst t1.
    split; [|unfold wframe, set_dtx; dsimpl; repeat split; exists []; rewrite app_nil_r; reflexivity].
    unfold wrel, set_dtx, set_xtx; dsimpl; cbn [x_tx x_segs x_out x_pend]. auto.
  - (* ack *)
    exists [DAck now ack sk]. cbn [dp_run dp_step]. rewrite W1.
    destruct (remove_up_to_ack (x_segs st) now ack sk) as [sg res] eqn:Er.
    assert (Hres : 0 <= ar_acked_bytes res).
    { destruct Hinv as [_ I2 _ _ _ _ _ _ _ _]. rewrite W1 in I2.
      destruct (remove_up_to_ack_inv _ _ _ _ _ _ I2 Er) as (_ & _ & H & _). exact H. }
    pose proof (truncate_skip (x_tx st) (x_pend st) (ar_acked_bytes res) W3 Hres) as Hc. rewrite <- W2 in Hc.
    destruct (truncate_front (d_tx d) (ar_acked_bytes res)) as [t1 tr]. cbn [fst] in Hc. subst t1.
    split; [|unfold wframe; dsimpl; repeat split; exists []; rewrite app_nil_r; reflexivity].
    unfold wrel; dsimpl; cbn [x_tx x_segs x_out x_pend]. repeat split; auto. lia.
  - (* trunc *)
    exists []. cbn [dp_run]. split; [|apply wframe_refl].
    unfold wrel; cbn [x_tx x_segs x_out x_pend]. rewrite tx_skip_0. repeat split; auto. lia.
  - (* pipe *)
    exists [DPipe hr hd rtt now]. cbn [dp_run dp_step]. rewrite W1.
    destruct (calc_pipe (x_segs st) hr hd rtt now) as [[[sg pp] rc]|];
      [|split; [unfold wrel; auto|apply wframe_refl]].
    split; [|unfold wframe, set_dsegs; dsimpl; repeat split; exists []; rewrite app_nil_r; reflexivity].
    unfold wrel, set_dsegs, set_xsegs; dsimpl; cbn [x_tx x_segs x_out x_pend]. auto.
  - (* pop expired *)
    exists [DPopExpired timed_out max_retx]. cbn [dp_run dp_step]. rewrite W1.
    destruct (pop_expired_mtu_probe (x_segs st) timed_out max_retx) as [sg pe].
    destruct pe; try (split; [unfold wrel; auto|apply wframe_refl]).
    split; [|unfold wframe; dsimpl; repeat split; exists []; rewrite app_nil_r; reflexivity].
    unfold wrel, set_xsegs; dsimpl; cbn [x_tx x_segs x_out x_pend]. auto.
  - (* pop probe *)
    exists [DPopProbe seq]. cbn [dp_run dp_step]. rewrite W1.
    destruct (pop_mtu_probe (x_segs st) seq) as [sg popped].
    destruct popped; [|split; [unfold wrel; auto|apply wframe_refl]].
    split; [|unfold wframe; dsimpl; repeat split; exists []; rewrite app_nil_r; reflexivity].
    unfold wrel, set_xsegs; dsimpl; cbn [x_tx x_segs x_out x_pend]. auto.
  - (* enqueue *)
    destruct (Z.eqb_spec (x_pend st) 0) as [Hp0|]; cbn [andb]; [|exact Hnone].
    rewrite Hp0, tx_skip_0 in W2.
    exists [DEnqueue len probe]. cbn [dp_run dp_step]. unfold unsegmented. rewrite W1, W2.
    destruct ((0 <? len) && (len <=? Z.of_nat (length (ring (x_tx st))) - ss_len_bytes (x_segs st)));
      [|split; [unfold wrel; rewrite Hp0, tx_skip_0; repeat split; auto; lia|apply wframe_refl]].
    split; [|unfold wframe; dsimpl; repeat split; exists []; rewrite app_nil_r; reflexivity].
    unfold wrel, set_xsegs; dsimpl; cbn [x_tx x_segs x_out x_pend]. rewrite Hp0, tx_skip_0. repeat split; auto. lia.
  - (* send *)
    destruct (Z.eqb_spec (x_pend st) 0) as [Hp0|]; cbn [negb]; [|exact Hnone].
    rewrite Hp0, tx_skip_0 in W2.
    exists [DSend i now]. cbn [dp_run dp_step]. rewrite W1, W2.
    destruct (nth_error (iter_for_sending (x_segs st) None) i) as [f|];
      [|split; [unfold wrel; rewrite Hp0, tx_skip_0; repeat split; auto; lia|apply wframe_refl]].
    destruct (_ || _ || _);
      [split; [unfold wrel; rewrite Hp0, tx_skip_0; repeat split; auto; lia|apply wframe_refl]|].
    split; [|unfold wframe; dsimpl; repeat split; eexists; reflexivity].
    unfold wrel; dsimpl; cbn [x_tx x_segs x_out x_pend]. rewrite Hp0, tx_skip_0.
    repeat split; auto; [lia|]. constructor.
    + eexists. split; [apply in_or_app; right; left; reflexivity|]. cbn [k_seq k_bytes fst snd]. auto.
    + eapply Forall_impl; [|exact W4]. intros sp. apply in_net_frame. dsimpl. eexists; reflexivity.
  - (* data *)
    destruct (data_apply _ _ _ _) as [r lc]. apply Hrx; reflexivity.
  - destruct (rx_add_remove _ _ _ _) as [[r ?] ?]. apply Hrx; reflexivity.
  - destruct (rx_flush _) as [[r ?] ?]. apply Hrx; reflexivity.
  - destruct (is_flag_rx_op o); [|exact Hnone]. destruct (rx_step _ _) as [[r ?] ?]. apply Hrx; reflexivity.
  - apply Hrx; reflexivity.
Qed.

Lemma wsim_run isn ti : forall evs st d,
  dp_tx_inv isn ti d -> wrel st d ->
  exists dops, wrel (drun st evs) (dp_run d dops) /\ wframe d (dp_run d dops).
Proof.
  induction evs as [|e evs IH]; intros st d Hinv Hw; cbn [drun].
  - exists []. split; [exact Hw|apply wframe_refl].
  - destruct (wsim_ev isn ti st d e Hinv Hw) as (o1 & H1 & F1).
    destruct (IH _ _ (dp_run_tx_inv isn ti o1 d Hinv) H1) as (o2 & H2 & F2).
    exists (o1 ++ o2). rewrite dp_run_app. split; [exact H2|eapply wframe_trans; eauto].
Qed.

(* ------------------------------------------------------------------ receiver side *)
Lemma rsim_ev st d e :
  rrel st d ->
  (forall seq pl, e = EvData seq pl -> in_net d (seq, pl)) -> is_fin_ev e = false -> is_err_ev e = false ->
  exists dops, rrel (dapply st e) (dp_run d dops) /\ rframe d (dp_run d dops).
Proof.
  intros (R1 & R2) Hsrc Hfin Herr.
  assert (Hnone : exists dops, rrel st (dp_run d dops) /\ rframe d (dp_run d dops)).
  { exists []. split; [split; assumption|apply rframe_refl]. }
  assert (Htx : forall st', x_rx st' = x_rx st -> x_lc st' = x_lc st ->
                            exists dops, rrel st' (dp_run d dops) /\ rframe d (dp_run d dops)).
  { intros st' E1 E2. exists []. split; [|apply rframe_refl]. unfold rrel. rewrite E1, E2. auto. }
  destruct e; cbn [dapply]; try discriminate.
  - destruct (pend_safe_op o); [|exact Hnone]. destruct (tx_step _ _) as [[t ?] ?]. exact Hnone.
  - destruct (_ =? 0); exact Hnone.
  - destruct (grow _ _) as [t ?]. exact Hnone.
  - destruct (remove_up_to_ack _ _ _ _) as [sg res]. exact Hnone.
  - exact Hnone.
  - destruct (calc_pipe _ _ _ _ _) as [[[sg ?] ?]|]; exact Hnone.
  - destruct (pop_expired_mtu_probe _ _ _) as [sg pe]. destruct pe; exact Hnone.
  - destruct (pop_mtu_probe _ _) as [sg popped]. destruct popped; exact Hnone.
  - destruct (_ && _ && _); exact Hnone.
  - destruct (negb _); [exact Hnone|]. destruct (nth_error _ _) as [f|]; [|exact Hnone].
    destruct (_ || _ || _); exact Hnone.
  - (* data *)
    destruct (Hsrc seq payload eq_refl) as (pk & Hin & Hs & Hb). cbn [fst snd] in Hs, Hb.
    destruct (In_nth_error _ _ Hin) as (j & Hj).
    exists [DDeliver j]. cbn [dp_run dp_step]. rewrite Hj, Hs, Hb, R1, R2.
    unfold data_apply.
    destruct (seq_sub seq (wadd16 (x_lc st) 1) <? 0); [split; [split; assumption|apply rframe_refl]|].
    destruct (rx_add_remove (x_rx st) KData payload _) as [[r ar] w].
    destruct ar as [[n b| | | | |]|]; (split; [unfold rrel, set_drx; dsimpl; cbn [x_rx x_lc]; auto
                                              |unfold rframe, set_drx; dsimpl; repeat split]).
  - (* flush *)
    exists [DFlush]. cbn [dp_run dp_step]. rewrite R1. destruct (rx_flush (x_rx st)) as [[r fr] w].
    split; [unfold rrel, set_drx, set_xrx; dsimpl; cbn [x_rx x_lc]; auto|unfold rframe, set_drx; dsimpl; repeat split].
  - (* rx flag *)
    exists [DRxFlag o]. cbn [dp_run dp_step]. rewrite R1.
    destruct (is_flag_rx_op o); [|split; [split; assumption|apply rframe_refl]].
    destruct (rx_step (x_rx st) o) as [[r out] w].
    split; [unfold rrel, set_drx, set_xrx; dsimpl; cbn [x_rx x_lc]; auto|unfold rframe, set_drx; dsimpl; repeat split].
Qed.

Lemma rsim_run : forall evs st d,
  rrel st d ->
  Forall (fun e => forall seq pl, e = EvData seq pl -> in_net d (seq, pl)) evs ->
  existsb is_fin_ev evs = false -> existsb is_err_ev evs = false ->
  exists dops, rrel (drun st evs) (dp_run d dops) /\ rframe d (dp_run d dops).
Proof.
  induction evs as [|e evs IH]; intros st d Hr Hsrc Hf He; cbn [drun].
  - exists []. split; [exact Hr|apply rframe_refl].
  - cbn [existsb] in Hf, He. apply orb_false_iff in Hf. apply orb_false_iff in He.
    inversion Hsrc as [|? ? Hs1 Hs2]; subst.
    destruct (rsim_ev st d e Hr Hs1 (proj1 Hf) (proj1 He)) as (o1 & H1 & F1).
    assert (Hsrc' : Forall (fun e0 => forall seq pl, e0 = EvData seq pl -> in_net (dp_run d o1) (seq, pl)) evs).
    { eapply Forall_impl; [|exact Hs2]. intros e0 H seq pl E. destruct (H seq pl E) as (pk & K1 & K2).
      exists pk. destruct F1 as (_ & _ & Fn & _). rewrite Fn. auto. }
    destruct (IH _ _ H1 Hsrc' (proj2 Hf) (proj2 He)) as (o2 & H2 & F2).
    exists (o1 ++ o2). rewrite dp_run_app. split; [exact H2|eapply rframe_trans; eauto].
Qed.

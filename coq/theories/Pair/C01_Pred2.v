(* C01, widened classifier of the known design finding KF1 (model only, no proofs).
   KF1: an MTU probe is given up (popped from the segment table and its bytes re-segmented under the
   same sequence numbers) although a copy of it reached the peer.  The classifier c01_kf1_class of
   Pair/Pair.v recognises the re-segmentation by a second EMISSION of the sequence number with another
   length; that misses the traces on which the re-segmented segment is acknowledged by the ACK of the old
   probe before it is ever sent (Pair_RefineWitness.c01_pair_guarded_refuted).  Here the pop itself is
   recognised, from the sender's fingerprints of two consecutive observations: an undelivered segment
   flagged as probe, of sequence number q and size z, whose number is still unacknowledged afterwards
   (q >= snd_una') but whose assignment is gone (no segment at q, or one of another size).  The class:
   such a pop anywhere in the trace, and a delivery of (q, z) to the peer anywhere in the trace.
   Observations: the fingerprints (Conn/VObs.v) of both endpoints after every op (the `pair` component
   prints them: initial token and every observation), and the event list of c01_kf1_class. *)
From Utp Require Import Base.Prelude Wire.SeqNr Tx.Segments Conn.Recovery Conn.Msg Conn.VSockRec Conn.VSock
  Conn.VSockRun Conn.VObs Pair.Pair.

(* the segment the fingerprint shows for sequence number q *)
Definition fp_seg_at (f : vfp) (q : Z) : option fseg :=
  let i := seq_sub q (f_snd_una f) in
  if i <? 0 then None else nth_error (f_segs f) (Z.to_nat i).

(* (seq, size) of the probes of f that were popped on the way to f' *)
Definition popped_between (f f' : vfp) : list (Z * Z) :=
  flat_map (fun ig : nat * fseg =>
              let q := wadd16 (f_snd_una f) (Z.of_nat (fst ig) mod M16) in
              let g := snd ig in
              if fg_probe g && negb (fg_delivered g) && (0 <=? seq_sub q (f_snd_una f')) &&
                 match fp_seg_at f' q with
                 | Some g' => negb (fg_size g' =? fg_size g)
                 | None => true
                 end
              then [(q, fg_size g)] else [])
           (enum_from O (f_segs f)).

Definition fp_side (sd : side) (x : vfp * vfp) : vfp := match sd with SA => fst x | SB => snd x end.

Fixpoint pops_of (sd : side) (l : list (vfp * vfp)) : list (Z * Z) :=
  match l with
  | x :: r => match r with
              | y :: _ => popped_between (fp_side sd x) (fp_side sd y) ++ pops_of sd r
              | [] => []
              end
  | [] => []
  end.

(* the class, for the data sent by sd: the old class, or a probe popped and delivered *)
Definition c01_kf1_popped_dir (sd : side) (fps : list (vfp * vfp)) (evs : list kev) : bool :=
  let l' := filter (is_from sd) evs in
  (Z.of_nat (length l') <? 65536) &&
  existsb (fun qz : Z * Z => existsb (is_deliver_of sd (fst qz) (snd qz)) l') (pops_of sd fps).

Definition c01_kf1_class2_dir (sd : side) (fps : list (vfp * vfp)) (evs : list kev) : bool :=
  c01_kf1_class_dir sd evs || c01_kf1_popped_dir sd fps evs.

Definition c01_kf1_class2 (fps : list (vfp * vfp)) (evs : list kev) : bool :=
  c01_kf1_class2_dir SA fps evs || c01_kf1_class2_dir SB fps evs.

(* for each direction: the trace is in the widened class for the data of that direction's writer, or
   the reader saw a prefix throughout *)
Definition c01_pair_guarded2 (fps : list (vfp * vfp)) (evs : list kev) (l : list pstep_obs) : bool :=
  (c01_kf1_class2_dir SB fps evs || c01_dir_ok SA l) &&
  (c01_kf1_class2_dir SA fps evs || c01_dir_ok SB l).

(* the fingerprints of a model trace: the initial state, then the state after every op *)
Section ModelFps.
Context {CC : Type} (cci : cc_iface CC).

Definition pair_fp (s : pair (CC := CC)) : vfp * vfp := (fp_of_vsock cci (p_a s), fp_of_vsock cci (p_b s)).

Definition pair_fps (s0 : pair (CC := CC)) (tr : list (pobs (CC := CC))) : list (vfp * vfp) :=
  pair_fp s0 :: map (fun ob => pair_fp (pb_state ob)) tr.
End ModelFps.

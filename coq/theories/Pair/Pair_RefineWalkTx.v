(* C01 lift, the walk through VirtualSocket::poll, part 2: the send path.
   send_tx_queue = EvSend per datagram sent (+ EvPopProbe when an MTU probe is popped);
   split_tx_queue_into_segments = register/grow/wake flags, EvPopExpired, one EvEnqueue per segment. *)
From Utp Require Import Base.Prelude Wire.SeqNr Wire.Header Rtt.Rtte Mtu.SegSizes Rx.Rx Tx.Ring
  Tx.Segments Tx.Segments_Proofs Conn.Recovery Conn.Msg Conn.VSockRec Conn.VSock Conn.VSockRun Conn.VSock_Inv
  Conn.VSock_LemmasTx Rx.Rx_Slots Pair.DP Pair.DP_Lemmas Pair.Pair_Refine Pair.Pair_RefineWalk.

Arguments SOk {CC A}. Arguments SErr {CC A}. Arguments SPanic {CC A}.

(* events that are neither a delivery, a FIN nor an error *)
Definition plainb (e : dev) : bool :=
  match e with EvData _ _ | EvFin _ _ | EvRxErr => false | _ => true end.

Lemma plain_facts evs : Forall (fun e => plainb e = true) evs ->
  existsb is_fin_ev evs = false /\ existsb is_err_ev evs = false /\ forall ib, Forall (ev_src ib) evs.
Proof.
  induction 1 as [|e evs He _ (IH1 & IH2 & IH3)]; cbn [existsb]; [repeat split; constructor|].
  rewrite IH1, IH2. destruct e; try discriminate; cbn [is_fin_ev is_err_ev orb];
    (split; [reflexivity|split; [reflexivity|intro ib; constructor; [exact I|apply IH3]]]).
Qed.

Section WalkTx.
Context {CC : Type} (cci : cc_iface CC).
Notation vsock := (vsock CC).
Notation step := (@step CC).

Lemma devs_plain ib err evs p (s : vsock) p' s' :
  dview_of p' s' = drun (dview_of p s) evs -> Forall (fun e => plainb e = true) evs ->
  v_inbox s' = v_inbox s -> (rfin s = true -> rfin s' = true) -> (ss_ok (v_ss s) -> ss_ok (v_ss s')) ->
  devs ib err p s p' s'.
Proof.
  intros H Hp Hi Hr Hss. destruct (plain_facts evs Hp) as (F1 & F2 & F3). exists evs.
  split; [exact H|]. split; [apply F3|]. split; [exists []; rewrite Hi; reflexivity|].
  split; [exact Hr|]. rewrite F1, F2. split; [discriminate|]. split; [discriminate|exact Hss].
Qed.

(* a plain event *)
Lemma D0_one e (s s' : vsock) :
  dview_of 0 s' = dapply (dview_of 0 s) e -> plainb e = true ->
  v_inbox s' = v_inbox s -> (rfin s = true -> rfin s' = true) -> (ss_ok (v_ss s) -> ss_ok (v_ss s')) ->
  D0 s s'.
Proof.
  intros H Hp Hi Hr Hss ib. apply (devs_plain ib false [e]); auto.
Qed.

(* ------------------------------------------------------------------ the two sending loops *)
Lemma recovery_loop_ev h mss0 : forall items (s : vsock) st,
  Forall (item_ok (v_segs s)) items ->
  stp (recovery_loop items s h mss0 st) (fun s' _ => D0 s s') (fun s' => D0 s s').
Proof.
  induction items as [|f rest IH]; intros s st Hall; cbn [recovery_loop].
  - cbn [stp]. apply D0_refl.
  - inversion Hall as [|? ? Hf Hrest]; subst.
    destruct (negb _); [cbn [stp]; apply D0_refl|].
    destruct (_ && _); [apply IH; exact Hrest|].
    destruct (_ && _); [cbn [stp]; apply D0_refl|].
    pose proof (send_data_ev s h f Hf) as Hsd.
    destruct (send_data s h f) as [s1 r|s1 e|]; cbn [stp] in Hsd |- *; [|apply D0_svs; exact Hsd|exact I].
    destruct Hsd as [Hd Hit].
    destruct r; cbn [stp]; [|exact Hd|exact Hd].
    eapply stp_weaken; [apply IH; eapply Forall_impl; [|exact Hrest]; intros a; apply Hit| |];
      cbv beta; intros; eapply D0_trans; eauto.
Qed.

Lemma new_data_loop_ev h : forall items (s : vsock) remaining,
  Forall (item_ok (v_segs s)) items ->
  stp (new_data_loop items s h remaining) (fun s' _ => D0 s s') (fun s' => D0 s s').
Proof.
  induction items as [|f rest IH]; intros s rem Hall; cbn [new_data_loop].
  - cbn [stp]. apply D0_refl.
  - inversion Hall as [|? ? Hf Hrest]; subst.
    destruct (_ <? _); [cbn [stp]; apply D0_refl|].
    pose proof (send_data_ev s h f Hf) as Hsd.
    destruct (send_data s h f) as [s1 r|s1 e|]; cbn [stp] in Hsd |- *; [|apply D0_svs; exact Hsd|exact I].
    destruct Hsd as [Hd Hit].
    destruct r; cbn [stp]; [|exact Hd|exact Hd].
    eapply stp_weaken; [apply IH; eapply Forall_impl; [|exact Hrest]; intros a; apply Hit| |];
      cbv beta; intros; eapply D0_trans; eauto.
Qed.

Lemma on_rto_reactions_svs (s s' : vsock) : on_rto_reactions cci s = Some s' -> svs s s'.
Proof.
  unfold on_rto_reactions. destruct (on_rto_timeout (v_rtte s)); [|discriminate].
  intro H; injection H as <-. unfold svs, same_view; vsimpl; repeat split.
Qed.

(* ------------------------------------------------------------------ send_tx_queue *)
Lemma rto_branch_ev (s : vsock) h :
  stp (rto_branch cci s h) (fun s' _ => D0 s s') (fun s' => D0 s s').
Proof.
  unfold rto_branch.
  destruct (timer_expired _ _); [|cbn [stp]; apply D0_refl].
  destruct (iter_for_sending (v_segs s) None) as [|f rest] eqn:Eit.
  - destruct (our_fin_if_unacked (v_state s)) as [fin|];
      [|cbn [stp]; apply D0_svs; unfold svs, same_view; vsimpl; repeat split].
    destruct (_ =? fin); [|cbn [stp]; apply D0_svs; unfold svs, same_view; vsimpl; repeat split].
    set (s1 := set_last_sent_seq_nr s _).
    assert (H1 : svs s s1) by (unfold s1, svs, same_view; vsimpl; repeat split).
    eapply stp_bind'; [apply maybe_send_fin_svs| |].
    + intros s2 H2. apply D0_svs. exact (svs_trans _ _ _ H1 H2).
    + intros s2 sent H2. pose proof (svs_trans _ _ _ H1 H2) as H12.
      destruct sent; cbn [stp]; [|apply D0_svs; exact H12].
      destruct (on_rto_reactions cci s2) as [s3|] eqn:E3; cbn [stp]; [|exact I].
      apply D0_svs. eapply svs_trans; [exact H12|]. eapply svs_trans; [apply on_rto_reactions_svs; exact E3|].
      unfold svs, same_view; vsimpl; repeat split.
  - assert (Hf : item_ok (v_segs s) f) by (apply (iter_item_ok _ None); rewrite Eit; left; reflexivity).
    pose proof (send_data_ev s h f Hf) as Hsd.
    destruct (send_data s h f) as [s1 r|s1 e|]; cbn [stp] in Hsd |- *; [|apply D0_svs; exact Hsd|exact I].
    destruct Hsd as [Hd _].
    destruct r; cbn [stp]; [|exact Hd|exact Hd].
    assert (Hs2 : forall s2, (if negb (sg_probe (fs_seg f)) then on_rto_reactions cci s1 else Some s1) = Some s2 ->
                             svs s1 s2).
    { intros s2. destruct (negb _); [apply on_rto_reactions_svs|]. intro H; injection H as <-. apply svs_refl. }
    destruct (if negb (sg_probe (fs_seg f)) then on_rto_reactions cci s1 else Some s1) as [s2|]; cbn [stp]; [|exact I].
    eapply D0_trans; [exact Hd|]. apply D0_svs. eapply svs_trans; [apply Hs2; reflexivity|].
    unfold svs, same_view; vsimpl; repeat split.
Qed.

Lemma In_take_skip_firstn {A} (l : list A) (q1 q2 : A -> bool) n x :
  In x (take_while q1 (skip_while q2 (firstn n l))) -> In x l.
Proof.
  intro Hx.
  assert (Htw : forall l0, In x (take_while q1 l0) -> In x l0).
  { induction l0 as [|y ys IHl]; cbn [take_while]; [tauto|]. destruct (q1 y); cbn [In]; tauto. }
  assert (Hsw : forall l0, In x (skip_while q2 l0) -> In x l0).
  { induction l0 as [|y ys IHl]; cbn [skip_while]; [tauto|]. destruct (q2 y); [right; auto|auto]. }
  apply Htw in Hx. apply Hsw in Hx.
  rewrite <- (firstn_skipn n l). apply in_or_app. left. exact Hx.
Qed.

Lemma rec_branch_ev (s : vsock) h :
  stp (rec_branch s h) (fun s' _ => D0 s s') (fun s' => D0 s s').
Proof.
  unfold rec_branch.
  destruct (rv_phase (v_recovery s)) as [rp|d|rc]; try (cbn [stp]; apply D0_refl).
  eapply stp_bind.
  { apply recovery_loop_ev. unfold rec_items. apply Forall_forall. intros f Hf.
    apply In_take_skip_firstn in Hf. eapply iter_item_ok. exact Hf. }
  intros s1 [st early] H1. unfold rec_after.
  match goal with |- stp (if early then SOk ?S true else _) _ _ => set (s2 := S) end.
  assert (H2 : D0 s s2).
  { eapply D0_trans; [exact H1|]. apply D0_svs. unfold s2, set_recovering, svs, same_view; vsimpl; repeat split. }
  destruct early; [cbn [stp]; exact H2|].
  match goal with |- stp (match our_fin_if_unacked (v_state ?S) with _ => _ end) _ _ => set (s3 := S) end.
  assert (H3 : D0 s s3).
  { eapply D0_trans; [exact H2|]. apply D0_svs. unfold s3.
    destruct (rl_cwnd st <? _); [|apply svs_refl].
    destruct (rc_recalc rc); [unfold svs, same_view; vsimpl; repeat split|].
    destruct (0 <? _); [unfold svs, same_view; vsimpl; repeat split|apply svs_refl]. }
  destruct (our_fin_if_unacked (v_state s3)) as [our_fin|]; [|cbn [stp]; exact H3].
  destruct (_ =? wsub16 our_fin 1); [|cbn [stp]; exact H3].
  cbn [stp]. eapply D0_trans; [exact H3|]. apply D0_svs.
  unfold set_recovering, svs, same_view; vsimpl; repeat split.
Qed.

Lemma new_branch_ev (s : vsock) h :
  stp (new_branch cci s h) (fun s' _ => D0 s s') (fun s' => D0 s s').
Proof.
  unfold new_branch.
  eapply stp_bind.
  { apply new_data_loop_ev. unfold new_items. apply Forall_forall. intros f Hf. eapply iter_item_ok. exact Hf. }
  intros s1 tl H1. unfold new_after.
  destruct tl as [[sq size]|]; [|cbn [stp]; exact H1].
  destruct (pop_mtu_probe (v_segs s1) sq) as [segs' popped] eqn:Epop.
  destruct popped; cbn [stp]; [|exact H1].
  eapply D0_trans; [exact H1|].
  apply (D0_one (EvPopProbe sq)).
  - unfold dview_of; vsimpl. cbn [dapply x_segs]. rewrite Epop. reflexivity.
  - reflexivity.
  - vsimpl. reflexivity.
  - unfold rfin; vsimpl. auto.
  - vsimpl. intro Hok. apply disarm_ss_ok. apply failed_ss_ok. exact Hok.
Qed.

Lemma send_tx_queue_ev (s : vsock) :
  stp (send_tx_queue cci s) (fun s' _ => D0 s s') (fun s' => D0 s s').
Proof.
  rewrite send_tx_queue_eq.
  destruct (v_transport_pending s); [cbn [stp]; apply D0_refl|].
  eapply stp_bind; [apply rto_branch_ev|].
  intros s1 ret H1. unfold after_rto_k.
  destruct ret; [cbn [stp]; exact H1|].
  destruct (0 <? _); [cbn [stp]; exact H1|].
  destruct (ss_segs (v_segs s1)) as [|g0 gs]; [cbn [stp]; exact H1|].
  eapply stp_bind'; [apply rec_branch_ev| |].
  { intros s2 H2. eapply D0_trans; eauto. }
  intros s2 ret H2. pose proof (D0_trans _ _ _ H1 H2) as H12.
  destruct ret; [cbn [stp]; exact H12|].
  eapply stp_weaken; [apply new_branch_ev| |]; cbv beta; intros; eapply D0_trans; eauto.
Qed.

(* ------------------------------------------------------------------ segmentation *)
Lemma segment_loop_ev : forall fuel nagle ss segs remaining rwr ss' segs' rem' (st : dst),
  ss_ok ss -> x_segs st = segs -> x_pend st = 0 ->
  remaining <= Z.of_nat (length (ring (x_tx st))) - ss_len_bytes segs ->
  segment_loop fuel nagle ss segs remaining rwr = Some (ss', segs', rem') ->
  ss_ok ss' /\ exists evs, drun st evs = set_xsegs st segs' /\ Forall (fun e => plainb e = true) evs.
Proof.
  induction fuel as [|b fuel IH]; intros nagle ss segs remaining rwr ss' segs' rem' st Hok Hsg Hpd Hrem;
    cbn [segment_loop].
  - intro H; injection H as <- <- _. split; [exact Hok|]. exists []. split; [|constructor].
    cbn [drun]. destruct st; cbn in Hsg |- *. subst. reflexivity.
  - assert (Hnil : ss_ok ss /\ exists evs, drun st evs = set_xsegs st segs /\ Forall (fun e => plainb e = true) evs).
    { split; [exact Hok|]. exists []. split; [|constructor].
      cbn [drun]. destruct st; cbn in Hsg |- *. subst. reflexivity. }
    destruct (Z.ltb_spec 0 remaining) as [Hr0|Hr0]; cbn [andb];
      [|intro H; injection H as <- <- _; exact Hnil].
    destruct (Z.ltb_spec 0 rwr) as [Hw0|Hw0]; [|intro H; injection H as <- <- _; exact Hnil].
    destruct (next_size_ok ss Hok) as (ss1 & sz & -> & Hmin & Hmax & Hsz).
    assert (Hok1 : ss_ok ss1) by (unfold ss_ok in *; rewrite Hmin, Hmax; exact Hok).
    set (payload := Z.min (Z.min sz rwr) remaining).
    assert (Hp : 0 < payload <= remaining) by (unfold payload, ss_ok in *; lia).
    destruct (nagle && _ && _).
    { intro H; injection H as <- <- _. split; [exact Hok1|]. destruct Hnil as [_ Hn]. exact Hn. }
    assert (Henq : forall pr, dapply st (EvEnqueue payload pr) = set_xsegs st (enqueue segs payload pr)).
    { intro pr. cbn [dapply]. rewrite Hpd, Hsg.
      replace ((0 =? 0) && (0 <? payload) && (payload <=? Z.of_nat (length (ring (x_tx st))) - ss_len_bytes segs))
        with true by (symmetry; lia). reflexivity. }
    destruct (mss ss1 <? payload) eqn:Epr.
    + intro H; injection H as <- <- _. split; [exact Hok1|].
      exists [EvEnqueue payload true]. cbn [drun]. rewrite Henq. split; [reflexivity|repeat constructor].
    + intro H.
      set (st1 := set_xsegs st (enqueue segs payload false)).
      assert (Hpd1 : x_pend st1 = 0) by exact Hpd.
      assert (Hrem1 : remaining - payload <=
                      Z.of_nat (length (ring (x_tx st1))) - ss_len_bytes (enqueue segs payload false)).
      { unfold st1, set_xsegs; cbn [x_tx]. unfold enqueue, Segments.set_segs; cbn [ss_len_bytes]. lia. }
      destruct (IH _ _ _ _ _ _ _ _ st1 Hok1 eq_refl Hpd1 Hrem1 H) as (Hok' & evs & Hrun & Hpl).
      split; [exact Hok'|]. exists (EvEnqueue payload false :: evs). cbn [drun]. rewrite Henq. fold st1. rewrite Hrun.
      split; [reflexivity|constructor; [reflexivity|exact Hpl]].
Qed.

Lemma split_ev (s : vsock) :
  ss_ok (v_ss s) ->
  stp (split_tx_queue_into_segments cci s) (fun s' _ => D0 s s') (fun s' => D0 s s').
Proof.
  intro Hok. unfold split_tx_queue_into_segments.
  destruct (_ =? 0).
  { cbn [stp]. apply (D0_one EvRegister); try reflexivity.
    - unfold rfin; vsimpl; auto.
    - vsimpl; auto. }
  match goal with |- context [is_remote_fin_or_later (v_state ?S)] => set (s1 := S) end.
  assert (H1 : D0 s s1 /\ v_ss s1 = v_ss s /\ Z.of_nat (length (ring (v_tx s1))) = Z.of_nat (length (ring (v_tx s)))).
  { unfold s1. destruct (_ && _); [|split; [apply D0_refl|auto]].
    destruct (grow (v_tx s) (o_tx_max (v_opts s))) as [tx1 g] eqn:Eg.
    assert (Hlen : ring tx1 = ring (v_tx s)).
    { unfold grow in Eg. destruct (_ <=? _); injection Eg as <- _; reflexivity. }
    assert (Hg : D0 s (set_tx s tx1)).
    { apply (D0_one (EvGrow (o_tx_max (v_opts s)))); try reflexivity.
      - unfold dview_of; vsimpl. cbn [dapply x_tx]. rewrite Eg. reflexivity.
      - unfold rfin; vsimpl; auto.
      - vsimpl; auto. }
    destruct g.
    - destruct (wake_writer tx1) as [tx2 w] eqn:Ew.
      split; [|split; [unfold add_wakes; vsimpl; reflexivity|]].
      + eapply D0_trans; [exact Hg|].
        apply (D0_one (EvTxFlag ToWakeWriter)); try reflexivity.
        * unfold dview_of, add_wakes; vsimpl. cbn [dapply x_tx pend_safe_op tx_step]. rewrite Ew. reflexivity.
        * unfold rfin, add_wakes; vsimpl; auto.
        * unfold add_wakes; vsimpl; auto.
      + unfold add_wakes; vsimpl. unfold wake_writer in Ew. injection Ew as <- _. cbn [upd ring]. rewrite Hlen. reflexivity.
    - split; [exact Hg|split; [vsimpl; reflexivity|vsimpl; rewrite Hlen; reflexivity]]. }
  clearbody s1. destruct H1 as (Hd1 & Hss1 & Hlen1).
  assert (Hok1 : ss_ok (v_ss s1)) by (rewrite Hss1; exact Hok).
  destruct (is_remote_fin_or_later (v_state s1)); [cbn [stp]; exact Hd1|].
  destruct (pop_expired_mtu_probe (v_segs s1) _ _) as [segs1 pe] eqn:Epe.
  (* the common continuation *)
  assert (Hcont : forall s2 : vsock,
     D0 s s2 -> ss_ok (v_ss s2) -> Z.of_nat (length (ring (v_tx s2))) = Z.of_nat (length (ring (v_tx s))) ->
     stp (if Z.of_nat (length (ring (v_tx s))) <? ss_len_bytes (v_segs s2)
            then SErr s2 (ErrBug BugInBufferComputations)
            else match segment_loop (ring (v_tx s2)) (o_nagle (v_opts s2)) (v_ss s2) (v_segs s2)
                         (Z.of_nat (length (ring (v_tx s))) - ss_len_bytes (v_segs s2))
                         (v_last_remote_window s2) with
                 | None => SPanic
                 | Some (ss', segs', remaining) =>
                     SOk (set_unsegmented (VSockRec.set_segs (set_ss s2 ss') segs') remaining) tt
                 end) (fun s' _ => D0 s s') (fun s' => D0 s s')).
  { intros s2 Hd2 Hok2 Hlen2.
    destruct (_ <? _); [cbn [stp]; exact Hd2|].
    destruct (segment_loop _ _ _ _ _ _) as [[[ss' segs'] rem']|] eqn:Esl; [|exact I].
    assert (Hrem2 : Z.of_nat (length (ring (v_tx s))) - ss_len_bytes (v_segs s2) <=
                    Z.of_nat (length (ring (x_tx (dview_of 0 s2)))) - ss_len_bytes (v_segs s2)).
    { unfold dview_of; cbn [x_tx]. rewrite Hlen2. lia. }
    destruct (segment_loop_ev _ _ _ _ _ _ _ _ _ (dview_of 0 s2) Hok2 eq_refl eq_refl Hrem2 Esl)
      as (Hok' & evs & Hrun & Hpl).
    cbn [stp]. eapply D0_trans; [exact Hd2|].
    intro ib. apply (devs_plain ib false evs).
    - rewrite Hrun. unfold dview_of, set_xsegs; vsimpl. reflexivity.
    - exact Hpl.
    - vsimpl. reflexivity.
    - unfold rfin; vsimpl; auto.
    - vsimpl. auto. }
  destruct pe as [rewind_to payload_size| |].
  - apply Hcont.
    + eapply D0_trans; [exact Hd1|].
      apply (D0_one (EvPopExpired (timer_expired (v_t_retransmit s1) (v_now s1)
                                   && negb (is_local_fin_or_later (v_state s1)))
                                  (o_mtu_probe_max_retx (v_opts s1)))); try reflexivity.
      * destruct (seq_gt _ _); unfold dview_of; vsimpl; cbn [dapply x_segs]; rewrite Epe; reflexivity.
      * destruct (seq_gt _ _); vsimpl; reflexivity.
      * destruct (seq_gt _ _); unfold rfin; vsimpl; auto.
      * destruct (seq_gt _ _); vsimpl; intro H; apply failed_ss_ok; exact H.
    + destruct (seq_gt _ _); vsimpl; apply failed_ss_ok; exact Hok1.
    + destruct (seq_gt _ _); vsimpl; exact Hlen1.
  - cbn [stp]. eapply D0_trans; [exact Hd1|]. apply D0_svs. unfold svs, same_view; vsimpl; repeat split.
  - apply Hcont; assumption.
Qed.

End WalkTx.

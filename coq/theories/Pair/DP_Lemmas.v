(* Helper lemmas for the data-path proofs (C01): slices of the written stream, the assignment
   list, what the segment-table operations do to the (size, offset) shape of the table, 16-bit
   congruences. *)
From Utp Require Import Base.Prelude Wire.SeqNr Rx.Rx Rx.Rx_Proofs Tx.Ring Tx.Ring_Proofs Tx.Segments
  Tx.Segments_Proofs.

(* ------------------------------------------------------------------ lists *)
Lemma skipn_skipn' {A} : forall (a b : nat) (l : list A), skipn a (skipn b l) = skipn (b + a) l.
Proof.
  intros a b. revert a. induction b as [|b IH]; intros a l; [reflexivity|].
  destruct l as [|x xs]; cbn [skipn plus]; [destruct a; reflexivity|apply IH].
Qed.

Lemma firstn_add {A} : forall (a b : nat) (l : list A),
  firstn (a + b) l = firstn a l ++ firstn b (skipn a l).
Proof.
  induction a as [|a IH]; intros b l; [reflexivity|].
  destruct l as [|x xs]; cbn [plus firstn skipn app]; [destruct b; reflexivity|].
  f_equal. apply IH.
Qed.

Lemma nth_error_removelast {A} : forall (l : list A) i, (S i < length l)%nat ->
  nth_error (removelast l) i = nth_error l i.
Proof.
  induction l as [|x xs IH]; intros i H; cbn [length] in H; [lia|].
  destruct xs as [|y ys]; [cbn [length] in H; lia|].
  cbn [removelast]. destruct i as [|i]; [reflexivity|].
  cbn [nth_error]. apply IH. cbn [length] in *. lia.
Qed.

(* ------------------------------------------------------------------ slices of the written stream *)
Definition slice (W : list Z) (o l : Z) : list Z := firstn (Z.to_nat l) (skipn (Z.to_nat o) W).

Lemma slice_length W o l : 0 <= o -> 0 <= l -> o + l <= Z.of_nat (length W) ->
  Z.of_nat (length (slice W o l)) = l.
Proof. intros. unfold slice. rewrite firstn_length, skipn_length. lia. Qed.

Lemma slice_app_stable W e o l : 0 <= o -> 0 <= l -> o + l <= Z.of_nat (length W) ->
  slice (W ++ e) o l = slice W o l.
Proof.
  intros Ho Hl Hb. unfold slice. rewrite skipn_app, firstn_app.
  rewrite skipn_length.
  replace (Z.to_nat l - (length W - Z.to_nat o))%nat with 0%nat by lia.
  cbn [firstn]. apply app_nil_r.
Qed.

Lemma firstn_app_stable {A} (W e : list A) n : (n <= length W)%nat -> firstn n (W ++ e) = firstn n W.
Proof.
  intro H. rewrite firstn_app. replace (n - length W)%nat with 0%nat by lia. cbn [firstn]. apply app_nil_r.
Qed.

Lemma slice_cat W o a b : 0 <= o -> 0 <= a -> 0 <= b -> slice W o a ++ slice W (o + a) b = slice W o (a + b).
Proof.
  intros Ho Ha Hb. unfold slice.
  replace (Z.to_nat (a + b)) with (Z.to_nat a + Z.to_nat b)%nat by lia.
  rewrite firstn_add, skipn_skipn'. f_equal. f_equal. f_equal. lia.
Qed.

Lemma firstn_slice_cat W a b : 0 <= a -> 0 <= b ->
  firstn (Z.to_nat a) W ++ slice W a b = firstn (Z.to_nat (a + b)) W.
Proof.
  intros Ha Hb. unfold slice. replace (Z.to_nat (a + b)) with (Z.to_nat a + Z.to_nat b)%nat by lia.
  rewrite firstn_add. reflexivity.
Qed.

(* the ring holds the written stream from g_removed on *)
Lemma ring_is_suffix ti mx t : tx_inv ti mx t -> ring t = skipn (Z.to_nat (g_removed t)) (g_written t).
Proof.
  intros (_ & _ & H3 & H4 & H5).
  rewrite H4 at 1. rewrite skipn_app.
  assert (Hl : length (firstn (Z.to_nat (g_removed t)) (g_written t)) = Z.to_nat (g_removed t))
    by (apply firstn_length_le; lia).
  rewrite skipn_all2 by lia. rewrite Hl, Nat.sub_diag. reflexivity.
Qed.

Lemma ring_slice ti mx t off plen :
  tx_inv ti mx t -> 0 <= off ->
  firstn (Z.to_nat plen) (skipn (Z.to_nat off) (ring t)) = slice (g_written t) (g_removed t + off) plen.
Proof.
  intros Hinv Ho. rewrite (ring_is_suffix _ _ _ Hinv). unfold slice. rewrite skipn_skipn'.
  destruct Hinv as (_ & _ & H3 & _). f_equal. f_equal. lia.
Qed.

(* ------------------------------------------------------------------ the assignment list *)
Fixpoint atiled (base : Z) (a : list (Z * Z)) : Prop :=
  match a with
  | [] => True
  | (o, l) :: r => o = base /\ 0 < l /\ atiled (base + l) r
  end.

Fixpoint asum (a : list (Z * Z)) : Z := match a with [] => 0 | (_, l) :: r => l + asum r end.

Definition swap2 (x : Z * Z) : Z * Z := (snd x, fst x).

Lemma asum_app a b : asum (a ++ b) = asum a + asum b.
Proof. induction a as [|[o l] r IH]; cbn [app asum]; lia. Qed.

Lemma atiled_app base a b : atiled base (a ++ b) <-> atiled base a /\ atiled (base + asum a) b.
Proof.
  revert base; induction a as [|[o l] r IH]; intro base; cbn [app atiled asum].
  - rewrite Z.add_0_r. tauto.
  - rewrite IH. replace (base + (l + asum r)) with (base + l + asum r) by lia. tauto.
Qed.

Lemma asum_nonneg base a : atiled base a -> 0 <= asum a.
Proof.
  revert base; induction a as [|[o l] r IH]; intro base; cbn [atiled asum]; [lia|].
  intros (_ & Hl & Ht). specialize (IH _ Ht). lia.
Qed.

Lemma asum_firstn_le base a n : atiled base a -> 0 <= asum (firstn n a) <= asum a.
Proof.
  intro Ht. rewrite <- (firstn_skipn n a) in Ht. apply atiled_app in Ht. destruct Ht as [H1 H2].
  pose proof (asum_nonneg _ _ H1). pose proof (asum_nonneg _ _ H2).
  assert (Hs : asum a = asum (firstn n a) + asum (skipn n a)) by (rewrite <- asum_app, firstn_skipn; reflexivity).
  lia.
Qed.

(* entry k of a tiled assignment starts where the first k entries end *)
Lemma atiled_nth : forall a base (k : nat) o l,
  atiled base a -> nth_error a k = Some (o, l) ->
  o = base + asum (firstn k a) /\ 0 < l /\ asum (firstn (S k) a) = asum (firstn k a) + l /\
  o + l <= base + asum a.
Proof.
  induction a as [|[o0 l0] r IH]; intros base k o l Ht Hn; [destruct k; discriminate|].
  cbn [atiled] in Ht. destruct Ht as (-> & Hl0 & Ht).
  destruct k as [|k]; cbn [nth_error] in Hn.
  - injection Hn as <- <-. cbn [firstn asum]. pose proof (asum_nonneg _ _ Ht).
    repeat split; lia.
  - destruct (IH _ _ _ _ Ht Hn) as (A & B & C & D).
    cbn [firstn asum] in *. repeat split; lia.
Qed.

Lemma map_swap_shape_sizes (a : list (Z * Z)) (l : list seg) :
  map swap2 a = shape l -> asum a = sum_sizes l.
Proof.
  revert l; induction a as [|[o ln] r IH]; intros [|x xs] H; cbn [map shape] in H; try discriminate; [reflexivity|].
  injection H as H1 H2 H3. cbn [swap2 fst snd] in *. cbn [asum sum_sizes]. rewrite (IH xs H3). lia.
Qed.

(* ------------------------------------------------------------------ 16-bit congruences *)
Lemma seq_sub_cong a b : 0 <= a < M16 -> 0 <= b < M16 ->
  (seq_sub a b - (a - b)) mod M16 = 0 /\ - M16 < seq_sub a b < M16.
Proof.
  intros Ha Hb. unfold seq_sub, seq_nr_offset, wsub16, WRAP_TOLERANCE, M16 in *.
  destruct (Z.ltb_spec a b);
  [ destruct (Z.leb_spec ((a - b) mod 65536) 1024)
  | destruct (Z.eqb_spec a b);
    [ | destruct (Z.leb_spec ((b - a) mod 65536) 1024) ] ]; split; lia.
Qed.

Lemma wadd16_mod a b : wadd16 (a mod M16) (b mod M16) = (a + b) mod M16.
Proof. unfold wadd16, M16. lia. Qed.

(* ------------------------------------------------------------------ the segment table: shapes *)
Lemma shape_length l : length (shape l) = length l.
Proof. unfold shape. apply map_length. Qed.

Lemma enqueue_fields t len p :
  ss_segs (enqueue t len p) = ss_segs t ++
     [{| sg_size := len; sg_abs := ss_offset t; sg_delivered := false; sg_sent := NotSent;
         sg_probe := p; sg_lost := false; sg_expired := false; sg_sacks_after := false |}] /\
  ss_removed (enqueue t len p) = ss_removed t /\ ss_offset (enqueue t len p) = ss_offset t + len /\
  ss_snd_una (enqueue t len p) = ss_snd_una t /\ ss_len_bytes (enqueue t len p) = ss_len_bytes t + len.
Proof. unfold enqueue, set_segs; cbn. repeat split. Qed.

(* what a successful pop looks like *)
Lemma pop_mtu_probe_popped t q t' :
  pop_mtu_probe t q = (t', true) ->
  exists init s, ss_segs t = init ++ [s] /\ sg_probe s = true /\ sg_delivered s = false /\
    t' = set_segs t init (ss_len_bytes t - sg_size s) (ss_offset t - sg_size s).
Proof.
  unfold pop_mtu_probe. destruct (last_and_init (ss_segs t)) as [[init s]|] eqn:E; [|discriminate].
  destruct ((_ =? q) && sg_probe s && negb (sg_delivered s)) eqn:Ec; [|discriminate].
  intro H; injection H as <-. apply last_and_init_spec in E.
  apply andb_true_iff in Ec. destruct Ec as [Ec Hd]. apply andb_true_iff in Ec. destruct Ec as [_ Hp].
  exists init, s. repeat split; auto. destruct (sg_delivered s); [discriminate|reflexivity].
Qed.

Lemma pop_mtu_probe_not_popped t q t' : pop_mtu_probe t q = (t', false) -> t' = t.
Proof.
  unfold pop_mtu_probe. destruct (last_and_init (ss_segs t)) as [[init s]|].
  - destruct (_ && _); [discriminate|]. intro H; injection H as <-; reflexivity.
  - intro H; injection H as <-; reflexivity.
Qed.

Lemma pop_expired_popped t to mr t' a b :
  pop_expired_mtu_probe t to mr = (t', PeExpired a b) ->
  exists init s, ss_segs t = init ++ [s] /\ sg_probe s = true /\ sg_delivered s = false /\
    t' = set_segs t init (ss_len_bytes t - sg_size s) (ss_offset t - sg_size s).
Proof.
  unfold pop_expired_mtu_probe. destruct (last_and_init (ss_segs t)) as [[init s]|] eqn:E; [|discriminate].
  destruct (sg_delivered s) eqn:Ed; [discriminate|].
  destruct (to && sg_probe s && (mr <=? seg_retransmit_count s)) eqn:Ec.
  - intro H; injection H as <- _ _. apply last_and_init_spec in E.
    apply andb_true_iff in Ec. destruct Ec as [Ec _]. apply andb_true_iff in Ec. destruct Ec as [_ Hp].
    exists init, s. repeat split; auto.
  - destruct (sg_probe s); discriminate.
Qed.

Lemma pop_expired_not_popped t to mr t' pe :
  pop_expired_mtu_probe t to mr = (t', pe) -> (forall a b, pe <> PeExpired a b) -> t' = t.
Proof.
  unfold pop_expired_mtu_probe. destruct (last_and_init (ss_segs t)) as [[init s]|].
  - destruct (sg_delivered s); [intro H; injection H as <- _; reflexivity|].
    destruct (_ && _ && _).
    + intros H Hn. injection H as _ <-. exfalso. eapply Hn. reflexivity.
    + destruct (sg_probe s); intro H; injection H as <- _; reflexivity.
  - intro H; injection H as <- _; reflexivity.
Qed.

(* remove_up_to_ack drops a prefix of the table and moves snd_una by its length *)
Lemma remove_up_to_ack_shape t now ack sk t' r :
  seg_inv t -> remove_up_to_ack t now ack sk = (t', r) ->
  0 <= ar_acked_segments r <= Z.of_nat (length (ss_segs t)) /\
  shape (ss_segs t') = skipn (Z.to_nat (ar_acked_segments r)) (shape (ss_segs t)) /\
  ss_snd_una t' = (ss_snd_una t + ar_acked_segments r) mod M16.
Proof.
  intros (Hlb & Hoff & Ht & Hr & Hu). unfold remove_up_to_ack.
  set (dc := if 0 <=? seq_sub ack (ss_snd_una t)
             then Z.to_nat (Z.min (seq_sub ack (ss_snd_una t) + 1) (len_z (ss_segs t))) else 0%nat).
  set (a1 := drain_acc (firstn dc (ss_segs t)) now {| ac_rtt := None; ac_maxp := 0; ac_cnt := 0; ac_bytes := 0 |}).
  set (rest := skipn dc (ss_segs t)).
  destruct (drain_acc_spec (firstn dc (ss_segs t)) now {| ac_rtt := None; ac_maxp := 0; ac_cnt := 0; ac_bytes := 0 |})
    as [Hc1 Hb1]. fold a1 in Hc1, Hb1. cbn [ac_cnt ac_bytes] in Hc1, Hb1.
  destruct (sack_phase t rest a1 _ now ack sk) as [[[rest2 a2] depth] lse] eqn:E2.
  assert (Hshape : shape rest2 = shape rest).
  { unfold sack_phase in E2.
    destruct rest as [|s0 r0] eqn:Er; [injection E2 as <- _ _ _; reflexivity|].
    destruct sk as [k|]; [|injection E2 as <- _ _ _; reflexivity].
    destruct (seq_gt _ ack); [|injection E2 as <- _ _ _; reflexivity].
    destruct (0 <=? seq_sub (wadd16 ack 2) _).
    - destruct (apply_sack (skipn _ (s0 :: r0)) (sk_bits k) now _) as [tl' a'] eqn:Ea.
      injection E2 as <- _ _ _. rewrite shape_app, (apply_sack_shape _ _ _ _ _ _ Ea), <- shape_app, firstn_skipn.
      reflexivity.
    - destruct (apply_sack (s0 :: r0) _ now _) as [l' a'] eqn:Ea.
      injection E2 as <- _ _ _. exact (apply_sack_shape _ _ _ _ _ _ Ea). }
  destruct (strip_delivered rest2 0 0) as [[rest3 cnt3] bytes3] eqn:E3.
  destruct (strip_delivered_spec _ _ _ _ _ _ E3) as (dropped & Hd & Hc3 & Hb3 & _).
  intro H; injection H as <- <-.
  cbn [ss_segs ss_snd_una ar_acked_segments].
  assert (Hdc : (dc <= length (ss_segs t))%nat).
  { unfold dc, len_z. destruct (0 <=? _); lia. }
  assert (Hlf : length (firstn dc (ss_segs t)) = dc) by (apply firstn_length_le; exact Hdc).
  assert (Hlen2 : length rest2 = length rest).
  { apply (f_equal (@length _)) in Hshape. rewrite !shape_length in Hshape. exact Hshape. }
  assert (Hlr : length rest = (length (ss_segs t) - dc)%nat) by (unfold rest; apply skipn_length).
  rewrite Hd, app_length in Hlen2.
  rewrite Hc1, Hlf, Hc3.
  split; [lia|]. split.
  - replace (Z.to_nat (0 + Z.of_nat dc + (0 + Z.of_nat (length dropped)))) with (dc + length dropped)%nat by lia.
    assert (Hall : shape (ss_segs t) = (shape (firstn dc (ss_segs t)) ++ shape dropped) ++ shape rest3).
    { rewrite <- (firstn_skipn dc (ss_segs t)) at 1. fold rest.
      rewrite shape_app, <- Hshape, Hd, shape_app, app_assoc. reflexivity. }
    rewrite Hall, skipn_app.
    assert (Hl2 : length (shape (firstn dc (ss_segs t)) ++ shape dropped) = (dc + length dropped)%nat)
      by (rewrite app_length, !shape_length; lia).
    rewrite skipn_all2 by lia. rewrite Hl2, Nat.sub_diag. reflexivity.
  - unfold wadd16, M16 in *. lia.
Qed.

Lemma calc_pipe_fields t hr hd rtt now t' p rc :
  calc_pipe t hr hd rtt now = Some (t', p, rc) ->
  shape (ss_segs t') = shape (ss_segs t) /\ ss_removed t' = ss_removed t /\ ss_offset t' = ss_offset t /\
  ss_snd_una t' = ss_snd_una t /\ ss_len_bytes t' = ss_len_bytes t.
Proof.
  unfold calc_pipe. destruct (_ <? _); [discriminate|].
  destruct (pipe_loop _ t hr _ now _) as [upd a] eqn:E. intro H; injection H as <- _ _.
  unfold set_segs; cbn [ss_segs ss_removed ss_offset ss_snd_una ss_len_bytes].
  split; [|repeat split].
  apply pipe_loop_shape in E. rewrite map_rev, enum_from_snd in E.
  rewrite shape_app, shape_rev, E, shape_rev, rev_involutive, <- shape_app, firstn_skipn. reflexivity.
Qed.

Lemma on_sent_shape t i now :
  shape (ss_segs (on_sent t i now)) = shape (ss_segs t) /\ ss_removed (on_sent t i now) = ss_removed t /\
  ss_offset (on_sent t i now) = ss_offset t /\ ss_snd_una (on_sent t i now) = ss_snd_una t /\
  ss_len_bytes (on_sent t i now) = ss_len_bytes t.
Proof.
  unfold on_sent, set_segs; cbn [ss_segs ss_removed ss_offset ss_snd_una ss_len_bytes].
  split; [|repeat split]. apply update_nth_shape. intro s. split; reflexivity.
Qed.

(* items of the sending iterator *)
Lemma enum_from_nth {A} : forall (l : list A) i j x, In (j, x) (enum_from i l) ->
  (i <= j)%nat /\ nth_error l (j - i) = Some x.
Proof.
  induction l as [|y ys IH]; intros i j x; cbn [enum_from In]; [tauto|].
  intros [H|H].
  - injection H as <- <-. rewrite Nat.sub_diag. split; [lia|reflexivity].
  - destruct (IH _ _ _ H) as [H1 H2]. split; [lia|].
    replace (j - i)%nat with (S (j - S i)) by lia. exact H2.
Qed.

Lemma iter_none_item t f :
  In f (iter_for_sending t None) ->
  nth_error (ss_segs t) (fs_idx f) = Some (fs_seg f) /\
  fs_seq f = wadd16 (ss_snd_una t) (Z.of_nat (fs_idx f) mod M16) /\
  fs_payload_offset f = sg_abs (fs_seg f) - ss_removed t.
Proof.
  unfold iter_for_sending. intro H. apply filter_In in H. destruct H as [Hin _].
  apply in_map_iff in Hin. destruct Hin as ([i s] & <- & Hin). cbn [skipn] in Hin.
  apply enum_from_nth in Hin. destruct Hin as [_ Hn]. rewrite Nat.sub_0_r in Hn.
  cbn [fs_idx fs_seg fs_seq fs_payload_offset]. auto.
Qed.

Lemma tiled_in' base l g :
  tiled base l -> In g l -> base <= sg_abs g /\ sg_abs g + sg_size g <= base + sum_sizes l /\ 0 <= sg_size g.
Proof.
  revert base; induction l as [|x xs IH]; intros base Ht Hin; [contradiction|].
  cbn [tiled sum_sizes] in *. destruct Ht as (Ha & H0 & Ht).
  pose proof (tiled_sizes_nonneg _ _ Ht) as Hnn.
  destruct Hin as [->|Hin]; [lia|].
  specialize (IH _ Ht Hin). lia.
Qed.

From Utp Require Import Base.Prelude Rtt.Rtte.

Definition rto_in_bounds (s : rtt_state) : Prop :=
  RTTE_MIN_RTO <= retransmission_timeout s <= RTTE_MAX_RTO.

Lemma clamp_bounds x : RTTE_MIN_RTO <= clamp x <= RTTE_MAX_RTO.
Proof. unfold clamp, RTTE_MIN_RTO, RTTE_MAX_RTO, MS, NS_PER_SEC. lia. Qed.

Lemma calc_rto_some srtt rttvar r :
  calc_rto srtt rttvar = Some r ->
  r = clamp (srtt + Z.max (rttvar * K) CLOCK_GRANULARITY).
Proof.
  unfold calc_rto, dur_mul, dur_add, bind.
  destruct (rttvar * K <=? DUR_MAX); [|discriminate].
  destruct (_ <=? DUR_MAX); [|discriminate].
  intro H; injection H as <-. reflexivity.
Qed.

Lemma default_in_bounds : rto_in_bounds rtte_default.
Proof. unfold rto_in_bounds; vm_compute; split; discriminate. Qed.

Lemma sample_in_bounds s r s' : sample s r = Some s' -> rto_in_bounds s'.
Proof.
  unfold sample, bind. destruct s as [rto|rto srtt rttvar].
  - destruct (calc_rto r (dur_div r 2)) eqn:E; [|discriminate].
    intro H; injection H as <-. apply calc_rto_some in E. subst.
    unfold rto_in_bounds; cbn [retransmission_timeout]. apply clamp_bounds.
  - destruct (dur_mul rttvar 3); [|discriminate].
    destruct (dur_add _ _) as [rv|]; [|discriminate].
    destruct (dur_mul srtt 7); [|discriminate].
    destruct (dur_add _ r) as [c|]; [|discriminate].
    destruct (calc_rto _ _) eqn:E; [|discriminate].
    intro H; injection H as <-. apply calc_rto_some in E. subst.
    unfold rto_in_bounds; cbn [retransmission_timeout]. apply clamp_bounds.
Qed.

Lemma timeout_in_bounds s s' : on_rto_timeout s = Some s' -> rto_in_bounds s'.
Proof.
  unfold on_rto_timeout, bind. destruct s as [rto|rto srtt rttvar];
  destruct (dur_mul rto 2); try discriminate; intro H; injection H as <-;
  unfold rto_in_bounds; cbn [retransmission_timeout]; apply clamp_bounds.
Qed.

Lemma step_in_bounds s o s' : rtte_step s o = Some s' -> rto_in_bounds s'.
Proof. destruct o; cbn [rtte_step]; [apply sample_in_bounds | apply timeout_in_bounds]. Qed.

Lemma run_in_bounds : forall ops s s',
  rto_in_bounds s -> rtte_run s ops = Some s' -> rto_in_bounds s'.
Proof.
  induction ops as [|o ops IH]; cbn [rtte_run]; intros s s' Hs H.
  - injection H as <-. exact Hs.
  - unfold bind in H. destruct (rtte_step s o) eqn:E; [|discriminate].
    eapply IH; [eapply step_in_bounds; exact E | exact H].
Qed.

Lemma rto_bounds : forall ops s',
  rtte_run rtte_default ops = Some s' ->
  200 * MS <= retransmission_timeout s' <= 60 * NS_PER_SEC.
Proof. intros ops s' H. exact (run_in_bounds ops _ _ default_in_bounds H). Qed.

(* Every prefix too: the trace never shows an rto outside the bounds. *)
Lemma trace_in_bounds : forall ops s rto rtt,
  In (Some (rto, rtt)) (rtte_trace s ops) -> RTTE_MIN_RTO <= rto <= RTTE_MAX_RTO.
Proof.
  induction ops as [|o ops IH]; cbn [rtte_trace]; intros s rto rtt HIn; [contradiction|].
  destruct (rtte_step s o) eqn:E.
  - destruct HIn as [H|H].
    + injection H as <- <-. exact (step_in_bounds _ _ _ E).
    + eapply IH; exact H.
  - destruct HIn as [H|[]]. discriminate.
Qed.

(* rto after a sample = clamp(srtt + max(4 rttvar, granularity)), with the RFC 6298 updates *)
Lemma rto_after_sample_initial rto0 r s' :
  sample (Initial rto0) r = Some s' ->
  s' = Subsequent (clamp (r + Z.max (4 * (r / 2)) (10 * MS))) r (r / 2).
Proof.
  unfold sample, bind. destruct (calc_rto r (dur_div r 2)) eqn:E; [|discriminate].
  intro H; injection H as <-. apply calc_rto_some in E. subst.
  unfold dur_div, K, CLOCK_GRANULARITY. f_equal. f_equal. lia.
Qed.

Lemma rto_after_sample_subsequent rto0 srtt rttvar r s' :
  sample (Subsequent rto0 srtt rttvar) r = Some s' ->
  let rttvar' := rttvar * 3 / 4 + Z.abs (srtt - r) / 4 in
  let srtt' := (srtt * 7 + r) / 8 in
  s' = Subsequent (clamp (srtt' + Z.max (4 * rttvar') (10 * MS))) srtt' rttvar'.
Proof.
  unfold sample, bind, dur_mul, dur_add, dur_div.
  destruct (rttvar * 3 <=? DUR_MAX); [|discriminate].
  destruct (_ <=? DUR_MAX); [|discriminate].
  destruct (srtt * 7 <=? DUR_MAX); [|discriminate].
  destruct (srtt * 7 + r <=? DUR_MAX); [|discriminate].
  destruct (calc_rto _ _) eqn:E; [|discriminate].
  intro H; injection H as <-. apply calc_rto_some in E. subst. cbv zeta.
  assert (Hd : duration_abs_diff srtt r = Z.abs (srtt - r)).
  { unfold duration_abs_diff. destruct (Z.leb_spec r srtt); lia. }
  rewrite Hd. unfold K, CLOCK_GRANULARITY. f_equal. f_equal. lia.
Qed.

Lemma rto_after_sample s r s' :
  sample s r = Some s' ->
  exists srtt' rttvar',
    s' = Subsequent (clamp (srtt' + Z.max (4 * rttvar') (10 * MS))) srtt' rttvar'.
Proof.
  destruct s as [rto0|rto0 srtt rttvar]; intro H.
  - apply rto_after_sample_initial in H. eauto.
  - apply rto_after_sample_subsequent in H. eauto.
Qed.

Lemma timeout_doubles s s' :
  rto_in_bounds s -> on_rto_timeout s = Some s' ->
  retransmission_timeout s' = Z.min (2 * retransmission_timeout s) (60 * NS_PER_SEC)
  /\ roundtrip_time s' = roundtrip_time s \/
  (* Initial state: roundtrip_time is the rto itself, see model *)
  (exists rto, s = Initial rto /\
     retransmission_timeout s' = Z.min (2 * rto) (60 * NS_PER_SEC)).
Proof.
  unfold rto_in_bounds, on_rto_timeout, bind, dur_mul.
  destruct s as [rto|rto srtt rttvar]; cbn [retransmission_timeout roundtrip_time]; intros Hb H.
  - right. exists rto. split; [reflexivity|].
    destruct (rto * 2 <=? DUR_MAX); [|discriminate]. injection H as <-.
    cbn [retransmission_timeout]. unfold clamp, RTTE_MIN_RTO, RTTE_MAX_RTO, MS, NS_PER_SEC in *. lia.
  - left. destruct (rto * 2 <=? DUR_MAX); [|discriminate]. injection H as <-.
    cbn [retransmission_timeout roundtrip_time].
    unfold clamp, RTTE_MIN_RTO, RTTE_MAX_RTO, MS, NS_PER_SEC in *. lia.
Qed.

Lemma timeout_doubles_rto s s' :
  rto_in_bounds s -> on_rto_timeout s = Some s' ->
  retransmission_timeout s' = Z.min (2 * retransmission_timeout s) (60 * NS_PER_SEC).
Proof.
  intros Hb H. destruct (timeout_doubles s s' Hb H) as [[H1 _]|[rto [-> H1]]]; exact H1.
Qed.

(* A timeout never panics on a state within bounds. *)
Lemma timeout_total s : rto_in_bounds s -> on_rto_timeout s <> None.
Proof.
  unfold rto_in_bounds, on_rto_timeout, bind, dur_mul.
  destruct s as [rto|rto srtt rttvar]; cbn [retransmission_timeout]; intros Hb;
  destruct (Z.leb_spec (rto * 2) DUR_MAX) as [Hle|Hgt]; try discriminate;
  unfold DUR_MAX, RTTE_MIN_RTO, RTTE_MAX_RTO, MS, NS_PER_SEC, M64 in *; lia.
Qed.

(* The estimator core (None before the first sample) *)
Definition core (s : rtt_state) : option (Z * Z) :=
  match s with Initial _ => None | Subsequent _ srtt rttvar => Some (srtt, rttvar) end.

Lemma timeout_preserves_core s s' : on_rto_timeout s = Some s' -> core s' = core s.
Proof.
  unfold on_rto_timeout, bind. destruct s as [rto|rto srtt rttvar];
  destruct (dur_mul rto 2); try discriminate; intro H; injection H as <-; reflexivity.
Qed.

Lemma sample_depends_on_core s1 s2 r : core s1 = core s2 -> sample s1 r = sample s2 r.
Proof.
  destruct s1 as [a|a b c], s2 as [a'|a' b' c']; cbn [core]; intro H; try discriminate.
  - reflexivity.
  - injection H as -> ->. reflexivity.
Qed.

Fixpoint timeouts (n : nat) (s : rtt_state) : option rtt_state :=
  match n with O => Some s | S n' => do s' <- on_rto_timeout s; timeouts n' s' end.

Lemma timeouts_preserve_core : forall n s s', timeouts n s = Some s' -> core s' = core s.
Proof.
  induction n as [|n IH]; cbn [timeouts]; intros s s' H.
  - injection H as <-. reflexivity.
  - unfold bind in H. destruct (on_rto_timeout s) eqn:E; [|discriminate].
    rewrite (IH _ _ H). eapply timeout_preserves_core; exact E.
Qed.

(* The value after a sample does not depend on any number of earlier timeouts. *)
Lemma sample_resets n s s' r : timeouts n s = Some s' -> sample s' r = sample s r.
Proof. intro H. apply sample_depends_on_core. eapply timeouts_preserve_core; exact H. Qed.

(* srtt between smallest and largest sample *)
Definition srtt_between (lo hi : Z) (s : rtt_state) : Prop :=
  match s with Initial _ => True | Subsequent _ srtt _ => lo <= srtt <= hi end.

Definition op_sample_in (lo hi : Z) (o : rtte_op) : Prop :=
  match o with OpSample r => lo <= r <= hi | OpTimeout => True end.

Lemma step_srtt_between lo hi s o s' :
  srtt_between lo hi s -> op_sample_in lo hi o -> rtte_step s o = Some s' -> srtt_between lo hi s'.
Proof.
  destruct o as [r|]; cbn [rtte_step op_sample_in]; intros Hs Hr H.
  - destruct s as [rto0|rto0 srtt rttvar].
    + apply rto_after_sample_initial in H. subst. cbn [srtt_between]. exact Hr.
    + apply rto_after_sample_subsequent in H. subst. cbn [srtt_between] in *. lia.
  - destruct s as [rto0|rto0 srtt rttvar]; unfold on_rto_timeout, bind in H;
    destruct (dur_mul rto0 2); try discriminate; injection H as <-; exact Hs.
Qed.

Lemma run_srtt_between lo hi : forall ops s s',
  srtt_between lo hi s -> Forall (op_sample_in lo hi) ops ->
  rtte_run s ops = Some s' -> srtt_between lo hi s'.
Proof.
  induction ops as [|o ops IH]; cbn [rtte_run]; intros s s' Hs Hf H.
  - injection H as <-. exact Hs.
  - unfold bind in H. destruct (rtte_step s o) eqn:E; [|discriminate].
    inversion Hf as [|? ? Ho Hrest]; subst.
    eapply IH; [eapply step_srtt_between; eauto | exact Hrest | exact H].
Qed.

Lemma srtt_between_samples lo hi ops s' :
  Forall (op_sample_in lo hi) ops -> rtte_run rtte_default ops = Some s' ->
  srtt_between lo hi s'.
Proof. intros Hf H. eapply run_srtt_between; eauto. exact I. Qed.

(* No checked Duration operation fails for samples up to 2^60 seconds. *)
Definition no_ovf_inv (s : rtt_state) : Prop :=
  rto_in_bounds s /\
  match s with
  | Initial _ => True
  | Subsequent _ srtt rttvar => 0 <= srtt <= SAMPLE_BOUND /\ 0 <= rttvar <= SAMPLE_BOUND
  end.

Lemma sample_no_overflow s r :
  no_ovf_inv s -> 0 <= r <= SAMPLE_BOUND -> exists s', sample s r = Some s' /\ no_ovf_inv s'.
Proof.
  intros [Hb Hs] Hr.
  assert (Hgoal : exists s', sample s r = Some s' /\
            match s' with Initial _ => True
            | Subsequent _ srtt rttvar => 0 <= srtt <= SAMPLE_BOUND /\ 0 <= rttvar <= SAMPLE_BOUND end).
  { destruct s as [rto0|rto0 srtt rttvar].
    - unfold sample, bind, calc_rto, dur_mul, dur_add, dur_div, bind.
      unfold SAMPLE_BOUND, DUR_MAX, M64, NS_PER_SEC, K, CLOCK_GRANULARITY, MS in *.
      destruct (Z.leb_spec (r / 2 * 4) ((18446744073709551616 - 1) * 1000000000 + 999999999)); [|lia].
      destruct (Z.leb_spec (r + Z.max (r / 2 * 4) (10 * 1000000))
                           ((18446744073709551616 - 1) * 1000000000 + 999999999)); [|lia].
      eexists; split; [reflexivity|]. cbv beta iota. lia.
    - destruct Hs as [Hs1 Hs2].
      unfold sample, bind, calc_rto, dur_mul, dur_add, dur_div, bind, duration_abs_diff.
      unfold SAMPLE_BOUND, DUR_MAX, M64, NS_PER_SEC, K, CLOCK_GRANULARITY, MS in *.
      destruct (Z.leb_spec (rttvar * 3) ((18446744073709551616 - 1) * 1000000000 + 999999999)); [|lia].
      set (ad := if r <=? srtt then srtt - r else r - srtt).
      assert (Had : 0 <= ad <= 1152921504606846976 * 1000000000).
      { unfold ad. destruct (Z.leb_spec r srtt); lia. }
      destruct (Z.leb_spec (rttvar * 3 / 4 + ad / 4)
                           ((18446744073709551616 - 1) * 1000000000 + 999999999)); [|lia].
      destruct (Z.leb_spec (srtt * 7) ((18446744073709551616 - 1) * 1000000000 + 999999999)); [|lia].
      destruct (Z.leb_spec (srtt * 7 + r) ((18446744073709551616 - 1) * 1000000000 + 999999999)); [|lia].
      destruct (Z.leb_spec ((rttvar * 3 / 4 + ad / 4) * 4)
                           ((18446744073709551616 - 1) * 1000000000 + 999999999)); [|lia].
      destruct (Z.leb_spec ((srtt * 7 + r) / 8 + Z.max ((rttvar * 3 / 4 + ad / 4) * 4) (10 * 1000000))
                           ((18446744073709551616 - 1) * 1000000000 + 999999999)); [|lia].
      eexists; split; [reflexivity|]. cbv beta iota. lia. }
  destruct Hgoal as [s' [H1 H2]]. exists s'. split; [exact H1|].
  split; [eapply sample_in_bounds; exact H1 | exact H2].
Qed.

Lemma timeout_no_overflow s :
  no_ovf_inv s -> exists s', on_rto_timeout s = Some s' /\ no_ovf_inv s'.
Proof.
  intros [Hb Hs]. destruct (on_rto_timeout s) as [s'|] eqn:E.
  - exists s'. split; [reflexivity|]. split; [eapply timeout_in_bounds; exact E|].
    destruct s as [rto|rto srtt rttvar]; unfold on_rto_timeout, bind in E;
    destruct (dur_mul rto 2); try discriminate; injection E as <-; exact Hs.
  - exfalso. exact (timeout_total s Hb E).
Qed.

Lemma run_no_overflow : forall ops s,
  no_ovf_inv s -> Forall (op_sample_in 0 SAMPLE_BOUND) ops ->
  exists s', rtte_run s ops = Some s' /\ no_ovf_inv s'.
Proof.
  induction ops as [|o ops IH]; cbn [rtte_run]; intros s Hs Hf.
  - eauto.
  - inversion Hf as [|? ? Ho Hrest]; subst.
    assert (Hstep : exists s1, rtte_step s o = Some s1 /\ no_ovf_inv s1).
    { destruct o as [r|]; cbn [rtte_step op_sample_in] in *.
      - apply sample_no_overflow; assumption.
      - apply timeout_no_overflow; assumption. }
    destruct Hstep as [s1 [E H1]]. rewrite E. cbn [bind]. apply IH; assumption.
Qed.

Lemma no_overflow ops :
  Forall (op_sample_in 0 SAMPLE_BOUND) ops -> rtte_run rtte_default ops <> None.
Proof.
  intro Hf. destruct (run_no_overflow ops rtte_default) as [s' [E _]].
  - split; [exact default_in_bounds | exact I].
  - exact Hf.
  - rewrite E. discriminate.
Qed.

(* Non-vacuity: a concrete run through samples and timeouts. *)
Example rtte_example :
  rtte_trace rtte_default [OpSample (100 * MS); OpTimeout; OpTimeout; OpSample (50 * MS)]
  = [Some (300000000, 100000000); Some (600000000, 100000000);
     Some (1200000000, 100000000); Some (293750000, 93750000)].
Proof. vm_compute. reflexivity. Qed.

(* ---- the boolean predicate c16_ok holds of every model trace ---- *)
Definition acc_rel (a : c16_acc) (s : rtt_state) : Prop :=
  acc_prev_rto a = retransmission_timeout s /\ rto_in_bounds s /\
  match s with
  | Initial _ => acc_seen a = false
  | Subsequent _ srtt _ => acc_seen a = true /\ acc_lo a <= srtt <= acc_hi a
  end /\
  (acc_big a = false -> no_ovf_inv s).

Lemma clamp_mono x y : x <= y -> clamp x <= clamp y.
Proof. unfold clamp. lia. Qed.

Lemma in_rto_bounds_true s : rto_in_bounds s -> in_rto_bounds (retransmission_timeout s) = true.
Proof. unfold rto_in_bounds, in_rto_bounds. lia. Qed.

Lemma obs_ok_model : forall ops a s,
  acc_rel a s -> c16_obs_ok a ops (rtte_trace s ops) = true.
Proof.
  induction ops as [|o ops IH]; intros a s (Hprev & Hb & Hseen & Hbig); [reflexivity|].
  cbn [rtte_trace]. destruct (rtte_step s o) as [s'|] eqn:E.
  - cbn [c16_obs_ok]. destruct o as [r|]; cbn [rtte_step] in E.
    + (* sample *)
      pose proof (sample_in_bounds _ _ _ E) as Hb'.
      rewrite (in_rto_bounds_true _ Hb'). cbn [andb].
      assert (Hrel : (if acc_seen a then Z.min (acc_lo a) r else r) <= roundtrip_time s'
                     <= (if acc_seen a then Z.max (acc_hi a) r else r)
                     /\ clamp (roundtrip_time s' + CLOCK_GRANULARITY) <= retransmission_timeout s'
                     /\ exists rto' srtt' rttvar', s' = Subsequent rto' srtt' rttvar').
      { destruct s as [rto0|rto0 srtt rttvar].
        - rewrite Hseen. apply rto_after_sample_initial in E. subst s'.
          cbn [roundtrip_time retransmission_timeout]. split; [lia|]. split; [|eauto].
          apply clamp_mono. unfold CLOCK_GRANULARITY. lia.
        - destruct Hseen as [Hseen Hrange]. rewrite Hseen.
          apply rto_after_sample_subsequent in E. subst s'.
          cbn [roundtrip_time retransmission_timeout]. split; [lia|]. split; [|eauto].
          apply clamp_mono. unfold CLOCK_GRANULARITY. lia. }
      destruct Hrel as (Hr1 & Hr2 & rto' & srtt' & rttvar' & Hs').
      replace (_ <=? roundtrip_time s') with true by lia.
      replace (roundtrip_time s' <=? _) with true by lia.
      replace (clamp _ <=? _) with true by lia. cbn [andb].
      apply IH. subst s'. cbn [roundtrip_time retransmission_timeout] in *.
      unfold acc_rel; cbn [acc_lo acc_hi acc_seen acc_prev_rto acc_big].
      split; [reflexivity|]. split; [exact Hb'|]. split; [split; [reflexivity|lia]|].
      intro Hnb. apply orb_false_iff in Hnb. destruct Hnb as [Hnb1 Hnb2].
      apply negb_false_iff in Hnb2.
      destruct (sample_no_overflow s r (Hbig Hnb1)) as [s2 [E2 Hinv2]]; [lia|].
      rewrite E in E2. injection E2 as <-. exact Hinv2.
    + (* timeout *)
      pose proof (timeout_in_bounds _ _ E) as Hb'.
      rewrite (in_rto_bounds_true _ Hb'). cbn [andb].
      pose proof (timeout_doubles_rto _ _ Hb E) as Hd.
      rewrite Hprev.
      replace (retransmission_timeout s' =? _) with true
        by (unfold RTTE_MAX_RTO; lia). cbn [andb].
      pose proof (timeout_preserves_core _ _ E) as Hc.
      destruct s as [rto0|rto0 srtt rttvar]; destruct s' as [rto1|rto1 srtt1 rttvar1];
        cbn [core] in Hc; try discriminate.
      * rewrite Hseen. cbn [roundtrip_time retransmission_timeout].
        rewrite Z.eqb_refl. cbn [andb].
        apply IH. split; [reflexivity|]. split; [exact Hb'|]. split; [reflexivity|].
        cbn [acc_big]. intro Hnb. split; [exact Hb'|exact I].
      * destruct Hseen as [Hseen Hrange]. rewrite Hseen. injection Hc as -> ->.
        cbn [roundtrip_time retransmission_timeout].
        replace (acc_lo a <=? srtt) with true by lia.
        replace (srtt <=? acc_hi a) with true by lia. cbn [andb].
        apply IH. split; [reflexivity|]. split; [exact Hb'|]. split; [split; [reflexivity|exact Hrange]|].
        cbn [acc_big]. intro Hnb. destruct (Hbig Hnb) as [_ Hinv]. split; [exact Hb'|exact Hinv].
  - (* panic *)
    cbn [c16_obs_ok]. destruct o as [r|]; cbn [rtte_step] in E.
    + destruct (acc_big a) eqn:Eb; [reflexivity|]. cbn [orb].
      destruct ((0 <=? r) && (r <=? SAMPLE_BOUND)) eqn:Er; [|reflexivity].
      exfalso. destruct (sample_no_overflow s r (Hbig eq_refl)) as [s2 [E2 _]]; [lia|].
      rewrite E in E2. discriminate.
    + exfalso. exact (timeout_total s Hb E).
Qed.

Lemma model_trace_ok : forall ops, c16_ok ops (rtte_trace rtte_default ops) = true.
Proof.
  intro ops. apply obs_ok_model.
  split; [reflexivity|]. split; [exact default_in_bounds|]. split; [reflexivity|].
  intros _. split; [exact default_in_bounds|exact I].
Qed.

(* the exact sample clause holds of every model trace *)
Definition var_rel (v : option (Z * Z)) (s : rtt_state) : Prop :=
  match s with
  | Initial _ => v = None
  | Subsequent _ srtt rttvar => v = Some (srtt, rttvar)
  end.

Lemma exact_obs_model : forall ops v s, var_rel v s -> c16_exact_obs v ops (rtte_trace s ops) = true.
Proof.
  induction ops as [|o ops IH]; intros v s Hv; [reflexivity|].
  cbn [rtte_trace]. destruct (rtte_step s o) as [s'|] eqn:E; [|reflexivity].
  cbn [c16_exact_obs]. destruct o as [r|]; cbn [rtte_step] in E.
  - destruct s as [rto0|rto0 srtt rttvar]; cbn [var_rel] in Hv; subst v.
    + apply rto_after_sample_initial in E. subst s'. cbn [roundtrip_time retransmission_timeout].
      rewrite Z.eqb_refl. unfold CLOCK_GRANULARITY, MS. rewrite Z.eqb_refl. cbn [andb].
      apply IH. reflexivity.
    + apply rto_after_sample_subsequent in E. cbv zeta in E. subst s'.
      cbn [roundtrip_time retransmission_timeout].
      rewrite Z.eqb_refl. unfold CLOCK_GRANULARITY, MS. rewrite Z.eqb_refl. cbn [andb].
      apply IH. reflexivity.
  - pose proof (timeout_preserves_core _ _ E) as Hc.
    destruct s as [rto0|rto0 srtt rttvar]; destruct s' as [rto1|rto1 srtt1 rttvar1];
      cbn [core] in Hc; try discriminate; cbn [var_rel] in Hv; subst v.
    + cbn [andb]. apply IH. reflexivity.
    + injection Hc as -> ->. cbn [roundtrip_time]. rewrite Z.eqb_refl. cbn [andb]. apply IH. reflexivity.
Qed.

Lemma model_trace_exact_ok : forall ops, c16_exact_ok ops (rtte_trace rtte_default ops) = true.
Proof. intro ops. apply exact_obs_model. reflexivity. Qed.

(* M1: src/rtte.rs.  Duration = total nanoseconds as Z.
   Every checked operation of std::time::Duration used by the code
   (Mul<u32>, Add, Div<u32>) is explicit: overflow = None = panic in Rust. *)
From Utp Require Import Base.Prelude.

Definition NS_PER_SEC : Z := 1000000000.
Definition MS : Z := 1000000.
(* Duration::MAX = u64::MAX seconds + 999_999_999 ns *)
Definition DUR_MAX : Z := (M64 - 1) * NS_PER_SEC + 999999999.

Definition dur_ok (d : Z) : bool := (0 <=? d) && (d <=? DUR_MAX).
Definition dur_mul (d k : Z) : option Z :=
  if d * k <=? DUR_MAX then Some (d * k) else None.
Definition dur_add (a b : Z) : option Z :=
  if a + b <=? DUR_MAX then Some (a + b) else None.
(* Duration / u32 : exact floor of total nanoseconds (divisors here are 2,4,8) *)
Definition dur_div (d k : Z) : Z := d / k.

Definition RTTE_INITIAL_RTT : Z := 300 * MS.
Definition RTTE_MIN_RTO : Z := 200 * MS.
Definition RTTE_MAX_RTO : Z := 60 * NS_PER_SEC.
Definition CLOCK_GRANULARITY : Z := 10 * MS.
Definition K : Z := 4.

Definition clamp (rto : Z) : Z := Z.min RTTE_MAX_RTO (Z.max RTTE_MIN_RTO rto).

Definition calc_rto (srtt rttvar : Z) : option Z :=
  do v <- dur_mul rttvar K;
  do s <- dur_add srtt (Z.max v CLOCK_GRANULARITY);
  Some (clamp s).

Definition duration_abs_diff (a b : Z) : Z := if b <=? a then a - b else b - a.

Inductive rtt_state :=
| Initial (rto : Z)
| Subsequent (rto srtt rttvar : Z).

Definition rtte_default : rtt_state := Initial RTTE_INITIAL_RTT.

Definition roundtrip_time (s : rtt_state) : Z :=
  match s with Initial rto => rto | Subsequent _ srtt _ => srtt end.
Definition retransmission_timeout (s : rtt_state) : Z :=
  match s with Initial rto => rto | Subsequent rto _ _ => rto end.

Definition sample (s : rtt_state) (new_rtt : Z) : option rtt_state :=
  match s with
  | Initial _ =>
      let srtt := new_rtt in
      let rttvar := dur_div new_rtt 2 in
      do rto <- calc_rto srtt rttvar;
      Some (Subsequent rto srtt rttvar)
  | Subsequent _ srtt rttvar =>
      do a <- dur_mul rttvar 3;
      do rttvar' <- dur_add (dur_div a 4) (dur_div (duration_abs_diff srtt new_rtt) 4);
      do b <- dur_mul srtt 7;
      do c <- dur_add b new_rtt;
      let srtt' := dur_div c 8 in
      do rto <- calc_rto srtt' rttvar';
      Some (Subsequent rto srtt' rttvar')
  end.

Definition on_rto_timeout (s : rtt_state) : option rtt_state :=
  match s with
  | Initial rto => do r <- dur_mul rto 2; Some (Initial (clamp r))
  | Subsequent rto srtt rttvar =>
      do r <- dur_mul rto 2; Some (Subsequent (clamp r) srtt rttvar)
  end.

Inductive rtte_op := OpSample (rtt : Z) | OpTimeout.

Definition rtte_step (s : rtt_state) (o : rtte_op) : option rtt_state :=
  match o with OpSample r => sample s r | OpTimeout => on_rto_timeout s end.

Fixpoint rtte_run (s : rtt_state) (ops : list rtte_op) : option rtt_state :=
  match ops with
  | [] => Some s
  | o :: rest => do s' <- rtte_step s o; rtte_run s' rest
  end.

(* Trace of observations (rto, rtt) after each op; None marks a panic. *)
Fixpoint rtte_trace (s : rtt_state) (ops : list rtte_op) : list (option (Z * Z)) :=
  match ops with
  | [] => []
  | o :: rest =>
      match rtte_step s o with
      | Some s' => Some (retransmission_timeout s', roundtrip_time s') :: rtte_trace s' rest
      | None => [None]
      end
  end.

(* Constants the property text fixes; tools/check compares them with the
   constants printed by the compiled crate. *)
Definition rtte_cfg_ok : bool :=
  (RTTE_MIN_RTO =? 200000000) && (RTTE_MAX_RTO =? 60000000000) &&
  (CLOCK_GRANULARITY =? 10000000) && (K =? 4).

(* ---- C16 as a boolean predicate over (ops, observed trace).  The same function is
   proved true of the model's trace (Rtte_Proofs.model_trace_ok) and, extracted, is
   evaluated on the implementation's observations. *)
Definition SAMPLE_BOUND : Z := 1152921504606846976 * NS_PER_SEC.

Record c16_acc := { acc_prev_rto : Z; acc_seen : bool; acc_lo : Z; acc_hi : Z; acc_big : bool }.

Definition c16_acc0 : c16_acc :=
  {| acc_prev_rto := RTTE_INITIAL_RTT; acc_seen := false; acc_lo := 0; acc_hi := 0; acc_big := false |}.

Definition in_rto_bounds (rto : Z) : bool := (RTTE_MIN_RTO <=? rto) && (rto <=? RTTE_MAX_RTO).

Fixpoint c16_obs_ok (a : c16_acc) (ops : list rtte_op) (obs : list (option (Z * Z))) : bool :=
  match ops, obs with
  | [], [] => true
  | o :: ops', Some (rto, rtt) :: obs' =>
      match o with
      | OpTimeout =>
          in_rto_bounds rto &&
          (rto =? Z.min (2 * acc_prev_rto a) RTTE_MAX_RTO) &&
          (if acc_seen a then (acc_lo a <=? rtt) && (rtt <=? acc_hi a) else rtt =? rto) &&
          c16_obs_ok {| acc_prev_rto := rto; acc_seen := acc_seen a; acc_lo := acc_lo a;
                        acc_hi := acc_hi a; acc_big := acc_big a |} ops' obs'
      | OpSample r =>
          let lo := if acc_seen a then Z.min (acc_lo a) r else r in
          let hi := if acc_seen a then Z.max (acc_hi a) r else r in
          in_rto_bounds rto &&
          (lo <=? rtt) && (rtt <=? hi) &&
          (clamp (rtt + CLOCK_GRANULARITY) <=? rto) &&
          c16_obs_ok {| acc_prev_rto := rto; acc_seen := true; acc_lo := lo; acc_hi := hi;
                        acc_big := acc_big a || negb ((0 <=? r) && (r <=? SAMPLE_BOUND)) |} ops' obs'
      end
  | o :: _, [None] =>
      (* a panic is acceptable only if a sample outside [0, 2^60 s] was fed *)
      acc_big a || match o with OpSample r => negb ((0 <=? r) && (r <=? SAMPLE_BOUND)) | OpTimeout => false end
  | _, _ => false
  end.

Definition c16_ok (ops : list rtte_op) (obs : list (option (Z * Z))) : bool :=
  c16_obs_ok c16_acc0 ops obs.

(* ---- the sample clause at full strength: "equals smoothed RTT plus four times its variance (at least
   the clock granularity) after each sample ... returns to the sample-derived value on the next sample".
   The variance is not observable through the public API, so the predicate carries it along the trace by
   the RFC 6298 recurrence (first sample: srtt = r, rttvar = r/2; then rttvar = 3/4 rttvar + 1/4 |srtt - r|,
   srtt = 7/8 srtt + 1/8 r, Duration arithmetic = floor on nanoseconds) and requires, after every sample,
   rtt = srtt and rto = clamp (srtt + max (4 rttvar) G); a timeout leaves srtt/rttvar alone.  A panic ends
   the judged part of the trace (c16_obs_ok decides whether the panic was legitimate). *)
Fixpoint c16_exact_obs (var : option (Z * Z)) (ops : list rtte_op) (obs : list (option (Z * Z))) : bool :=
  match ops, obs with
  | [], _ => true
  | _ :: _, [] => false
  | _ :: _, None :: _ => true
  | o :: ops', Some (rto, rtt) :: obs' =>
      match o with
      | OpTimeout =>
          (match var with Some (srtt, _) => rtt =? srtt | None => true end) && c16_exact_obs var ops' obs'
      | OpSample r =>
          let '(srtt', var') :=
            match var with
            | None => (r, r / 2)
            | Some (srtt, rttvar) => ((srtt * 7 + r) / 8, rttvar * 3 / 4 + Z.abs (srtt - r) / 4)
            end in
          (rtt =? srtt') && (rto =? clamp (srtt' + Z.max (4 * var') CLOCK_GRANULARITY)) &&
          c16_exact_obs (Some (srtt', var')) ops' obs'
      end
  end.

Definition c16_exact_ok (ops : list rtte_op) (obs : list (option (Z * Z))) : bool :=
  c16_exact_obs None ops obs.

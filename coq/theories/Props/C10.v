(* C10 (single-connection half) — no datagram sequence makes one connection panic or report a
   "bug:" error; what one connection buffers stays bounded.  Connection level (Conn/VSock.v).
   Only statements + exact.  `strict = true`: the transport never answers EMSGSIZE during the poll
   (ef = emsg_free is threaded through) and no Bug error at all is allowed; `strict = false`: any
   transport, and the one Bug error allowed is BugEmsgSizeNoProbe (see the _refuted witnesses). *)
From Utp Require Import Base.Prelude Wire.SeqNr Wire.Header Rtt.Rtte Rtt.Rtte_Proofs Mtu.SegSizes Rx.Rx
  Rx.Rx_Proofs Tx.Ring Tx.Ring_Proofs Tx.Segments Tx.Segments_Proofs Conn.Recovery Conn.Msg
  Conn.VSockRec Conn.VSock Conn.VSockRun Conn.VObs Conn.C10_Pred Conn.VSock_Inv Conn.C10_Proofs
  Conn.VSock_PollAux Conn.VSock_PollIn Conn.VSock_PollTx Conn.VSock_Poll.

(* (a) the joint invariant holds of every freshly built connection with a valid configuration *)
Theorem c10_inv_init : forall (CC : Type) (cci : cc_iface CC) (mk_cc : Z -> Z -> CC) (c : vconfig),
  vconfig_ok c = true ->
  exists s0 : vsock CC,
    vsock_new cci mk_cc c = Some s0 /\ vs_inv (vc_tx_init c) (vc_tx_max c) s0.
Proof. exact @vsock_new_inv. Qed.

(* (a) ... and is preserved by every application / environment event (everything but poll) *)
Theorem c10_inv_app_events : forall (CC : Type) (cci : cc_iface CC) (ti tm : Z) (s : vsock CC) (o : vop),
  vs_inv ti tm s ->
  (forall sc : list send_outcome, o <> VoPoll sc) ->
  let '(s', _, _, _) := vstep cci s o in vs_inv ti tm s'.
Proof. exact @vstep_app_inv. Qed.

(* (a)+(b) poll, function by function.  send_data: no panic (off < 0), no
   BugOffsetBeyondBufferBounds / BugRequestedLengthExceedsBufferBounds, invariant kept *)
Theorem c10_send_data_no_bug : forall (CC : Type) (strict : bool) (ti tm p : Z) (s : vsock CC) (h : chdr)
    (f : for_sending),
  vs_inv_p ti tm p s -> ef strict s -> fs_ok s f ->
  sp strict (send_data s h f)
    (fun (s' : vsock CC) (r : send_res) =>
       vs_inv_p ti tm p s' /\ ef strict s' /\ txq_rel s s' /\
       v_restart s' = v_restart s /\ v_ss s' = v_ss s /\ v_recovery s' = v_recovery s /\
       v_rtte s' = v_rtte s /\ (strict = true -> r <> SdEmsgsize)).
Proof. exact @send_data_spec. Qed.

(* every item the segment table hands out for sending lies inside the ring *)
Theorem c10_segments_inside_ring : forall (CC : Type) (ti tm p : Z) (s : vsock CC) (st : option Z),
  vs_inv_p ti tm p s -> Forall (fs_ok s) (iter_for_sending (v_segs s) st).
Proof. exact @iter_fs_ok. Qed.

(* send_tx_queue (RTO branch, recovery loop, new-data loop, probe pop): no panic (rtte on_rto
   overflow), no Bug error (BugEmsgSizeNoProbe only when strict = false), invariant kept *)
Theorem c10_send_tx_queue_no_bug : forall (CC : Type) (cci : cc_iface CC) (strict : bool) (ti tm p : Z)
    (s : vsock CC),
  vs_inv_p ti tm p s -> ef strict s ->
  sp strict (send_tx_queue cci s) (fun (s' : vsock CC) (_ : unit) => TQ strict ti tm p s s').
Proof. exact @send_tx_queue_spec. Qed.

(* split_tx_queue_into_segments: no BugInBufferComputations, no next_segment_size overflow panic *)
Theorem c10_split_no_bug : forall (CC : Type) (cci : cc_iface CC) (strict : bool) (ti tm : Z) (s : vsock CC),
  vs_inv ti tm s -> ef strict s ->
  sp strict (split_tx_queue_into_segments cci s)
    (fun (s' : vsock CC) (_ : unit) => vs_inv ti tm s' /\ ef strict s' /\ split_rel s s').
Proof. exact @split_spec. Qed.

Theorem c10_segment_loop_no_panic : forall (fuel : list Z) (nagle : bool) (ss : segsizes) (segs : segments)
    (remaining rwr : Z),
  ss_ok ss -> seg_inv segs -> 0 <= remaining ->
  exists (ss' : segsizes) (segs' : segments) (rem' : Z),
    segment_loop fuel nagle ss segs remaining rwr = Some (ss', segs', rem') /\
    ss_ok ss' /\ seg_inv segs' /\ ss_removed segs' = ss_removed segs /\
    ss_offset segs' + rem' = ss_offset segs + remaining /\ 0 <= rem'.
Proof. exact segment_loop_spec. Qed.

(* BugUnexpectedPacketInSynReceived comes from exactly that state; the table has no other Bug site
   (BugRecvInClosed is gone with the repair of D15) *)
Theorem c10_state_table_no_bug : forall (CC : Type) (s : vsock CC) (h : chdr),
  v_state s <> SynReceived ->
  match state_table s h with
  | TblErr _ e => e = ErrStResetReceived
  | TblDrop s' | TblContinue s' => v_state s' <> SynReceived
  end.
Proof. exact @state_table_no_bug. Qed.

(* D15 (repaired by a fix: commit in /repo): a closed connection ignores every packet still queued —
   no Bug error, state untouched; only ST_RESET is reported, as the (non-Bug) reset error *)
Theorem c10_closed_ignores_packets : forall (CC : Type) (s : vsock CC) (h : chdr),
  v_state s = Closed ->
  state_table s h =
    match ch_type h with
    | ST_RESET => TblErr (set_state s Closed) ErrStResetReceived
    | _ => TblDrop s
    end.
Proof. exact @state_table_closed. Qed.

Theorem c10_closed_ignores_messages : forall (CC : Type) (cci : cc_iface CC) (s : vsock CC) (m : msg),
  v_state s = Closed ->
  process_incoming_message cci s m =
    match ch_type (m_hdr m) with
    | ST_RESET => SErr (set_state s Closed) ErrStResetReceived
    | _ => SOk s on_ack_result_default
    end.
Proof. exact @process_incoming_closed. Qed.

(* ... and SynReceived never reaches the message loop: the SYN-ACK goes out first, or the
   transport is pending (and the poll returns Pending before reading the inbox) *)
Theorem c10_syn_ack_first : forall (CC : Type) (strict : bool) (s : vsock CC),
  sp strict (maybe_send_syn_ack s)
    (fun (s' : vsock CC) (_ : unit) => v_transport_pending s' = false -> v_state s' <> SynReceived).
Proof. exact @maybe_send_syn_ack_state. Qed.

(* BugInvalidMessageExpectedStDataOrFin / BugAssemblerMissingSlot / the unwrap panic of UserRx *)
Theorem c10_rx_add_remove_no_bug : forall (r : rx) (k : msg_kind) (pl : list Z) (off : Z) (r' : rx)
    (ar : user_add_result) (w : list Rx.wake),
  rx_inv r -> 0 <= off -> k <> KOther -> rx_add_remove r k pl off = (r', ar, w) ->
  rx_inv r' /\
  (exists a : add_result, ar = UarOk a /\ a <> ArErrBugInvalidMessage /\ a <> ArErrBugMissingSlot).
Proof. exact rx_add_remove_no_bug. Qed.

(* BugTruncateFront: p = bytes acknowledged by the messages of this poll *)
Theorem c10_truncate_front_no_bug : forall (CC : Type) (ti tm p : Z) (s : vsock CC),
  vs_inv_p ti tm p s ->
  exists tx1 : tx, truncate_front (v_tx s) p = (tx1, TrOk) /\ vs_inv_p ti tm 0 (set_tx s tx1).
Proof. exact @truncate_ok. Qed.

(* (c) bounded buffering (the reassembly queue is bounded in slots, not bytes) *)
Theorem c10_bounded_buffering : forall (CC : Type) (ti tm p : Z) (s : vsock CC),
  vs_inv_p ti tm p s ->
  Z.of_nat (length (ring (v_tx s))) <= cap (v_tx s) <= Z.max ti tm /\
  0 <= q_len_bytes (v_rx s) <= q_capacity (v_rx s) /\
  0 <= filled_front (v_rx s) <= ooq_len (v_rx s) /\
  ooq_len (v_rx s) <= ooq_capacity (v_rx s) /\
  0 <= ss_len_bytes (v_segs s) <= Z.of_nat (length (ring (v_tx s))).
Proof. exact @bounded_buffering. Qed.

(* ---- refutations (each reproduced on the real code, see known findings) and regressions ---- *)
(* KF2 (a): a peer payload larger than the proven size, path limit below it *)
Theorem c10_peer_payload_bug_refuted :
  exists w cfg ops,
    vconfig_ok cfg = true /\ Forall op_msg_ok ops /\
    c10_step_ok cfg (wtrace w cfg ops) = false /\ c10_kf2_class cfg (wtrace w cfg ops) = true /\
    last_result_is (wtrace w cfg ops) is_emsg_bug = true.
Proof. exact peer_payload_bug_refuted. Qed.

(* KF2 (b): an ACK covering a never-sent MTU probe *)
Theorem c10_unsent_probe_ack_bug_refuted :
  exists w cfg ops,
    vconfig_ok cfg = true /\ Forall op_msg_ok ops /\
    c10_step_ok cfg (wtrace w cfg ops) = false /\ c10_kf2_class cfg (wtrace w cfg ops) = true /\
    last_result_is (wtrace w cfg ops) is_emsg_bug = true.
Proof. exact unsent_probe_ack_bug_refuted. Qed.

(* D15 (repaired): the witness of the old defect as a regression example — Pending in state Closed
   (transport not writable), then a queued message: the last poll still starts in Closed, and no step
   of the trace panics or reports a Bug error *)
Theorem c10_closed_pending_regression :
  exists w cfg ops,
    vconfig_ok cfg = true /\ Forall op_msg_ok ops /\
    last_pre_closed (wtrace w cfg ops) = true /\
    c10_step_ok cfg (wtrace w cfg ops) = true /\
    c10_closed_pending_class cfg (wtrace w cfg ops) = false.
Proof. exact closed_pending_regression. Qed.

(* D21 (repaired in /repo c2f6a01): calc_pipe's `range_mut(..take)` can no longer index past the table,
   whatever sequence numbers an ACK names and however many segments are queued *)
Theorem c10_calc_pipe_never_panics : forall t high_rxt high_data rtt now,
  calc_pipe t high_rxt high_data rtt now <> None.
Proof. exact calc_pipe_total. Qed.

(* ==== P1: the joint invariant of one connection across a WHOLE poll and across ALL event lists ====
   vs_x ti tm p q s = vs_inv_p ti tm p s (byte accounting, VSock_Inv.v) + per-segment facts (send times
   >= 0; only the LAST segment may be an unacknowledged MTU probe, its size in q; non-probe segments are
   at most min_ss) + 0 <= v_now <= 2^60 s.   vs_xe = exists p, vs_x .. p .. (the state of an error exit:
   acknowledged bytes may still be in the ring).   spx strict m Q E: m does not panic, an error is an
   allowed one (strict = true: no Bug error; false: BugEmsgSizeNoProbe only) and its state satisfies E.
   Hypotheses: cc_total (the congestion controller's on_ack never panics) and a clock within
   [0, 2^60 s] at every poll (Rtte.sample).  No hypothesis on sequence-number order is left
   (calc_pipe, the one site that needed one, was the panic of D21 found here; it is total now). *)

(* (1) one incoming message *)
Theorem c10_process_incoming_message_no_bug : forall (CC : Type) (cci : cc_iface CC) (strict : bool),
  cc_total cci ->
  forall (ti tm p : Z) (q : Z -> Prop) (s : vsock CC) (m : msg),
  vs_x ti tm p q s -> v_state s <> SynReceived ->
  spx strict (process_incoming_message cci s m) (pim_post ti tm p q s) (vs_xe ti tm q).
Proof. exact @process_incoming_message_x. Qed.

(* (2) all queued messages: truncate_front re-establishes p = 0, calc_pipe returns Some *)
Theorem c10_process_all_no_bug : forall (CC : Type) (cci : cc_iface CC) (strict : bool),
  cc_total cci ->
  forall (ti tm : Z) (q : Z -> Prop) (s : vsock CC),
  vs_x ti tm 0 q s -> ef strict s -> v_state s <> SynReceived ->
  spx strict (process_all_incoming_messages cci s)
    (fun (s' : vsock CC) (_ : unit) => vs_x ti tm 0 q s' /\ ef strict s' /\ loop_rel s s')
    (vs_xe ti tm q).
Proof. exact @process_all_x. Qed.

(* (2) the receive loop, by induction over the fuel (= the inbox) *)
Theorem c10_recv_loop_no_bug : forall (CC : Type) (cci : cc_iface CC) (strict : bool),
  cc_total cci ->
  forall (ti tm : Z) (q : Z -> Prop) (fuel : list msg) (s : vsock CC) (acc : on_ack_result),
  (length (v_inbox s) < length fuel)%nat -> C06_RecProofs.acc_ok acc ->
  rl_inv strict ti tm q (ar_acked_bytes acc) s ->
  spx strict (recv_loop cci fuel s acc) (rl_post strict ti tm q s) (vs_xe ti tm q).
Proof. exact @recv_loop_x. Qed.

(* the sending half, with the state of error exits and exactly what a restart leaves behind *)
Theorem c10_send_tx_queue_restart : forall (CC : Type) (cci : cc_iface CC) (strict : bool)
    (ti tm p : Z) (q : Z -> Prop) (s : vsock CC),
  vs_x ti tm p q s -> ef strict s ->
  spx strict (send_tx_queue cci s)
    (fun (s' : vsock CC) (_ : unit) => stq_post strict ti tm p q s s') (vs_xe ti tm q).
Proof. exact @send_tx_queue_x. Qed.

Theorem c10_split_probe_facts : forall (CC : Type) (cci : cc_iface CC) (strict : bool)
    (ti tm : Z) (q : Z -> Prop) (s : vsock CC),
  vs_x ti tm 0 q s -> ef strict s ->
  spx strict (split_tx_queue_into_segments cci s)
    (fun (s' : vsock CC) (_ : unit) => split_post strict ti tm q s s') (fun _ : vsock CC => False).
Proof. exact @split_x. Qed.

(* (3) one iteration of the restart loop: BrPanic is impossible; a BrReturn carries an allowed result
   and its state satisfies vs_x (vs_xe after an error); a BrRestart state satisfies restart_R *)
Theorem c10_poll_body_no_panic : forall (CC : Type) (cci : cc_iface CC) (strict : bool),
  cc_total cci ->
  forall (ti tm : Z) (q : Z -> Prop) (s0 : vsock CC),
  vs_x ti tm 0 q s0 -> 0 <= v_env_now s0 <= SAMPLE_BOUND -> ef strict s0 ->
  br_ok strict ti tm (restart_R strict ti tm q s0) (envp s0) (poll_body cci s0).
Proof. exact @poll_body_x. Qed.

(* (4) VirtualSocket::poll as defined (fuel 64): never PollPanic -- the fuel is never exhausted because
   every restart after the first at least halves max_ss - min_ss (< 65536) -- and only allowed errors *)
Theorem c10_poll_no_panic : forall (CC : Type) (cci : cc_iface CC) (strict : bool),
  cc_total cci ->
  forall (ti tm : Z) (s : vsock CC),
  vs_x ti tm 0 qT s -> 0 <= v_env_now s <= SAMPLE_BOUND -> ef strict s ->
  let '(s', r) := poll cci s in ret_ok strict ti tm (envp s) s' r.
Proof. exact @poll_x. Qed.

(* the halving argument: a restart never widens max_ss - min_ss, and from a table without live probe
   (q = no size) it needs max_ss - min_ss >= 1 and at least halves it *)
Theorem c10_restart_halves : forall (CC : Type) (strict : bool) (ti tm : Z) (q : Z -> Prop)
    (s0 s' : vsock CC),
  ss_ok (v_ss s0) -> restart_R strict ti tm q s0 s' ->
  0 <= dss (v_ss s') <= dss (v_ss s0) /\
  ((forall z : Z, ~ q z) -> 1 <= dss (v_ss s0) /\ 2 * dss (v_ss s') <= dss (v_ss s0)).
Proof. exact @restart_measure. Qed.

Theorem c10_poll_loop_no_panic : forall (CC : Type) (cci : cc_iface CC) (strict : bool),
  cc_total cci ->
  forall (ti tm : Z) (fuel : nat) (s : vsock CC),
  vs_x ti tm 0 qF s -> 0 <= v_env_now s <= SAMPLE_BOUND -> ef strict s ->
  dss (v_ss s) < 2 ^ (Z.of_nat fuel - 1) -> (1 <= fuel)%nat ->
  let '(s', r) := poll_loop cci fuel s in ret_ok strict ti tm (envp s) s' r.
Proof. exact @poll_loop_x. Qed.

Theorem c10_poll_result : forall (CC : Type) (strict : bool) (ti tm : Z) (e0 : Z * option Z)
    (s' : vsock CC) (r : poll_result),
  ret_ok strict ti tm e0 s' r ->
  r <> PollPanic /\
  (forall b : bug_site, r = PollReadyErr (ErrBug b) -> b = BugEmsgSizeNoProbe /\ strict = false).
Proof. exact @ret_ok_result. Qed.

(* in the strict reading (the transport never answers EMSGSIZE) an iteration never restarts *)
Theorem c10_poll_body_strict_no_restart : forall (CC : Type) (cci : cc_iface CC) (strict : bool),
  cc_total cci ->
  forall (ti tm : Z) (q : Z -> Prop) (s0 : vsock CC),
  strict = true -> vs_x ti tm 0 q s0 -> 0 <= v_env_now s0 <= SAMPLE_BOUND -> ef strict s0 ->
  forall s' : vsock CC, poll_body cci s0 <> BrRestart s'.
Proof. exact @poll_body_strict. Qed.

(* (5) every event *)
Theorem c10_vstep_inv : forall (CC : Type) (cci : cc_iface CC) (strict : bool),
  cc_total cci ->
  forall (ti tm : Z) (s : vsock CC) (o : vop),
  tinv ti tm s -> op_clock_ok o -> op_ef strict s o ->
  let '(s', out, _, _) := vstep cci s o in out_ok strict ti tm s s' out.
Proof. exact @vstep_x. Qed.

Theorem c10_vstep_next : forall (CC : Type) (strict : bool) (ti tm : Z) (s s' : vsock CC) (out : vout),
  tinv ti tm s -> out_ok strict ti tm s s' out -> poll_finished out = false -> tinv ti tm s'.
Proof. exact @out_ok_next. Qed.

(* (6) every event list *)
Theorem c10_vtrace_inv : forall (CC : Type) (cci : cc_iface CC),
  cc_total cci ->
  forall (ti tm : Z) (ops : list vop) (s : vsock CC),
  tinv ti tm s -> Forall op_clock_ok ops -> Forall (obs_ok ti tm false) (vtrace cci s ops).
Proof. exact @vtrace_x. Qed.

Theorem c10_vtrace_inv_strict : forall (CC : Type) (cci : cc_iface CC),
  cc_total cci ->
  forall (ti tm : Z) (ops : list vop) (s : vsock CC),
  tinv ti tm s -> v_emsg_limit s = None ->
  Forall op_clock_ok ops -> Forall op_nolimit ops -> Forall op_script_legit ops ->
  Forall (obs_ok ti tm true) (vtrace cci s ops).
Proof. exact @vtrace_strict. Qed.

Theorem c10_run_no_panic_no_bug : forall (CC : Type) (cci : cc_iface CC),
  cc_total cci ->
  forall (mk_cc : Z -> Z -> CC) (c : vconfig) (ops : list vop),
  vconfig_ok c = true -> Forall op_clock_ok ops ->
  exists s0 : vsock CC,
    vsock_new cci mk_cc c = Some s0 /\
    Forall (obs_ok (vc_tx_init c) (vc_tx_max c) false) (vtrace cci s0 ops).
Proof. exact @run_no_panic_no_bug. Qed.

Theorem c10_run_no_bug_strict : forall (CC : Type) (cci : cc_iface CC),
  cc_total cci ->
  forall (mk_cc : Z -> Z -> CC) (c : vconfig) (ops : list vop),
  vconfig_ok c = true -> Forall op_clock_ok ops -> Forall op_nolimit ops -> Forall op_script_legit ops ->
  exists s0 : vsock CC,
    vsock_new cci mk_cc c = Some s0 /\
    Forall (obs_ok (vc_tx_init c) (vc_tx_max c) true) (vtrace cci s0 ops).
Proof. exact @run_no_bug_strict. Qed.

(* the extracted predicate c10_step_ok holds on every model trace on which no path limit is set
   (with a limit it is refuted: c10_peer_payload_bug_refuted, c10_unsent_probe_ack_bug_refuted) *)
Theorem c10_step_ok_model_nolimit : forall (CC : Type) (cci : cc_iface CC),
  cc_total cci ->
  forall (mk_cc : Z -> Z -> CC) (c : vconfig) (ops : list vop),
  vconfig_ok c = true -> Forall op_clock_ok ops -> Forall op_nolimit ops ->
  exists s0 : vsock CC,
    vsock_new cci mk_cc c = Some s0 /\ c10_step_ok c (ftrace cci s0 ops) = true.
Proof. exact @c10_step_ok_nolimit. Qed.

(* REFUTED as asked: the state of an error exit does not satisfy vs_inv (only vs_xe) *)
Theorem c10_err_exit_not_inv_refuted :
  exists (w : Z) (cfg : vconfig) (ops : list vop),
    vconfig_ok cfg = true /\ Forall op_clock_ok ops /\
    match last_state_of w cfg ops with
    | Some s => forall ti tm : Z, ~ vs_inv ti tm s
    | None => False
    end.
Proof. exact err_exit_not_inv_refuted. Qed.

(* non-vacuity: the hypotheses are satisfiable; the restart loop does restart *)
Theorem c10_p1_hyps_satisfiable :
  cc_total (fixed_cc 100000) /\ vconfig_ok p1_cfg = true /\
  Forall op_clock_ok p1_ops /\ Forall op_nolimit p1_ops /\ Forall op_script_legit p1_ops.
Proof. exact p1_hyps_satisfiable. Qed.

Theorem c10_restart_reachable :
  match last_state_of 100000 p1_cfg [VoSetLimit (Some 1000); VoPoll []; VoWrite (repeat 0 (Z.to_nat 3000))] with
  | Some s => restarts (fixed_cc 100000) 64 (set_arm_in (set_wakes (set_out (set_sends s []) []) []) None) = 1%nat
  | None => False
  end.
Proof. exact restart_reachable. Qed.

Print Assumptions c10_inv_init.
Print Assumptions c10_inv_app_events.
Print Assumptions c10_send_data_no_bug.
Print Assumptions c10_segments_inside_ring.
Print Assumptions c10_send_tx_queue_no_bug.
Print Assumptions c10_split_no_bug.
Print Assumptions c10_segment_loop_no_panic.
Print Assumptions c10_state_table_no_bug.
Print Assumptions c10_closed_ignores_packets.
Print Assumptions c10_closed_ignores_messages.
Print Assumptions c10_syn_ack_first.
Print Assumptions c10_rx_add_remove_no_bug.
Print Assumptions c10_truncate_front_no_bug.
Print Assumptions c10_bounded_buffering.
Print Assumptions c10_peer_payload_bug_refuted.
Print Assumptions c10_unsent_probe_ack_bug_refuted.
Print Assumptions c10_closed_pending_regression.
Print Assumptions c10_calc_pipe_never_panics.
Print Assumptions c10_process_incoming_message_no_bug.
Print Assumptions c10_process_all_no_bug.
Print Assumptions c10_recv_loop_no_bug.
Print Assumptions c10_send_tx_queue_restart.
Print Assumptions c10_split_probe_facts.
Print Assumptions c10_poll_body_no_panic.
Print Assumptions c10_poll_no_panic.
Print Assumptions c10_restart_halves.
Print Assumptions c10_poll_loop_no_panic.
Print Assumptions c10_poll_result.
Print Assumptions c10_poll_body_strict_no_restart.
Print Assumptions c10_vstep_inv.
Print Assumptions c10_vstep_next.
Print Assumptions c10_vtrace_inv.
Print Assumptions c10_vtrace_inv_strict.
Print Assumptions c10_run_no_panic_no_bug.
Print Assumptions c10_run_no_bug_strict.
Print Assumptions c10_step_ok_model_nolimit.
Print Assumptions c10_err_exit_not_inv_refuted.
Print Assumptions c10_p1_hyps_satisfiable.
Print Assumptions c10_restart_reachable.

(* ====================================================================================== *)
(* C10 (socket half) - arbitrary datagrams into the socket dispatcher.                     *)
(* The recv arm of run_once is UtpMessage::deserialize followed by on_recv; the            *)
(* composition is Sock/DispHostile.v: parse_raw = msg_deserialize reduced to what the      *)
(* dispatcher looks at, handle_recv_raw = parse then on_recv, rop = op alphabet with raw   *)
(* datagrams (RopRaw pushes addr bytes | RopOp dop), rrun / rtrace = runs over rop lists.  *)
(* d_inv (Sock/Dispatcher_Proofs.v) is the dispatcher invariant; it holds of every state   *)
(* reachable from dstate_new (c13_reachable_inv), so it is not an assumption.              *)
From Utp Require Import Sock.Dispatcher Sock.Dispatcher_Proofs Sock.DispObs Sock.DispObs_Proofs
  Sock.DispFresh_Proofs Sock.DispSlots_Proofs Sock.DispPending_Proofs Sock.DispWiring_Proofs
  Sock.DispRelease_Proofs Sock.DispHostile Sock.DispHostile_Proofs Wire.Header_Proofs.

(* ---- (1) total: no byte list panics the parser ... *)
Theorem c10_disp_parse_total : forall bs : list Z, parse_raw bs <> RpPanic.
Proof. exact parse_raw_no_panic. Qed.

(* ... garbage is exactly what C11 says the parser rejects (no header, or payload rule broken);
   e.g. anything shorter than 20 bytes or with a version nibble other than 1 ... *)
Theorem c10_disp_garbage_spec : forall bs, bytes_okb bs = true ->
  (parse_raw bs = RpGarbage <->
   match deserialize bs with
   | None => True
   | Some (h, n) => ~ (skipn (Z.to_nat n) bs <> [] <-> h_type h = ST_DATA)
   end).
Proof. exact parse_raw_garbage_spec. Qed.

Theorem c10_disp_short_is_garbage : forall bs, Zlength bs < 20 -> parse_raw bs = RpGarbage.
Proof. exact short_is_garbage. Qed.

Theorem c10_disp_bad_version_is_garbage : forall bs, nth 0 bs 0 mod 16 <> 1 -> parse_raw bs = RpGarbage.
Proof. exact bad_version_is_garbage. Qed.

(* ... what does parse hands the dispatcher the header's own fields, the connection id in u16 range *)
Theorem c10_disp_parsed_fields : forall bs m, bytes_okb bs = true -> parse_raw bs = RpMsg m ->
  20 <= Zlength bs /\
  dm_conn m = of_be16 (nth 2 bs 0) (nth 3 bs 0) /\ 0 <= dm_conn m < 65536 /\
  dm_seq m = of_be16 (nth 16 bs 0) (nth 17 bs 0) /\
  dm_ack m = of_be16 (nth 18 bs 0) (nth 19 bs 0) /\
  type_to_number (dm_type m) = nth 0 bs 0 / 16.
Proof. exact parse_raw_msg_fields. Qed.

(* ... and "parse, then HandleRecv" on ANY byte list, ANY sender, ANY state satisfying the
   invariant: never a panic outcome, the invariant and the limit are kept, and garbage changes
   NOTHING (s' = s: no entry added or removed, no connecting slot, no SYN queued; e = [EvDropped]:
   no reply, nothing forwarded) *)
Theorem c10_disp_total : forall s addr bs,
  d_inv s ->
  exists s' e, handle_recv_raw s addr bs = RoOk s' e /\
    d_inv s' /\ d_max_streams s' = d_max_streams s /\
    (parse_raw bs = RpGarbage -> s' = s /\ e = [EvDropped]) /\
    (forall m, parse_raw bs = RpMsg m -> on_recv s addr m = (s', e)).
Proof. exact disp_total. Qed.

(* the whole run_once: a garbage datagram leaves exactly the effect of cleanup_accept_queue and of
   the accept() calls that arrived while parked, which happen whatever arm fires *)
Theorem c10_disp_total_run_once : forall s pushes addr bs,
  d_inv s ->
  exists d s' e,
    rop_dop (RopRaw pushes addr bs) = Some d /\ rstep s (RopRaw pushes addr bs) = Some (s', e) /\
    dstep s d = (s', e) /\ d_inv s' /\ d_max_streams s' = d_max_streams s /\
    (parse_raw bs = RpGarbage ->
       d = DoRunOnce pushes (ArmRecv addr None) /\
       let '(s1, e1) := cleanup_accept_queue s in
       s' = fold_left push_acceptor pushes s1 /\ e = e1 ++ [EvDropped]).
Proof. exact disp_total_run_once. Qed.

(* ---- (2) isolation.  What each datagram does, exactly (recv_effect, Sock/DispHostile_Proofs.v):
   key (addr, id) in the table and alive: forwarded, nothing else; in the table and dead: that
   entry is removed; otherwise ST_SYN: syn_effect = exactly one of {one new entry (addr, id + 1)
   handed to a live acceptor | ignored because that key is in use | this SYN appended to the
   backlog | one reset carrying its sequence number, backlog full}; ST_STATE: ack_effect = nothing,
   or the completion of the FIRST pending connect to addr whose SYN carried ack_nr (new entry
   (addr, id) unless the connector is gone); DATA / FIN / RESET: nothing *)
Theorem c10_disp_effect_exact : forall s addr m s' e,
  d_inv s -> on_recv s addr m = (s', e) -> recv_effect s addr m s' e.
Proof. exact on_recv_exact. Qed.

(* the consequences, spelled out *)
Theorem c10_disp_isolation : forall s addr m s' e,
  d_inv s -> on_recv s addr m = (s', e) ->
  let k := {| k_addr := addr; k_conn := dm_conn m |} in
  (forall k0, In (EvForward k0) e -> k0 = k /\ e = [EvForward k] /\ s' = s) /\
  (forall en, In en (d_streams s) -> se_key en <> k -> In en (d_streams s')) /\
  (forall en, In en (d_streams s') -> In en (d_streams s) \/
     (find_stream s k = None /\ d_streams s' = d_streams s ++ [en] /\ se_alive en = true /\
      ~ In (se_key en) (keys (d_streams s)) /\
      ((dm_type m = ST_SYN /\ se_key en = syn_key (syn_of addr m)) \/
       (dm_type m = ST_STATE /\ se_key en = k)))) /\
  (d_syns s' = d_syns s \/
   (dm_type m = ST_SYN /\ find_stream s k = None /\ d_syns s' = d_syns s ++ [syn_of addr m] /\
    d_streams s' = d_streams s /\ e = [])) /\
  (forall a c q, In (EvSentRst a c q) e ->
     dm_type m = ST_SYN /\ find_stream s k = None /\ e = [EvSentRst addr (dm_conn m) (dm_seq m)] /\
     d_streams s' = d_streams s /\ d_syns s' = d_syns s) /\
  (forall a c q, ~ In (EvSentSyn a c q) e) /\
  (forall a, pending s' a = pending s a \/
     (a = addr /\ dm_type m = ST_STATE /\ find_stream s k = None /\
      exists c m1 m2, pending s a = m1 ++ c :: m2 /\ cn_seq c = dm_ack m /\ pending s' a = m1 ++ m2)) /\
  d_control s' = d_control s /\ d_next_conn_id s' = d_next_conn_id s /\
  d_max_streams s' = d_max_streams s /\ d_dead_connectors s' = d_dead_connectors s /\
  d_dead_acceptors s' = d_dead_acceptors s.
Proof. exact disp_isolation. Qed.

(* the same for the whole run_once (cleanup first), in the terms of the extracted predicate *)
Theorem c10_disp_isolation_run_once : forall s pushes addr om s' e,
  d_inv s -> dstep s (DoRunOnce pushes (ArmRecv addr om)) = (s', e) ->
  (forall k0, In k0 (fwd_keys e) -> is_own_key addr om k0 = true) /\
  (length (fwd_keys e) <= 1)%nat /\
  (forall en, In en (d_streams s) -> is_own_key addr om (se_key en) = false -> In en (d_streams s')) /\
  (forall en, In en (d_streams s') ->
     In (se_key en) (keys (d_streams s)) \/ (exists y, In y (d_syns s) /\ se_key en = syn_key y) \/
     may_create addr om (se_key en) = true) /\
  (exists n, (n <= length (d_syns s))%nat /\
     (d_syns s' = skipn n (d_syns s) \/
      exists m, om = Some m /\ dm_type m = ST_SYN /\ d_syns s' = skipn n (d_syns s) ++ [syn_of addr m])) /\
  count_rst e <= 1 /\ (0 < count_rst e -> is_syn om = true) /\
  d_control s' = d_control s.
Proof. exact run_once_recv_facts. Qed.

(* every step of every op list: an inbox receives a datagram only from its own peer address with
   its own connection id *)
Theorem c10_disp_forward_only_own : forall s o s' e k,
  d_inv s -> dstep s o = (s', e) -> In (EvForward k) e ->
  exists pushes m, o = DoRunOnce pushes (ArmRecv (k_addr k) (Some m)) /\ dm_conn m = k_conn k /\
    exists en, In en (d_streams s') /\ se_key en = k /\ se_alive en = true.
Proof. exact forward_only_own. Qed.

(* ALL RAW OP LISTS: the table entry of a live connection (same object, alive) survives anything
   that arrives and anything the other tasks do, except the drop of the accept future holding it *)
Theorem c10_disp_live_connection_unaffected : forall ops s en,
  d_inv s -> In en (d_streams s) -> se_alive en = true -> forallb no_accept_drop ops = true ->
  exists s', rrun s ops = Some s' /\ d_inv s' /\ In en (d_streams s').
Proof. exact live_connection_unaffected. Qed.

(* ---- (3) bounded: ALL lists of raw datagrams and other ops run to the end (no panic) and the
   dispatcher's own state stays within its static bounds *)
Theorem c10_disp_bounded : forall max_streams random ops,
  exists s, rrun (dstate_new max_streams random) ops = Some s /\ d_inv s /\
    d_max_streams s = max_streams /\
    NoDup (keys (d_streams s)) /\
    Z.of_nat (length (d_streams s)) <= Z.max 0 max_streams /\
    Z.of_nat (length (d_syns s)) <= 32 /\
    Z.of_nat (length (d_chan s)) <= 32 /\
    Z.of_nat (length (accq s)) <= 33 /\
    (forall a, (length (pending s a) <= 4)%nat) /\
    Forall (fun p => length (snd p) = 4%nat) (d_connecting s).
Proof. exact disp_bounded. Qed.

Theorem c10_disp_bounded_from : forall s ops,
  d_inv s ->
  exists s', rrun s ops = Some s' /\ d_inv s' /\ d_max_streams s' = d_max_streams s /\
    NoDup (keys (d_streams s')) /\
    Z.of_nat (length (d_streams s')) <= Z.max 0 (d_max_streams s) /\
    Z.of_nat (length (d_syns s')) <= ACCEPT_QUEUE_MAX_SYNS /\
    Z.of_nat (length (d_chan s')) <= ACCEPT_QUEUE_MAX_ACCEPTORS /\
    Z.of_nat (length (accq s')) <= ACCEPT_QUEUE_MAX_ACCEPTORS + 1 /\
    (forall a, (length (pending s' a) <= MAX_CONNECTING_PER_ADDR)%nat) /\
    Forall (fun p => length (snd p) = MAX_CONNECTING_PER_ADDR) (d_connecting s').
Proof. exact disp_bounded_from. Qed.

(* a raw datagram never grows what only local calls may grow (the unbounded control channel, the
   pending connects, the connection-id counter), never makes the dispatcher send a SYN and never
   fails a connect *)
Theorem c10_disp_raw_step_local_state : forall s pushes addr bs s' e,
  d_inv s -> rstep s (RopRaw pushes addr bs) = Some (s', e) ->
  d_control s' = d_control s /\ d_next_conn_id s' = d_next_conn_id s /\
  d_dead_connectors s' = d_dead_connectors s /\
  (forall a, (length (pending s' a) <= length (pending s a))%nat) /\
  (forall a c q, ~ In (EvSentSyn a c q) e) /\ (forall t, ~ In (EvConnectErr t) e).
Proof. exact raw_step_local_state. Qed.

(* never wedged: after ANY raw op list a connect with a free slot is served (or refused by the
   table limit only), and a live waiting acceptor is served by the next SYN *)
Theorem c10_disp_not_wedged_connect : forall max_streams random ops,
  exists s, rrun (dstate_new max_streams random) ops = Some s /\
    forall pushes addr token r s' e,
      d_control s = CtlConnect addr token :: r -> (length (pending s addr) < 4)%nat ->
      dstep s (DoRunOnce pushes (ArmControl SynSent)) = (s', e) ->
      (In (EvConnectErr token) e /\ d_results s' = d_results s ++ [(token, CrTooMany)] /\
       forall a, pending s' a = pending s a) \/
      (no_connect_err e /\ d_results s' = d_results s /\
       exists cid q, In (EvSentSyn addr cid q) e /\
         In {| cn_token := token; cn_seq := q |} (pending s' addr) /\
         length (pending s' addr) = S (length (pending s addr)) /\
         forall a, a <> addr -> pending s' a = pending s a).
Proof. exact hostile_then_connect_served. Qed.

Theorem c10_disp_not_wedged_accept : forall max_streams random ops,
  exists s, rrun (dstate_new max_streams random) ops = Some s /\
    forall pushes addr m dead a rest s' e,
      d_syns s = [] -> dm_type m = ST_SYN ->
      find_stream s {| k_addr := addr; k_conn := dm_conn m |} = None ->
      serve_cond s (syn_of addr m) dead a rest ->
      dstep s (DoRunOnce pushes (ArmRecv addr (Some m))) = (s', e) ->
      e = [EvAccepted a (syn_key (syn_of addr m))] /\ d_syns s' = [] /\ exists ext, accq s' = rest ++ ext.
Proof. exact hostile_then_accept_served. Qed.

(* ---- the extracted predicates (Sock/DispHostile.v) hold of every model step and raw trace *)
Theorem c10_disp_step_ok_every_step : forall s pushes addr om s' e,
  d_inv s -> dstep s (DoRunOnce pushes (ArmRecv addr om)) = (s', e) ->
  c10_disp_step_ok addr om (dstep_obs_of s e s') = true.
Proof. exact c10_disp_step_ok_model. Qed.

Theorem c10_disp_bounds_ok_every_state : forall s, d_inv s ->
  c10_disp_bounds_ok (d_max_streams s) (dobs_of s) = true.
Proof. exact c10_disp_bounds_ok_model. Qed.

Theorem c10_disp_trace_ok_every_trace : forall max_streams random ops,
  c10_disp_trace_ok max_streams (rtrace (dstate_new max_streams random) ops) = true /\
  length (rtrace (dstate_new max_streams random) ops) = length ops.
Proof. exact c10_disp_trace_ok_model. Qed.

(* ---- boundaries (witnesses) and non-vacuity *)
(* literally "changes no entry other than the one keyed (addr, id)" is false: a SYN with id c
   creates (addr, c + 1) - by design; c10_disp_isolation is the true form *)
Theorem c10_disp_isolation_literal_refuted :
  exists s addr m s' e en,
    d_inv s /\ on_recv s addr m = (s', e) /\
    In en (d_streams s') /\ ~ In en (d_streams s) /\
    se_key en <> {| k_addr := addr; k_conn := dm_conn m |}.
Proof. exact isolation_literal_refuted. Qed.

(* the SYN backlog is shared and has no expiry: 32 SYNs of one address, no accept() waiting, and
   a legitimate peer's SYN is refused with a reset *)
Theorem c10_disp_backlog_exhaustion_boundary :
  exists s, rrun (dstate_new 128 [7]) hostile_syns = Some s /\
    length (d_syns s) = 32%nat /\ d_streams s = [] /\
    Forall (fun y => sy_addr y = 9) (d_syns s) /\
    rstep s (RopRaw [] 5 (syn_bytes 50 1000)) = Some (s, [EvSentRst 5 50 1000]).
Proof. exact backlog_exhaustion_boundary. Qed.

Theorem c10_disp_parse_examples :
  parse_raw (syn_bytes 50 1000) = RpMsg {| dm_type := ST_SYN; dm_conn := 50; dm_seq := 1000; dm_ack := 0 |} /\
  parse_raw (data_bytes 51 1001) = RpMsg {| dm_type := ST_DATA; dm_conn := 51; dm_seq := 1001; dm_ack := 0 |} /\
  parse_raw [] = RpGarbage /\
  parse_raw (removelast (syn_bytes 50 1000)) = RpGarbage /\
  parse_raw (66 :: tl (syn_bytes 50 1000)) = RpGarbage /\
  parse_raw (81 :: tl (syn_bytes 50 1000)) = RpGarbage /\
  parse_raw (removelast (data_bytes 51 1001)) = RpGarbage /\
  parse_raw (syn_bytes 50 1000 ++ [7]) = RpGarbage /\
  parse_raw (65 :: 1 :: skipn 2 (syn_bytes 50 1000) ++ [0; 200; 1]) = RpGarbage.
Proof. exact parse_examples. Qed.

Theorem c10_disp_hostile_trace_example :
  let ops := [RopOp (DoPushAcceptor 1);
              RopRaw [] 5 (syn_bytes 50 1000);
              RopRaw [] 5 (data_bytes 51 1001);
              RopRaw [] 6 (data_bytes 51 1001);
              RopRaw [] 5 [1; 2; 3]] in
  map (fun x => (so_fwd (snd x), ob_streams (so_post (snd x)))) (rtrace (dstate_new 128 [7; 100]) ops) =
  [([], []);
   ([], [({| k_addr := 5; k_conn := 51 |}, true)]);
   ([{| k_addr := 5; k_conn := 51 |}], [({| k_addr := 5; k_conn := 51 |}, true)]);
   ([], [({| k_addr := 5; k_conn := 51 |}, true)]);
   ([], [({| k_addr := 5; k_conn := 51 |}, true)])].
Proof. exact hostile_trace_example. Qed.

Print Assumptions c10_disp_parse_total.
Print Assumptions c10_disp_garbage_spec.
Print Assumptions c10_disp_short_is_garbage.
Print Assumptions c10_disp_bad_version_is_garbage.
Print Assumptions c10_disp_parsed_fields.
Print Assumptions c10_disp_total.
Print Assumptions c10_disp_total_run_once.
Print Assumptions c10_disp_effect_exact.
Print Assumptions c10_disp_isolation.
Print Assumptions c10_disp_isolation_run_once.
Print Assumptions c10_disp_forward_only_own.
Print Assumptions c10_disp_live_connection_unaffected.
Print Assumptions c10_disp_bounded.
Print Assumptions c10_disp_bounded_from.
Print Assumptions c10_disp_raw_step_local_state.
Print Assumptions c10_disp_not_wedged_connect.
Print Assumptions c10_disp_not_wedged_accept.
Print Assumptions c10_disp_step_ok_every_step.
Print Assumptions c10_disp_bounds_ok_every_state.
Print Assumptions c10_disp_trace_ok_every_trace.
Print Assumptions c10_disp_isolation_literal_refuted.
Print Assumptions c10_disp_backlog_exhaustion_boundary.
Print Assumptions c10_disp_parse_examples.
Print Assumptions c10_disp_hostile_trace_example.

(* the per-address connecting map (a HashMap keyed by peer address) never gains an entry by a datagram *)
Theorem c10_disp_raw_step_connecting_size : forall s pushes addr bs s' e,
  d_inv s -> rstep s (RopRaw pushes addr bs) = Some (s', e) ->
  (length (d_connecting s') <= length (d_connecting s))%nat.
Proof. exact raw_step_connecting_size. Qed.

Print Assumptions c10_disp_raw_step_connecting_size.

(* the extracted predicate c10_disp_step_ok is not vacuous: observations it rejects *)
Theorem c10_disp_step_ok_rejects :
  let two := [(k551, true); (k661, true)] in
  let mk pre rsts fwd post := {| so_pre := pre; so_rsts := rsts; so_fwd := fwd; so_post := post |} in
  c10_disp_step_ok 5 (Some m_data51) (mk (obs0 two []) 0 [k551] (obs0 two [])) = true /\
  c10_disp_step_ok 5 (Some m_data51) (mk (obs0 two []) 0 [k661] (obs0 two [])) = false /\
  c10_disp_step_ok 5 None (mk (obs0 two []) 0 [k551] (obs0 two [])) = false /\
  c10_disp_step_ok 5 (Some m_data51) (mk (obs0 two []) 0 [k551] (obs0 [(k551, true)] [])) = false /\
  c10_disp_step_ok 5 (Some m_data51) (mk (obs0 two []) 0 [k551] (obs0 [(k551, true); (k661, false)] [])) = false /\
  c10_disp_step_ok 5 None (mk (obs0 [] []) 0 [] (obs0 [(k551, true)] [])) = false /\
  c10_disp_step_ok 5 (Some m_syn50) (mk (obs0 [] []) 0 [] (obs0 [(k661, true)] [])) = false /\
  c10_disp_step_ok 5 (Some m_syn50) (mk (obs0 [] []) 0 [] (obs0 [(k551, true)] [])) = true /\
  c10_disp_step_ok 5 (Some m_data51) (mk (obs0 [] []) 0 [] (obs0 [] [hk_syn_of 5 m_data51])) = false /\
  c10_disp_step_ok 5 (Some m_syn50) (mk (obs0 [] []) 0 [] (obs0 [] [hk_syn_of 6 m_syn50])) = false /\
  c10_disp_step_ok 5 (Some m_data51) (mk (obs0 [] []) 1 [] (obs0 [] [])) = false /\
  c10_disp_step_ok 5 (Some m_syn50) (mk (obs0 [] []) 2 [] (obs0 [] [])) = false.
Proof. exact step_ok_rejects. Qed.

Print Assumptions c10_disp_step_ok_rejects.

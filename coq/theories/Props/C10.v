(* C10 (single-connection half) — no datagram sequence makes one connection panic or report a
   "bug:" error; what one connection buffers stays bounded.  Connection level (Conn/VSock.v).
   Only statements + exact.  `strict = true`: the transport never answers EMSGSIZE during the poll
   (ef = emsg_free is threaded through) and no Bug error at all is allowed; `strict = false`: any
   transport, and the one Bug error allowed is BugEmsgSizeNoProbe (see the _refuted witnesses). *)
From Utp Require Import Base.Prelude Wire.SeqNr Wire.Header Rtt.Rtte Rtt.Rtte_Proofs Mtu.SegSizes Rx.Rx
  Rx.Rx_Proofs Tx.Ring Tx.Ring_Proofs Tx.Segments Tx.Segments_Proofs Conn.Recovery Conn.Msg
  Conn.VSockRec Conn.VSock Conn.VSockRun Conn.VObs Conn.C10_Pred Conn.VSock_Inv Conn.C10_Proofs.

(* (a) the joint invariant holds of every freshly built connection with a valid configuration *)
Theorem c10_inv_init : forall (CC : Type) (cci : cc_iface CC) (mk_cc : Z -> Z -> CC) (c : vconfig),
  vconfig_ok c = true ->
  exists s0 : vsock CC,
    vsock_new cci mk_cc c = Some s0 /\ vs_inv (vc_tx_init c) (vc_tx_max c) s0.
Proof. exact @vsock_new_inv. Qed.

(* (a) ... and is preserved by every application / environment event (everything but poll) *)
Theorem c10_inv_app_events : forall (CC : Type) (cci : cc_iface CC) (ti tm : Z) (s : vsock CC) (o : vop),
  vs_inv ti tm s ->
  (forall sc : list send_outcome, o <> VoPoll sc) ->
  let '(s', _, _, _) := vstep cci s o in vs_inv ti tm s'.
Proof. exact @vstep_app_inv. Qed.

(* (a)+(b) poll, function by function.  send_data: no panic (off < 0), no
   BugOffsetBeyondBufferBounds / BugRequestedLengthExceedsBufferBounds, invariant kept *)
Theorem c10_send_data_no_bug : forall (CC : Type) (strict : bool) (ti tm p : Z) (s : vsock CC) (h : chdr)
    (f : for_sending),
  vs_inv_p ti tm p s -> ef strict s -> fs_ok s f ->
  sp strict (send_data s h f)
    (fun (s' : vsock CC) (r : send_res) =>
       vs_inv_p ti tm p s' /\ ef strict s' /\ txq_rel s s' /\
       v_restart s' = v_restart s /\ v_ss s' = v_ss s /\ v_recovery s' = v_recovery s /\
       v_rtte s' = v_rtte s /\ (strict = true -> r <> SdEmsgsize)).
Proof. exact @send_data_spec. Qed.

(* every item the segment table hands out for sending lies inside the ring *)
Theorem c10_segments_inside_ring : forall (CC : Type) (ti tm p : Z) (s : vsock CC) (st : option Z),
  vs_inv_p ti tm p s -> Forall (fs_ok s) (iter_for_sending (v_segs s) st).
Proof. exact @iter_fs_ok. Qed.

(* send_tx_queue (RTO branch, recovery loop, new-data loop, probe pop): no panic (rtte on_rto
   overflow), no Bug error (BugEmsgSizeNoProbe only when strict = false), invariant kept *)
Theorem c10_send_tx_queue_no_bug : forall (CC : Type) (cci : cc_iface CC) (strict : bool) (ti tm p : Z)
    (s : vsock CC),
  vs_inv_p ti tm p s -> ef strict s ->
  sp strict (send_tx_queue cci s) (fun (s' : vsock CC) (_ : unit) => TQ strict ti tm p s s').
Proof. exact @send_tx_queue_spec. Qed.

(* split_tx_queue_into_segments: no BugInBufferComputations, no next_segment_size overflow panic *)
Theorem c10_split_no_bug : forall (CC : Type) (cci : cc_iface CC) (strict : bool) (ti tm : Z) (s : vsock CC),
  vs_inv ti tm s -> ef strict s ->
  sp strict (split_tx_queue_into_segments cci s)
    (fun (s' : vsock CC) (_ : unit) => vs_inv ti tm s' /\ ef strict s' /\ split_rel s s').
Proof. exact @split_spec. Qed.

Theorem c10_segment_loop_no_panic : forall (fuel : list Z) (nagle : bool) (ss : segsizes) (segs : segments)
    (remaining rwr : Z),
  ss_ok ss -> seg_inv segs -> 0 <= remaining ->
  exists (ss' : segsizes) (segs' : segments) (rem' : Z),
    segment_loop fuel nagle ss segs remaining rwr = Some (ss', segs', rem') /\
    ss_ok ss' /\ seg_inv segs' /\ ss_removed segs' = ss_removed segs /\
    ss_offset segs' + rem' = ss_offset segs + remaining /\ 0 <= rem'.
Proof. exact segment_loop_spec. Qed.

(* BugUnexpectedPacketInSynReceived comes from exactly that state; the table has no other Bug site
   (BugRecvInClosed is gone with the repair of D15) *)
Theorem c10_state_table_no_bug : forall (CC : Type) (s : vsock CC) (h : chdr),
  v_state s <> SynReceived ->
  match state_table s h with
  | TblErr _ e => e = ErrStResetReceived
  | TblDrop s' | TblContinue s' => v_state s' <> SynReceived
  end.
Proof. exact @state_table_no_bug. Qed.

(* D15 (repaired by a fix: commit in /repo): a closed connection ignores every packet still queued —
   no Bug error, state untouched; only ST_RESET is reported, as the (non-Bug) reset error *)
Theorem c10_closed_ignores_packets : forall (CC : Type) (s : vsock CC) (h : chdr),
  v_state s = Closed ->
  state_table s h =
    match ch_type h with
    | ST_RESET => TblErr (set_state s Closed) ErrStResetReceived
    | _ => TblDrop s
    end.
Proof. exact @state_table_closed. Qed.

Theorem c10_closed_ignores_messages : forall (CC : Type) (cci : cc_iface CC) (s : vsock CC) (m : msg),
  v_state s = Closed ->
  process_incoming_message cci s m =
    match ch_type (m_hdr m) with
    | ST_RESET => SErr (set_state s Closed) ErrStResetReceived
    | _ => SOk s on_ack_result_default
    end.
Proof. exact @process_incoming_closed. Qed.

(* ... and SynReceived never reaches the message loop: the SYN-ACK goes out first, or the
   transport is pending (and the poll returns Pending before reading the inbox) *)
Theorem c10_syn_ack_first : forall (CC : Type) (strict : bool) (s : vsock CC),
  sp strict (maybe_send_syn_ack s)
    (fun (s' : vsock CC) (_ : unit) => v_transport_pending s' = false -> v_state s' <> SynReceived).
Proof. exact @maybe_send_syn_ack_state. Qed.

(* BugInvalidMessageExpectedStDataOrFin / BugAssemblerMissingSlot / the unwrap panic of UserRx *)
Theorem c10_rx_add_remove_no_bug : forall (r : rx) (k : msg_kind) (pl : list Z) (off : Z) (r' : rx)
    (ar : user_add_result) (w : list Rx.wake),
  rx_inv r -> 0 <= off -> k <> KOther -> rx_add_remove r k pl off = (r', ar, w) ->
  rx_inv r' /\
  (exists a : add_result, ar = UarOk a /\ a <> ArErrBugInvalidMessage /\ a <> ArErrBugMissingSlot).
Proof. exact rx_add_remove_no_bug. Qed.

(* BugTruncateFront: p = bytes acknowledged by the messages of this poll *)
Theorem c10_truncate_front_no_bug : forall (CC : Type) (ti tm p : Z) (s : vsock CC),
  vs_inv_p ti tm p s ->
  exists tx1 : tx, truncate_front (v_tx s) p = (tx1, TrOk) /\ vs_inv_p ti tm 0 (set_tx s tx1).
Proof. exact @truncate_ok. Qed.

(* (c) bounded buffering (the reassembly queue is bounded in slots, not bytes) *)
Theorem c10_bounded_buffering : forall (CC : Type) (ti tm p : Z) (s : vsock CC),
  vs_inv_p ti tm p s ->
  Z.of_nat (length (ring (v_tx s))) <= cap (v_tx s) <= Z.max ti tm /\
  0 <= q_len_bytes (v_rx s) <= q_capacity (v_rx s) /\
  0 <= filled_front (v_rx s) <= ooq_len (v_rx s) /\
  ooq_len (v_rx s) <= ooq_capacity (v_rx s) /\
  0 <= ss_len_bytes (v_segs s) <= Z.of_nat (length (ring (v_tx s))).
Proof. exact @bounded_buffering. Qed.

(* ---- refutations (each reproduced on the real code, see known findings) and regressions ---- *)
(* KF2 (a): a peer payload larger than the proven size, path limit below it *)
Theorem c10_peer_payload_bug_refuted :
  exists w cfg ops,
    vconfig_ok cfg = true /\ Forall op_msg_ok ops /\
    c10_step_ok cfg (wtrace w cfg ops) = false /\ c10_kf2_class cfg (wtrace w cfg ops) = true /\
    last_result_is (wtrace w cfg ops) is_emsg_bug = true.
Proof. exact peer_payload_bug_refuted. Qed.

(* KF2 (b): an ACK covering a never-sent MTU probe *)
Theorem c10_unsent_probe_ack_bug_refuted :
  exists w cfg ops,
    vconfig_ok cfg = true /\ Forall op_msg_ok ops /\
    c10_step_ok cfg (wtrace w cfg ops) = false /\ c10_kf2_class cfg (wtrace w cfg ops) = true /\
    last_result_is (wtrace w cfg ops) is_emsg_bug = true.
Proof. exact unsent_probe_ack_bug_refuted. Qed.

(* D15 (repaired): the witness of the old defect as a regression example — Pending in state Closed
   (transport not writable), then a queued message: the last poll still starts in Closed, and no step
   of the trace panics or reports a Bug error *)
Theorem c10_closed_pending_regression :
  exists w cfg ops,
    vconfig_ok cfg = true /\ Forall op_msg_ok ops /\
    last_pre_closed (wtrace w cfg ops) = true /\
    c10_step_ok cfg (wtrace w cfg ops) = true /\
    c10_closed_pending_class cfg (wtrace w cfg ops) = false.
Proof. exact closed_pending_regression. Qed.

(* D21 (repaired in /repo c2f6a01): calc_pipe's `range_mut(..take)` can no longer index past the table,
   whatever sequence numbers an ACK names and however many segments are queued *)
Theorem c10_calc_pipe_never_panics : forall t high_rxt high_data rtt now,
  calc_pipe t high_rxt high_data rtt now <> None.
Proof. exact calc_pipe_total. Qed.

Print Assumptions c10_inv_init.
Print Assumptions c10_inv_app_events.
Print Assumptions c10_send_data_no_bug.
Print Assumptions c10_segments_inside_ring.
Print Assumptions c10_send_tx_queue_no_bug.
Print Assumptions c10_split_no_bug.
Print Assumptions c10_segment_loop_no_panic.
Print Assumptions c10_state_table_no_bug.
Print Assumptions c10_closed_ignores_packets.
Print Assumptions c10_closed_ignores_messages.
Print Assumptions c10_syn_ack_first.
Print Assumptions c10_rx_add_remove_no_bug.
Print Assumptions c10_truncate_front_no_bug.
Print Assumptions c10_bounded_buffering.
Print Assumptions c10_peer_payload_bug_refuted.
Print Assumptions c10_unsent_probe_ack_bug_refuted.
Print Assumptions c10_closed_pending_regression.
Print Assumptions c10_calc_pipe_never_panics.

(* C19 — send-side buffering is bounded; write applies back-pressure.
   Component level (UserTx + write half under every op list). Only statements + exact. *)
From Utp Require Import Base.Prelude Tx.Ring Tx.Ring_Proofs.

Theorem c19_bound : forall initial mx ops,
  0 < initial -> Forall (tx_op_ok mx) ops ->
  let s := tx_run (tx_new initial) ops in
  Z.of_nat (length (ring s)) <= cap s <= Z.max initial mx /\
  Z.of_nat (length (g_written s)) - g_removed s = Z.of_nat (length (ring s)) /\
  g_written s = firstn (Z.to_nat (g_removed s)) (g_written s) ++ ring s.
Proof. exact c19_bound_reachable. Qed.

Theorem c19_step_inv : forall initial mx s o s' out w,
  tx_inv initial mx s -> tx_op_ok mx o -> tx_step s o = (s', out, w) -> tx_inv initial mx s'.
Proof. exact tx_step_inv. Qed.

(* write: what is stored is a prefix of the buffer appended to the ring; a full ring on a
   live connection stores nothing and parks the writer (or yields with a self-wake) *)
Theorem c19_write : forall initial mx s buf s' r w,
  tx_inv initial mx s -> poll_write s buf = (s', r, w) ->
  tx_inv initial mx s' /\ cap s' = cap s /\ g_removed s' = g_removed s /\
  match r with
  | WrOk n => 0 < n <= Z.of_nat (length buf) /\
              ring s' = ring s ++ firstn (Z.to_nat n) buf /\
              g_written s' = g_written s ++ firstn (Z.to_nat n) buf
  | _ => ring s' = ring s /\ g_written s' = g_written s
  end /\
  (Z.of_nat (length (ring s)) = cap s -> t_vsock_closed s = false -> writer_shutdown s = false ->
   writer_dropped s = false ->
   r = WrPending /\ (w = [TwSelf] \/ writer_waker s' = true)).
Proof. exact poll_write_spec. Qed.

Theorem c19_truncate : forall initial mx s n s' r,
  tx_inv initial mx s -> 0 <= n -> truncate_front s n = (s', r) ->
  tx_inv initial mx s' /\ cap s' = cap s /\ g_written s' = g_written s /\
  ring s' = skipn (Z.to_nat (Z.min n (Z.of_nat (length (ring s))))) (ring s) /\
  g_removed s' = g_removed s + Z.min n (Z.of_nat (length (ring s))) /\
  (r = TrOk <-> n <= Z.of_nat (length (ring s))).
Proof. exact truncate_spec. Qed.

Theorem c19_grow_preserves : forall initial mx s s' r,
  tx_inv initial mx s -> grow s mx = (s', r) ->
  tx_inv initial mx s' /\ ring s' = ring s /\ g_written s' = g_written s /\ g_removed s' = g_removed s /\
  match r with
  | Some c => cap s < mx /\ c = Z.min (2 * cap s) mx /\ cap s' = c
  | None => mx <= cap s /\ cap s' = cap s
  end.
Proof. exact grow_spec. Qed.

Theorem c19_woken_on_free : forall s s' w,
  wake_writer s = (s', w) -> writer_waker s = true -> w = [TwWriter] /\ writer_waker s' = false.
Proof. exact wake_writer_fires. Qed.

Theorem c19_woken_on_close : forall s s' w,
  mark_vsock_closed s = (s', w) -> writer_waker s = true ->
  w = [TwWriter] /\ writer_waker s' = false /\ t_vsock_closed s' = true.
Proof. exact mark_closed_fires. Qed.

Theorem c19_write_wakes_dispatcher : forall s buf s' n w,
  poll_write s buf = (s', WrOk n, w) -> t_disp_waker s = true -> w = [TwDispatcher] /\ t_disp_waker s' = false.
Proof. exact write_wakes_dispatcher. Qed.

Theorem c19_model_trace_ok : forall initial mx ops s,
  tx_inv initial mx s -> Forall (tx_op_ok mx) ops -> c19_ok initial mx (tx_trace s ops) = true.
Proof. exact model_trace_c19_ok. Qed.

(* "Growing the buffer ... never loses, duplicates or reorders the bytes it holds": after every grow
   operation of every op list the ring has the length and the content hash it had before *)
Theorem c19_grow_keeps_content_trace : forall initial ops,
  c19_grow_ok (grow_view (tx_trace (tx_new initial) ops)) = true.
Proof. exact model_trace_c19_grow_ok. Qed.

Print Assumptions c19_bound.
Print Assumptions c19_step_inv.
Print Assumptions c19_write.
Print Assumptions c19_truncate.
Print Assumptions c19_grow_preserves.
Print Assumptions c19_woken_on_free.
Print Assumptions c19_woken_on_close.
Print Assumptions c19_write_wakes_dispatcher.
Print Assumptions c19_model_trace_ok.
Print Assumptions c19_grow_keeps_content_trace.

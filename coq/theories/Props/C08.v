(* C08 — every connection frees its slot (socket-table half of the property).
   Only statements + exact. *)
From Utp Require Import Base.Prelude Wire.SeqNr Wire.Header Sock.Dispatcher Sock.Dispatcher_Proofs
  Sock.DispObs Sock.DispObs_Proofs.
From Utp Require Import Tx.Segments Conn.Recovery Conn.Msg Conn.VSockRec Conn.VSock Conn.VSockRun Conn.VObs
  Conn.C10_Pred Conn.C14C08_Pred Conn.C08_Pred2 Conn.VSock_Lemmas Conn.VSock_Inv Conn.C10_Proofs Conn.C08_Step.

(* when the Shutdown request of a connection that is gone is handled, exactly its entry is
   released: the key is free again, its share of the limit is returned, nothing else is touched *)
Theorem c08_slot_released : forall s c send s' e,
  d_inv s -> on_control s c send = (s', e) ->
  d_inv s' /\ d_max_streams s' = d_max_streams s /\
  match c with
  | CtlShutdown k =>
      e = [] /\
      match find_stream s k with
      | Some en =>
          if se_alive en then s' = s
          else
            keys (d_streams s') = filter (fun x => negb (skey_eqb x k)) (keys (d_streams s)) /\
            ~ In k (keys (d_streams s')) /\
            (forall en', In en' (d_streams s) -> se_key en' <> k -> In en' (d_streams s'))
      | None => s' = s
      end
  | _ => d_streams s' = d_streams s
  end.
Proof. exact on_control_spec. Qed.

(* after the entry is gone (or the connection's inbox is closed) a datagram for that key reaches
   nobody: it is forwarded only to a live entry with exactly its key *)
Theorem c08_silent_after_release : forall s addr m s' e,
  d_inv s -> on_recv s addr m = (s', e) ->
  d_inv s' /\ d_max_streams s' = d_max_streams s /\
  (forall k, In (EvForward k) e ->
     k = {| k_addr := addr; k_conn := dm_conn m |} /\
     exists en, find_stream s k = Some en /\ se_alive en = true /\ s' = s /\ e = [EvForward k]) /\
  (forall k, k <> {| k_addr := addr; k_conn := dm_conn m |} ->
     In k (keys (d_streams s)) -> In k (keys (d_streams s'))) /\
  (forall en, find_stream s {| k_addr := addr; k_conn := dm_conn m |} = Some en ->
     se_alive en = true -> s' = s).
Proof. exact on_recv_spec. Qed.

Theorem c08_table_bounded : forall max_streams random ops,
  let s := drun (dstate_new max_streams random) ops in
  NoDup (keys (d_streams s)) /\
  Z.of_nat (length (d_streams s)) <= Z.max 0 max_streams /\
  Z.of_nat (length (d_syns s)) <= 32 /\ Z.of_nat (length (d_chan s)) <= 32 /\
  Forall (fun p => length (snd p) = 4%nat) (d_connecting s).
Proof. exact reachable_bounds. Qed.

Theorem c08_step_ok_every_step : forall s o s' e,
  d_inv s -> dstep s o = (s', e) -> c12_step_ok (d_max_streams s) (dstep_obs_of s e s') = true.
Proof. exact c12_step_ok_model. Qed.

Print Assumptions c08_step_ok_every_step.
Print Assumptions c08_slot_released.
Print Assumptions c08_silent_after_release.
Print Assumptions c08_table_bounded.

(* ================================================================== connection level (M3):
   the termination deadline.  c08_deadline_ok (Conn/C14C08_Pred.v) is a theorem of EVERY step from
   EVERY state (no invariant is needed: the timer tail of the poll itself arms the final-chance
   deadline), hence of every trace. *)
Theorem c08_deadline_ok_every_step : forall (CC : Type) (cci : cc_iface CC) (cfg : vconfig) (s : vsock CC) (o : vop),
  c08_deadline_ok cfg (VSock_Lemmas.fstep_of cci s o) = true.
Proof. exact @c08_deadline_ok_step. Qed.

Theorem c08_deadline_ok_every_trace : forall (CC : Type) (cci : cc_iface CC) (cfg : vconfig)
    (ops : list vop) (s : vsock CC),
  forallb (c08_deadline_ok cfg) (ftrace cci s ops) = true.
Proof. exact @c08_deadline_ok_trace. Qed.

(* the timer tail of a poll that leaves our FIN out: deadline armed, at most the final-chance delay
   away, never later than the deadline armed before, and the sleep asked for ends no later *)
Theorem c08_tail_deadline : forall (CC : Type) (sb : vsock CC),
  v_transport_pending sb = false -> is_local_fin_or_later (v_state sb) = true ->
  exists t d,
    v_t_inactivity (poll_tail sb) = Some t /\ t <= v_now sb + SHUTDOWN_FINAL_CHANCE_DELAY /\
    v_arm_in (poll_tail sb) = Some d /\ v_now sb + d <= Z.max t (v_now sb) /\ 0 <= d /\
    (forall t0, v_t_inactivity sb = Some t0 -> t <= t0).
Proof. exact @tail_deadline. Qed.

(* what the deadline is good for: a poll that starts at or after it, with nothing from the peer in
   the inbox (dispatcher channel open) and a transport that never answers Pending, does not return
   Pending — the task ends *)
Theorem c08_deadline_fires : forall (CC : Type) (cci : cc_iface CC) (s : vsock CC)
    (sc : list send_outcome) (t : Z) (s' : vsock CC) (r : poll_result),
  v_t_inactivity s = Some t -> t <= v_env_now s -> v_inbox s = [] -> v_inbox_closed s = false ->
  script_nopending sc = true ->
  poll cci (VSockRec.set_sends s sc) = (s', r) -> r <> PollPending.
Proof. exact @deadline_fires. Qed.

(* a poll that returns Pending with a writable transport has drained the inbox and the dispatcher's
   channel is still open *)
Theorem c08_poll_pending_inbox_drained : forall (CC : Type) (cci : cc_iface CC) (s s' : vsock CC),
  poll cci s = (s', PollPending) -> v_transport_pending s' = false ->
  v_inbox s' = [] /\ v_inbox_closed s' = false.
Proof. exact @poll_pending_ibe. Qed.

(* our FIN out + writable transport + silence from the peer: bounded time to the end of the task *)
Theorem c08_silence_ends : forall (CC : Type) (cci : cc_iface CC) (s : vsock CC)
    (sc : list send_outcome) (s1 : vsock CC),
  poll cci (VSockRec.set_sends s sc) = (s1, PollPending) ->
  v_transport_pending s1 = false -> is_local_fin_or_later (v_state s1) = true ->
  exists t d,
    v_t_inactivity s1 = Some t /\ t <= v_env_now s1 + SHUTDOWN_FINAL_CHANCE_DELAY /\
    v_arm_in s1 = Some d /\ v_env_now s1 + d <= Z.max t (v_env_now s1) /\
    forall now' sc' s2 r, t <= now' -> script_nopending sc' = true ->
      poll cci (VSockRec.set_sends (set_env_now s1 now') sc') = (s2, r) -> r <> PollPending.
Proof. exact @silence_ends. Qed.

(* the same as a predicate over observed traces (Conn/C08_Pred2.v): every trace from every state *)
Theorem c08_fires_every_step : forall (CC : Type) (cci : cc_iface CC) (dl : option Z) (s : vsock CC) (o : vop),
  fires_inv dl s ->
  c08_fires_at dl (VSock_Lemmas.fstep_of cci s o) = true /\
  fires_inv (c08_fires_next dl (VSock_Lemmas.fstep_of cci s o)) (vstep_state cci s o).
Proof. exact @c08_fires_step. Qed.

Theorem c08_fires_ok_every_trace : forall (CC : Type) (cci : cc_iface CC) (cfg : vconfig)
    (ops : list vop) (s : vsock CC),
  c08_fires_ok cfg (ftrace cci s ops) = true.
Proof. exact @c08_fires_ok_trace. Qed.

Theorem c08_connection_nonvacuous :
  exists w cfg ops,
    vconfig_ok cfg = true /\ Forall op_msg_ok ops /\
    existsb deadline_guard (wtrace w cfg ops) = true /\
    forallb (c08_deadline_ok cfg) (wtrace w cfg ops) = true /\
    c08_fires_guard_from None (wtrace w cfg ops) = true /\
    c08_fires_ok cfg (wtrace w cfg ops) = true /\
    match rev (wtrace w cfg ops) with
    | st :: _ => match fs_result st with
                 | FrPoll (PollReadyErr ErrRemoteInactiveForTooLong) _ _ _ => true
                 | _ => false
                 end
    | [] => false
    end = true.
Proof. exact c08_nonvacuous. Qed.

Print Assumptions c08_deadline_ok_every_step.
Print Assumptions c08_deadline_ok_every_trace.
Print Assumptions c08_tail_deadline.
Print Assumptions c08_deadline_fires.
Print Assumptions c08_poll_pending_inbox_drained.
Print Assumptions c08_silence_ends.
Print Assumptions c08_fires_every_step.
Print Assumptions c08_fires_ok_every_trace.
Print Assumptions c08_connection_nonvacuous.

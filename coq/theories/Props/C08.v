(* C08 — every connection frees its slot (socket-table half of the property).
   Only statements + exact. *)
From Utp Require Import Base.Prelude Wire.SeqNr Wire.Header Sock.Dispatcher Sock.Dispatcher_Proofs
  Sock.DispObs Sock.DispObs_Proofs.

(* when the Shutdown request of a connection that is gone is handled, exactly its entry is
   released: the key is free again, its share of the limit is returned, nothing else is touched *)
Theorem c08_slot_released : forall s c send s' e,
  d_inv s -> on_control s c send = (s', e) ->
  d_inv s' /\ d_max_streams s' = d_max_streams s /\
  match c with
  | CtlShutdown k =>
      e = [] /\
      match find_stream s k with
      | Some en =>
          if se_alive en then s' = s
          else
            keys (d_streams s') = filter (fun x => negb (skey_eqb x k)) (keys (d_streams s)) /\
            ~ In k (keys (d_streams s')) /\
            (forall en', In en' (d_streams s) -> se_key en' <> k -> In en' (d_streams s'))
      | None => s' = s
      end
  | _ => d_streams s' = d_streams s
  end.
Proof. exact on_control_spec. Qed.

(* after the entry is gone (or the connection's inbox is closed) a datagram for that key reaches
   nobody: it is forwarded only to a live entry with exactly its key *)
Theorem c08_silent_after_release : forall s addr m s' e,
  d_inv s -> on_recv s addr m = (s', e) ->
  d_inv s' /\ d_max_streams s' = d_max_streams s /\
  (forall k, In (EvForward k) e ->
     k = {| k_addr := addr; k_conn := dm_conn m |} /\
     exists en, find_stream s k = Some en /\ se_alive en = true /\ s' = s /\ e = [EvForward k]) /\
  (forall k, k <> {| k_addr := addr; k_conn := dm_conn m |} ->
     In k (keys (d_streams s)) -> In k (keys (d_streams s'))) /\
  (forall en, find_stream s {| k_addr := addr; k_conn := dm_conn m |} = Some en ->
     se_alive en = true -> s' = s).
Proof. exact on_recv_spec. Qed.

Theorem c08_table_bounded : forall max_streams random ops,
  let s := drun (dstate_new max_streams random) ops in
  NoDup (keys (d_streams s)) /\
  Z.of_nat (length (d_streams s)) <= Z.max 0 max_streams /\
  Z.of_nat (length (d_syns s)) <= 32 /\ Z.of_nat (length (d_chan s)) <= 32 /\
  Forall (fun p => length (snd p) = 4%nat) (d_connecting s).
Proof. exact reachable_bounds. Qed.

Theorem c08_step_ok_every_step : forall s o s' e,
  d_inv s -> dstep s o = (s', e) -> c12_step_ok (d_max_streams s) (dstep_obs_of s e s') = true.
Proof. exact c12_step_ok_model. Qed.

Print Assumptions c08_step_ok_every_step.
Print Assumptions c08_slot_released.
Print Assumptions c08_silent_after_release.
Print Assumptions c08_table_bounded.

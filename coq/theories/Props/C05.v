(* C05 — the sender obeys the peer's advertised window and slow-start growth.
   Connection level: theorems about the model of VirtualSocket::poll's send path
   (Conn/VSock.v send_tx_queue, new_data_loop, split_tx_queue_into_segments,
   process_all_incoming_messages), for every state and every abstract congestion controller.
   Only statements + exact. *)
From Utp Require Import Base.Prelude Wire.SeqNr Rtt.Rtte Mtu.SegSizes Tx.Ring Tx.Segments
  Conn.Recovery Conn.Msg Conn.VSockRec Conn.VSock Conn.VSock_LemmasTx Conn.C05_Pred Conn.C05_Proofs
  Conn.VSockRun Conn.VObs Conn.C10_Pred Conn.VSock_Inv Conn.C10_Proofs Conn.C05_Refuted.

(* (a) loop level: what new_data_loop puts on the wire is a prefix of its items whose sizes sum to
   at most the budget it was given *)
Theorem c05_new_data_loop_le_budget : forall (CC : Type) items (s : vsock CC) h rem s',
  0 <= rem -> step_st (new_data_loop items s h rem) = Some s' ->
  exists sent rest, items = sent ++ rest /\
    v_out s' = rev (map (data_pkt s h) sent) ++ v_out s /\ fs_bytes sent <= rem.
Proof. exact (@new_data_loop_le_budget). Qed.

(* (a) one call of send_tx_queue outside loss recovery: either the retransmit timer had expired and at
   most one datagram goes out (the RTO part: head retransmission, which switches to single-segment
   mode, or the FIN), or the payload sent is within min(cwnd, rwnd) - flight, hence
   flight + sent <= min(cwnd, rwnd) whenever anything is sent *)
Theorem c05_new_data_le_window : forall (CC : Type) (cci : cc_iface CC) s s',
  is_recovering (v_recovery s) = false -> 0 <= v_rto_retransmissions s -> segs_pos (v_segs s) ->
  step_st (send_tx_queue cci s) = Some s' ->
  exists new, v_out s' = new ++ v_out s /\
    ((timer_expired (v_t_retransmit s) (v_now s) = true /\ (length new <= 1)%nat /\
      (new <> [] -> iter_for_sending (v_segs s) None = [] \/
                    v_rto_retransmissions s' = v_rto_retransmissions s + 1)) \/
     (data_bytes new <= window_budget cci s /\
      (new = [] \/
       calc_flight_size (v_segs s) (v_last_sent_seq_nr s) + data_bytes new
         <= Z.min (cc_window cci (v_cc s)) (v_last_remote_window s)))).
Proof. exact (@new_data_le_window). Qed.

(* counted flight = true sum of transmitted-and-not-delivered payload, under the tolerance
   hypothesis (at most 1024 transmitted segments in the table, no rewind pending) *)
Theorem c05_flight_size_exact : forall t ls k,
  0 <= ss_snd_una t < M16 -> 0 <= k <= 1024 ->
  ls = wsub16 (wadd16 (ss_snd_una t) k) 1 ->
  sent_prefix (ss_segs t) (Z.to_nat k) ->
  calc_flight_size t ls = true_flight (ss_segs t).
Proof. exact flight_size_exact. Qed.

(* (a) the other way round: in terms of what is truly outstanding *)
Theorem c05_true_flight_le_window : forall (CC : Type) (cci : cc_iface CC) s s' k,
  is_recovering (v_recovery s) = false -> 0 <= v_rto_retransmissions s -> segs_pos (v_segs s) ->
  0 <= ss_snd_una (v_segs s) < M16 -> 0 <= k <= 1024 ->
  v_last_sent_seq_nr s = wsub16 (wadd16 (ss_snd_una (v_segs s)) k) 1 ->
  sent_prefix (ss_segs (v_segs s)) (Z.to_nat k) ->
  timer_expired (v_t_retransmit s) (v_now s) = false ->
  step_st (send_tx_queue cci s) = Some s' ->
  exists new, v_out s' = new ++ v_out s /\
    (new = [] \/
     true_flight (ss_segs (v_segs s)) + data_bytes new
       <= Z.min (cc_window cci (v_cc s)) (v_last_remote_window s)).
Proof. exact (@true_flight_le_window). Qed.

(* (b) zero window, outside recovery: the budget is 0, the loop returns at its first item, and a call
   of send_tx_queue emits nothing unless the retransmit timer expired (then one datagram of the RTO part) *)
Theorem c05_zero_window_budget : forall (CC : Type) (cci : cc_iface CC) (s : vsock CC),
  v_last_remote_window s = 0 -> is_recovering (v_recovery s) = false -> segs_pos (v_segs s) ->
  new_remaining cci s = 0.
Proof. exact (@zero_window_budget). Qed.

Theorem c05_zero_window_loop : forall (CC : Type) (s : vsock CC) h,
  segs_pos (v_segs s) -> new_data_loop (new_items s) s h 0 = SOk s None.
Proof. exact (@zero_window_loop). Qed.

Theorem c05_zero_window_silent : forall (CC : Type) (cci : cc_iface CC) s s',
  v_last_remote_window s = 0 ->
  is_recovering (v_recovery s) = false -> 0 <= v_rto_retransmissions s -> segs_pos (v_segs s) ->
  step_st (send_tx_queue cci s) = Some s' ->
  v_out s' = v_out s \/
  (timer_expired (v_t_retransmit s) (v_now s) = true /\ exists p, v_out s' = p :: v_out s).
Proof. exact (@zero_window_silent). Qed.

(* the invariant (b) needs: the segmentation loop only enqueues segments of at least one byte *)
Theorem c05_segment_loop_pos : forall fuel nagle ss segs rm rwr ss' segs' rm',
  1 <= min_ss ss -> segs_pos segs ->
  segment_loop fuel nagle ss segs rm rwr = Some (ss', segs', rm') ->
  segs_pos segs' /\ min_ss ss' = min_ss ss.
Proof. exact segment_loop_pos. Qed.

(* (c) after the RTO part retransmitted the head: counter positive, that datagram only *)
Theorem c05_after_rto_single : forall (CC : Type) (cci : cc_iface CC) s s' f rest,
  v_transport_pending s = false ->
  timer_expired (v_t_retransmit s) (v_now s) = true ->
  iter_for_sending (v_segs s) None = f :: rest ->
  0 <= v_rto_retransmissions s ->
  step_st (send_tx_queue cci s) = Some s' ->
  v_out s' = v_out s \/
  (v_out s' = data_pkt s (outgoing_header s) f :: v_out s /\
   v_rto_retransmissions s' = v_rto_retransmissions s + 1 /\ 0 < v_rto_retransmissions s' /\
   v_last_sent_seq_nr s' = fs_seq f).
Proof. exact (@after_rto_single). Qed.

(* (c) while the counter is positive: at most one datagram per call, only at a further expiry *)
Theorem c05_rto_mode_single : forall (CC : Type) (cci : cc_iface CC) s s',
  0 < v_rto_retransmissions s ->
  step_st (send_tx_queue cci s) = Some s' ->
  v_rto_retransmissions s <= v_rto_retransmissions s' /\
  (v_out s' = v_out s \/
   (timer_expired (v_t_retransmit s) (v_now s) = true /\ exists p, v_out s' = p :: v_out s)).
Proof. exact (@rto_mode_single). Qed.

(* (c) the counter is reset by incoming messages only if they acknowledged something new
   (whether or not the receive loop ended on the closed channel: repair of D17) *)
Theorem c05_rto_mode_exit_ack : forall (CC : Type) (cci : cc_iface CC) s s',
  step_st (process_all_incoming_messages cci s) = Some s' ->
  v_rto_retransmissions s' = v_rto_retransmissions s \/
  (v_rto_retransmissions s' = 0 /\
   exists s1 r early,
     recv_loop cci (v_inbox s ++ [ {| m_hdr := outgoing_header s; m_payload := [] |} ]) s
               on_ack_result_default = SOk s1 (r, early) /\
     (0 < ar_acked_segments r \/ 0 < ar_newly_sacked_segments r)).
Proof. exact (@rto_mode_exit_ack). Qed.

(* (c) boundary B6: ... or by popping an expired MTU probe *)
Theorem c05_rto_mode_exit_probe : forall (CC : Type) (cci : cc_iface CC) s s',
  step_st (split_tx_queue_into_segments cci s) = Some s' ->
  v_rto_retransmissions s' = v_rto_retransmissions s \/
  (v_rto_retransmissions s' = 0 /\
   exists (s1 : vsock CC) segs1 rw ps,
     pop_expired_mtu_probe (v_segs s1) (timer_expired (v_t_retransmit s1) (v_now s1))
                           (o_mtu_probe_max_retx (v_opts s1)) = (segs1, PeExpired rw ps)).
Proof. exact (@rto_mode_exit_probe). Qed.

(* (d) PARTIAL: new data only goes out while counted flight + sent <= the congestion window; how that
   window grows before the first loss (2 segments + acknowledged bytes) is C15's subject *)
Theorem c05_slow_start_bound_partial : forall (CC : Type) (cci : cc_iface CC) s s',
  is_recovering (v_recovery s) = false -> 0 <= v_rto_retransmissions s -> segs_pos (v_segs s) ->
  timer_expired (v_t_retransmit s) (v_now s) = false ->
  step_st (send_tx_queue cci s) = Some s' ->
  exists new, v_out s' = new ++ v_out s /\
    (new = [] \/ calc_flight_size (v_segs s) (v_last_sent_seq_nr s) + data_bytes new
                   <= cc_window cci (v_cc s)).
Proof. exact (@slow_start_bound_partial). Qed.

(* (b) at full strength — "no NEW payload into a zero window" — is FALSE of the faithful model and of
   the real code (known class D16): when the retransmission timer fires, the RTO branch transmits the
   first undelivered segment even if it was never sent before.  Outside that class the strict
   predicate holds on the witness trace. *)
Theorem c05_zero_window_new_payload_refuted :
  exists w cfg ops,
    vconfig_ok cfg = true /\ Forall op_msg_ok ops /\
    forallb (c05_zero_window_strict cfg) (wtrace w cfg ops) = false /\
    existsb (c05_d16_class cfg) (wtrace w cfg ops) = true /\
    forallb (fun st => c05_zero_window_strict cfg st || c05_d16_class cfg st) (wtrace w cfg ops) = true.
Proof. exact zero_window_new_payload_refuted. Qed.


Print Assumptions c05_new_data_loop_le_budget.
Print Assumptions c05_new_data_le_window.
Print Assumptions c05_flight_size_exact.
Print Assumptions c05_true_flight_le_window.
Print Assumptions c05_zero_window_budget.
Print Assumptions c05_zero_window_loop.
Print Assumptions c05_zero_window_silent.
Print Assumptions c05_segment_loop_pos.
Print Assumptions c05_after_rto_single.
Print Assumptions c05_rto_mode_single.
Print Assumptions c05_rto_mode_exit_ack.
Print Assumptions c05_rto_mode_exit_probe.
Print Assumptions c05_slow_start_bound_partial.
Print Assumptions c05_zero_window_new_payload_refuted.

(* ================================================================================================
   Step-level and trace-level theorems (Conn/C05_Step.v): the step predicates of Conn/C05_Pred.v and
   Conn/C05_Pred3.v hold of EVERY step of the model from a state satisfying proved invariants, and of
   every trace from vsock_new.
   Invariants: ti (Conn/VSock_LemmasTimers), sp (Conn/C05_Segs: every segment holds at least one byte,
   mss >= 1, snd_una is a u16; kept by every event after which the trace goes on), optc (the options are
   those of the configuration); each holds of vsock_new and is kept by the events of a trace. *)
From Utp Require Import Wire.Header Conn.C06_Pred Conn.C0506_Pred2 Conn.C05_Pred3 Conn.VSock_Lemmas
  Conn.VSock_LemmasTimers Conn.C05_Segs Conn.C05_Step.

(* ---- (c) single-segment mode: c05_rto_single_ok after EVERY event ---- *)
Theorem c05_rto_single_ok_every_step : forall (CC : Type) (cci : cc_iface CC) (cfg : vconfig) (s : vsock CC) (o : vop),
  ti s -> c05_rto_single_ok cfg (VSock_Lemmas.fstep_of cci s o) = true.
Proof. exact @c05_rto_single_ok_step. Qed.

Theorem c05_rto_single_ok_every_trace : forall (CC : Type) (cci : cc_iface CC) (cfg : vconfig)
    (mk : Z -> Z -> CC) (c : vconfig) (s0 : vsock CC) (ops : list vop),
  vsock_new cci mk c = Some s0 -> forallb (c05_rto_single_ok cfg) (ftrace cci s0 ops) = true.
Proof. exact @c05_rto_single_ok_trace. Qed.

(* ---- (c) leaving single-segment mode: c05_rto_exit_ok is FALSE of the model (boundary B6 when the peer's
   payloads have raised min_ss to max_ss: max_ss is not lowered by the expired probe) ---- *)
Theorem c05_rto_exit_ok_b6_refuted :
  exists w cfg ops,
    vconfig_ok cfg = true /\ Forall op_msg_ok ops /\
    forallb (c05_rto_exit_ok cfg) (wtrace w cfg ops) = false /\
    existsb (c05_rto_exit_b6_class cfg) (wtrace w cfg ops) = true /\
    forallb (fun st => c05_rto_exit_ok cfg st || c05_rto_exit_b6_class cfg st) (wtrace w cfg ops) = true /\
    forallb (c05_rto_exit_ok2 cfg) (wtrace w cfg ops) = true /\
    forallb (c05_rto_single_ok cfg) (wtrace w cfg ops) = true /\
    match rev (wtrace w cfg ops) with
    | st :: _ => f_rto_retx (fs_pre st) = 1 /\ f_rto_retx (fs_post st) = 0 /\
                 f_max_ss (fs_post st) = f_max_ss (fs_pre st) /\
                 f_snd_una (fs_post st) = f_snd_una (fs_pre st) /\
                 match fs_result st with
                 | FrPoll PollPending pkts _ _ => length (filter fq_is_data pkts) = 2%nat
                 | _ => False
                 end
    | [] => False
    end.
Proof. exact rto_exit_ok_b6_refuted. Qed.

(* ---- (b) zero window: c05_zero_window_ok is FALSE of a poll that ends with the connection closed
   (the receive loop stopped early, the restart after EMSGSIZE processed the window update after the send);
   it holds of every poll that ends open ---- *)
Theorem c05_zero_window_ok_closed_refuted :
  exists w cfg ops,
    vconfig_ok cfg = true /\ Forall op_msg_ok ops /\
    forallb (c05_zero_window_ok cfg) (wtrace w cfg ops) = false /\
    forallb (c05_zero_window_ok_open cfg) (wtrace w cfg ops) = true /\
    forallb (fun st => c05_zero_window_ok cfg st || negb (post_open cfg st)) (wtrace w cfg ops) = true /\
    match rev (wtrace w cfg ops) with
    | st :: _ => f_last_remote_window (fs_post st) = 0 /\ f_rto_retx (fs_post st) = 0 /\
                 f_state (fs_post st) = LastAck 101 1 /\
                 match fs_result st with
                 | FrPoll PollPending pkts _ _ =>
                     map (fun q => (ch_seq (fq_hdr q), fq_plen q)) (filter fq_is_data pkts) = [(101, 528)]
                 | _ => False
                 end
    | [] => False
    end.
Proof. exact zero_window_ok_closed_refuted. Qed.

Theorem c05_zero_window_ok_open_every_step : forall (CC : Type) (cci : cc_iface CC) (cfg : vconfig) (s : vsock CC) (o : vop),
  ti s -> sp s -> optc cfg s -> c05_zero_window_ok_open cfg (VSock_Lemmas.fstep_of cci s o) = true.
Proof. exact @c05_zero_window_ok_open_step. Qed.

Theorem c05_zero_window_ok_open_every_trace : forall (CC : Type) (cci : cc_iface CC)
    (mk : Z -> Z -> CC) (c : vconfig) (s0 : vsock CC) (ops : list vop),
  0 <= vc_isn c < M16 -> vsock_new cci mk c = Some s0 ->
  forallb (c05_zero_window_ok_open c) (ftrace cci s0 ops) = true.
Proof. exact @c05_zero_window_ok_open_trace. Qed.

(* (b) at full strength outside the known class D16, for the polls that end open *)
Theorem c05_zero_window_strict_or_d16_open_every_step : forall (CC : Type) (cci : cc_iface CC) (cfg : vconfig)
    (s : vsock CC) (o : vop),
  ti s -> sp s -> optc cfg s -> c05_zero_window_strict_or_d16_open cfg (VSock_Lemmas.fstep_of cci s o) = true.
Proof. exact @c05_zero_window_strict_or_d16_open_step. Qed.

Theorem c05_zero_window_strict_or_d16_open_every_trace : forall (CC : Type) (cci : cc_iface CC)
    (mk : Z -> Z -> CC) (c : vconfig) (s0 : vsock CC) (ops : list vop),
  0 <= vc_isn c < M16 -> vsock_new cci mk c = Some s0 ->
  forallb (c05_zero_window_strict_or_d16_open c) (ftrace cci s0 ops) = true.
Proof. exact @c05_zero_window_strict_or_d16_open_trace. Qed.

(* ---- (a) the window clause, as intended (c05_window_ok2: the whole list of ST_DATA of the poll) and as
   written (c05_window_ok sums the datagrams AFTER the first), under the guards c05_win_guard ---- *)
Theorem c05_window_ok2_every_step : forall (CC : Type) (cci : cc_iface CC) (cfg : vconfig) (s : vsock CC) (o : vop),
  ti s -> sp s -> optc cfg s ->
  c05_window_ok2 cfg (VSock_Lemmas.fstep_of cci s o) = true /\
  c05_window_ok_g cfg (VSock_Lemmas.fstep_of cci s o) = true.
Proof. exact @c05_window_ok2_step. Qed.

Theorem c05_window_ok2_every_trace : forall (CC : Type) (cci : cc_iface CC)
    (mk : Z -> Z -> CC) (c : vconfig) (s0 : vsock CC) (ops : list vop),
  0 <= vc_isn c < M16 -> vsock_new cci mk c = Some s0 ->
  forallb (c05_window_ok2 c) (ftrace cci s0 ops) = true.
Proof. exact @c05_window_ok2_trace. Qed.

Theorem c05_window_ok_g_every_trace : forall (CC : Type) (cci : cc_iface CC)
    (mk : Z -> Z -> CC) (c : vconfig) (s0 : vsock CC) (ops : list vop),
  0 <= vc_isn c < M16 -> vsock_new cci mk c = Some s0 ->
  forallb (c05_window_ok_g c) (ftrace cci s0 ops) = true.
Proof. exact @c05_window_ok_g_trace. Qed.

(* ---- the invariants ---- *)
Theorem c05_sp_initial : forall (CC : Type) (cci : cc_iface CC) (mk : Z -> Z -> CC) (c : vconfig) (s : vsock CC),
  0 <= vc_isn c < M16 -> vsock_new cci mk c = Some s -> sp s.
Proof. exact @sp_vsock_new. Qed.

Theorem c05_sp_invariant : forall (CC : Type) (cci : cc_iface CC) (s : vsock CC) (o : vop),
  sp s -> poll_finished (VSock_LemmasStep.vstep_out cci s o) = false -> sp (vstep_state cci s o).
Proof. exact @sp_vstep_live. Qed.

(* ---- the guards are met by reachable steps ---- *)
Theorem c05_win_guard_nonvacuous :
  exists w cfg ops,
    vconfig_ok cfg = true /\ Forall op_msg_ok ops /\
    existsb (fun st => c05_win_guard cfg st &&
                       match fs_result st with
                       | FrPoll PollPending pkts _ _ => (2 <=? Z.of_nat (length (filter fq_is_data pkts)))
                       | _ => false
                       end) (wtrace w cfg ops) = true /\
    forallb (c05_window_ok2 cfg) (wtrace w cfg ops) = true /\
    forallb (c05_window_ok_g cfg) (wtrace w cfg ops) = true.
Proof. exact win_guard_nonvacuous. Qed.

Theorem c05_zero_window_open_nonvacuous :
  exists w cfg ops,
    vconfig_ok cfg = true /\ Forall op_msg_ok ops /\
    existsb (fun st => post_open cfg st && (f_last_remote_window (fs_post st) =? 0) &&
                       match fs_result st with FrPoll PollPending _ _ _ => true | _ => false end)
            (wtrace w cfg ops) = true /\
    existsb (c05_d16_class2 cfg) (wtrace w cfg ops) = true /\
    forallb (c05_zero_window_ok_open cfg) (wtrace w cfg ops) = true /\
    forallb (c05_zero_window_strict_or_d16_open cfg) (wtrace w cfg ops) = true.
Proof. exact zero_window_open_nonvacuous. Qed.

Theorem c05_rto_single_nonvacuous :
  exists w cfg ops,
    vconfig_ok cfg = true /\ Forall op_msg_ok ops /\
    existsb (fun st => (0 <? f_rto_retx (fs_post st)) &&
                       match fs_result st with
                       | FrPoll PollPending pkts _ _ => Z.of_nat (length (filter fq_is_data pkts)) =? 1
                       | _ => false
                       end) (wtrace w cfg ops) = true /\
    forallb (c05_rto_single_ok cfg) (wtrace w cfg ops) = true.
Proof. exact rto_single_nonvacuous. Qed.

Print Assumptions c05_rto_single_ok_every_step.
Print Assumptions c05_rto_single_ok_every_trace.
Print Assumptions c05_rto_exit_ok_b6_refuted.
Print Assumptions c05_zero_window_ok_closed_refuted.
Print Assumptions c05_zero_window_ok_open_every_step.
Print Assumptions c05_zero_window_ok_open_every_trace.
Print Assumptions c05_zero_window_strict_or_d16_open_every_step.
Print Assumptions c05_zero_window_strict_or_d16_open_every_trace.
Print Assumptions c05_window_ok2_every_step.
Print Assumptions c05_window_ok2_every_trace.
Print Assumptions c05_window_ok_g_every_trace.
Print Assumptions c05_sp_initial.
Print Assumptions c05_sp_invariant.
Print Assumptions c05_win_guard_nonvacuous.
Print Assumptions c05_zero_window_open_nonvacuous.
Print Assumptions c05_rto_single_nonvacuous.

(* ---- (c) leaving single-segment mode, restated (c05_rto_exit_ok2): the counter goes from positive to zero
   in a Pending poll only if bytes were removed from the table, or a segment of the table as it was became
   delivered, or the expired MTU probe (as the state before the poll shows it) was popped.
   optm: the probe retransmission limit is that of the configuration (an invariant). ---- *)
Theorem c05_rto_exit_ok2_every_step : forall (CC : Type) (cci : cc_iface CC) (cfg : vconfig) (s : vsock CC) (o : vop),
  ti s -> sp s -> optm cfg s -> c05_rto_exit_ok2 cfg (VSock_Lemmas.fstep_of cci s o) = true.
Proof. exact @c05_rto_exit_ok2_step. Qed.

Theorem c05_rto_exit_ok2_every_trace : forall (CC : Type) (cci : cc_iface CC)
    (mk : Z -> Z -> CC) (c : vconfig) (s0 : vsock CC) (ops : list vop),
  0 <= vc_isn c < M16 -> vsock_new cci mk c = Some s0 ->
  forallb (c05_rto_exit_ok2 c) (ftrace cci s0 ops) = true.
Proof. exact @c05_rto_exit_ok2_trace. Qed.

Theorem c05_rto_exit_nonvacuous :
  exists w cfg ops,
    vconfig_ok cfg = true /\ Forall op_msg_ok ops /\
    existsb (fun st => (0 <? f_rto_retx (fs_pre st)) && (f_rto_retx (fs_post st) =? 0) &&
                       (f_seg_removed (fs_pre st) <? f_seg_removed (fs_post st)) &&
                       match fs_result st with FrPoll PollPending _ _ _ => true | _ => false end)
            (wtrace w cfg ops) = true /\
    forallb (c05_rto_exit_ok2 cfg) (wtrace w cfg ops) = true /\
    forallb (c05_rto_exit_ok cfg) (wtrace w cfg ops) = true.
Proof. exact rto_exit_nonvacuous. Qed.

(* ---- the monitored preconditions: the part that is an invariant (segment sizes, counter, mss);
   c05_monitor_ok itself is PARTIAL: its never-sent-suffix clause is not proved (it needs
   last_sent_seq_nr to lie within the table, which a peer acknowledging unsent data can break) ---- *)
Theorem c05_monitor_core_ok_every_step_partial : forall (CC : Type) (cci : cc_iface CC) (cfg : vconfig)
    (s : vsock CC) (o : vop),
  ti s -> sp s -> c05_monitor_core_ok cfg (VSock_Lemmas.fstep_of cci s o) = true.
Proof. exact @c05_monitor_core_ok_step. Qed.

Theorem c05_monitor_core_ok_every_trace_partial : forall (CC : Type) (cci : cc_iface CC) (cfg : vconfig)
    (mk : Z -> Z -> CC) (c : vconfig) (s0 : vsock CC) (ops : list vop),
  0 <= vc_isn c < M16 -> vsock_new cci mk c = Some s0 ->
  forallb (c05_monitor_core_ok cfg) (ftrace cci s0 ops) = true.
Proof. exact @c05_monitor_core_ok_trace. Qed.

Print Assumptions c05_rto_exit_ok2_every_step.
Print Assumptions c05_rto_exit_ok2_every_trace.
Print Assumptions c05_rto_exit_nonvacuous.
Print Assumptions c05_monitor_core_ok_every_step_partial.
Print Assumptions c05_monitor_core_ok_every_trace_partial.

(* ---- (d) slow start, PARTIAL: the assumption about the abstract congestion controller (cc_ss_ok: an
   invariant that bounds the window by two segments plus the acknowledged bytes plus one byte per ACK, kept by
   set_mss / set_remote_window / on_ack) and what it gives for every sequence of those calls; the
   connection-level clause c05_slow_start_ok is not proved (Conn/C05_SlowStart.v says what is missing) ---- *)
From Utp Require Import Conn.C05_SlowStart.

Theorem c05_slow_start_window_bound_partial : forall (CC : Type) (cci : cc_iface CC) (mk : Z -> Z -> CC),
  cc_ss_ok cci mk ->
  forall now m ops c, 1 <= m -> ss_ops_ok ops -> ss_run cci (mk now m) ops = Some c ->
  cc_window cci c <= 2 * ss_mss_hi m ops + ss_bytes ops + ss_acks ops.
Proof. exact @ss_window_bound. Qed.

Theorem c05_slow_start_hypothesis_satisfiable : cc_ss_ok ideal_ss (fun _ m => (m, 0)).
Proof. exact ideal_ss_ok. Qed.

Print Assumptions c05_slow_start_window_bound_partial.
Print Assumptions c05_slow_start_hypothesis_satisfiable.

(* C13 — connect/accept pair up one-to-one, in order, with a bounded backlog.
   Socket-dispatcher level. Only statements + exact. *)
From Utp Require Import Base.Prelude Wire.SeqNr Wire.Header Sock.Dispatcher Sock.Dispatcher_Proofs
  Sock.DispObs Sock.DispObs_Proofs.

(* backlog: at most 32 SYNs are retained; a SYN that can neither be served nor queued is refused
   with exactly one reset carrying its sequence number; a SYN is served directly only when no
   older SYN is queued (arrival order) *)
Theorem c13_backlog_and_order : forall s y s' e,
  st_inv s -> Z.of_nat (length (d_syns s)) <= ACCEPT_QUEUE_MAX_SYNS -> on_syn s y = (s', e) ->
  st_inv s' /\ frame s s' /\ Z.of_nat (length (d_syns s')) <= ACCEPT_QUEUE_MAX_SYNS /\
  ((all_accepted e /\ (d_syns s' = d_syns s \/ d_syns s' = d_syns s ++ [y])) \/
   (exists e0, all_accepted e0 /\ e = e0 ++ [EvSentRst (sy_addr y) (sy_conn y) (sy_seq y)] /\
               d_syns s' = d_syns s /\ Z.of_nat (length (d_syns s)) = ACCEPT_QUEUE_MAX_SYNS)) /\
  (d_syns s <> [] -> d_streams s' = d_streams s /\ d_handed s' = d_handed s /\
                     (e = [] \/ e = [EvSentRst (sy_addr y) (sy_conn y) (sy_seq y)])).
Proof. exact on_syn_spec. Qed.

(* the queue is served strictly from the front *)
Theorem c13_cleanup_serves_from_front : forall s s' e,
  cleanup_accept_queue s = (s', e) -> exists n, d_syns s' = skipn n (d_syns s).
Proof. exact cleanup_serves_from_front. Qed.

Theorem c13_cleanup_safe : forall s s' e,
  st_inv s -> cleanup_accept_queue s = (s', e) ->
  st_inv s' /\ all_accepted e /\ frame s s' /\ (length (d_syns s') <= length (d_syns s))%nat.
Proof. exact cleanup_spec. Qed.

(* one accept call serves one request: a match hands exactly one new connection to exactly that
   acceptor; a dead acceptor consumes no request (the SYN is kept), see c12_incoming_creation *)
Theorem c13_one_acceptor_one_stream : forall s y a s' r e,
  st_inv s -> match_syn_with_accept s y a = (s', r, e) ->
  st_inv s' /\ d_max_streams s' = d_max_streams s /\ d_syns s' = d_syns s /\ d_chan s' = d_chan s /\
  d_next_acc s' = d_next_acc s /\ d_connecting s' = d_connecting s /\ d_control s' = d_control s /\
  incl (d_streams s) (d_streams s') /\
  match r with
  | MrMatched =>
      e = [EvAccepted a {| k_addr := sy_addr y; k_conn := wadd16 (sy_conn y) 1 |}] /\
      keys (d_streams s') = keys (d_streams s) ++ [{| k_addr := sy_addr y; k_conn := wadd16 (sy_conn y) 1 |}] /\
      ~ In a (d_dead_acceptors s)
  | MrReceiverDead => e = [] /\ d_streams s' = d_streams s /\ In a (d_dead_acceptors s)
  | MrFull => e = [] /\ s' = s /\ streams_full s = true
  | MrSynInvalid => e = [] /\ s' = s
  end.
Proof. exact match_syn_spec. Qed.

(* control messages: connect reserves one of the four per-address slots, an abandoned connect
   releases its slot, nothing else is touched *)
Theorem c13_control : forall s c send s' e,
  d_inv s -> on_control s c send = (s', e) ->
  d_inv s' /\ d_max_streams s' = d_max_streams s /\
  match c with
  | CtlShutdown k =>
      e = [] /\
      match find_stream s k with
      | Some en =>
          if se_alive en then s' = s
          else
            keys (d_streams s') = filter (fun x => negb (skey_eqb x k)) (keys (d_streams s)) /\
            ~ In k (keys (d_streams s')) /\
            (forall en', In en' (d_streams s) -> se_key en' <> k -> In en' (d_streams s'))
      | None => s' = s
      end
  | _ => d_streams s' = d_streams s
  end.
Proof. exact on_control_spec. Qed.

(* regression of the repaired D12 *)
Theorem c13_new_syn_queues_behind_cached :
  let s1 := drun (dstate_new 128 [7; 100; 200]) (removelast d12_ops) in
  let s2 := drun (dstate_new 128 [7; 100; 200]) d12_ops in
  d_syns s1 = [{| sy_addr := 5; sy_conn := 50; sy_seq := 1000 |}; {| sy_addr := 6; sy_conn := 60; sy_seq := 2000 |}] /\
  d_handed s1 = [] /\
  map fst (d_handed s2) = [1] /\ keys (d_streams s2) = [{| k_addr := 5; k_conn := 51 |}] /\
  d_syns s2 = [{| sy_addr := 6; sy_conn := 60; sy_seq := 2000 |}].
Proof. exact new_syn_queues_behind_cached. Qed.

Theorem c13_step_ok_every_step : forall s o s' e,
  d_inv s -> dstep s o = (s', e) -> c13_step_ok (dstep_obs_of s e s') = true.
Proof. exact c13_step_ok_model. Qed.

Theorem c13_model_trace_ok : forall max_streams random ops,
  forallb (c12_step_ok max_streams) (dobs_trace (dstate_new max_streams random) ops) = true /\
  forallb c13_step_ok (dobs_trace (dstate_new max_streams random) ops) = true.
Proof. exact model_trace_ok. Qed.

Print Assumptions c13_step_ok_every_step.
Print Assumptions c13_model_trace_ok.
Print Assumptions c13_backlog_and_order.
Print Assumptions c13_cleanup_serves_from_front.
Print Assumptions c13_cleanup_safe.
Print Assumptions c13_one_acceptor_one_stream.
Print Assumptions c13_control.
Print Assumptions c13_new_syn_queues_behind_cached.

(* C13 — connect/accept pair up one-to-one, in order, with a bounded backlog.
   Socket-dispatcher level. Only statements + exact. *)
From Utp Require Import Base.Prelude Wire.SeqNr Wire.Header Sock.Dispatcher Sock.Dispatcher_Proofs
  Sock.DispObs Sock.DispObs_Proofs.
From Utp Require Import Sock.DispFresh_Proofs Sock.DispSlots_Proofs Sock.DispPending_Proofs
  Sock.DispWiring_Proofs Sock.DispRelease_Proofs.

(* backlog: at most 32 SYNs are retained; a SYN that can neither be served nor queued is refused
   with exactly one reset carrying its sequence number; a SYN is served directly only when no
   older SYN is queued (arrival order) *)
Theorem c13_backlog_and_order : forall s y s' e,
  st_inv s -> Z.of_nat (length (d_syns s)) <= ACCEPT_QUEUE_MAX_SYNS -> on_syn s y = (s', e) ->
  st_inv s' /\ frame s s' /\ Z.of_nat (length (d_syns s')) <= ACCEPT_QUEUE_MAX_SYNS /\
  ((all_accepted e /\ (d_syns s' = d_syns s \/ d_syns s' = d_syns s ++ [y])) \/
   (exists e0, all_accepted e0 /\ e = e0 ++ [EvSentRst (sy_addr y) (sy_conn y) (sy_seq y)] /\
               d_syns s' = d_syns s /\ Z.of_nat (length (d_syns s)) = ACCEPT_QUEUE_MAX_SYNS)) /\
  (d_syns s <> [] -> d_streams s' = d_streams s /\ d_handed s' = d_handed s /\
                     (e = [] \/ e = [EvSentRst (sy_addr y) (sy_conn y) (sy_seq y)])).
Proof. exact on_syn_spec. Qed.

(* the queue is served strictly from the front *)
Theorem c13_cleanup_serves_from_front : forall s s' e,
  cleanup_accept_queue s = (s', e) -> exists n, d_syns s' = skipn n (d_syns s).
Proof. exact cleanup_serves_from_front. Qed.

Theorem c13_cleanup_safe : forall s s' e,
  st_inv s -> cleanup_accept_queue s = (s', e) ->
  st_inv s' /\ all_accepted e /\ frame s s' /\ (length (d_syns s') <= length (d_syns s))%nat.
Proof. exact cleanup_spec. Qed.

(* one accept call serves one request: a match hands exactly one new connection to exactly that
   acceptor; a dead acceptor consumes no request (the SYN is kept), see c12_incoming_creation *)
Theorem c13_one_acceptor_one_stream : forall s y a s' r e,
  st_inv s -> match_syn_with_accept s y a = (s', r, e) ->
  st_inv s' /\ d_max_streams s' = d_max_streams s /\ d_syns s' = d_syns s /\ d_chan s' = d_chan s /\
  d_next_acc s' = d_next_acc s /\ d_connecting s' = d_connecting s /\ d_control s' = d_control s /\
  incl (d_streams s) (d_streams s') /\
  match r with
  | MrMatched =>
      e = [EvAccepted a {| k_addr := sy_addr y; k_conn := wadd16 (sy_conn y) 1 |}] /\
      keys (d_streams s') = keys (d_streams s) ++ [{| k_addr := sy_addr y; k_conn := wadd16 (sy_conn y) 1 |}] /\
      ~ In a (d_dead_acceptors s)
  | MrReceiverDead => e = [] /\ d_streams s' = d_streams s /\ In a (d_dead_acceptors s)
  | MrFull => e = [] /\ s' = s /\ streams_full s = true
  | MrSynInvalid => e = [] /\ s' = s
  end.
Proof. exact match_syn_spec. Qed.

(* control messages: connect reserves one of the four per-address slots, an abandoned connect
   releases its slot, nothing else is touched *)
Theorem c13_control : forall s c send s' e,
  d_inv s -> on_control s c send = (s', e) ->
  d_inv s' /\ d_max_streams s' = d_max_streams s /\
  match c with
  | CtlShutdown k =>
      e = [] /\
      match find_stream s k with
      | Some en =>
          if se_alive en then s' = s
          else
            keys (d_streams s') = filter (fun x => negb (skey_eqb x k)) (keys (d_streams s)) /\
            ~ In k (keys (d_streams s')) /\
            (forall en', In en' (d_streams s) -> se_key en' <> k -> In en' (d_streams s'))
      | None => s' = s
      end
  | _ => d_streams s' = d_streams s
  end.
Proof. exact on_control_spec. Qed.

(* regression of the repaired D12 *)
Theorem c13_new_syn_queues_behind_cached :
  let s1 := drun (dstate_new 128 [7; 100; 200]) (removelast d12_ops) in
  let s2 := drun (dstate_new 128 [7; 100; 200]) d12_ops in
  d_syns s1 = [{| sy_addr := 5; sy_conn := 50; sy_seq := 1000 |}; {| sy_addr := 6; sy_conn := 60; sy_seq := 2000 |}] /\
  d_handed s1 = [] /\
  map fst (d_handed s2) = [1] /\ keys (d_streams s2) = [{| k_addr := 5; k_conn := 51 |}] /\
  d_syns s2 = [{| sy_addr := 6; sy_conn := 60; sy_seq := 2000 |}].
Proof. exact new_syn_queues_behind_cached. Qed.

Theorem c13_step_ok_every_step : forall s o s' e,
  d_inv s -> dstep s o = (s', e) -> c13_step_ok (dstep_obs_of s e s') = true.
Proof. exact c13_step_ok_model. Qed.

Theorem c13_model_trace_ok : forall max_streams random ops,
  forallb (c12_step_ok max_streams) (dobs_trace (dstate_new max_streams random) ops) = true /\
  forallb c13_step_ok (dobs_trace (dstate_new max_streams random) ops) = true.
Proof. exact model_trace_ok. Qed.

Print Assumptions c13_step_ok_every_step.
Print Assumptions c13_model_trace_ok.
Print Assumptions c13_backlog_and_order.
Print Assumptions c13_cleanup_serves_from_front.
Print Assumptions c13_cleanup_safe.
Print Assumptions c13_one_acceptor_one_stream.
Print Assumptions c13_control.
Print Assumptions c13_new_syn_queues_behind_cached.

(* ================================================================== "the two are wired to each other" *)
(* Every EvAccepted of every step: the SYN it answers (from the backlog or the datagram being
   handled), key = (SYN's address, SYN's connection id + 1) which was free, the connection object
   registered under that key is the one handed to exactly this acceptor, which is alive.
   syn_key y = (sy_addr y, sy_conn y + 1 mod 2^16), live_entry k sid = table entry k / alive / sid. *)
Theorem c13_accepted_wiring : forall s o s' e acc k,
  d_inv s -> dstep s o = (s', e) -> In (EvAccepted acc k) e ->
  exists y sid,
    (In y (d_syns s) \/
     exists pushes addr m, o = DoRunOnce pushes (ArmRecv addr (Some m)) /\ dm_type m = ST_SYN /\ y = syn_of addr m) /\
    k = syn_key y /\
    ~ In k (keys (d_streams s)) /\
    In (acc, (k, sid)) (d_handed s') /\ In (live_entry k sid) (d_streams s') /\
    ~ In acc (d_dead_acceptors s).
Proof. exact accepted_event_facts. Qed.

(* Every EvConnected of every step: a ST_STATE datagram no connection claimed, key = (its address,
   its connection id) which was free, paired with the FIRST pending connect to that address whose
   SYN carried the acknowledged sequence number; that slot is released; the connector is alive. *)
Theorem c13_connected_wiring : forall s o s' e t k,
  d_inv s -> dstep s o = (s', e) -> In (EvConnected t k) e ->
  exists pushes addr m c m1 m2 sid,
    o = DoRunOnce pushes (ArmRecv addr (Some m)) /\ dm_type m = ST_STATE /\
    k = {| k_addr := addr; k_conn := dm_conn m |} /\
    pending s addr = m1 ++ c :: m2 /\ cn_token c = t /\ cn_seq c = dm_ack m /\
    (forall x, In x m1 -> cn_seq x <> dm_ack m) /\ pending s' addr = m1 ++ m2 /\
    ~ In k (keys (d_streams s)) /\ In (live_entry k sid) (d_streams s') /\
    In (t, CrOk k) (d_results s') /\ ~ In t (d_dead_connectors s).
Proof. exact connected_event_facts. Qed.

(* the two ends, on the RECEIVE ids the model carries: initiator receives on c, acceptor on c + 1
   (hypothesis dm_conn mA = c: the SYN-ACK carries the acceptor's conn_id_send, a StreamArgs
   field the dispatcher model does not have) *)
Theorem c13_wiring_cross_keys : forall c,
  forall sB pushesB pa mB sB' eB acc kB,
    d_inv sB -> d_syns sB = [] -> dm_type mB = ST_SYN -> dm_conn mB = c ->
    dstep sB (DoRunOnce pushesB (ArmRecv pa (Some mB))) = (sB', eB) -> In (EvAccepted acc kB) eB ->
  forall sA pushesA pb mA sA' eA t kA,
    d_inv sA -> dm_conn mA = c ->
    dstep sA (DoRunOnce pushesA (ArmRecv pb (Some mA))) = (sA', eA) -> In (EvConnected t kA) eA ->
  kB = {| k_addr := pa; k_conn := wadd16 c 1 |} /\ kA = {| k_addr := pb; k_conn := c |} /\
  k_conn kB = wadd16 (k_conn kA) 1.
Proof. exact wiring_cross_keys. Qed.

(* NOT a statement about the frozen model: `sargs_incoming` / `sargs_outgoing` are transcriptions
   (Sock/DispWiring_Proofs.v, by inspection) of the id / sequence-number fields of
   StreamArgs::new_incoming / new_outgoing, which the dispatcher model does not carry.  They fit
   together when the SYN-ACK echoes what new_incoming prescribes. *)
Theorem c13_stream_args_cross_transcribed : forall (isn : Z) (y : syn) (m : dmsg),
  let b := sargs_incoming isn y in
  dm_conn m = sa_conn_id_send b -> dm_seq m = sa_seq_nr b -> dm_ack m = sa_last_sent_ack_nr b ->
  let a := sargs_outgoing m in
  sa_conn_id_recv a = sa_conn_id_send b /\ sa_conn_id_send a = sa_conn_id_recv b /\
  k_conn (syn_key y) = sa_conn_id_recv b /\
  sa_last_sent_seq_nr a = sy_seq y /\ sa_last_consumed_remote_seq_nr b = sa_last_sent_seq_nr a /\
  sa_last_consumed_remote_seq_nr a = sa_last_sent_seq_nr b.
Proof. exact sargs_cross. Qed.

(* ================================================================== abandoned calls release what they reserved *)
Theorem c13_reachable_inv : forall max_streams random ops, d_inv (drun (dstate_new max_streams random) ops).
Proof. exact reachable_inv. Qed.

(* pending s a = the pending connects to address a, in slot order (at most 4) *)

(* fewer than four pending connects to the address: the request is never refused for lack of a
   slot (only the table limit can refuse it) *)
Theorem c13_connect_not_starved : forall s pushes addr token r s' e,
  d_inv s -> d_control s = CtlConnect addr token :: r ->
  (length (pending s addr) < 4)%nat ->
  dstep s (DoRunOnce pushes (ArmControl SynSent)) = (s', e) ->
  (In (EvConnectErr token) e /\ d_results s' = d_results s ++ [(token, CrTooMany)] /\
   forall a, pending s' a = pending s a) \/
  (no_connect_err e /\ d_results s' = d_results s /\
   exists cid q, In (EvSentSyn addr cid q) e /\
     In {| cn_token := token; cn_seq := q |} (pending s' addr) /\
     length (pending s' addr) = S (length (pending s addr)) /\
     forall a, a <> addr -> pending s' a = pending s a).
Proof. exact connect_not_starved. Qed.

Theorem c13_connect_refused_when_four_pending : forall s pushes addr token r s' e,
  d_inv s -> d_control s = CtlConnect addr token :: r ->
  length (pending s addr) = 4%nat ->
  dstep s (DoRunOnce pushes (ArmControl SynSent)) = (s', e) ->
  In (EvConnectErr token) e /\ (forall a, pending s' a = pending s a) /\
  (d_results s' = d_results s ++ [(token, CrTooMany)] \/ d_results s' = d_results s ++ [(token, CrDead)]).
Proof. exact connect_refused_when_four_pending. Qed.

(* handling ConnectDropped(addr, token) releases the first pending connect with that token *)
Theorem c13_connect_dropped_frees_slot : forall s pushes send addr token r s' e,
  d_inv s -> d_control s = CtlConnectDropped addr token :: r ->
  dstep s (DoRunOnce pushes (ArmControl send)) = (s', e) ->
  no_connect_err e /\ d_results s' = d_results s /\
  (forall a, a <> addr -> pending s' a = pending s a) /\
  ((pending s' addr = pending s addr /\ forall x, In x (pending s addr) -> cn_token x <> token) \/
   exists c m1 m2, pending s addr = m1 ++ c :: m2 /\ cn_token c = token /\
                   (forall x, In x m1 -> cn_token x <> token) /\ pending s' addr = m1 ++ m2).
Proof. exact connect_dropped_frees_slot. Qed.

Theorem c13_connect_after_drop_not_starved :
  forall s pushes send addr token r s1 e1 pushes' token' r' s2 e2,
  d_inv s -> d_control s = CtlConnectDropped addr token :: r ->
  (exists c, In c (pending s addr) /\ cn_token c = token) ->
  dstep s (DoRunOnce pushes (ArmControl send)) = (s1, e1) ->
  d_control s1 = CtlConnect addr token' :: r' ->
  dstep s1 (DoRunOnce pushes' (ArmControl SynSent)) = (s2, e2) ->
  d_results s2 = d_results s1 ++ [(token', CrTooMany)] \/
  (no_connect_err e2 /\ exists q, In {| cn_token := token'; cn_seq := q |} (pending s2 addr)).
Proof. exact connect_after_drop_not_starved. Qed.

(* slots never leak: the number of pending connects to an address grows only by a granted connect *)
Theorem c13_pending_grows_only_by_connect : forall s o s' e a,
  d_inv s -> dstep s o = (s', e) ->
  (length (pending s' a) <= length (pending s a))%nat \/
  (no_connect_err e /\ length (pending s' a) = S (length (pending s a)) /\
   exists cid q, In (EvSentSyn a cid q) e).
Proof. exact pending_grows_only_by_connect. Qed.

(* ALL OP LISTS: the control channel is FIFO; ctl_arms ops = number of run_once steps of ops
   whose select! takes the control arm *)
Theorem c13_control_fifo : forall ops s n c,
  d_inv s -> nth_error (d_control s) n = Some c -> (n < ctl_arms ops)%nat ->
  exists pre pushes send post r,
    ops = pre ++ DoRunOnce pushes (ArmControl send) :: post /\ ctl_arms pre = n /\
    d_control (drun s pre) = c :: r.
Proof. exact control_fifo. Qed.

(* ALL OP LISTS: after a connect() future is dropped, every continuation in which the control arm
   fires more often than there were messages queued before contains the step that releases it *)
Theorem c13_dropped_connect_eventually_released : forall s addr token ops,
  d_inv s ->
  let s0 := fst (dstep s (DoDropConnect addr token)) in
  (length (d_control s) < ctl_arms ops)%nat ->
  exists pre pushes send post,
    ops = pre ++ DoRunOnce pushes (ArmControl send) :: post /\
    let sb := drun s0 pre in
    let sa := fst (dstep sb (DoRunOnce pushes (ArmControl send))) in
    (forall a, a <> addr -> pending sa a = pending sb a) /\
    ((pending sa addr = pending sb addr /\ forall x, In x (pending sb addr) -> cn_token x <> token) \/
     exists c m1 m2, pending sb addr = m1 ++ c :: m2 /\ cn_token c = token /\
                     (forall x, In x m1 -> cn_token x <> token) /\ pending sa addr = m1 ++ m2).
Proof. exact dropped_connect_eventually_released. Qed.

(* accq s = the waiting acceptors, oldest first (next_available_acceptor, then the channel);
   serve_cond s y dead a rest = accq s = dead ++ a :: rest, every acceptor of `dead` was abandoned,
   a was not, the table has room and the key of SYN y is free *)

(* a live acceptor is served by the next SYN when no older live acceptor exists; the abandoned
   ones ahead of it consume no request and are gone from the queue *)
Theorem c13_live_acceptor_served_by_next_syn : forall s pushes addr m dead a rest s' e,
  d_inv s -> d_syns s = [] -> dm_type m = ST_SYN ->
  find_stream s {| k_addr := addr; k_conn := dm_conn m |} = None ->
  serve_cond s (syn_of addr m) dead a rest ->
  dstep s (DoRunOnce pushes (ArmRecv addr (Some m))) = (s', e) ->
  e = [EvAccepted a (syn_key (syn_of addr m))] /\ d_syns s' = [] /\
  exists ext, accq s' = rest ++ ext.
Proof. exact live_acceptor_served_by_next_syn. Qed.

(* the same from the backlog, at the next run_once whatever arm fires *)
Theorem c13_live_acceptor_served_from_backlog : forall s pushes arm0 y ys dead a rest s' e,
  d_inv s -> d_syns s = y :: ys -> serve_cond s y dead a rest ->
  dstep s (DoRunOnce pushes arm0) = (s', e) ->
  exists ev, e = EvAccepted a (syn_key y) :: ev.
Proof. exact live_acceptor_served_from_backlog. Qed.

(* boundary: the CHANNEL POSITION of an abandoned accept call is released only by that sweep:
   32 abandoned calls keep the 33rd out until the next SYN arrives *)
Theorem c13_dead_acceptor_position_held_until_sweep :
  let s1 := drun (dstate_new 128 [7; 100; 200]) full_dead_ops in
  let s2 := drun s1 [DoPushAcceptor 33] in
  let '(s3, e3) := dstep s2 (DoRunOnce [] (ArmRecv 5 (Some a_syn))) in
  let s4 := drun s3 [DoPushAcceptor 33] in
  let '(s5, e5) := dstep s4 (DoRunOnce [] ArmAccept) in
  length (d_chan s1) = 32%nat /\ d_chan s2 = d_chan s1 /\
  e3 = [] /\ d_chan s3 = [] /\ length (d_syns s3) = 1%nat /\
  d_chan s4 = [33] /\
  e5 = [EvAccepted 33 {| k_addr := 5; k_conn := 51 |}].
Proof. exact dead_acceptor_position_held_until_sweep. Qed.

Print Assumptions c13_accepted_wiring.
Print Assumptions c13_connected_wiring.
Print Assumptions c13_wiring_cross_keys.
Print Assumptions c13_stream_args_cross_transcribed.
Print Assumptions c13_reachable_inv.
Print Assumptions c13_connect_not_starved.
Print Assumptions c13_connect_refused_when_four_pending.
Print Assumptions c13_connect_dropped_frees_slot.
Print Assumptions c13_connect_after_drop_not_starved.
Print Assumptions c13_pending_grows_only_by_connect.
Print Assumptions c13_control_fifo.
Print Assumptions c13_dropped_connect_eventually_released.
Print Assumptions c13_live_acceptor_served_by_next_syn.
Print Assumptions c13_live_acceptor_served_from_backlog.
Print Assumptions c13_dead_acceptor_position_held_until_sweep.

(* only abandoned acceptors are waiting: the next SYN sweeps them all out of the queue in one step,
   is cached for the next accept call, and nothing is refused *)
Theorem c13_dead_acceptors_swept_by_next_syn : forall s addr m s' e,
  d_inv s -> d_syns s = [] -> dm_type m = ST_SYN ->
  find_stream s {| k_addr := addr; k_conn := dm_conn m |} = None ->
  (forall x, In x (accq s) -> In x (d_dead_acceptors s)) ->
  streams_full s = false -> has_stream s (syn_key (syn_of addr m)) = false ->
  dstep s (DoRunOnce [] (ArmRecv addr (Some m))) = (s', e) ->
  e = [] /\ d_syns s' = [syn_of addr m] /\ accq s' = [] /\ d_streams s' = d_streams s.
Proof. exact dead_acceptors_swept_by_next_syn. Qed.

Print Assumptions c13_dead_acceptors_swept_by_next_syn.

(* ================================================================== every pending connect is accounted for *)
From Utp Require Import Sock.DispC13_Pred Sock.DispC13_Proofs.

(* pobs_of s o e s' = what the step shows: which run_once arm fired (kind_of o), the (address, sequence number) of
   every SYN sent (psyns e), the per-address connecting slots before and after.  c13_pending_ok (Sock/DispC13_Pred.v):
   for every address of either table - four slots, at most four pending; if a SYN went to the address, either one EMPTY
   slot was filled with a connect carrying that sequence number and no other slot moved (no pending connect is
   overwritten or lost), or nothing moved and four connects were pending (refusal); if no SYN went to it, nothing
   moved or exactly one pending connect left, in a run_once step (control / recv arm) that sent no SYN; at most one
   SYN per step and only from the control arm; the slots of at most one address change per step *)
Theorem c13_pending_ok_every_step : forall s o s' e,
  d_inv s -> dstep s o = (s', e) -> c13_pending_ok (pobs_of s o e s') = true.
Proof. exact c13_pending_ok_model. Qed.

Theorem c13_pending_ok_every_op_list : forall max_streams random ops,
  forallb c13_pending_ok (pobs_trace (dstate_new max_streams random) ops) = true.
Proof. exact c13_pending_trace_ok. Qed.

Print Assumptions c13_pending_ok_every_step.
Print Assumptions c13_pending_ok_every_op_list.

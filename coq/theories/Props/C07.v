(* C07 — acknowledgement timeliness: delayed-ACK bound and immediate-ACK triggers.
   Connection level (model of VirtualSocket::poll, Conn/VSock.v).  Only statements + exact. *)
From Utp Require Import Base.Prelude Wire.SeqNr Wire.Header Rtt.Rtte Mtu.SegSizes Rx.Rx Tx.Ring
  Tx.Segments Conn.Recovery Conn.Msg Conn.VSockRec Conn.VSock Conn.VSockRun Conn.VObs
  Conn.VSock_Lemmas Conn.C07_Pred Conn.C07_Proofs.

(* mss >= 1 in every state a connection can reach *)
Theorem c07_mss_pos_new : forall (CC : Type) (cci : cc_iface CC) mk c (s : vsock CC),
  vsock_new cci mk c = Some s -> 1 <= mss (v_ss s).
Proof. exact (@mss_pos_vsock_new). Qed.

Theorem c07_mss_pos_step : forall (CC : Type) (cci : cc_iface CC) (s : vsock CC) o,
  1 <= mss (v_ss s) -> 1 <= mss (v_ss (vstep_state cci s o)).
Proof. exact (@mss_pos_vstep). Qed.

(* (a) a poll that ran to its end (Pending, transport writable) leaves no immediate-ACK
   obligation: fewer than 2*mss unacknowledged bytes, no pending window update *)
Theorem c07_no_pending_immediate_ack : forall (CC : Type) (cci : cc_iface CC) (s s' : vsock CC),
  1 <= mss (v_ss s) ->
  poll cci s = (s', PollPending) -> v_transport_pending s' = false ->
  immediate_ack_to_transmit s' = false /\ should_send_window_update s' = false /\
  v_cbu s' < 2 * mss (v_ss s').
Proof. exact (@c07_no_pending_immediate_ack_lemma). Qed.

(* (b) delayed ACK armed: within 40 ms (in ns) of this poll, and never moved later while nothing is sent *)
Theorem c07_delayed_ack_armed : forall (CC : Type) (cci : cc_iface CC) (s s' : vsock CC),
  poll cci s = (s', PollPending) -> v_transport_pending s' = false ->
  (0 < v_cbu s' -> ack_to_transmit s' = true) -> 0 < v_cbu s' ->
  exists e, v_t_ack_delay s' = Some e /\ e <= v_env_now s + 40000000 /\
            (v_out s' = [] -> forall e0, v_t_ack_delay s = Some e0 -> e <= e0).
Proof. exact (@c07_delayed_ack_armed_lemma). Qed.

(* (b) the delayed ACK fires: one call of maybe_send_ack at/after the expiry *)
Theorem c07_delayed_ack_fires : forall (CC : Type) (s : vsock CC),
  timer_expired (v_t_ack_delay s) (v_now s) = true -> v_transport_pending s = false ->
  match maybe_send_ack s with
  | SOk s1 sent =>
      (sent = true /\ exists p, v_out s1 = p :: v_out s /\ ch_type (p_hdr p) = ST_STATE /\
                               ch_ack (p_hdr p) = v_last_consumed s) \/
      (sent = false /\ v_transport_pending s1 = true) \/
      (sent = false /\ ack_to_transmit s = false /\ v_t_ack_delay s1 = None /\ v_out s1 = v_out s)
  | SErr _ e => e = ErrSend
  | SPanic => False
  end.
Proof. exact (@maybe_send_ack_fires). Qed.

(* (b) the same for a whole poll: a completed poll at/after the expiry emits a packet, or
   nothing was owed and the timer is off *)
Theorem c07_delayed_ack_fires_poll : forall (CC : Type) (cci : cc_iface CC) (s s' : vsock CC) e0,
  poll cci s = (s', PollPending) -> v_transport_pending s' = false ->
  v_t_ack_delay s = Some e0 -> e0 <= v_env_now s ->
  v_out s' <> [] \/ (ack_to_transmit s' = false /\ v_t_ack_delay s' = None).
Proof. exact (@c07_delayed_ack_fires_lemma). Qed.

(* the extracted predicates hold of every step / every trace of the model *)
Theorem c07_immediate_ok_model : forall (CC : Type) (cci : cc_iface CC) cfg ops (s : vsock CC),
  1 <= mss (v_ss s) -> forallb (c07_immediate_ok cfg) (ftrace cci s ops) = true.
Proof. exact (@c07_immediate_ok_trace). Qed.

Theorem c07_delayed_ok_model : forall (CC : Type) (cci : cc_iface CC) cfg ops (s : vsock CC),
  forallb (c07_delayed_ok cfg) (ftrace cci s ops) = true.
Proof. exact (@c07_delayed_ok_trace). Qed.

Theorem c07_fires_ok_model : forall (CC : Type) (cci : cc_iface CC) cfg ops (s : vsock CC),
  forallb (c07_fires_ok cfg) (ftrace cci s ops) = true.
Proof. exact (@c07_fires_ok_trace). Qed.

(* window update: after a completed poll the window last advertised and the current one are on the same
   side of zero (the update went out in that poll, no clock advance), on every model trace *)
Theorem c07_window_update_ok_model : forall (CC : Type) (cci : cc_iface CC) cfg ops (s : vsock CC),
  1 <= mss (v_ss s) -> forallb (c07_window_update_ok cfg) (ftrace cci s ops) = true.
Proof. exact (@c07_window_update_ok_trace). Qed.

Print Assumptions c07_mss_pos_new.
Print Assumptions c07_mss_pos_step.
Print Assumptions c07_no_pending_immediate_ack.
Print Assumptions c07_delayed_ack_armed.
Print Assumptions c07_delayed_ack_fires.
Print Assumptions c07_delayed_ack_fires_poll.
Print Assumptions c07_immediate_ok_model.
Print Assumptions c07_delayed_ok_model.
Print Assumptions c07_fires_ok_model.
Print Assumptions c07_window_update_ok_model.

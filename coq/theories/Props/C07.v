(* C07 — acknowledgement timeliness: delayed-ACK bound and immediate-ACK triggers.
   Connection level (model of VirtualSocket::poll, Conn/VSock.v).  Only statements + exact. *)
From Utp Require Import Base.Prelude Wire.SeqNr Wire.Header Rtt.Rtte Mtu.SegSizes Rx.Rx Tx.Ring
  Tx.Segments Conn.Recovery Conn.Msg Conn.VSockRec Conn.VSock Conn.VSockRun Conn.VObs
  Conn.VSock_Lemmas Conn.C07_Pred Conn.C07_Proofs.

(* mss >= 1 in every state a connection can reach *)
Theorem c07_mss_pos_new : forall (CC : Type) (cci : cc_iface CC) mk c (s : vsock CC),
  vsock_new cci mk c = Some s -> 1 <= mss (v_ss s).
Proof. exact (@mss_pos_vsock_new). Qed.

Theorem c07_mss_pos_step : forall (CC : Type) (cci : cc_iface CC) (s : vsock CC) o,
  1 <= mss (v_ss s) -> 1 <= mss (v_ss (vstep_state cci s o)).
Proof. exact (@mss_pos_vstep). Qed.

(* (a) a poll that ran to its end (Pending, transport writable) leaves no immediate-ACK
   obligation: fewer than 2*mss unacknowledged bytes, no pending window update *)
Theorem c07_no_pending_immediate_ack : forall (CC : Type) (cci : cc_iface CC) (s s' : vsock CC),
  1 <= mss (v_ss s) ->
  poll cci s = (s', PollPending) -> v_transport_pending s' = false ->
  immediate_ack_to_transmit s' = false /\ should_send_window_update s' = false /\
  v_cbu s' < 2 * mss (v_ss s').
Proof. exact (@c07_no_pending_immediate_ack_lemma). Qed.

(* (b) delayed ACK armed: within 40 ms (in ns) of this poll, and never moved later while nothing is sent *)
Theorem c07_delayed_ack_armed : forall (CC : Type) (cci : cc_iface CC) (s s' : vsock CC),
  poll cci s = (s', PollPending) -> v_transport_pending s' = false ->
  (0 < v_cbu s' -> ack_to_transmit s' = true) -> 0 < v_cbu s' ->
  exists e, v_t_ack_delay s' = Some e /\ e <= v_env_now s + 40000000 /\
            (v_out s' = [] -> forall e0, v_t_ack_delay s = Some e0 -> e <= e0).
Proof. exact (@c07_delayed_ack_armed_lemma). Qed.

(* (b) the delayed ACK fires: one call of maybe_send_ack at/after the expiry *)
Theorem c07_delayed_ack_fires : forall (CC : Type) (s : vsock CC),
  timer_expired (v_t_ack_delay s) (v_now s) = true -> v_transport_pending s = false ->
  match maybe_send_ack s with
  | SOk s1 sent =>
      (sent = true /\ exists p, v_out s1 = p :: v_out s /\ ch_type (p_hdr p) = ST_STATE /\
                               ch_ack (p_hdr p) = v_last_consumed s) \/
      (sent = false /\ v_transport_pending s1 = true) \/
      (sent = false /\ ack_to_transmit s = false /\ v_t_ack_delay s1 = None /\ v_out s1 = v_out s)
  | SErr _ e => e = ErrSend
  | SPanic => False
  end.
Proof. exact (@maybe_send_ack_fires). Qed.

(* (b) the same for a whole poll: a completed poll at/after the expiry emits a packet, or
   nothing was owed and the timer is off *)
Theorem c07_delayed_ack_fires_poll : forall (CC : Type) (cci : cc_iface CC) (s s' : vsock CC) e0,
  poll cci s = (s', PollPending) -> v_transport_pending s' = false ->
  v_t_ack_delay s = Some e0 -> e0 <= v_env_now s ->
  v_out s' <> [] \/ (ack_to_transmit s' = false /\ v_t_ack_delay s' = None).
Proof. exact (@c07_delayed_ack_fires_lemma). Qed.

(* the extracted predicates hold of every step / every trace of the model *)
Theorem c07_immediate_ok_model : forall (CC : Type) (cci : cc_iface CC) cfg ops (s : vsock CC),
  1 <= mss (v_ss s) -> forallb (c07_immediate_ok cfg) (ftrace cci s ops) = true.
Proof. exact (@c07_immediate_ok_trace). Qed.

Theorem c07_delayed_ok_model : forall (CC : Type) (cci : cc_iface CC) cfg ops (s : vsock CC),
  forallb (c07_delayed_ok cfg) (ftrace cci s ops) = true.
Proof. exact (@c07_delayed_ok_trace). Qed.

Theorem c07_fires_ok_model : forall (CC : Type) (cci : cc_iface CC) cfg ops (s : vsock CC),
  forallb (c07_fires_ok cfg) (ftrace cci s ops) = true.
Proof. exact (@c07_fires_ok_trace). Qed.

(* window update: after a completed poll the window last advertised and the current one are on the same
   side of zero (the update went out in that poll, no clock advance), on every model trace *)
Theorem c07_window_update_ok_model : forall (CC : Type) (cci : cc_iface CC) cfg ops (s : vsock CC),
  1 <= mss (v_ss s) -> forallb (c07_window_update_ok cfg) (ftrace cci s ops) = true.
Proof. exact (@c07_window_update_ok_trace). Qed.

Print Assumptions c07_mss_pos_new.
Print Assumptions c07_mss_pos_step.
Print Assumptions c07_no_pending_immediate_ack.
Print Assumptions c07_delayed_ack_armed.
Print Assumptions c07_delayed_ack_fires.
Print Assumptions c07_delayed_ack_fires_poll.
Print Assumptions c07_immediate_ok_model.
Print Assumptions c07_delayed_ok_model.
Print Assumptions c07_fires_ok_model.
Print Assumptions c07_window_update_ok_model.

(* ====================================================================================================
   Extension: silence when idle on every trace; the trigger side of the immediate ACK; c07_pre_monitor.
   ==================================================================================================== *)
From Utp Require Import Conn.VSock_LemmasStep Conn.VSock_LemmasPipe Conn.C10_Pred Conn.C10_Proofs
  Conn.C07_Pred2 Conn.C07_Step Conn.C07_Trigger Conn.C07_TriggerStep Conn.C07_Witness.

(* ---- (c) silence when idle ---- *)
(* one poll: inbox drained and its channel open, the idle guard on the fingerprint, the poll ran to its
   end and the zero/non-zero status of the advertised window did not change: nothing was emitted *)
Theorem c07_idle_poll_silent : forall (CC : Type) (cci : cc_iface CC) (s : vsock CC) sc s',
  v_inbox s = [] -> v_inbox_closed s = false ->
  c07_idle_pre (v_env_now s) (fp_of_vsock cci s) = true ->
  poll cci (VSockRec.set_sends s sc) = (s', PollPending) -> v_transport_pending s' = false ->
  Bool.eqb (v_last_sent_window s =? 0) (v_last_sent_window s' =? 0) = true ->
  v_out s' = [].
Proof. exact (@C07_Step.c07_idle_poll_silent). Qed.

(* a poll that ran to its end leaves the inbox drained, its channel open *)
Theorem c07_completed_poll_drains_inbox : forall (CC : Type) (cci : cc_iface CC) (s s' : vsock CC),
  poll cci s = (s', PollPending) -> v_transport_pending s' = false ->
  v_inbox s' = [] /\ v_inbox_closed s' = false.
Proof. exact (@poll_done_ibe). Qed.

(* a Pending poll never fills a drained inbox *)
Theorem c07_poll_keeps_inbox_drained : forall (CC : Type) (cci : cc_iface CC) (s s' : vsock CC),
  (v_inbox s = [] /\ v_inbox_closed s = false) -> poll cci s = (s', PollPending) ->
  v_inbox s' = [] /\ v_inbox_closed s' = false.
Proof. exact (@poll_keeps_ibe). Qed.

(* the trace predicate (no longer partial): every trace from a state with a drained, open inbox ... *)
Theorem c07_idle_silent_from : forall (CC : Type) (cci : cc_iface CC) (cfg : vconfig) ops (s : vsock CC),
  v_inbox s = [] -> v_inbox_closed s = false ->
  c07_idle_silent_partial cfg (ftrace cci s ops) = true.
Proof. exact (@C07_Step.c07_idle_silent_from). Qed.

(* ... in particular every trace of a connection *)
Theorem c07_idle_silent_every_trace : forall (CC : Type) (cci : cc_iface CC) (cfg : vconfig)
    (mk : Z -> Z -> CC) (c : vconfig) (s0 : vsock CC) (ops : list vop),
  vsock_new cci mk c = Some s0 -> c07_idle_silent_partial cfg (ftrace cci s0 ops) = true.
Proof. exact (@c07_idle_silent_trace). Qed.

(* ---- (a) the trigger side ---- *)
(* mss <= 65535 in every reachable state (so that usize::MAX forces the ACK) *)
Theorem c07_mss_u16_new : forall (CC : Type) (cci : cc_iface CC) mk c (s : vsock CC),
  vsock_new cci mk c = Some s -> mss (v_ss s) <= U16_MAX.
Proof. exact (@hhi_vsock_new). Qed.

Theorem c07_mss_u16_poll : forall (CC : Type) (cci : cc_iface CC) (s s' : vsock CC),
  mss (v_ss s) <= U16_MAX -> poll cci s = (s', PollPending) -> mss (v_ss s') <= U16_MAX.
Proof. exact (@hhi_poll_pending). Qed.

(* process_incoming_message on a trigger (FIN; duplicate ST_DATA; ST_DATA while the reassembly queue holds
   data), judged on the state in which it is processed: the ACK is forced (consumed_but_unacked_bytes =
   usize::MAX), or it went out on the spot *)
Theorem c07_pim_trigger : forall (CC : Type) (cci : cc_iface CC) (s : vsock CC) m s' r,
  process_incoming_message cci s m = SOk s' r ->
  c07_is_trigger (v_state s) (v_last_consumed s) (ooq_is_empty (v_rx s)) (m_hdr m) = true ->
  v_cbu s' = USIZE_MAX \/ exists p, v_out s' = p :: v_out s.
Proof. exact (@pim_trigger). Qed.

(* any message: the empty/non-empty status of the reassembly queue stays, or the ACK is forced / sent
   (out-of-order data stored; the last gap filled) *)
Theorem c07_pim_status : forall (CC : Type) (cci : cc_iface CC) (s : vsock CC) m s' r,
  process_incoming_message cci s m = SOk s' r ->
  ooq_is_empty (v_rx s') = ooq_is_empty (v_rx s) \/ v_cbu s' = USIZE_MAX \/
  exists p, v_out s' = p :: v_out s.
Proof. exact (@pim_status). Qed.

(* the whole poll: the first message waiting in the inbox is a trigger; the poll ran to its end:
   at least one packet (each carries the ack number current at its emission) was emitted *)
Theorem c07_poll_trigger : forall (CC : Type) (cci : cc_iface CC) (s s' : vsock CC) m rest,
  mss (v_ss s) <= U16_MAX -> v_inbox s = m :: rest ->
  c07_is_trigger (v_state s) (v_last_consumed s) (ooq_is_empty (v_rx s)) (m_hdr m) = true ->
  poll cci s = (s', PollPending) -> v_transport_pending s' = false -> v_out s' <> [].
Proof. exact (@poll_trigger). Qed.

(* the whole poll, whatever the inbox held: the status of the reassembly queue is as before, or a
   packet was emitted *)
Theorem c07_poll_status : forall (CC : Type) (cci : cc_iface CC) (s s' : vsock CC),
  mss (v_ss s) <= U16_MAX -> poll cci s = (s', PollPending) -> v_transport_pending s' = false ->
  ooq_is_empty (v_rx s') = ooq_is_empty (v_rx s) \/ v_out s' <> [].
Proof. exact (@poll_status). Qed.

(* the extracted predicates on every trace *)
Theorem c07_reasm_change_ok_every_trace : forall (CC : Type) (cci : cc_iface CC) (cfg : vconfig)
    (mk : Z -> Z -> CC) (c : vconfig) (s0 : vsock CC) (ops : list vop),
  vsock_new cci mk c = Some s0 -> forallb (c07_reasm_change_ok cfg) (ftrace cci s0 ops) = true.
Proof. exact (@C07_TriggerStep.c07_reasm_change_ok_every_trace). Qed.

Theorem c07_trigger_ok_every_trace : forall (CC : Type) (cci : cc_iface CC) (cfg : vconfig)
    (mk : Z -> Z -> CC) (c : vconfig) (s0 : vsock CC) (ops : list vop),
  vsock_new cci mk c = Some s0 -> c07_trigger_ok cfg (ftrace cci s0 ops) = true.
Proof. exact (@C07_TriggerStep.c07_trigger_ok_every_trace). Qed.

(* ---- the guards are met on reachable traces ---- *)
Theorem c07_idle_silent_nonvacuous :
  exists w cfg ops,
    vconfig_ok cfg = true /\ Forall op_msg_ok ops /\
    existsb (fun st => c07_idle_pre (fs_now st) (fs_pre st) && c07_poll_done st && c07_wnd_status_same st)
            (wtrace w cfg ops) = true /\
    c07_idle_silent_partial cfg (wtrace w cfg ops) = true.
Proof. exact c07_idle_nonvacuous. Qed.

Theorem c07_trigger_ok_nonvacuous :
  exists w cfg ops,
    vconfig_ok cfg = true /\ Forall op_msg_ok ops /\
    c07_trigger_ok cfg (wtrace w cfg ops) = true /\
    forallb (c07_reasm_change_ok cfg) (wtrace w cfg ops) = true /\
    match nth_error (wtrace w cfg ops) 3 with
    | Some st => c07_fire (m_hdr (wmsg ST_DATA 1 100 10)) st = true | None => False end /\
    match nth_error (wtrace w cfg ops) 5 with
    | Some st => c07_status_changed st = true | None => False end /\
    match nth_error (wtrace w cfg ops) 7 with
    | Some st => c07_fire (m_hdr (wmsg ST_DATA 2 100 10)) st = true /\ c07_status_changed st = true
    | None => False end /\
    match nth_error (wtrace w cfg ops) 9 with
    | Some st => c07_fire (m_hdr (wmsg ST_FIN 4 100 0)) st = true | None => False end.
Proof. exact c07_trigger_nonvacuous. Qed.

(* ---- c07_pre_monitor is FALSE of the model (D4 class) ---- *)
Theorem c07_pre_monitor_refuted :
  exists w cfg ops,
    vconfig_ok cfg = true /\ Forall op_msg_ok ops /\
    forallb (c07_pre_monitor cfg) (wtrace w cfg ops) = false /\
    existsb c07_ack_lost (wtrace w cfg ops) = true /\
    forallb (c07_delayed_ok cfg) (wtrace w cfg ops) = true /\
    forallb (c07_fires_ok cfg) (wtrace w cfg ops) = true /\
    forallb (c07_immediate_ok cfg) (wtrace w cfg ops) = true.
Proof. exact c07_pre_monitor_refuted_witness. Qed.

Print Assumptions c07_idle_poll_silent.
Print Assumptions c07_completed_poll_drains_inbox.
Print Assumptions c07_poll_keeps_inbox_drained.
Print Assumptions c07_idle_silent_from.
Print Assumptions c07_idle_silent_every_trace.
Print Assumptions c07_mss_u16_new.
Print Assumptions c07_mss_u16_poll.
Print Assumptions c07_pim_trigger.
Print Assumptions c07_pim_status.
Print Assumptions c07_poll_trigger.
Print Assumptions c07_poll_status.
Print Assumptions c07_reasm_change_ok_every_trace.
Print Assumptions c07_trigger_ok_every_trace.
Print Assumptions c07_idle_silent_nonvacuous.
Print Assumptions c07_trigger_ok_nonvacuous.
Print Assumptions c07_pre_monitor_refuted.

(* ---- the monitored precondition, exactly (Conn/C07_Dist.v) ---- *)
From Utp Require Import Rx.Rx_NoEof Conn.C07_Dist.

(* the invariant behind it: initial, kept by every event after which the trace goes on *)
Theorem c07_dist_inv_new : forall (CC : Type) (cci : cc_iface CC) mk c (s : vsock CC),
  0 <= vc_remote_seq c < M16 -> vsock_new cci mk c = Some s -> DI s.
Proof. exact (@DI_vsock_new). Qed.

Theorem c07_dist_inv_step : forall (CC : Type) (cci : cc_iface CC) (s : vsock CC) o,
  DI s -> poll_finished (vstep_out cci s o) = false -> DI (vstep_state cci s o).
Proof. exact (@DI_vstep_live). Qed.

(* every packet carries the current ack number: the sending path either leaves
   (last_sent_ack_nr, consumed_but_unacked_bytes) alone or sets them to (last_consumed, 0) *)
Theorem c07_send_tx_queue_acks : forall (CC : Type) (cci : cc_iface CC) (s : vsock CC),
  match send_tx_queue cci s with
  | SOk s' _ | SErr s' _ => sa s s'
  | SPanic => True
  end.
Proof. exact (@send_tx_queue_sa). Qed.

Theorem c07_maybe_send_ack_acks : forall (CC : Type) (s : vsock CC),
  match maybe_send_ack s with
  | SOk s' _ | SErr s' _ => sa s s'
  | SPanic => True
  end.
Proof. exact (@maybe_send_ack_sa). Qed.

Theorem c07_dist_ok_every_step : forall (CC : Type) (cci : cc_iface CC) cfg (s : vsock CC) o,
  DI s -> c07_dist_ok cfg (VSock_Lemmas.fstep_of cci s o) = true.
Proof. exact (@c07_dist_ok_step). Qed.

Theorem c07_dist_ok_every_trace : forall (CC : Type) (cci : cc_iface CC) (cfg : vconfig)
    (mk : Z -> Z -> CC) (c : vconfig) (s0 : vsock CC) (ops : list vop),
  0 <= vc_remote_seq c < M16 -> vsock_new cci mk c = Some s0 ->
  forallb (c07_dist_ok cfg) (ftrace cci s0 ops) = true.
Proof. exact (@C07_Dist.c07_dist_ok_every_trace). Qed.

Theorem c07_pre_monitor_g_every_trace : forall (CC : Type) (cci : cc_iface CC) (cfg : vconfig)
    (mk : Z -> Z -> CC) (c : vconfig) (s0 : vsock CC) (ops : list vop),
  0 <= vc_remote_seq c < M16 -> vsock_new cci mk c = Some s0 ->
  forallb (c07_pre_monitor_g cfg) (ftrace cci s0 ops) = true.
Proof. exact (@C07_Dist.c07_pre_monitor_g_every_trace). Qed.

Theorem c07_dist_ok_nonvacuous :
  exists w cfg ops,
    vconfig_ok cfg = true /\ 0 <= vc_remote_seq cfg < M16 /\ Forall op_msg_ok ops /\
    forallb (c07_pre_monitor cfg) (wtrace w cfg ops) = false /\
    forallb (c07_dist_ok cfg) (wtrace w cfg ops) = true /\
    forallb (c07_pre_monitor_g cfg) (wtrace w cfg ops) = true /\
    existsb (fun st => c07_live st && (0 <? f_cbu (fs_post st)) && (f_cbu (fs_post st) <? M16))
            (wtrace w cfg ops) = true.
Proof. exact c07_dist_nonvacuous. Qed.

Theorem c07_pre_monitor_g_guard_nonvacuous :
  exists w cfg ops,
    vconfig_ok cfg = true /\ 0 <= vc_remote_seq cfg < M16 /\ Forall op_msg_ok ops /\
    forallb (c07_pre_monitor_g cfg) (wtrace w cfg ops) = true /\
    existsb (fun st => c07_poll_done st && (0 <? f_cbu (fs_post st)) && (f_cbu (fs_post st) <=? WRAP_TOLERANCE))
            (wtrace w cfg ops) = true.
Proof. exact c07_pre_monitor_g_nonvacuous. Qed.

Print Assumptions c07_dist_inv_new.
Print Assumptions c07_dist_inv_step.
Print Assumptions c07_send_tx_queue_acks.
Print Assumptions c07_maybe_send_ack_acks.
Print Assumptions c07_dist_ok_every_step.
Print Assumptions c07_dist_ok_every_trace.
Print Assumptions c07_pre_monitor_g_every_trace.
Print Assumptions c07_dist_ok_nonvacuous.
Print Assumptions c07_pre_monitor_g_guard_nonvacuous.

(* C02 (the wake-up half, safety) — the parked dispatcher / reader / writer are woken when their
   condition changes; a shutdown / write on an idle connection is acted on by the next poll.
   Connection level.  Only statements + exact. *)
From Utp Require Import Base.Prelude Wire.SeqNr Wire.Header Rtt.Rtte Mtu.SegSizes Rx.Rx Rx.Rx_Proofs
  Tx.Ring Tx.Ring_Proofs Tx.Segments Conn.Recovery Conn.Msg Conn.VSockRec Conn.VSock Conn.VSockRun
  Conn.VObs Conn.C10_Pred Conn.C02_Pred Conn.VSock_Inv Conn.C10_Proofs Conn.C02_Proofs Conn.C02_D20.

(* (d iii) a write that stored bytes wakes the dispatcher parked on the TX waker — every state *)
Theorem c02_write_wakes_ok : forall (CC : Type) (cci : cc_iface CC) (cfg : vconfig) (s : vsock CC)
    (buf : list Z),
  c02_write_wakes cfg (fstep_of cci s (VoWrite buf)) = true.
Proof. exact @write_wakes_ok. Qed.

Theorem c02_drop_writer_wakes_ok : forall (CC : Type) (cci : cc_iface CC) (cfg : vconfig) (s : vsock CC),
  c02_drop_writer_wakes cfg (fstep_of cci s VoDropWriter) = true.
Proof. exact @drop_writer_wakes_ok. Qed.

(* (d iv) a read that returns bytes / dropping the reader wakes the dispatcher parked on the RX waker *)
Theorem c02_read_wakes_ok : forall (CC : Type) (cci : cc_iface CC) (cfg : vconfig) (s : vsock CC) (o : vop),
  (exists n : Z, o = VoRead n) \/ o = VoDropReader ->
  c02_read_wakes cfg (fstep_of cci s o) = true.
Proof. exact @read_wakes_ok. Qed.

(* the steps of a trace are exactly these records *)
Theorem c02_ftrace_steps : forall (CC : Type) (cci : cc_iface CC) (s : vsock CC) (o : vop) (rest : list vop),
  exists tl, ftrace cci s (o :: rest) = fstep_of cci s o :: tl.
Proof. exact @ftrace_cons. Qed.

(* (d iv) the RX dispatcher waker IS registered by every flush that leaves less than one
   CREATION-time MSS of window; with mss unchanged since creation this is the window rx_window()
   zeroes.  D9 is the gap between the two sizes. *)
Theorem c02_flush_registers_waker_partial : forall (s s' : rx) (r : flush_result) (w : list Rx.wake),
  rx_flush s = (s', r, w) ->
  sat_sub (q_window s) (filled_front_bytes s) < max_incoming_payload s -> r <> FlPanic ->
  disp_waker s' = true.
Proof. exact flush_registers_waker. Qed.

(* D2 (repaired by a fix: commit in /repo): a shutdown on an idle established connection wakes the
   dispatcher parked on the TX waker — every state *)
Theorem c02_shutdown_wakes_ok : forall (CC : Type) (cci : cc_iface CC) (cfg : vconfig) (s : vsock CC),
  c02_shutdown_wakes cfg (fstep_of cci s VoShutdown) = true.
Proof. exact @shutdown_wakes_ok. Qed.

Theorem c02_shutdown_sets_flag : forall (s tx1 : tx) (r : unit_result) (w : list twake),
  poll_shutdown s = (tx1, r, w) -> ring s = [] -> t_vsock_closed s = false ->
  writer_shutdown tx1 = true /\ r = UrPending /\
  (writer_shutdown s = false -> t_disp_waker s = true -> w = [TwDispatcher]).
Proof. exact shutdown_sets_flag. Qed.

(* the witness of the old defect D2 as a regression example: the guard is met, the dispatcher is
   woken, the next poll emits ST_FIN *)
Theorem c02_shutdown_idle_regression :
  exists w cfg ops,
    vconfig_ok cfg = true /\
    existsb shutdown_idle_guard (wtrace w cfg ops) = true /\
    forallb (c02_shutdown_wakes cfg) (wtrace w cfg ops) = true /\
    existsb (c02_d2_class cfg) (wtrace w cfg ops) = false /\
    c02_prompt cfg (wtrace w cfg ops) = true /\
    match rev (wtrace w cfg ops) with
    | st :: _ => emits (fs_result st) (fun p => match ch_type (fq_hdr p) with ST_FIN => true | _ => false end)
    | [] => false
    end = true.
Proof. exact shutdown_idle_regression. Qed.

(* ---- refutations (each reproduced on the real code, see known findings) ---- *)
(* D8 (repaired by a fix: commit in /repo): a flush that hands at least one item — bytes or the EOF
   marker alone — to the user queue fires the parked reader's waker; regression examples at both tiers *)
Theorem c02_rx_flush_wakes_reader : forall (s s' : rx) (fb : Z) (w : list Rx.wake),
  rx_flush s = (s', FlOk fb, w) -> reader_waker s = true ->
  (length (q s) < length (q s'))%nat ->
  w = [WakeReader] /\ reader_waker s' = false.
Proof. exact rx_flush_wakes_reader. Qed.

Theorem c02_eof_flush_regression :
  exists w cfg ops,
    vconfig_ok cfg = true /\ Forall op_msg_ok ops /\
    existsb eof_flush_guard (wtrace w cfg ops) = true /\
    forallb (c02_eof_wakes cfg) (wtrace w cfg ops) = true /\
    existsb (c02_d8_class cfg) (wtrace w cfg ops) = false /\
    match rev (wtrace w cfg ops) with st :: _ => fs_result st = FrReadEof | [] => False end.
Proof. exact eof_flush_regression. Qed.

Theorem c02_rx_eof_flush_regression :
  exists s,
    rx_inv s /\ reader_waker s = true /\ q s = [] /\
    let '(s', r, w) := rx_flush s in
    r = FlOk 0 /\ w = [WakeReader] /\ q s' = [QEof] /\ reader_waker s' = false.
Proof. exact rx_eof_flush_regression. Qed.

(* D14 (repaired by a fix: commit in /repo): the witness of the old defect as a regression example —
   the poll that pops the expired MTU probe leaves the retransmission timer armed *)
Theorem c02_probe_expiry_rto_regression :
  exists w cfg ops,
    vconfig_ok cfg = true /\ Forall op_msg_ok ops /\
    existsb probe_popped_outstanding (wtrace w cfg ops) = true /\
    forallb (c02_rto_armed cfg) (wtrace w cfg ops) = true /\
    existsb (c02_d14_class cfg) (wtrace w cfg ops) = false /\
    match rev (wtrace w cfg ops) with
    | st :: _ => f_t_retransmit (fs_post st) = Some (fs_now st + f_rto (fs_post st))
    | [] => False
    end.
Proof. exact probe_expiry_rto_regression. Qed.

(* D9 *)
Theorem c02_zero_window_without_waker_refuted :
  exists w cfg ops,
    vconfig_ok cfg = true /\ Forall op_msg_ok ops /\
    forallb (c02_zero_window_waker cfg) (wtrace w cfg ops) = false /\
    existsb (c02_d9_class cfg) (wtrace w cfg ops) = true /\
    forallb (fun st => match fs_event st with FeRead _ => negb (fs_disp_woken st) | _ => true end)
            (wtrace w cfg ops) = true.
Proof. exact zero_window_without_waker_refuted. Qed.

(* D20 (repaired in /repo 1233027): after an RTO rewind and a cumulative ACK of everything the FIN of
   the idle connection was never sent; regression example on the former witness *)
Theorem c02_fin_after_rto_rewind_regression :
  exists w cfg ops,
    vconfig_ok cfg = true /\ Forall op_msg_ok ops /\
    existsb rto_rewound (wtrace w cfg ops) = true /\
    c02_prompt cfg (wtrace w cfg ops) = true /\
    match rev (wtrace w cfg ops) with
    | st :: _ => emits_fin st = true /\
                 f_last_sent_seq_nr (fs_post st) = wsub16 (f_seq_nr (fs_post st)) 1
    | [] => False
    end.
Proof. exact fin_after_rto_rewind_regression. Qed.

Print Assumptions c02_write_wakes_ok.
Print Assumptions c02_drop_writer_wakes_ok.
Print Assumptions c02_read_wakes_ok.
Print Assumptions c02_ftrace_steps.
Print Assumptions c02_flush_registers_waker_partial.
Print Assumptions c02_shutdown_sets_flag.
Print Assumptions c02_shutdown_wakes_ok.
Print Assumptions c02_shutdown_idle_regression.
Print Assumptions c02_rx_flush_wakes_reader.
Print Assumptions c02_eof_flush_regression.
Print Assumptions c02_rx_eof_flush_regression.
Print Assumptions c02_probe_expiry_rto_regression.
Print Assumptions c02_zero_window_without_waker_refuted.
Print Assumptions c02_fin_after_rto_rewind_regression.

(* ================================================================================================
   Step-level and trace-level theorems (Conn/C02_Step.v): the predicates of Conn/C02_Pred.v hold of
   EVERY step of the model from a state satisfying a proved invariant, and of every trace from
   vsock_new.  Invariants: pk (VSock_LemmasPark), ti (VSock_LemmasTimers), pq (C02_Step), rxi
   (VSock_LemmasEof), mss_pos (C07_Proofs), rxconst (VSock_LemmasZw); each is proved to hold of
   vsock_new and to be kept by every event. *)
From Utp Require Import Mtu.SegSizes_Proofs Tx.Segments_ProofsOut Conn.C07_Pred Conn.C07_Proofs
  Conn.VSock_Lemmas Conn.VSock_LemmasStep Conn.VSock_LemmasReach Conn.VSock_LemmasPark
  Conn.VSock_LemmasTimers Conn.VSock_LemmasPipe Conn.VSock_LemmasEof Conn.VSock_LemmasZw Conn.C02_Step.

(* ---- c02_parked_ok: after EVERY event ---- *)
Theorem c02_parked_ok_every_step : forall (CC : Type) (cci : cc_iface CC) (cfg : vconfig) (s : vsock CC) (o : vop),
  pk s -> pk (vstep_state cci s o) /\ c02_parked_ok cfg (VSock_Lemmas.fstep_of cci s o) = true.
Proof. exact @c02_parked_ok_step. Qed.

Theorem c02_parked_ok_every_trace : forall (CC : Type) (cci : cc_iface CC) (cfg : vconfig)
    (mk : Z -> Z -> CC) (c : vconfig) (s0 : vsock CC) (ops : list vop),
  vsock_new cci mk c = Some s0 -> forallb (c02_parked_ok cfg) (ftrace cci s0 ops) = true.
Proof. exact @c02_parked_ok_trace. Qed.

(* ---- c02_timer_ok: FALSE as stated (stale recovery-pipe timer); true under the guard ---- *)
Theorem c02_timer_ok_stale_pipe_refuted :
  exists w cfg ops,
    vconfig_ok cfg = true /\ Forall op_msg_ok ops /\
    forallb (c02_timer_ok cfg) (wtrace w cfg ops) = false /\
    forallb (c02_timer_ok_g cfg) (wtrace w cfg ops) = true /\
    forallb (c02_timer_ok_p cfg) (wtrace w cfg ops) = true /\
    existsb (fun st => pipe_idle (fs_pre st) &&
                       match fs_result st with FrPoll PollPending _ _ _ => true | _ => false end)
            (wtrace w cfg ops) = true.
Proof. exact timer_ok_stale_pipe_refuted. Qed.

Theorem c02_timer_ok_guarded_step : forall (CC : Type) (cci : cc_iface CC) (cfg : vconfig) (s : vsock CC) (o : vop),
  ti s -> pipe_idle (fp_of_vsock cci s) = true ->
  c02_timer_ok cfg (VSock_Lemmas.fstep_of cci s o) = true.
Proof. exact @c02_timer_ok_step. Qed.

Theorem c02_timer_ok_g_every_trace : forall (CC : Type) (cci : cc_iface CC) (cfg : vconfig)
    (mk : Z -> Z -> CC) (c : vconfig) (s0 : vsock CC) (ops : list vop),
  vsock_new cci mk c = Some s0 -> forallb (c02_timer_ok_g cfg) (ftrace cci s0 ops) = true.
Proof. exact @c02_timer_ok_g_trace. Qed.

Theorem c02_timer_ok_p_every_trace : forall (CC : Type) (cci : cc_iface CC) (cfg : vconfig)
    (mk : Z -> Z -> CC) (c : vconfig) (s0 : vsock CC) (ops : list vop),
  vsock_new cci mk c = Some s0 -> forallb (c02_timer_ok_p cfg) (ftrace cci s0 ops) = true.
Proof. exact @c02_timer_ok_p_trace. Qed.

(* the state the timer tail of such a poll sees: pipe timer idle or phase Recovering *)
Theorem c02_poll_pipe_tail : forall (CC : Type) (cci : cc_iface CC) (s s' : vsock CC),
  ti s -> PN s -> poll cci s = (s', PollPending) -> v_transport_pending s' = false ->
  exists sb, ti sb /\ v_arm_in sb = None /\ v_now sb = v_env_now sb /\
             (PN sb \/ REC sb) /\ v_transport_pending sb = false /\ s' = poll_tail sb.
Proof. exact @poll_pipe_tail. Qed.

(* ---- c02_rto_armed: the data half for every step; the whole predicate when our FIN is not the
   outstanding thing (the FIN half is NOT proved at step level) ---- *)
Theorem c02_ti_invariant : forall (CC : Type) (cci : cc_iface CC) (s : vsock CC) (o : vop),
  ti s -> ti (vstep_state cci s o).
Proof. exact @ti_vstep. Qed.

Theorem c02_ti_initial : forall (CC : Type) (cci : cc_iface CC) (mk : Z -> Z -> CC) (c : vconfig) (s : vsock CC),
  vsock_new cci mk c = Some s -> ti s.
Proof. exact @ti_vsock_new. Qed.

Theorem c02_rto_armed_data_every_step : forall (CC : Type) (cci : cc_iface CC) (cfg : vconfig) (s : vsock CC) (o : vop),
  ti s -> ti (vstep_state cci s o) /\ c02_rto_armed_data cfg (VSock_Lemmas.fstep_of cci s o) = true.
Proof. exact @c02_rto_armed_data_step. Qed.

Theorem c02_rto_armed_data_every_trace : forall (CC : Type) (cci : cc_iface CC) (cfg : vconfig)
    (mk : Z -> Z -> CC) (c : vconfig) (s0 : vsock CC) (ops : list vop),
  vsock_new cci mk c = Some s0 -> forallb (c02_rto_armed_data cfg) (ftrace cci s0 ops) = true.
Proof. exact @c02_rto_armed_data_trace. Qed.

Theorem c02_rto_armed_nofin_step : forall (CC : Type) (cci : cc_iface CC) (cfg : vconfig) (s : vsock CC) (o : vop),
  ti s -> fin_outstanding (fs_post (VSock_Lemmas.fstep_of cci s o)) = false ->
  c02_rto_armed cfg (VSock_Lemmas.fstep_of cci s o) = true.
Proof. exact @c02_rto_armed_step_nofin. Qed.

(* ---- application events ---- *)
Theorem c02_write_wakes_every_step : forall (CC : Type) (cci : cc_iface CC) (cfg : vconfig) (s : vsock CC) (o : vop),
  c02_write_wakes cfg (VSock_Lemmas.fstep_of cci s o) = true.
Proof. exact @c02_write_wakes_step. Qed.

Theorem c02_write_wakes_every_trace : forall (CC : Type) (cci : cc_iface CC) (cfg : vconfig)
    (ops : list vop) (s : vsock CC),
  forallb (c02_write_wakes cfg) (ftrace cci s ops) = true.
Proof. exact @c02_write_wakes_trace. Qed.

Theorem c02_drop_writer_wakes_every_step : forall (CC : Type) (cci : cc_iface CC) (cfg : vconfig) (s : vsock CC) (o : vop),
  c02_drop_writer_wakes cfg (VSock_Lemmas.fstep_of cci s o) = true.
Proof. exact @c02_drop_writer_wakes_step. Qed.

Theorem c02_drop_writer_wakes_every_trace : forall (CC : Type) (cci : cc_iface CC) (cfg : vconfig)
    (ops : list vop) (s : vsock CC),
  forallb (c02_drop_writer_wakes cfg) (ftrace cci s ops) = true.
Proof. exact @c02_drop_writer_wakes_trace. Qed.

Theorem c02_shutdown_wakes_every_step : forall (CC : Type) (cci : cc_iface CC) (cfg : vconfig) (s : vsock CC) (o : vop),
  c02_shutdown_wakes cfg (VSock_Lemmas.fstep_of cci s o) = true.
Proof. exact @c02_shutdown_wakes_step. Qed.

Theorem c02_shutdown_wakes_every_trace : forall (CC : Type) (cci : cc_iface CC) (cfg : vconfig)
    (ops : list vop) (s : vsock CC),
  forallb (c02_shutdown_wakes cfg) (ftrace cci s ops) = true.
Proof. exact @c02_shutdown_wakes_trace. Qed.

Theorem c02_read_wakes_every_step : forall (CC : Type) (cci : cc_iface CC) (cfg : vconfig) (s : vsock CC) (o : vop),
  c02_read_wakes cfg (VSock_Lemmas.fstep_of cci s o) = true.
Proof. exact @c02_read_wakes_step. Qed.

Theorem c02_read_wakes_every_trace : forall (CC : Type) (cci : cc_iface CC) (cfg : vconfig)
    (ops : list vop) (s : vsock CC),
  forallb (c02_read_wakes cfg) (ftrace cci s ops) = true.
Proof. exact @c02_read_wakes_trace. Qed.

(* ---- c02_eof_wakes (D8 class) ---- *)
Theorem c02_eof_wakes_every_step : forall (CC : Type) (cci : cc_iface CC) (cfg : vconfig) (s : vsock CC) (o : vop),
  pk s -> rxi s -> c02_eof_wakes cfg (VSock_Lemmas.fstep_of cci s o) = true.
Proof. exact @c02_eof_wakes_step. Qed.

Theorem c02_eof_wakes_every_trace : forall (CC : Type) (cci : cc_iface CC) (cfg : vconfig)
    (mk : Z -> Z -> CC) (c : vconfig) (s0 : vsock CC) (ops : list vop),
  0 < vc_rx_buf c -> vsock_new cci mk c = Some s0 ->
  forallb (c02_eof_wakes cfg) (ftrace cci s0 ops) = true.
Proof. exact @c02_eof_wakes_trace. Qed.

(* ---- c02_zero_window_waker outside the D9 class ---- *)
Theorem c02_zero_window_waker_or_d9_every_step : forall (CC : Type) (cci : cc_iface CC) (c : vconfig) (s : vsock CC) (o : vop),
  rxi s -> mss_pos s -> rxconst (vc_rx_buf c) (floor_of (ss_config_of c)) s -> vc_rx_buf c < M32 ->
  c02_zero_window_waker_or_d9 c (VSock_Lemmas.fstep_of cci s o) = true.
Proof. exact @c02_zero_window_waker_step. Qed.

Theorem c02_zero_window_waker_or_d9_every_trace : forall (CC : Type) (cci : cc_iface CC)
    (mk : Z -> Z -> CC) (c : vconfig) (s0 : vsock CC) (ops : list vop),
  0 < vc_rx_buf c < M32 -> vsock_new cci mk c = Some s0 ->
  forallb (c02_zero_window_waker_or_d9 c) (ftrace cci s0 ops) = true.
Proof. exact @c02_zero_window_waker_trace. Qed.

Print Assumptions c02_parked_ok_every_step.
Print Assumptions c02_parked_ok_every_trace.
Print Assumptions c02_timer_ok_stale_pipe_refuted.
Print Assumptions c02_timer_ok_guarded_step.
Print Assumptions c02_timer_ok_g_every_trace.
Print Assumptions c02_timer_ok_p_every_trace.
Print Assumptions c02_poll_pipe_tail.
Print Assumptions c02_ti_invariant.
Print Assumptions c02_ti_initial.
Print Assumptions c02_rto_armed_data_every_step.
Print Assumptions c02_rto_armed_data_every_trace.
Print Assumptions c02_rto_armed_nofin_step.
Print Assumptions c02_write_wakes_every_step.
Print Assumptions c02_write_wakes_every_trace.
Print Assumptions c02_drop_writer_wakes_every_step.
Print Assumptions c02_drop_writer_wakes_every_trace.
Print Assumptions c02_shutdown_wakes_every_step.
Print Assumptions c02_shutdown_wakes_every_trace.
Print Assumptions c02_read_wakes_every_step.
Print Assumptions c02_read_wakes_every_trace.
Print Assumptions c02_eof_wakes_every_step.
Print Assumptions c02_eof_wakes_every_trace.
Print Assumptions c02_zero_window_waker_or_d9_every_step.
Print Assumptions c02_zero_window_waker_or_d9_every_trace.

(* the guards of the theorems above are met by reachable states *)
Theorem c02_zero_window_guard_nonvacuous :
  exists w cfg ops,
    vconfig_ok cfg = true /\ Forall op_msg_ok ops /\
    existsb (fun st => zero_window_guard st && negb (c02_d9_class cfg st)) (wtrace w cfg ops) = true /\
    forallb (c02_zero_window_waker cfg) (wtrace w cfg ops) = true.
Proof. exact zero_window_guard_nonvacuous. Qed.

Theorem c02_rto_armed_nofin_nonvacuous :
  exists w cfg ops,
    vconfig_ok cfg = true /\ Forall op_msg_ok ops /\
    existsb (fun st => data_outstanding (fs_post st) && negb (fin_outstanding (fs_post st)) &&
                       negb (f_transport_pending (fs_post st)) &&
                       match fs_result st with FrPoll PollPending _ _ _ => true | _ => false end)
            (wtrace w cfg ops) = true /\
    forallb (c02_rto_armed cfg) (wtrace w cfg ops) = true.
Proof. exact rto_armed_nofin_nonvacuous. Qed.

Print Assumptions c02_zero_window_guard_nonvacuous.
Print Assumptions c02_rto_armed_nofin_nonvacuous.

(* ================================================================================================
   Second batch (Conn/C02_Lemmas2.v, Conn/C02_Stall2.v, Conn/C02_Step2.v).
   Invariant rm (C02_Lemmas2): rto_retransmissions > 0 -> the retransmission timer is armed and an
   undelivered segment exists; it holds of vsock_new and is kept by every event after which the
   connection goes on (Pending polls, application events). *)
From Utp Require Import Conn.C02_Pred2 Conn.C02_SegLemmas2 Conn.C02_Lemmas2 Conn.C02_Stall2 Conn.C02_Step2.

Theorem c02_rm_initial : forall (CC : Type) (cci : cc_iface CC) (mk : Z -> Z -> CC) (c : vconfig) (s : vsock CC),
  vsock_new cci mk c = Some s -> rm s.
Proof. exact @rm_vsock_new. Qed.

Theorem c02_rm_invariant : forall (CC : Type) (cci : cc_iface CC) (s : vsock CC) (o : vop),
  rm s -> poll_finished (vstep_out cci s o) = false -> rm (vstep_state cci s o).
Proof. exact @rm_vstep_live. Qed.

(* ---- RTO mode is always left again (class of C02-a): every step, every trace ---- *)
Theorem c02_rto_mode_armed_every_step : forall (CC : Type) (cci : cc_iface CC) (cfg : vconfig) (s : vsock CC) (o : vop),
  rm s -> c02_rto_mode_armed cfg (VSock_Lemmas.fstep_of cci s o) = true.
Proof. exact @c02_rto_mode_armed_step. Qed.

Theorem c02_rto_mode_armed_every_trace : forall (CC : Type) (cci : cc_iface CC) (cfg : vconfig)
    (mk : Z -> Z -> CC) (c : vconfig) (s0 : vsock CC) (ops : list vop),
  vsock_new cci mk c = Some s0 -> forallb (c02_rto_mode_armed cfg) (ftrace cci s0 ops) = true.
Proof. exact @c02_rto_mode_armed_trace. Qed.

(* ---- c02_no_silent_stall outside the stranded-segment class: every step, every trace ---- *)
(* what send_tx_queue leaves behind (model state): Ok, transport writable, no restart => the clause *)
Theorem c02_send_tx_queue_no_stall : forall (CC : Type) (cci : cc_iface CC) (s s' : vsock CC) (u : unit),
  rm s -> v_restart s = false -> send_tx_queue cci s = SOk s' u ->
  v_restart s' = false -> v_transport_pending s' = false -> stall_ok cci s'.
Proof. exact @send_tx_queue_stall. Qed.

Theorem c02_poll_no_stall : forall (CC : Type) (cci : cc_iface CC) (s s' : vsock CC),
  rm s -> poll cci s = (s', PollPending) -> v_transport_pending s' = false -> stall_ok cci s'.
Proof. exact @poll_stall. Qed.

Theorem c02_no_silent_stall_g_every_step : forall (CC : Type) (cci : cc_iface CC) (cfg : vconfig) (s : vsock CC) (o : vop),
  rm s -> c02_no_silent_stall_g cfg (VSock_Lemmas.fstep_of cci s o) = true.
Proof. exact @c02_no_silent_stall_g_step. Qed.

Theorem c02_no_silent_stall_g_every_trace : forall (CC : Type) (cci : cc_iface CC) (cfg : vconfig)
    (mk : Z -> Z -> CC) (c : vconfig) (s0 : vsock CC) (ops : list vop),
  vsock_new cci mk c = Some s0 -> forallb (c02_no_silent_stall_g cfg) (ftrace cci s0 ops) = true.
Proof. exact @c02_no_silent_stall_g_trace. Qed.

Theorem c02_rto_mode_armed_nonvacuous :
  exists w cfg ops,
    vconfig_ok cfg = true /\ Forall op_msg_ok ops /\
    existsb (fun st => (0 <? f_rto_retx (fs_post st)) && negb (poll_ready (fs_result st))) (wtrace w cfg ops) = true /\
    forallb (c02_rto_mode_armed cfg) (wtrace w cfg ops) = true.
Proof. exact rto_mode_armed_nonvacuous. Qed.

Theorem c02_no_silent_stall_g_nonvacuous :
  exists w cfg ops,
    vconfig_ok cfg = true /\ Forall op_msg_ok ops /\
    existsb stall_guard_but_window (wtrace w cfg ops) = true /\
    forallb (c02_no_silent_stall cfg) (wtrace w cfg ops) = true.
Proof. exact no_silent_stall_g_nonvacuous. Qed.

Print Assumptions c02_rm_initial.
Print Assumptions c02_rm_invariant.
Print Assumptions c02_rto_mode_armed_every_step.
Print Assumptions c02_rto_mode_armed_every_trace.
Print Assumptions c02_send_tx_queue_no_stall.
Print Assumptions c02_poll_no_stall.
Print Assumptions c02_no_silent_stall_g_every_step.
Print Assumptions c02_no_silent_stall_g_every_trace.
Print Assumptions c02_rto_mode_armed_nonvacuous.
Print Assumptions c02_no_silent_stall_g_nonvacuous.

(* ---- c02_rto_armed, the FIN half (Conn/C02_Fin2.v): for every poll that starts with our FIN number
   already allocated (local FIN state), with the clause true before the poll, and - in FinWait1 -
   the FIN numbered right after the last segment of the table.  [fin_alloc_guard] is a boolean
   function of the fingerprint before the step: assumed-and-monitored.  Not covered: the poll in
   which the FIN number is allocated; polls from FinWait1 states in which an MTU probe was popped
   and re-split earlier (the FIN then no longer follows the table). ---- *)
From Utp Require Import Conn.C02_Fin2.

Theorem c02_poll_fin_armed : forall (CC : Type) (cci : cc_iface CC) (s s' : vsock CC),
  K0 s -> poll cci s = (s', PollPending) -> v_transport_pending s' = false -> ti s' /\ FO s'.
Proof. exact @poll_fin_armed. Qed.

Theorem c02_rto_armed_fin_g_every_step_partial : forall (CC : Type) (cci : cc_iface CC) (cfg : vconfig) (s : vsock CC) (o : vop),
  ti s -> c02_rto_armed_fin_g cfg (VSock_Lemmas.fstep_of cci s o) = true.
Proof. exact @c02_rto_armed_fin_g_step. Qed.

Theorem c02_rto_armed_fin_g_every_trace_partial : forall (CC : Type) (cci : cc_iface CC) (cfg : vconfig)
    (mk : Z -> Z -> CC) (c : vconfig) (s0 : vsock CC) (ops : list vop),
  vsock_new cci mk c = Some s0 -> forallb (c02_rto_armed_fin_g cfg) (ftrace cci s0 ops) = true.
Proof. exact @c02_rto_armed_fin_g_trace. Qed.

Theorem c02_rto_armed_fin_g_nonvacuous :
  exists w cfg ops,
    vconfig_ok cfg = true /\ Forall op_msg_ok ops /\
    existsb (fun st => fin_alloc_guard (fs_pre st) && fin_out (fs_post st) &&
                       negb (f_transport_pending (fs_post st)) &&
                       match fs_result st with FrPoll PollPending _ _ _ => true | _ => false end)
            (wtrace w cfg ops) = true /\
    forallb (c02_rto_armed cfg) (wtrace w cfg ops) = true.
Proof. exact rto_armed_fin_g_nonvacuous. Qed.

Print Assumptions c02_poll_fin_armed.
Print Assumptions c02_rto_armed_fin_g_every_step_partial.
Print Assumptions c02_rto_armed_fin_g_every_trace_partial.
Print Assumptions c02_rto_armed_fin_g_nonvacuous.

(* ---- c02_prompt, the write half (Conn/C02_Prompt2.v), at the level of the model state:
   after a Pending poll with a writable transport the inbox is drained and open (or the connection
   closed); a poll of an Established connection whose segment table is empty, whose ring holds
   freshly written bytes only and whose inbox is drained emits ST_DATA carrying at least one byte,
   under the guards of can_send_new plus: last_sent_seq_nr not ahead of snd_una (the two index
   computations of the new-data part start at the head of the table), no immediate ACK owed, the
   path limit not below header + max_ss, max_segment_retransmissions <> 0 (NonZeroUsize in the
   code; vconfig_ok of the model admits 0).
   Lifted to the trace predicate c02_prompt_write_g (Conn/C02_Pred2.v: c02_prompt's write arm with
   the two extra guards idle_seq_ok / no_imm_ack on the fingerprint of the idle state) for every
   ftrace from a fresh connection (c02_prompt_write_g_every_trace below).  The shutdown arm is not
   proved. ---- *)
From Utp Require Import Conn.VSock_LemmasPipe Conn.VSock_PollAux Conn.VSock_Poll Conn.C02_Prompt2.

Theorem c02_poll_pending_inbox_drained : forall (CC : Type) (cci : cc_iface CC) (s s' : vsock CC),
  poll cci s = (s', PollPending) -> v_transport_pending s' = false -> SC s' \/ IBE s'.
Proof. exact @poll_pending_ibe. Qed.

Theorem c02_prompt_write_poll_partial : forall (CC : Type) (cci : cc_iface CC), cc_total cci ->
  forall (ti tm : Z) (s1 : vsock CC) tx1 n w buf s3 r,
  tinv ti tm s1 -> tinv ti tm (set_tx s1 tx1) ->
  IBE s1 -> v_state s1 = Established -> ss_segs (v_segs s1) = [] -> ring (v_tx s1) = [] ->
  poll_write (v_tx s1) buf = (tx1, WrOk n, w) ->
  0 < v_last_remote_window s1 ->
  Z.min (max_ss (v_ss s1)) n <= cc_window cci (v_cc s1) ->
  v_rto_retransmissions s1 = 0 -> is_recovering (v_recovery s1) = false ->
  timer_expired (v_t_retransmit s1) (v_env_now s1) = false ->
  timer_expired (v_t_inactivity s1) (v_env_now s1) = false ->
  v_cbu s1 < IMMEDIATE_ACK_EVERY_RMSS * mss (v_ss s1) ->
  seq_sub (wadd16 (v_last_sent_seq_nr s1) 1) (ss_snd_una (v_segs s1)) <= 0 ->
  seq_sub (v_last_sent_seq_nr s1) (ss_snd_una (v_segs s1)) + 1 <= 0 ->
  (forall m, v_emsg_limit s1 = Some m -> 20 + max_ss (v_ss s1) <= m) ->
  o_max_retx (v_opts s1) <> 0 ->
  poll cci (VSockRec.set_sends (set_tx s1 tx1) []) = (s3, r) ->
  exists l p l0, v_out s3 = l ++ p :: l0 /\ ch_type (p_hdr p) = ST_DATA /\ 1 <= Z.of_nat (length (p_payload p)).
Proof. exact @prompt_write_poll. Qed.

Theorem c02_prompt_invariant_kept : forall (CC : Type) (cci : cc_iface CC), cc_total cci ->
  forall (ti tm : Z) (s : vsock CC) a o,
  PI ti tm s a -> op_clock_ok o -> poll_finished (vstep_out cci s o) = false ->
  PI ti tm (vstep_state cci s o) (c10_acc_next a (VSock_Lemmas.fstep_of cci s o)).
Proof. exact @PI_step. Qed.

Print Assumptions c02_poll_pending_inbox_drained.
Print Assumptions c02_prompt_write_poll_partial.
Print Assumptions c02_prompt_invariant_kept.

(* every model trace: hypotheses = a total congestion controller, a valid configuration with
   max_segment_retransmissions >= 1, clock values within the sampling bound *)
Theorem c02_prompt_write_g_every_trace : forall (CC : Type) (cci : cc_iface CC), cc_total cci ->
  forall (cfg : vconfig) (mk : Z -> Z -> CC) (c : vconfig) (s0 : vsock CC) (ops : list vop),
  vconfig_ok c = true -> 1 <= vc_max_retx c -> Forall op_clock_ok ops ->
  vsock_new cci mk c = Some s0 -> c02_prompt_write_g cfg (ftrace cci s0 ops) = true.
Proof. exact @c02_prompt_write_g_trace. Qed.

Theorem c02_prompt_write_g_nonvacuous :
  exists w cfg ops,
    vconfig_ok cfg = true /\ 1 <= vc_max_retx cfg /\
    match wtrace w cfg ops with
    | [st0; st1; st2] =>
        prompt_window cfg (c10_acc_next c10_acc0 st0) st0 st1 st2 && idle_seq_ok (fs_pre st1) &&
        no_imm_ack (fs_pre st1) && can_send_new (fs_now st1) 528 (fs_pre st1) && emits_data st2
    | _ => false
    end = true /\
    c02_prompt_write_g cfg (wtrace w cfg ops) = true.
Proof. exact prompt_write_g_nonvacuous. Qed.

Print Assumptions c02_prompt_write_g_every_trace.
Print Assumptions c02_prompt_write_g_nonvacuous.

(* c02_prompt as stated is refuted only through a configuration the implementation cannot have *)
Theorem c02_prompt_max_retx_zero_refuted :
  exists w cfg ops,
    vconfig_ok cfg = true /\ vc_max_retx cfg = 0 /\
    c02_prompt cfg (wtrace w cfg ops) = false /\
    match rev (wtrace w cfg ops) with
    | st :: _ => match fs_result st with
                 | FrPoll (PollReadyErr ErrMaxRetransmissionsReached) _ _ _ => True
                 | _ => False
                 end
    | [] => False
    end.
Proof. exact prompt_max_retx_zero_refuted. Qed.

Print Assumptions c02_prompt_max_retx_zero_refuted.

(* C12 — concurrent connections on one socket are isolated and bounded.
   Socket-dispatcher level (every interleaving of run_once arms with the other tasks' channel
   operations = every op list). Only statements + exact. *)
From Utp Require Import Base.Prelude Wire.SeqNr Wire.Header Sock.Dispatcher Sock.Dispatcher_Proofs
  Sock.DispObs Sock.DispObs_Proofs.

(* keys unique, table never larger than the limit, backlog bounds: every reachable state *)
Theorem c12_keys_unique_and_limit : forall max_streams random ops,
  let s := drun (dstate_new max_streams random) ops in
  NoDup (keys (d_streams s)) /\
  Z.of_nat (length (d_streams s)) <= Z.max 0 max_streams /\
  Z.of_nat (length (d_syns s)) <= 32 /\ Z.of_nat (length (d_chan s)) <= 32 /\
  Forall (fun p => length (snd p) = 4%nat) (d_connecting s).
Proof. exact reachable_bounds. Qed.

Theorem c12_step_inv : forall s o s' e,
  d_inv s -> dstep s o = (s', e) -> d_inv s' /\ d_max_streams s' = d_max_streams s.
Proof. exact dstep_inv. Qed.

(* a datagram is only ever delivered to the connection whose peer address and connection id it
   names; handling it never removes an entry with another key nor a live entry with this key *)
Theorem c12_demux_exact : forall s addr m s' e,
  d_inv s -> on_recv s addr m = (s', e) ->
  d_inv s' /\ d_max_streams s' = d_max_streams s /\
  (forall k, In (EvForward k) e ->
     k = {| k_addr := addr; k_conn := dm_conn m |} /\
     exists en, find_stream s k = Some en /\ se_alive en = true /\ s' = s /\ e = [EvForward k]) /\
  (forall k, k <> {| k_addr := addr; k_conn := dm_conn m |} ->
     In k (keys (d_streams s)) -> In k (keys (d_streams s'))) /\
  (forall en, find_stream s {| k_addr := addr; k_conn := dm_conn m |} = Some en ->
     se_alive en = true -> s' = s).
Proof. exact on_recv_spec. Qed.

(* attempts at or beyond the limit, duplicate SYNs, late Shutdowns, cancelled connects/accepts:
   a live connection is never evicted from the table by any step *)
Theorem c12_live_never_evicted : forall s o s' e en,
  d_inv s -> dstep s o = (s', e) -> In en (d_streams s) -> se_alive en = true ->
  exists en', In en' (d_streams s') /\ se_key en' = se_key en /\ se_id en' = se_id en.
Proof. exact live_never_evicted. Qed.

(* creating an incoming connection: only below the limit, only under a key not in use, never
   replacing anything *)
Theorem c12_incoming_creation : forall s y a s' r e,
  st_inv s -> match_syn_with_accept s y a = (s', r, e) ->
  st_inv s' /\ d_max_streams s' = d_max_streams s /\ d_syns s' = d_syns s /\ d_chan s' = d_chan s /\
  d_next_acc s' = d_next_acc s /\ d_connecting s' = d_connecting s /\ d_control s' = d_control s /\
  incl (d_streams s) (d_streams s') /\
  match r with
  | MrMatched =>
      e = [EvAccepted a {| k_addr := sy_addr y; k_conn := wadd16 (sy_conn y) 1 |}] /\
      keys (d_streams s') = keys (d_streams s) ++ [{| k_addr := sy_addr y; k_conn := wadd16 (sy_conn y) 1 |}] /\
      ~ In a (d_dead_acceptors s)
  | MrReceiverDead => e = [] /\ d_streams s' = d_streams s /\ In a (d_dead_acceptors s)
  | MrFull => e = [] /\ s' = s /\ streams_full s = true
  | MrSynInvalid => e = [] /\ s' = s
  end.
Proof. exact match_syn_spec. Qed.

(* creating an outgoing connection (SYN-ACK for one of our connects): below the limit, key not in
   use (it would have been forwarded instead), nothing else touched *)
Theorem c12_outgoing_creation : forall s addr m s' e,
  d_inv s -> find_stream s {| k_addr := addr; k_conn := dm_conn m |} = None ->
  on_maybe_connect_ack s addr m = (s', e) ->
  d_inv s' /\ d_max_streams s' = d_max_streams s /\
  incl (d_streams s) (d_streams s') /\
  (forall k, In k (keys (d_streams s')) ->
     In k (keys (d_streams s)) \/ k = {| k_addr := addr; k_conn := dm_conn m |}) /\
  Forall (fun x => match x with EvConnected _ k => k = {| k_addr := addr; k_conn := dm_conn m |}
                              | EvDropped => True | _ => False end) e.
Proof. exact on_maybe_connect_ack_spec. Qed.

(* regression of the repaired D11: a late Shutdown does not remove a connection that re-used the key *)
Theorem c12_late_shutdown_keeps_new_connection :
  let s_after := drun (dstate_new 128 [7; 100; 200]) d11_ops in
  exists en, find_stream s_after {| k_addr := 5; k_conn := 51 |} = Some en /\ se_alive en = true /\ se_id en = 1.
Proof. exact late_shutdown_keeps_new_connection. Qed.

(* the extracted predicate evaluated on the implementation's observations holds of every model trace *)
Theorem c12_model_trace_ok : forall max_streams random ops,
  forallb (c12_step_ok max_streams) (dobs_trace (dstate_new max_streams random) ops) = true /\
  forallb c13_step_ok (dobs_trace (dstate_new max_streams random) ops) = true.
Proof. exact model_trace_ok. Qed.

Print Assumptions c12_model_trace_ok.
Print Assumptions c12_keys_unique_and_limit.
Print Assumptions c12_step_inv.
Print Assumptions c12_demux_exact.
Print Assumptions c12_live_never_evicted.
Print Assumptions c12_incoming_creation.
Print Assumptions c12_outgoing_creation.
Print Assumptions c12_late_shutdown_keeps_new_connection.

(* C12 — concurrent connections on one socket are isolated and bounded.
   Socket-dispatcher level (every interleaving of run_once arms with the other tasks' channel
   operations = every op list). Only statements + exact. *)
From Utp Require Import Base.Prelude Wire.SeqNr Wire.Header Sock.Dispatcher Sock.Dispatcher_Proofs
  Sock.DispObs Sock.DispObs_Proofs.
From Utp Require Import Sock.DispFresh_Proofs Sock.DispSlots_Proofs Sock.DispPending_Proofs
  Sock.DispWiring_Proofs Sock.DispFreshTable_Proofs.

(* keys unique, table never larger than the limit, backlog bounds: every reachable state *)
Theorem c12_keys_unique_and_limit : forall max_streams random ops,
  let s := drun (dstate_new max_streams random) ops in
  NoDup (keys (d_streams s)) /\
  Z.of_nat (length (d_streams s)) <= Z.max 0 max_streams /\
  Z.of_nat (length (d_syns s)) <= 32 /\ Z.of_nat (length (d_chan s)) <= 32 /\
  Forall (fun p => length (snd p) = 4%nat) (d_connecting s).
Proof. exact reachable_bounds. Qed.

Theorem c12_step_inv : forall s o s' e,
  d_inv s -> dstep s o = (s', e) -> d_inv s' /\ d_max_streams s' = d_max_streams s.
Proof. exact dstep_inv. Qed.

(* a datagram is only ever delivered to the connection whose peer address and connection id it
   names; handling it never removes an entry with another key nor a live entry with this key *)
Theorem c12_demux_exact : forall s addr m s' e,
  d_inv s -> on_recv s addr m = (s', e) ->
  d_inv s' /\ d_max_streams s' = d_max_streams s /\
  (forall k, In (EvForward k) e ->
     k = {| k_addr := addr; k_conn := dm_conn m |} /\
     exists en, find_stream s k = Some en /\ se_alive en = true /\ s' = s /\ e = [EvForward k]) /\
  (forall k, k <> {| k_addr := addr; k_conn := dm_conn m |} ->
     In k (keys (d_streams s)) -> In k (keys (d_streams s'))) /\
  (forall en, find_stream s {| k_addr := addr; k_conn := dm_conn m |} = Some en ->
     se_alive en = true -> s' = s).
Proof. exact on_recv_spec. Qed.

(* attempts at or beyond the limit, duplicate SYNs, late Shutdowns, cancelled connects/accepts:
   a live connection is never evicted from the table by any step *)
Theorem c12_live_never_evicted : forall s o s' e en,
  d_inv s -> dstep s o = (s', e) -> In en (d_streams s) -> se_alive en = true ->
  exists en', In en' (d_streams s') /\ se_key en' = se_key en /\ se_id en' = se_id en.
Proof. exact live_never_evicted. Qed.

(* creating an incoming connection: only below the limit, only under a key not in use, never
   replacing anything *)
Theorem c12_incoming_creation : forall s y a s' r e,
  st_inv s -> match_syn_with_accept s y a = (s', r, e) ->
  st_inv s' /\ d_max_streams s' = d_max_streams s /\ d_syns s' = d_syns s /\ d_chan s' = d_chan s /\
  d_next_acc s' = d_next_acc s /\ d_connecting s' = d_connecting s /\ d_control s' = d_control s /\
  incl (d_streams s) (d_streams s') /\
  match r with
  | MrMatched =>
      e = [EvAccepted a {| k_addr := sy_addr y; k_conn := wadd16 (sy_conn y) 1 |}] /\
      keys (d_streams s') = keys (d_streams s) ++ [{| k_addr := sy_addr y; k_conn := wadd16 (sy_conn y) 1 |}] /\
      ~ In a (d_dead_acceptors s)
  | MrReceiverDead => e = [] /\ d_streams s' = d_streams s /\ In a (d_dead_acceptors s)
  | MrFull => e = [] /\ s' = s /\ streams_full s = true
  | MrSynInvalid => e = [] /\ s' = s
  end.
Proof. exact match_syn_spec. Qed.

(* creating an outgoing connection (SYN-ACK for one of our connects): below the limit, key not in
   use (it would have been forwarded instead), nothing else touched *)
Theorem c12_outgoing_creation : forall s addr m s' e,
  d_inv s -> find_stream s {| k_addr := addr; k_conn := dm_conn m |} = None ->
  on_maybe_connect_ack s addr m = (s', e) ->
  d_inv s' /\ d_max_streams s' = d_max_streams s /\
  incl (d_streams s) (d_streams s') /\
  (forall k, In k (keys (d_streams s')) ->
     In k (keys (d_streams s)) \/ k = {| k_addr := addr; k_conn := dm_conn m |}) /\
  Forall (fun x => match x with EvConnected _ k => k = {| k_addr := addr; k_conn := dm_conn m |}
                              | EvDropped => True | _ => False end) e.
Proof. exact on_maybe_connect_ack_spec. Qed.

(* regression of the repaired D11: a late Shutdown does not remove a connection that re-used the key *)
Theorem c12_late_shutdown_keeps_new_connection :
  let s_after := drun (dstate_new 128 [7; 100; 200]) d11_ops in
  exists en, find_stream s_after {| k_addr := 5; k_conn := 51 |} = Some en /\ se_alive en = true /\ se_id en = 1.
Proof. exact late_shutdown_keeps_new_connection. Qed.

(* the extracted predicate evaluated on the implementation's observations holds of every model trace *)
Theorem c12_model_trace_ok : forall max_streams random ops,
  forallb (c12_step_ok max_streams) (dobs_trace (dstate_new max_streams random) ops) = true /\
  forallb c13_step_ok (dobs_trace (dstate_new max_streams random) ops) = true.
Proof. exact model_trace_ok. Qed.

Print Assumptions c12_model_trace_ok.
Print Assumptions c12_keys_unique_and_limit.
Print Assumptions c12_step_inv.
Print Assumptions c12_demux_exact.
Print Assumptions c12_live_never_evicted.
Print Assumptions c12_incoming_creation.
Print Assumptions c12_outgoing_creation.
Print Assumptions c12_late_shutdown_keeps_new_connection.

(* ================================================================== connection ids of SYNs *)
(* "connection ids in use between one address pair are unique", SYN side.  The bound the
   pigeonhole argument needs is on the configured limit: conn_id_space_ok m := m <=? 32768
   (default 128). *)

(* get_next_free_conn_id, run with fuel = table size + 1, never runs out of fuel below the bound:
   the id it returns is not in use, i.e. the bounded model loop IS the unbounded Rust loop *)
Theorem c12_conn_id_loop_finds_free_id : forall s addr cid,
  NoDup (keys (d_streams s)) -> Z.of_nat (length (d_streams s)) < 32768 ->
  has_stream s {| k_addr := addr;
                  k_conn := next_free_conn_id (S (length (d_streams s))) s addr cid |} = false.
Proof. exact next_free_conn_id_fresh. Qed.

(* every step of every state satisfying the invariant: the extracted predicate holds *)
Theorem c12_syn_fresh_every_step : forall s o s' e,
  d_inv s -> conn_id_space_ok (d_max_streams s) = true -> dstep s o = (s', e) ->
  c12_syn_fresh_ok (dobs_of s) (syn_keys e) = true.
Proof. exact c12_syn_fresh_model. Qed.

(* every step of every run from a fresh dispatcher (dfresh_trace = per step: the table before the
   step and the (address, id) of the SYNs the step sent) *)
Theorem c12_syn_fresh_every_trace : forall max_streams random ops,
  conn_id_space_ok max_streams = true ->
  forallb (fun p => c12_syn_fresh_ok (fst p) (snd p)) (dfresh_trace (dstate_new max_streams random) ops) = true.
Proof. exact c12_syn_fresh_trace_new. Qed.

(* the same in plain terms: the id is a key of the table neither before nor after the step *)
Theorem c12_syn_id_not_in_use : forall s o s' e,
  d_inv s -> d_max_streams s <= 32768 -> dstep s o = (s', e) ->
  forall a cid q, In (EvSentSyn a cid q) e ->
    ~ In {| k_addr := a; k_conn := cid |} (keys (d_streams s)) /\
    ~ In {| k_addr := a; k_conn := cid |} (keys (d_streams s')).
Proof. exact syn_id_not_in_use. Qed.

(* the bound is needed: max_active_streams = 32769 and a table holding all 32768 even ids of one
   address make the model loop return an id that is in use (the Rust loop would not terminate) *)
Theorem c12_syn_fresh_without_bound_refuted :
  exists s o, d_inv s /\ d_max_streams s = 32769 /\
    c12_syn_fresh_ok (dobs_of s) (syn_keys (snd (dstep s o))) = false.
Proof. exact c12_syn_fresh_needs_bound. Qed.

(* which id a SYN carries (the first free one counting from next_connection_id in steps of 2,
   cand n j = n for j = 0, (n + 2j) mod 2^16 otherwise) and what happens to the counter *)
Theorem c12_syn_step_id : forall s o s' e a cid q,
  d_inv s -> d_max_streams s <= 32768 -> dstep s o = (s', e) -> In (EvSentSyn a cid q) e ->
  (exists j, Z.of_nat j < Z.max 0 (d_max_streams s) /\ cid = cand (d_next_conn_id s) j /\
     (forall i, (i < j)%nat -> In {| k_addr := a; k_conn := cand (d_next_conn_id s) i |} (keys (d_streams s'))) /\
     ~ In {| k_addr := a; k_conn := cid |} (keys (d_streams s'))) /\
  (no_connect_err e -> d_next_conn_id s' = wadd16 cid 2) /\
  (~ no_connect_err e -> d_next_conn_id s' = cid).
Proof. exact syn_step_id. Qed.

(* ================================================================== pending connects *)
(* The id of a pending connect is recorded nowhere (`connecting` = token + seq_nr); uniqueness
   among pending connects rests on the counter.  WINDOW THEOREM, all op lists `mid`: a SYN that
   reserved a slot and any later SYN carry different ids while
   (connect requests handled in between + 1) * max_active_streams < 2^15. *)
Theorem c12_syn_ids_distinct_in_window : forall s o1 s1 e1 a c1 q1 mid o2 s3 e3 a' c2 q2,
  d_inv s -> d_max_streams s <= 32768 ->
  dstep s o1 = (s1, e1) -> In (EvSentSyn a c1 q1) e1 -> no_connect_err e1 ->
  dstep (drun s1 mid) o2 = (s3, e3) -> In (EvSentSyn a' c2 q2) e3 ->
  (connect_steps (dev_trace s1 mid) + 1) * Z.max 1 (d_max_streams s) < 32768 ->
  c1 mod M16 <> c2 mod M16.
Proof. exact syn_ids_distinct_in_window. Qed.

Theorem c12_syn_ids_distinct_in_window_reachable :
  forall max_streams random pre o1 s1 e1 a c1 q1 mid o2 s3 e3 a' c2 q2,
  max_streams <= 32768 ->
  dstep (drun (dstate_new max_streams random) pre) o1 = (s1, e1) ->
  In (EvSentSyn a c1 q1) e1 -> no_connect_err e1 ->
  dstep (drun s1 mid) o2 = (s3, e3) -> In (EvSentSyn a' c2 q2) e3 ->
  (connect_steps (dev_trace s1 mid) + 1) * Z.max 1 max_streams < 32768 ->
  c1 mod M16 <> c2 mod M16.
Proof. exact syn_ids_distinct_in_window_reachable. Qed.

(* outside the window it fails: one connect stays pending while 32767 others are handled *)
Theorem c12_pending_ids_distinct_refuted :
  let '(s1, e1) := dstep (drun pend_s0 [DoConnect 5 100]) run_ctl in
  let s2 := drun s1 pend_wrap_ops in
  let '(s3, e3) := dstep (drun s2 [DoConnect 5 101]) run_ctl in
  e1 = [EvSentSyn 5 7 100] /\ e3 = [EvSentSyn 5 7 0] /\
  pending s3 5 = [{| cn_token := 100; cn_seq := 100 |}; {| cn_token := 101; cn_seq := 0 |}] /\
  connect_steps (dev_trace s1 pend_wrap_ops) = 32767.
Proof. exact pending_ids_distinct_refuted. Qed.

(* the documented boundary: the id of a pending connect is not reserved in the table; an inbound
   SYN of the same peer takes the key and then receives the answer to our SYN *)
Theorem c12_pending_id_reserved_refuted :
  exists ops a cid q token synack,
    let s := drun pend_s0 ops in
    In [EvSentSyn a cid q] (map (fun x => match x with (_, _, e, _) => e end) (dev_trace pend_s0 ops)) /\
    In {| cn_token := token; cn_seq := q |} (pending s a) /\
    In {| k_addr := a; k_conn := cid |} (keys (d_streams s)) /\
    dm_type synack = ST_STATE /\ dm_conn synack = cid /\ dm_ack synack = q /\
    let '(s', e') := dstep s (DoRunOnce [] (ArmRecv a (Some synack))) in
    e' = [EvForward {| k_addr := a; k_conn := cid |}] /\
    In {| cn_token := token; cn_seq := q |} (pending s' a).
Proof. exact pending_id_reserved_refuted. Qed.

(* the key of an outgoing connection is the connection id of the SYN-ACK (matched by ack_nr
   only), not necessarily the id our SYN announced *)
Theorem c12_outgoing_key_is_announced_id_refuted :
  exists ops a cid q token synack k,
    let s := drun pend_s0 ops in
    In [EvSentSyn a cid q] (map (fun x => match x with (_, _, e, _) => e end) (dev_trace pend_s0 ops)) /\
    In {| cn_token := token; cn_seq := q |} (pending s a) /\
    snd (dstep s (DoRunOnce [] (ArmRecv a (Some synack)))) = [EvConnected token k] /\
    k_addr k = a /\ k_conn k <> cid.
Proof. exact outgoing_key_is_announced_id_refuted. Qed.

(* what the key of a created outgoing connection IS, every step *)
Theorem c12_outgoing_connection_key : forall s o s' e t k,
  d_inv s -> dstep s o = (s', e) -> In (EvConnected t k) e ->
  exists pushes addr m c m1 m2 sid,
    o = DoRunOnce pushes (ArmRecv addr (Some m)) /\ dm_type m = ST_STATE /\
    k = {| k_addr := addr; k_conn := dm_conn m |} /\
    pending s addr = m1 ++ c :: m2 /\ cn_token c = t /\ cn_seq c = dm_ack m /\
    (forall x, In x m1 -> cn_seq x <> dm_ack m) /\ pending s' addr = m1 ++ m2 /\
    ~ In k (keys (d_streams s)) /\ In (live_entry k sid) (d_streams s') /\
    In (t, CrOk k) (d_results s') /\ ~ In t (d_dead_connectors s).
Proof. exact connected_event_facts. Qed.

Print Assumptions c12_conn_id_loop_finds_free_id.
Print Assumptions c12_syn_fresh_every_step.
Print Assumptions c12_syn_fresh_every_trace.
Print Assumptions c12_syn_id_not_in_use.
Print Assumptions c12_syn_fresh_without_bound_refuted.
Print Assumptions c12_syn_step_id.
Print Assumptions c12_syn_ids_distinct_in_window.
Print Assumptions c12_syn_ids_distinct_in_window_reachable.
Print Assumptions c12_pending_ids_distinct_refuted.
Print Assumptions c12_pending_id_reserved_refuted.
Print Assumptions c12_outgoing_key_is_announced_id_refuted.
Print Assumptions c12_outgoing_connection_key.

(* the same under the weaker, observable hypothesis conn_id_space_ok_obs m pre :=
   (m <=? 32768) || (table size + SYN backlog of the observation before the step <? 32768),
   which also covers a limit above 32768 while the table is small *)
Theorem c12_syn_fresh_every_step_obs : forall s o s' e,
  d_inv s -> conn_id_space_ok_obs (d_max_streams s) (dobs_of s) = true -> dstep s o = (s', e) ->
  c12_syn_fresh_ok (dobs_of s) (syn_keys e) = true.
Proof. exact c12_syn_fresh_model_obs. Qed.

Theorem c12_syn_fresh_every_trace_obs : forall max_streams ops s,
  d_inv s -> d_max_streams s = max_streams ->
  forallb (fun p => implb (conn_id_space_ok_obs max_streams (fst p)) (c12_syn_fresh_ok (fst p) (snd p)))
          (dfresh_trace s ops) = true.
Proof. exact c12_syn_fresh_trace_obs. Qed.

Print Assumptions c12_syn_fresh_every_step_obs.
Print Assumptions c12_syn_fresh_every_trace_obs.

(* C17 — handshake and teardown follow the uTP state machine on the wire.
   Connection level (model of VirtualSocket::poll, Conn/VSock.v).  Only statements + exact. *)
From Utp Require Import Base.Prelude Wire.SeqNr Wire.Header Rtt.Rtte Mtu.SegSizes Rx.Rx Tx.Ring
  Tx.Segments Conn.Recovery Conn.Msg Conn.VSockRec Conn.VSock Conn.VSockRun Conn.VObs
  Conn.VSock_LemmasFin Conn.C17_Pred Conn.C17_Proofs.

Section WithCC.
Context {CC : Type} (cci : cc_iface CC).
Notation vsock := (vsock CC).

(* (b) the (state, packet type) table of process_incoming_message, one conjunct per arm of the Rust match *)
Theorem c17_transition_table :
  forall (s : vsock) (h : chdr),
  
  (forall f r, ch_type h = ST_RESET -> v_state s = LastAck f r -> ch_ack h = f ->
     state_table s h = TblDrop (set_state s Closed)) /\
  
  (ch_type h = ST_RESET -> (forall f r, v_state s = LastAck f r -> ch_ack h <> f) ->
     state_table s h = TblErr (set_state s Closed) ErrStResetReceived) /\
  
  (ch_type h = ST_SYN -> state_table s h = TblDrop s) /\
  
  (ch_type h <> ST_RESET -> ch_type h <> ST_SYN -> v_state s = Closed ->
     state_table s h = TblDrop s) /\
  
  (ch_type h <> ST_RESET -> ch_type h <> ST_SYN -> v_state s = SynReceived ->
     state_table s h = TblErr s (ErrBug BugUnexpectedPacketInSynReceived)) /\
  
  (forall k, data_or_state (ch_type h) -> v_state s = SynAckSent k ->
     ch_ack h <> wsub16 (v_seq_nr s) 1 -> state_table s h = TblDrop s) /\
  
  (forall k, data_or_state (ch_type h) -> v_state s = SynAckSent k ->
     ch_ack h = wsub16 (v_seq_nr s) 1 ->
     state_table s h = TblContinue (set_state (restart_remote_inactivity_timer s) Established)) /\
  
  (forall k, ch_type h = ST_FIN -> v_state s = SynAckSent k -> ~ in_seq s h ->
     state_table s h = TblDrop s) /\
  
  (forall k, ch_type h = ST_FIN -> v_state s = SynAckSent k -> in_seq s h ->
     state_table s h = TblContinue (set_state s Closed)) /\
  
  (data_or_state (ch_type h) -> v_state s = Established -> state_table s h = TblContinue s) /\
  
  (ch_type h = ST_FIN ->
     (v_state s = Established \/ (exists f, v_state s = FinWait1 f) \/ v_state s = FinWait2) ->
     ~ in_seq s h -> state_table s h = TblDrop s) /\
  
  (ch_type h = ST_FIN -> v_state s = Established -> in_seq s h ->
     state_table s h = TblContinue (set_seq_nr (set_state s (LastAck (v_seq_nr s) (ch_seq h)))
                                               (wadd16 (v_seq_nr s) 1))) /\
  
  (forall f, ch_type h = ST_FIN -> v_state s = FinWait1 f -> in_seq s h -> ch_ack h = f ->
     state_table s h = TblContinue (set_state s Closed)) /\
  
  (forall f, ch_type h = ST_FIN -> v_state s = FinWait1 f -> in_seq s h -> ch_ack h <> f ->
     state_table s h = TblContinue (set_state s (LastAck f (ch_seq h)))) /\
  
  (forall f, data_or_state (ch_type h) -> v_state s = FinWait1 f -> ch_ack h = f ->
     state_table s h =
     TblContinue (if ptype_eqb (ch_type h) ST_STATE && (seq_sub (ch_seq h) (v_last_consumed s) =? 1)
                  then set_state (set_state (restart_remote_inactivity_timer s) FinWait2) Closed
                  else set_state (restart_remote_inactivity_timer s) FinWait2)) /\
  
  (forall f, data_or_state (ch_type h) -> v_state s = FinWait1 f -> ch_ack h <> f ->
     state_table s h = TblContinue s) /\
  
  (ch_type h = ST_FIN -> v_state s = FinWait2 -> in_seq s h ->
     state_table s h = TblContinue (set_state (restart_remote_inactivity_timer s) Closed)) /\
  
  (data_or_state (ch_type h) -> v_state s = FinWait2 -> state_table s h = TblContinue s) /\
  
  (forall f r, ch_type h <> ST_RESET -> ch_type h <> ST_SYN -> v_state s = LastAck f r -> ch_ack h = f ->
     state_table s h = TblContinue (set_state (restart_remote_inactivity_timer s) Closed)) /\
  
  (forall f r, ch_type h <> ST_RESET -> ch_type h <> ST_SYN -> v_state s = LastAck f r -> ch_ack h <> f ->
     seq_gt (ch_seq h) r = true ->
     state_table s h = if ptype_eqb (ch_type h) ST_DATA then TblDrop s else TblContinue s) /\
  
  (forall f r, ch_type h <> ST_RESET -> ch_type h <> ST_SYN -> v_state s = LastAck f r -> ch_ack h <> f ->
     seq_gt (ch_seq h) r = false -> state_table s h = TblContinue s).
Proof. exact (transition_table). Qed.

(* (b) a dropped packet returns the state unchanged *)
Theorem c17_table_drop_unchanged :
  forall (s s' : vsock) h,
  state_table s h = TblDrop s' -> ch_type h <> ST_RESET -> s' = s.
Proof. exact (table_drop_unchanged). Qed.

(* (c) our FIN number is never changed by the table once recorded *)
Theorem c17_table_keeps_our_fin :
  forall (s s' : vsock) h f,
  our_fin_if_unacked (v_state s) = Some f ->
  (state_table s h = TblDrop s' \/ state_table s h = TblContinue s' \/
   exists e, state_table s h = TblErr s' e) ->
  our_fin_if_unacked (v_state s') = Some f \/ our_fin_if_unacked (v_state s') = None.
Proof. exact (table_keeps_our_fin). Qed.

(* (a) maybe_send_syn_ack: complete case analysis *)
Theorem c17_synack :
  forall s : vsock,
  v_transport_pending s = false ->
  let due := match v_state s with
             | SynReceived => true
             | SynAckSent _ => timer_expired (v_t_syn_ack_resend s) (v_now s)
             | _ => false end in
  let k0 := match v_state s with SynAckSent k => k | _ => 0 end in
  let handshaking := match v_state s with SynReceived | SynAckSent _ => true | _ => false end in
  (handshaking = false -> maybe_send_syn_ack s = SOk (set_t_syn_ack_resend s None) tt) /\
  (handshaking = true -> due = false -> maybe_send_syn_ack s = SOk s tt) /\
  (handshaking = true -> due = true -> k0 = o_max_retx (v_opts s) ->
     maybe_send_syn_ack s = SErr s ErrMaxSynAckRetransmissionsReached) /\
  (handshaking = true -> due = true -> k0 <> o_max_retx (v_opts s) ->
     (exists s1 p h, same_but_sends s s1 /\
        maybe_send_syn_ack s =
          SOk (set_t_syn_ack_resend (set_state (on_packet_sent (emit s1 p) h) (SynAckSent (k0 + 1)))
                 (Some (v_now s + SYNACK_RESEND_INTERNAL))) tt /\
        ch_type (p_hdr p) = ST_STATE /\ ch_seq (p_hdr p) = v_seq_nr s /\
        ch_ack (p_hdr p) = v_last_consumed s /\ p_payload p = []) \/
     (exists s1, same_but_sends s s1 /\ maybe_send_syn_ack s = SOk (set_transport_pending s1 true) tt) \/
     (exists s1, same_but_sends s s1 /\ maybe_send_syn_ack s = SErr s1 ErrSend)).
Proof. exact (maybe_send_syn_ack_spec). Qed.

(* (a) the configured number of SYN-ACKs unanswered: the poll fails *)
Theorem c17_synack_exhausted_poll :
  forall (s : vsock) script k,
  v_state s = SynAckSent k -> timer_expired (v_t_syn_ack_resend s) (v_env_now s) = true ->
  k = o_max_retx (v_opts s) -> vsock_closed (v_rx s) = false ->
  exists s', poll cci (set_sends s script) = (s', PollReadyErr ErrMaxSynAckRetransmissionsReached) /\
             v_state s' = SynAckSent k /\ both_closed s' /\ q (v_rx s') = q (v_rx s) ++ [QError].
Proof. exact (synack_exhausted_poll cci). Qed.

(* (c) maybe_send_fin emits at most one FIN, numbered as recorded in the state, directly after the last number sent *)
Theorem c17_own_fin :
  forall (s s' : vsock) b,
  maybe_send_fin s = SOk s' b ->
  v_state s' = v_state s /\ v_seq_nr s' = v_seq_nr s /\
  ((b = false /\ v_out s' = v_out s /\ v_last_sent_seq_nr s' = v_last_sent_seq_nr s) \/
   (b = true /\ exists f p,
      our_fin_if_unacked (v_state s) = Some f /\ seq_sub f (v_last_sent_seq_nr s) = 1 /\
      v_out s' = p :: v_out s /\ ch_type (p_hdr p) = ST_FIN /\ ch_seq (p_hdr p) = f /\
      ch_ack (p_hdr p) = v_last_consumed s /\ p_payload p = [] /\ v_last_sent_seq_nr s' = f)).
Proof. exact (maybe_send_fin_spec). Qed.

(* (c) an error in maybe_send_fin emits nothing *)
Theorem c17_own_fin_err_silent :
  forall (s s' : vsock) e,
  maybe_send_fin s = SErr s' e -> v_out s' = v_out s /\ v_state s' = v_state s.
Proof. exact (maybe_send_fin_err_silent). Qed.

(* (c) the FIN goes out as soon as it follows the last number sent *)
Theorem c17_own_fin_sends :
  forall (s : vsock) f s1,
  v_transport_pending s = false -> our_fin_if_unacked (v_state s) = Some f ->
  seq_sub f (v_last_sent_seq_nr s) = 1 -> next_send s 20 = (s1, TSent) ->
  exists s', maybe_send_fin s = SOk s' true.
Proof. exact (maybe_send_fin_sends). Qed.

(* (c) transition_to_fin_wait_1 numbers the FIN with seq_nr *)
Theorem c17_transition :
  forall s : vsock,
  is_local_fin_or_later (v_state s) = false ->
  v_state (transition_to_fin_wait_1 s) = FinWait1 (v_seq_nr s) /\
  v_seq_nr (transition_to_fin_wait_1 s) = wadd16 (v_seq_nr s) 1 /\
  v_out (transition_to_fin_wait_1 s) = v_out s /\
  v_last_sent_seq_nr (transition_to_fin_wait_1 s) = v_last_sent_seq_nr s.
Proof. exact (transition_spec). Qed.

(* (c) and does nothing once our FIN is numbered *)
Theorem c17_transition_noop :
  forall s : vsock,
  is_local_fin_or_later (v_state s) = true -> transition_to_fin_wait_1 s = s.
Proof. exact (transition_noop). Qed.

(* (c) the guard under which poll_body closes on its own initiative *)
Theorem c17_should_close_guard :
  forall s : vsock,
  should_close_on_own_initiative s = true ->
  ((reader_dropped (v_rx s) = true /\ writer_dropped (v_tx s) = true) \/ writer_shutdown (v_tx s) = true) /\
  unsent_data_exists s = false /\ is_local_fin_or_later (v_state s) = false.
Proof. exact (should_close_guard). Qed.

(* (c) FIN only after all accepted data, provided `unsegmented` is what the last segmentation computed
   (split_fresh: ring length minus segmented length, saturating) *)
Theorem c17_fin_after_all_data :
  forall s : vsock,
  should_close_on_own_initiative s = true -> split_fresh s ->
  Z.of_nat (length (ring (v_tx s))) <= ss_len_bytes (v_segs s) /\
  (forall g, In g (ss_segs (v_segs s)) -> sg_delivered g = true \/ seg_send_count g <> 0).
Proof. exact (fin_after_all_data). Qed.

(* (c) split_fresh is established by EVERY segmentation that looks at a non-empty send buffer before the
   peer's FIN, the early return on an outstanding MTU probe included (repair of D10) *)
Theorem c17_split_fresh_after :
  forall (s s' : vsock),
  split_tx_queue_into_segments cci s = SOk s' tt ->
  is_remote_fin_or_later (v_state s) = false -> ring (v_tx s) <> [] -> split_fresh s'.
Proof. exact (split_fresh_after cci). Qed.

(* (c) with an empty send buffer segmentation only registers the dispatcher waker *)
Theorem c17_split_empty_ring :
  forall s : vsock,
  ring (v_tx s) = [] ->
  split_tx_queue_into_segments cci s = SOk (set_tx s (register_dispatcher_if_empty (v_tx s))) tt.
Proof. exact (split_empty_ring cci). Qed.

(* (c) send_tx_queue leaves `unsegmented`, the ring and the segmented length alone, unless it pops a failed
   MTU probe and requests a restart of the poll *)
Theorem c17_send_tx_queue_uframe :
  forall s : vsock, sufr_r s (send_tx_queue cci s).
Proof. exact (send_tx_queue_uframe cci). Qed.

(* (c) FIN only after all accepted data with NO hypothesis on `unsegmented`: the composition
   split_tx_queue_into_segments -> send_tx_queue -> should_close_on_own_initiative exactly as in poll_body
   (a poll that looked at a non-empty send buffer before the peer's FIN) *)
Theorem c17_fin_after_all_data_in_poll :
  forall (s4 s5 s6 : vsock),
  split_tx_queue_into_segments cci s4 = SOk s5 tt ->
  is_remote_fin_or_later (v_state s4) = false -> ring (v_tx s4) <> [] ->
  send_tx_queue cci s5 = SOk s6 tt -> v_restart s6 = false ->
  should_close_on_own_initiative s6 = true ->
  Z.of_nat (length (ring (v_tx s6))) <= ss_len_bytes (v_segs s6) /\
  (forall g, In g (ss_segs (v_segs s6)) -> sg_delivered g = true \/ seg_send_count g <> 0).
Proof. exact (fin_after_all_data_in_poll cci). Qed.

(* (c) the number of the next new packet (our FIN's number to be) never moves backwards: send_data leaves
   seq_nr alone or raises it to one past the segment just sent (repair of D13) *)
Theorem c17_send_data_seq_nr_mono :
  forall (s s' : vsock) h f r,
  send_data s h f = SOk s' r ->
  v_seq_nr s' = v_seq_nr s \/
  (v_seq_nr s' = wadd16 (fs_seq f) 1 /\ seq_gt (wadd16 (fs_seq f) 1) (v_seq_nr s) = true /\
   v_last_sent_seq_nr s' = fs_seq f).
Proof. exact (send_data_seq_nr_mono). Qed.

Theorem c17_send_data_err_seq_nr :
  forall (s s' : vsock) h f e,
  send_data s h f = SErr s' e -> v_seq_nr s' = v_seq_nr s.
Proof. exact (send_data_err_seq_nr). Qed.

(* (c) segmentation that runs to its end accounts for every byte *)
Theorem c17_segment_loop_len :
  forall fuel nagle ss segs rem rwr ss' segs' rem',
  segment_loop fuel nagle ss segs rem rwr = Some (ss', segs', rem') ->
  rem' = rem - (ss_len_bytes segs' - ss_len_bytes segs).
Proof. exact (segment_loop_len). Qed.

(* (d) an out-of-sequence FIN changes nothing (also while our SYN-ACK is unanswered: repair of D19) *)
Theorem c17_peer_fin_out_of_sequence :
  forall (s : vsock) m,
  ch_type (m_hdr m) = ST_FIN ->
  ((exists k, v_state s = SynAckSent k) \/
   v_state s = Established \/ (exists f, v_state s = FinWait1 f) \/ v_state s = FinWait2) ->
  ~ in_seq s (m_hdr m) ->
  process_incoming_message cci s m = SOk s on_ack_result_default.
Proof. exact (peer_fin_out_of_sequence cci). Qed.

(* (d) an in-sequence FIN in Established *)
Theorem c17_peer_fin :
  forall (s : vsock) m s' r,
  v_state s = Established -> ch_type (m_hdr m) = ST_FIN -> in_seq s (m_hdr m) ->
  process_incoming_message cci s m = SOk s' r ->
  v_state s' = LastAck (v_seq_nr s) (ch_seq (m_hdr m)) /\ v_seq_nr s' = wadd16 (v_seq_nr s) 1 /\
  v_last_consumed s' = ch_seq (m_hdr m) /\ v_cbu s' = USIZE_MAX /\
  t_vsock_closed (v_tx s') = true /\ v_out s' = v_out s /\
  v_last_sent_seq_nr s' = v_last_sent_seq_nr s.
Proof. exact (peer_fin_in_sequence_established cci). Qed.

(* (e) RESET: error unless it acknowledges our FIN in LastAck *)
Theorem c17_reset_message_err :
  forall (s : vsock) m,
  ch_type (m_hdr m) = ST_RESET ->
  (forall f r, v_state s = LastAck f r -> ch_ack (m_hdr m) <> f) ->
  process_incoming_message cci s m = SErr (set_state s Closed) ErrStResetReceived.
Proof. exact (reset_message_err cci). Qed.

(* (e) *)
Theorem c17_reset_message_acks_fin :
  forall (s : vsock) m f r,
  ch_type (m_hdr m) = ST_RESET -> v_state s = LastAck f r -> ch_ack (m_hdr m) = f ->
  process_incoming_message cci s m = SOk (set_state s Closed) on_ack_result_default.
Proof. exact (reset_message_acks_fin cci). Qed.

(* (e) the poll reports the reset at once and emits nothing *)
Theorem c17_reset :
  forall (s : vsock) script m rest,
  past_handshake (v_state s) = true -> vsock_closed (v_rx s) = false ->
  immediate_ack_to_transmit s = false ->
  v_inbox s = m :: rest -> ch_type (m_hdr m) = ST_RESET ->
  (forall f r, v_state s = LastAck f r -> ch_ack (m_hdr m) <> f) ->
  exists s', poll cci (set_sends s script) = (s', PollReadyErr ErrStResetReceived) /\
    v_out s' = [] /\ v_state s' = Closed /\ both_closed s' /\ reader_waker (v_rx s') = false /\
    q (v_rx s') = q (v_rx s) ++ [QError] /\ v_inbox s' = rest.
Proof. exact (reset_err_poll cci). Qed.

(* (e) the acknowledging reset stops the receive loop in Closed *)
Theorem c17_reset_ok_recv_loop :
  forall (s : vsock) m rest f r fuel acc x,
  v_inbox s = m :: rest -> ch_type (m_hdr m) = ST_RESET -> v_state s = LastAck f r ->
  ch_ack (m_hdr m) = f ->
  recv_loop cci (x :: fuel) s acc =
  SOk (set_state (set_inbox s rest) Closed) (result_update acc on_ack_result_default, false).
Proof. exact (reset_ok_recv_loop cci). Qed.

(* frame of a whole poll: options, ids, clock, EMSGSIZE limit untouched; datagrams and wake-ups only appended *)
Theorem c17_poll_frame :
  forall fuel s, pframe0 s (fst (poll_loop cci fuel s)).
Proof. exact (poll_loop_frame0 cci). Qed.

(* everything after maybe_send_syn_ack leaves the SYN-ACK counter and timer alone *)
Theorem c17_body_rest_frame :
  forall s0 s1 : vsock, pframe s0 s1 -> bframe s0 (body_rest cci s1 tt).
Proof. exact (body_rest_frame cci). Qed.

End WithCC.

(* regressions: the witnesses of the repaired defects D10 and D13, same op lists: every predicate holds,
   no FIN while 100 written bytes are unsegmented (D10); FIN numbered 104, above every data segment (D13) *)
Theorem c17_fin_overtakes_data_regression : d10_regression_b = true.
Proof. exact fin_overtakes_data_regression. Qed.

Theorem c17_fin_number_collides_with_data_regression : d13_regression_b = true.
Proof. exact fin_number_collides_with_data_regression. Qed.

Print Assumptions c17_transition_table.
Print Assumptions c17_table_drop_unchanged.
Print Assumptions c17_table_keeps_our_fin.
Print Assumptions c17_synack.
Print Assumptions c17_synack_exhausted_poll.
Print Assumptions c17_own_fin.
Print Assumptions c17_own_fin_err_silent.
Print Assumptions c17_own_fin_sends.
Print Assumptions c17_transition.
Print Assumptions c17_transition_noop.
Print Assumptions c17_should_close_guard.
Print Assumptions c17_fin_after_all_data.
Print Assumptions c17_split_fresh_after.
Print Assumptions c17_split_empty_ring.
Print Assumptions c17_send_tx_queue_uframe.
Print Assumptions c17_fin_after_all_data_in_poll.
Print Assumptions c17_send_data_seq_nr_mono.
Print Assumptions c17_send_data_err_seq_nr.
Print Assumptions c17_segment_loop_len.
Print Assumptions c17_peer_fin_out_of_sequence.
Print Assumptions c17_peer_fin.
Print Assumptions c17_reset_message_err.
Print Assumptions c17_reset_message_acks_fin.
Print Assumptions c17_reset.
Print Assumptions c17_reset_ok_recv_loop.
Print Assumptions c17_poll_frame.
Print Assumptions c17_body_rest_frame.
Print Assumptions c17_fin_overtakes_data_regression.
Print Assumptions c17_fin_number_collides_with_data_regression.

(* ================================================================== step level: the step predicates of
   Conn/C17_Pred.v hold of EVERY step of the model (every state, every event; proofs in Conn/C17_Step.v),
   and therefore along every trace *)
From Utp Require Import Conn.C17_Step.

Section StepLevel.
Context {CC : Type} (cci : cc_iface CC).
Notation vsock := (vsock CC).

(* (e) a poll that reports the reset ends in Closed and emitted neither FIN nor RESET: no precondition *)
Theorem c17_reset_ok_step :
  forall cfg (s : vsock) o,
  let '(s', out, dw, sw) := vstep cci s o in
  c17_reset_ok cfg
    {| fs_now := v_env_now s'; fs_pre := fp_of_vsock cci s; fs_event := fevent_of o;
       fs_result := fresult_of out; fs_disp_woken := dw; fs_self_woken := sw;
       fs_post := fp_of_vsock cci s' |} = true.
Proof. exact (c17_reset_ok_vstep cci). Qed.

Theorem c17_reset_ok_trace :
  forall cfg ops (s : vsock), forallb (c17_reset_ok cfg) (ftrace cci s ops) = true.
Proof. exact (C17_Step.c17_reset_ok_trace cci). Qed.

(* (e) on the model itself: the reset error leaves Closed, and no datagram of that poll is a FIN or a RESET;
   no poll whatsoever emits an ST_RESET *)
Theorem c17_poll_reset :
  forall (s s' : vsock),
  poll cci s = (s', PollReadyErr ErrStResetReceived) ->
  v_state s' = Closed /\
  forall p, In p (v_out s') -> ch_type (p_hdr p) <> ST_FIN /\ ch_type (p_hdr p) <> ST_RESET.
Proof. exact (poll_reset cci). Qed.

Theorem c17_poll_no_reset_pkt :
  forall (s s' : vsock) r,
  poll cci s = (s', r) -> forall p, In p (v_out s') -> ch_type (p_hdr p) <> ST_RESET.
Proof. exact (poll_no_reset_pkt cci). Qed.

(* (c) the number recorded in FinWait1 f / LastAck f _ does not change while recorded, and every ST_FIN
   a poll emits carries it: no precondition *)
Theorem c17_fin_number_step_ok_step :
  forall cfg (s : vsock) o,
  let '(s', out, dw, sw) := vstep cci s o in
  c17_fin_number_step_ok cfg
    {| fs_now := v_env_now s'; fs_pre := fp_of_vsock cci s; fs_event := fevent_of o;
       fs_result := fresult_of out; fs_disp_woken := dw; fs_self_woken := sw;
       fs_post := fp_of_vsock cci s' |} = true.
Proof. exact (c17_fin_number_step_ok_vstep cci). Qed.

Theorem c17_fin_number_step_ok_trace :
  forall cfg ops (s : vsock), forallb (c17_fin_number_step_ok cfg) (ftrace cci s ops) = true.
Proof. exact (C17_Step.c17_fin_number_step_ok_trace cci). Qed.

(* (a) SYN-ACK, under syn_pre: the options are those of cfg, 0 <= max_retx, a SYN-ACK counter is in 1..max_retx *)
Theorem c17_synack_ok_step :
  forall cfg (s : vsock) o,
  syn_pre cfg s ->
  let '(s', out, dw, sw) := vstep cci s o in
  c17_synack_ok cfg
    {| fs_now := v_env_now s'; fs_pre := fp_of_vsock cci s; fs_event := fevent_of o;
       fs_result := fresult_of out; fs_disp_woken := dw; fs_self_woken := sw;
       fs_post := fp_of_vsock cci s' |} = true.
Proof. exact (c17_synack_ok_vstep cci). Qed.

(* syn_pre is an invariant: it holds after vsock_new (0 <= max_retx) and is kept by every event *)
Theorem c17_syn_pre_new :
  forall mk cfg (s0 : vsock),
  vsock_new cci mk cfg = Some s0 -> 0 <= vc_max_retx cfg -> syn_pre cfg s0.
Proof. exact (syn_pre_new cci). Qed.

Theorem c17_syn_pre_step :
  forall cfg (s : vsock) o,
  syn_pre cfg s -> let '(s', _, _, _) := vstep cci s o in syn_pre cfg s'.
Proof. exact (syn_pre_vstep_expanded cci). Qed.

Theorem c17_synack_ok_trace :
  forall mk cfg (s0 : vsock) ops,
  vsock_new cci mk cfg = Some s0 -> 0 <= vc_max_retx cfg ->
  forallb (c17_synack_ok cfg) (ftrace cci s0 ops) = true.
Proof. exact (C17_Step.c17_synack_ok_trace cci). Qed.

(* (c) FIN only after all data.  c17_fin_after_data_ok AS WRITTEN IS FALSE of the model (see
   c17_fin_after_data_ok_refuted below).  It holds of every step unless the dispatcher's channel is closed AND
   the poll reports a transport error, given the monitored bound 0 <= seg_len_bytes <= tx_len of the
   fingerprint after the step (c17_seg_bounds) *)
Theorem c17_fin_after_data_ok_step_gen :
  forall cfg (s : vsock) o,
  let '(s', out, dw, sw) := vstep cci s o in
  let st := {| fs_now := v_env_now s'; fs_pre := fp_of_vsock cci s; fs_event := fevent_of o;
               fs_result := fresult_of out; fs_disp_woken := dw; fs_self_woken := sw;
               fs_post := fp_of_vsock cci s' |} in
  c17_seg_bounds (fs_post st) = true ->
  v_inbox_closed s = false \/ c17_not_err_send (fs_result st) = true ->
  c17_fin_after_data_ok cfg st = true.
Proof. exact (c17_fin_after_data_ok_vstep_gen cci). Qed.

(* the same with the guard evaluated on the step alone (bound on the post fingerprint, result not ErrSend):
   c17_fin_after_data_guarded cfg st = if guard st then c17_fin_after_data_ok cfg st else true *)
Theorem c17_fin_after_data_guarded_step :
  forall cfg (s : vsock) o,
  let '(s', out, dw, sw) := vstep cci s o in
  c17_fin_after_data_guarded cfg
    {| fs_now := v_env_now s'; fs_pre := fp_of_vsock cci s; fs_event := fevent_of o;
       fs_result := fresult_of out; fs_disp_woken := dw; fs_self_woken := sw;
       fs_post := fp_of_vsock cci s' |} = true.
Proof. exact (c17_fin_after_data_guarded_vstep cci). Qed.

Theorem c17_fin_after_data_guarded_trace :
  forall cfg ops (s : vsock), forallb (c17_fin_after_data_guarded cfg) (ftrace cci s ops) = true.
Proof. exact (C17_Step.c17_fin_after_data_guarded_trace cci). Qed.

(* while the dispatcher's channel is open (the trace has no VoCloseInbox) only the bound is needed *)
Theorem c17_fin_after_data_open_trace :
  forall cfg ops (s : vsock),
  v_inbox_closed s = false -> Forall not_close_inbox ops ->
  forallb (c17_fin_after_data_bounded cfg) (ftrace cci s ops) = true.
Proof. exact (C17_Step.c17_fin_after_data_open_trace cci). Qed.

Theorem c17_vsock_new_inbox_open :
  forall mk cfg (s0 : vsock), vsock_new cci mk cfg = Some s0 -> v_inbox_closed s0 = false.
Proof. exact (vsock_new_inbox_open cci). Qed.

(* (c) on the model itself: a poll that ends in FinWait1 f started there, or closed on its own initiative with
   the send buffer fully segmented and every segment sent, or the channel was closed and the FIN could not be sent *)
Theorem c17_poll_fin_after_data :
  forall (s s' : vsock) r,
  poll cci s = (s', r) ->
  forall f, v_state s' = FinWait1 f ->
    v_state s = FinWait1 f \/ FAD s' \/ (v_inbox_closed s = true /\ r = PollReadyErr ErrSend).
Proof. exact (poll_FAD cci). Qed.

(* (e) trace level: a RESET delivered alone past the handshake ends the connection in the very next poll
   (c17_reset_trace_ok = reset_scan from Some []), along every trace from vsock_new *)
Theorem c17_reset_trace_ok_trace :
  forall mk cfg (s0 : vsock) ops,
  vsock_new cci mk cfg = Some s0 -> c17_reset_trace_ok cfg (ftrace cci s0 ops) = true.
Proof. exact (C17_Step.c17_reset_trace_ok_trace cci). Qed.

(* the same from any state with an empty, open inbox *)
Theorem c17_reset_trace_ok_trace_pre :
  forall cfg ops (s : vsock),
  v_inbox s = [] -> v_inbox_closed s = false -> c17_reset_trace_ok cfg (ftrace cci s ops) = true.
Proof. exact (C17_Step.c17_reset_trace_ok_trace_pre cci). Qed.

(* (e) what the walk rests on: a non-acknowledging reset at the head of the inbox is reported at once with
   nothing on the wire (no liveness hypothesis on the receive half, unlike c17_reset) *)
Theorem c17_reset_err_poll_out :
  forall (s : vsock) script m rest,
  past_handshake (v_state s) = true -> immediate_ack_to_transmit s = false ->
  v_inbox s = m :: rest -> ch_type (m_hdr m) = ST_RESET ->
  (forall f r, v_state s = LastAck f r -> ch_ack (m_hdr m) <> f) ->
  exists s', poll cci (set_sends s script) = (s', PollReadyErr ErrStResetReceived) /\ v_out s' = [].
Proof. exact (reset_err_poll_out cci). Qed.

(* (e) a reset that acknowledges our FIN in LastAck leaves the connection Closed when the poll returns *)
Theorem c17_reset_ack_poll :
  forall (s : vsock) script m rest f r0 s' r,
  immediate_ack_to_transmit s = false ->
  v_inbox s = m :: rest -> ch_type (m_hdr m) = ST_RESET ->
  v_state s = LastAck f r0 -> ch_ack (m_hdr m) = f ->
  poll cci (set_sends s script) = (s', r) -> r = PollPanic \/ v_state s' = Closed.
Proof. exact (reset_ack_poll cci). Qed.

(* a poll that returns Pending with a writable transport has drained the inbox and is not closed *)
Theorem c17_poll_pending_drained :
  forall (s s' : vsock),
  poll cci s = (s', PollPending) -> v_transport_pending s' = false -> v_inbox s' = [].
Proof. exact (poll_pending_drained cci). Qed.

Theorem c17_poll_pending_not_closed :
  forall (s s' : vsock),
  poll cci s = (s', PollPending) -> v_transport_pending s' = false ->
  state_is_closed (v_state s') (o_wait_for_last_ack (v_opts s')) = false.
Proof. exact (poll_pending_not_closed cci). Qed.

(* (c) the bound is NOT an assumption: 0 <= segmented bytes <= buffer length (with the segment-table and
   segment-size invariants, LB 0) holds after vsock_new on a valid configuration and is kept by every event *)
Theorem c17_lb_new :
  forall mk cfg (s0 : vsock),
  C10_Pred.vconfig_ok cfg = true -> vsock_new cci mk cfg = Some s0 -> C17_StepLemmas.LB 0 s0.
Proof. exact (C17_StepLemmas.vsock_new_LB cci). Qed.

Theorem c17_lb_step :
  forall (s : vsock) o,
  C17_StepLemmas.LB 0 s -> let '(s', _, _, _) := vstep cci s o in C17_StepLemmas.LB 0 s'.
Proof. exact (LB_vstep_expanded cci). Qed.

Theorem c17_seg_bounds_trace :
  forall mk cfg (s0 : vsock) ops,
  C10_Pred.vconfig_ok cfg = true -> vsock_new cci mk cfg = Some s0 ->
  forallb (fun st => c17_seg_bounds (fs_post st)) (ftrace cci s0 ops) = true.
Proof. exact (C17_Step.c17_seg_bounds_trace cci). Qed.

(* (c) hence, for every connection built from a valid configuration: c17_fin_after_data_ok holds of every step
   unless the channel is closed and the poll reports a transport error ... *)
Theorem c17_fin_after_data_ok_step_inv :
  forall cfg (s : vsock) o,
  C17_StepLemmas.LB 0 s ->
  let '(s', out, dw, sw) := vstep cci s o in
  let st := {| fs_now := v_env_now s'; fs_pre := fp_of_vsock cci s; fs_event := fevent_of o;
               fs_result := fresult_of out; fs_disp_woken := dw; fs_self_woken := sw;
               fs_post := fp_of_vsock cci s' |} in
  v_inbox_closed s = false \/ c17_not_err_send (fs_result st) = true ->
  c17_fin_after_data_ok cfg st = true.
Proof. exact (c17_fin_after_data_ok_vstep_inv cci). Qed.

(* ... along every trace, for the steps that do not report a transport error
   (c17_fin_after_data_noerr cfg st = if c17_not_err_send (fs_result st) then c17_fin_after_data_ok cfg st else true) ... *)
Theorem c17_fin_after_data_noerr_trace :
  forall mk cfg (s0 : vsock) ops,
  C10_Pred.vconfig_ok cfg = true -> vsock_new cci mk cfg = Some s0 ->
  forallb (c17_fin_after_data_noerr cfg) (ftrace cci s0 ops) = true.
Proof. exact (C17_Step.c17_fin_after_data_noerr_trace cci). Qed.

(* ... and the predicate exactly as written along every trace without VoCloseInbox *)
Theorem c17_fin_after_data_ok_open_trace :
  forall mk cfg (s0 : vsock) ops,
  C10_Pred.vconfig_ok cfg = true -> vsock_new cci mk cfg = Some s0 -> Forall not_close_inbox ops ->
  forallb (c17_fin_after_data_ok cfg) (ftrace cci s0 ops) = true.
Proof. exact (C17_Step.c17_fin_after_data_ok_open_trace cci). Qed.

End StepLevel.

(* counterexample: c17_fin_after_data_ok is false of the model (channel closed, FIN refused by the transport) *)
Theorem c17_fin_after_data_ok_refuted :
  exists cfg ops s0,
    vsock_new (fixed_cc 4096) (fun _ _ => tt) cfg = Some s0 /\
    forallb (c17_fin_after_data_ok cfg) (ftrace (fixed_cc 4096) s0 ops) = false.
Proof. exact C17_Step.c17_fin_after_data_ok_refuted. Qed.

(* the shape of that counterexample: Established -> FinWait1 with PollReadyErr ErrSend, nothing emitted,
   100 bytes in the buffer, none segmented; the monitored bound holds in every step of it *)
Theorem c17_fin_after_data_refuted_shape : fad_refuted_b = true.
Proof. exact C17_Step.c17_fin_after_data_refuted_shape. Qed.

(* the guard is met by a reachable step that does close on own initiative *)
Theorem c17_fin_after_data_guard_satisfiable : fad_guard_witness_b = true.
Proof. exact C17_Step.c17_fin_after_data_guard_satisfiable. Qed.

(* c17_synack_ok needs 0 <= max_retx *)
Theorem c17_synack_ok_negative_limit_refuted :
  exists cfg ops s0,
    vsock_new (fixed_cc 4096) (fun _ _ => tt) cfg = Some s0 /\ vc_max_retx cfg < 0 /\
    forallb (c17_synack_ok cfg) (ftrace (fixed_cc 4096) s0 ops) = false.
Proof. exact C17_Step.c17_synack_ok_negative_limit_refuted. Qed.

(* an incoming connection goes through SynAckSent 1, 2 and fails with the exhaustion error (max_retx = 2) *)
Theorem c17_synack_handshake_reachable : synack_witness_b = true.
Proof. exact C17_Step.c17_synack_handshake_reachable. Qed.

Print Assumptions c17_reset_ok_step.
Print Assumptions c17_reset_ok_trace.
Print Assumptions c17_poll_reset.
Print Assumptions c17_poll_no_reset_pkt.
Print Assumptions c17_fin_number_step_ok_step.
Print Assumptions c17_fin_number_step_ok_trace.
Print Assumptions c17_synack_ok_step.
Print Assumptions c17_syn_pre_new.
Print Assumptions c17_syn_pre_step.
Print Assumptions c17_synack_ok_trace.
Print Assumptions c17_fin_after_data_ok_step_gen.
Print Assumptions c17_fin_after_data_guarded_step.
Print Assumptions c17_fin_after_data_guarded_trace.
Print Assumptions c17_fin_after_data_open_trace.
Print Assumptions c17_vsock_new_inbox_open.
Print Assumptions c17_poll_fin_after_data.
Print Assumptions c17_fin_after_data_ok_refuted.
Print Assumptions c17_fin_after_data_refuted_shape.
Print Assumptions c17_fin_after_data_guard_satisfiable.
Print Assumptions c17_synack_ok_negative_limit_refuted.
Print Assumptions c17_synack_handshake_reachable.
Print Assumptions c17_reset_trace_ok_trace.
Print Assumptions c17_reset_trace_ok_trace_pre.
Print Assumptions c17_reset_err_poll_out.
Print Assumptions c17_reset_ack_poll.
Print Assumptions c17_poll_pending_drained.
Print Assumptions c17_poll_pending_not_closed.
Print Assumptions c17_lb_new.
Print Assumptions c17_lb_step.
Print Assumptions c17_seg_bounds_trace.
Print Assumptions c17_fin_after_data_ok_step_inv.
Print Assumptions c17_fin_after_data_noerr_trace.
Print Assumptions c17_fin_after_data_ok_open_trace.

(* ================================================================== trace level: the peer's FIN (d) and the
   numbering of our own FIN (c) against every trace of the model (proofs in Conn/C17_Trace.v; the corrected
   and guarded predicates in Conn/C17_Pred2.v) *)
From Utp Require Import Conn.C17_Pred2 Conn.C17_TraceLemmas Conn.C17_Trace.

Section TraceLevel.
Context {CC : Type} (cci : cc_iface CC).
Notation vsock := (vsock CC).

(* (d) c17_peer_fin_ok AS WRITTEN IS FALSE of the model (c17_peer_fin_ok_refuted below).  The corrected form
   c17_peer_fin_ok2 - out-of-sequence FINs: last_consumed and the state kept, the number of slots held out of
   order kept, bytes only moved from the reassembly queue to the reader's queue (nothing moves when nothing
   was waiting); the FIN in sequence in Established: consumed, LastAck numbered with seq_nr, acknowledged
   in the same poll unless the transport refused; a panicking poll not judged - holds along every trace from
   vsock_new on a valid configuration *)
Theorem c17_peer_fin_ok2_trace :
  forall mk c cfg (s0 : vsock) ops,
  C10_Pred.vconfig_ok c = true -> vsock_new cci mk c = Some s0 ->
  c17_peer_fin_ok2 cfg (ftrace cci s0 ops) = true.
Proof. exact (C17_Trace.c17_peer_fin_ok2_trace cci). Qed.

(* (d) and the predicate as written, under the monitored guard: no poll of the trace panics and no poll starts
   with consumed slots waiting in the reassembly queue (c17_peer_fin_guarded cfg tr =
   if forallb c17_peer_fin_guard_step tr then c17_peer_fin_ok cfg tr else true) *)
Theorem c17_peer_fin_guarded_trace :
  forall mk c cfg (s0 : vsock) ops,
  C10_Pred.vconfig_ok c = true -> vsock_new cci mk c = Some s0 ->
  c17_peer_fin_guarded cfg (ftrace cci s0 ops) = true.
Proof. exact (C17_Trace.c17_peer_fin_guarded_trace cci). Qed.

(* (d) what the walk rests on.  A poll that finds only out-of-sequence FINs in the inbox of a data state *)
Theorem c17_peer_fin_oos_poll :
  forall (s : vsock) sc s' r,
  is_data_state (v_state s) = true -> v_inbox_closed s = false ->
  forallb (oos_fin (v_last_consumed s)) (map m_hdr (v_inbox s)) = true ->
  poll cci (VSockRec.set_sends s sc) = (s', r) ->
  is_data_state (v_state s') = true /\ v_inbox_closed s' = false /\
  v_last_consumed s' = v_last_consumed s /\
  forallb (oos_fin (v_last_consumed s)) (map m_hdr (v_inbox s')) = true /\
  rxrel (v_rx s) (v_rx s').
Proof. exact (peer_fin_oos_poll cci). Qed.

(* (d) a poll that finds exactly the in-sequence FIN in the inbox of Established, no immediate ACK owed: unless
   it panics it ends with the FIN consumed, in LastAck (our FIN numbered with the seq_nr of before) or Closed,
   and either the forced ACK is still owed or a datagram acknowledging the FIN went out *)
Theorem c17_peer_fin_inseq_poll :
  forall (s : vsock) sc m s' r,
  v_state s = Established -> v_inbox s = [m] -> v_inbox_closed s = false ->
  immediate_ack_to_transmit s = false ->
  ch_type (m_hdr m) = ST_FIN -> in_seq s (m_hdr m) ->
  poll cci (VSockRec.set_sends s sc) = (s', r) -> r <> PollPanic ->
  v_last_consumed s' = ch_seq (m_hdr m) /\
  (v_state s' = LastAck (v_seq_nr s) (ch_seq (m_hdr m)) \/ v_state s' = Closed) /\
  v_inbox s' = [] /\ v_inbox_closed s' = false /\
  (v_cbu s' = USIZE_MAX \/ exists p, In p (v_out s') /\ ch_ack (p_hdr p) = ch_seq (m_hdr m)).
Proof. exact (peer_fin_inseq_poll cci). Qed.

(* the relation every function of a poll other than the processing of one message satisfies, for a whole
   poll: an invariant kept by RX steps, by process_incoming_message and by the channel-closed arm is kept by poll *)
Theorem c17_poll_inv :
  forall (Inv : vsock -> Prop),
  (forall s s', RX s s' -> Inv s -> Inv s') ->
  (forall s m rest, Inv s -> v_inbox s = m :: rest ->
     match process_incoming_message cci (set_inbox s rest) m with
     | SOk s' _ | SErr s' _ => Inv s'
     | SPanic => True
     end) ->
  (forall s, Inv s -> v_inbox_closed s = true -> Inv (set_state s Closed)) ->
  forall (s s' : vsock) r, poll cci s = (s', r) -> Inv (VSock_Lemmas.poll_init s) -> Inv s'.
Proof. exact (poll_Inv cci). Qed.

End TraceLevel.

(* (d) counterexample: c17_peer_fin_ok is false of the model (a poll flushes what an earlier poll consumed) *)
Theorem c17_peer_fin_ok_refuted :
  exists cfg ops s0,
    C10_Pred.vconfig_ok cfg = true /\
    vsock_new (fixed_cc 4096) (fun _ _ => tt) cfg = Some s0 /\
    c17_peer_fin_ok cfg (ftrace (fixed_cc 4096) s0 ops) = false.
Proof. exact C17_Trace.c17_peer_fin_ok_refuted. Qed.

(* its shape: 1500 bytes consumed but not flushed (reader's queue full), read, then an out-of-sequence FIN:
   the poll moves the 1500 bytes; the corrected predicate holds; the guard of the guarded form fails *)
Theorem c17_peer_fin_refuted_shape : pf_refuted_b = true.
Proof. exact C17_Trace.c17_peer_fin_refuted_shape. Qed.

Theorem c17_peer_fin_guard_satisfiable : pf_guard_b = true.
Proof. exact C17_Trace.c17_peer_fin_guard_satisfiable. Qed.

(* (c) DEFECT D6 (found by the attempt to prove c17_fin_seq_ok, confirmed on the real code, repaired in /repo
   4d912d4 + f62adfc): an MTU probe given up after our FIN was numbered (expired, or refused with EMSGSIZE on
   its retransmission by the new-data loop) was cut again and its second part took the FIN's sequence number -
   an ST_DATA numbered like the FIN on the wire, or (default options) the last bytes never sent and Ready(Ok).
   The four former witnesses (both forms, Nagle off / default options) are regressions: c17_fin_seq_ok, the new
   step predicate c17_fin_covers_data_ok and every other predicate of C17 hold on the same op lists, and no
   ST_DATA carries the number of an ST_FIN *)
Theorem c17_fin_seq_regression : d6_regression_b = true.
Proof. exact C17_Trace.c17_fin_seq_regression. Qed.

Theorem c17_fin_covers_data_regression : d6_loss_regression_b = true.
Proof. exact C17_Trace.c17_fin_covers_data_regression. Qed.

Print Assumptions c17_peer_fin_ok2_trace.
Print Assumptions c17_peer_fin_guarded_trace.
Print Assumptions c17_peer_fin_oos_poll.
Print Assumptions c17_peer_fin_inseq_poll.
Print Assumptions c17_poll_inv.
Print Assumptions c17_peer_fin_ok_refuted.
Print Assumptions c17_peer_fin_refuted_shape.
Print Assumptions c17_peer_fin_guard_satisfiable.
Print Assumptions c17_fin_seq_regression.
Print Assumptions c17_fin_covers_data_regression.

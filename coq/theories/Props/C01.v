(* C01 — byte-stream integrity: what an application has read is at every moment a prefix of what
   the peer application wrote.  Only statements + exact.

   Objects.  DP = the data-path system of Pair/DP.v: the sender's ring and segment table, a bag of
   packets, the receiver and its 16-bit ack counter, composed with the glue of Conn/VSock.v, under
   op lists in ANY order with ANY arguments (arbitrary ack numbers / SACKs, any packet of the bag
   any number of times = loss, duplication, reordering, delay; any write / read chunking).
   Guards: d_clean (KF1: no probe is popped whose index the receiver holds, every accepted packet
   matches the current assignment) and d_wrap (16-bit: an accepted packet lies within
   [next_expected - (2^16 - capacity), next_expected + 2^16)); both are computed by dp_step.

   T1  c01_dp_packet_bytes, c01_dp_assignment_stable, c01_dp_send_matches  (no guard needed),
       c01_send_data_payload (the same at the connection model's send_data)
   T2  c01_rx_accept, c01_rx_reject_unchanged, c01_rx_read_in_order, c01_data_packet_glue
   T3  c01_dp_prefix (all op lists, under the guards), c01_dp_prefix_unguarded_refuted (KF1),
       c01_prefix_sys_partial (pair states that ARE data-path states; the refinement
       poll_refines_dp of the whole poll is NOT proved), c01_pair_unguarded_refuted (KF1 on the
       pair model, recognised by the classifier c01_kf1_class), c01_pair_channel_closed_regression
       (D17, repaired: the former witness, a retransmission after the message channel was closed,
       now satisfies c01_pair_ok and is not in the class c01_d17_class). *)
From Utp Require Import Base.Prelude Wire.SeqNr Wire.Header Rtt.Rtte Mtu.SegSizes Rx.Rx Rx.Rx_Proofs Rx.Rx_Slots
  Tx.Ring Tx.Ring_Proofs Tx.Segments Tx.Segments_Proofs Conn.Recovery Conn.Msg Conn.VSockRec Conn.VSock
  Conn.VSockRun Conn.VObs Conn.C10_Pred Conn.VSock_Inv Pair.Pair Pair.DP Pair.DP_Lemmas Pair.DP_Proofs
  Pair.DP_RxProofs Pair.DP_T1 Pair.DP_Witness Pair.Pair_Proofs Conn.VSock_LemmasData.

(* ---- T1 (sender) ---- *)
Theorem c01_dp_packet_bytes : forall (isn ti max_rx max_in : Z) (ops : list dop),
  0 <= isn < M16 -> 0 < ti ->
  let d := dp_run (dp_init isn ti max_rx max_in) ops in
  Forall (fun p : dpkt =>
            k_bytes p = slice (g_written (d_tx d)) (k_off p) (lenz (k_bytes p)) /\
            k_seq p = (isn + k_idx p) mod M16 /\ k_bytes p <> [] /\
            0 <= k_off p /\ k_off p + lenz (k_bytes p) <= lenz (g_written (d_tx d))) (d_net d) /\
  atiled 0 (d_asg d) /\ asum (d_asg d) <= lenz (g_written (d_tx d)).
Proof. exact dp_packets_bytes. Qed.

Theorem c01_dp_assignment_stable : forall (d : dp) (o : dop) (k : nat) (e : Z * Z),
  nth_error (d_asg d) k = Some e ->
  nth_error (d_asg (dp_step d o)) k = Some e \/ (S k = length (d_asg d) /\ is_pop o = true).
Proof. exact dp_asg_stable. Qed.

Theorem c01_dp_send_matches : forall (isn ti : Z) (d : dp) (i : nat) (now : Z) (f : for_sending),
  dp_tx_inv isn ti d -> nth_error (iter_for_sending (d_segs d) None) i = Some f ->
  (fs_payload_offset f <? 0) || (lenz (ring (d_tx d)) <? fs_payload_offset f)
    || (lenz (ring (d_tx d)) <? fs_payload_offset f + sg_size (fs_seg f)) = false /\
  exists p : dpkt, d_net (dp_step d (DSend i now)) = d_net d ++ [p] /\ asg_matches (d_asg d) p = true /\
            k_seq p = fs_seq f /\ k_off p = sg_abs (fs_seg f) /\ k_idx p = d_una d + Z.of_nat (fs_idx f).
Proof. exact dp_send_matches. Qed.

Theorem c01_dp_sender_invariant : forall (isn ti max_rx max_in : Z) (ops : list dop),
  0 <= isn < M16 -> 0 < ti -> dp_tx_inv isn ti (dp_run (dp_init isn ti max_rx max_in) ops).
Proof. exact dp_sender_invariant. Qed.

Theorem c01_send_data_payload : forall (CC : Type) (ti tm : Z) (s : vsock CC) (h : chdr) (f : for_sending)
    (s' : vsock CC),
  tx_inv ti tm (v_tx s) -> g_removed (v_tx s) = ss_removed (v_segs s) ->
  fs_payload_offset f = sg_abs (fs_seg f) - ss_removed (v_segs s) ->
  send_data s h f = SOk s' SdSent ->
  exists hd : chdr,
    v_out s' = {| p_hdr := hd;
                  p_payload := slice (g_written (v_tx s)) (sg_abs (fs_seg f)) (sg_size (fs_seg f)) |} :: v_out s /\
    ch_type hd = ST_DATA /\ ch_seq hd = fs_seq f /\ v_tx s' = v_tx s /\ v_rx s' = v_rx s.
Proof. exact @send_data_payload. Qed.

Theorem c01_send_items_qualify : forall (CC : Type) (ti tm : Z) (s : vsock CC) (st : option Z) (f : for_sending),
  vs_inv_p ti tm 0 s -> v_state s <> Closed -> In f (iter_for_sending (v_segs s) st) ->
  tx_inv ti tm (v_tx s) /\ g_removed (v_tx s) = ss_removed (v_segs s) /\
  fs_payload_offset f = sg_abs (fs_seg f) - ss_removed (v_segs s).
Proof. exact @iter_items_qualify. Qed.

(* ---- T2 (receiver) ---- *)
Theorem c01_rx_accept : forall (s : rx) (p : list Z) (off : Z) (s' : rx) (r : add_result),
  rx_inv s -> 0 <= off -> ooq_add_remove s KData p off = (s', r) ->
  match r with
  | ArConsumed n b =>
      let e := Z.to_nat (off + filled_front s) in
      let ffn := Z.to_nat (filled_front s) in
      (e < length (ooq_data s))%nat /\
      slot_is_default (nth e (ooq_data s) slot_default) = true /\ p <> [] /\
      ooq_data s' = set_nth (ooq_data s) e (SPayload p) /\
      g_base s' = g_base s /\ q s' = q s /\ g_read s' = g_read s /\
      filled_front s' = filled_front s + n /\ 0 <= n /\
      n = twf_n (skipn ffn (ooq_data s')) /\
      stream s' = stream s ++ slots_bytes (firstn (Z.to_nat n) (skipn ffn (ooq_data s')))
  | _ => s' = s
  end.
Proof. exact ooq_add_data. Qed.

Theorem c01_rx_reject_unchanged : forall (r : rx) (k : msg_kind) (p : list Z) (off : Z) (r' : rx)
    (ar : user_add_result) (w : list wake),
  rx_inv r -> 0 <= off -> rx_add_remove r k p off = (r', ar, w) -> k = KData ->
  (forall n b : Z, ar <> UarOk (ArConsumed n b)) -> r' = r.
Proof. exact deliver_rejected. Qed.

Theorem c01_rx_read_in_order : forall (s : rx) (n : Z) (s' : rx) (r : read_result) (w : list wake),
  rx_inv s -> no_qerror s -> rx_read s n = (s', r, w) ->
  rx_inv s' /\ no_qerror s' /\ stream s' = stream s /\ consumed s' = consumed s /\
  ooq_data s' = ooq_data s /\ g_base s' = g_base s /\ filled_front s' = filled_front s /\
  exists bytes : list Z, g_read s' = g_read s ++ bytes.
Proof. exact rx_read_no_error. Qed.

(* T2 lifted through process_incoming_message: an ST_DATA message touches the receiver exactly as
   the data-path op DDeliver does (same offset computation, same add_remove, same counter update) *)
Theorem c01_data_packet_glue : forall (CC : Type) (cci : cc_iface CC) (s : vsock CC) (m : msg) (s' : vsock CC)
    (res : on_ack_result),
  ch_type (m_hdr m) = ST_DATA ->
  process_incoming_message cci s m = SOk s' res ->
  (v_rx s' = v_rx s /\ v_last_consumed s' = v_last_consumed s) \/
  (let off := seq_sub (ch_seq (m_hdr m)) (wadd16 (v_last_consumed s) 1) in
   0 <= off /\
   exists (rx1 : rx) (ar : add_result) (w : list wake),
     rx_add_remove (v_rx s) KData (m_payload m) off = (rx1, UarOk ar, w) /\
     v_rx s' = rx1 /\
     v_last_consumed s' = match ar with
                          | ArConsumed n _ => wadd16 (v_last_consumed s) (n mod M16)
                          | _ => v_last_consumed s
                          end).
Proof. exact @pim_data_glue. Qed.

(* ---- T3 (composition) ---- *)
Theorem c01_dp_prefix : forall (isn ti max_rx max_in : Z) (ops : list dop),
  0 <= isn < M16 -> 0 < ti -> 0 < max_rx -> 0 < max_in ->
  let d := dp_run (dp_init isn ti max_rx max_in) ops in
  dp_guards d = true -> is_prefix (g_read (d_rx d)) (g_written (d_tx d)).
Proof. exact dp_prefix. Qed.

Theorem c01_dp_receiver_invariant : forall (isn ti max_rx max_in : Z) (ops : list dop),
  0 <= isn < M16 -> 0 < ti -> 0 < max_rx -> 0 < max_in ->
  dp_guards (dp_run (dp_init isn ti max_rx max_in) ops) = true ->
  dp_rx_inv isn (dp_run (dp_init isn ti max_rx max_in) ops).
Proof. exact dp_receiver_invariant. Qed.

Theorem c01_dp_guards_nonvacuous :
  let d := dp_run (dp_init 65535 4096 100000 1000) clean_ops in
  dp_guards d = true /\ g_read (d_rx d) = firstn 1919 (wpattern 3000) /\
  dp_prefix_ok d = true /\ d_una d = 2 /\ g_removed (d_tx d) = 1519 /\ d_lc d = 1.
Proof. exact dp_clean_run. Qed.

Theorem c01_dp_prefix_unguarded_refuted :
  exists (isn ti max_rx max_in : Z) (ops : list dop),
    0 <= isn < M16 /\ 0 < ti /\ 0 < max_rx /\ 0 < max_in /\
    let d := dp_run (dp_init isn ti max_rx max_in) ops in
    d_wrap d = true /\ d_clean d = false /\ dp_prefix_ok d = false /\
    Z.of_nat (length (g_read (d_rx d))) = 1982.
Proof. exact dp_prefix_unguarded_refuted. Qed.

Theorem c01_prefix_sys_partial : forall (CC : Type) (a b : vsock CC) (isn ti max_rx max_in : Z) (ops : list dop),
  0 <= isn < M16 -> 0 < ti -> 0 < max_rx -> 0 < max_in ->
  let d := dp_run (dp_init isn ti max_rx max_in) ops in
  dp_view a b d -> dp_guards d = true ->
  is_prefix (g_read (v_rx b)) (g_written (v_tx a)).
Proof. exact @c01_prefix_of_dp_view. Qed.

Theorem c01_pair_unguarded_refuted :
  exists (w : Z) (cfg : pconfig) (ops : list pop) (s0 : pair (CC := unit)),
    pair_new (fixed_cc w) (fun _ _ => tt) cfg = Some s0 /\
    let tr := ptrace (fixed_cc w) s0 ops in
    let evs := pevents (fixed_cc w) s0 ops in
    c01_pair_ok (zip_obs ops tr) = false /\ c01_kf1_class evs = true /\
    c01_pair_guarded evs (zip_obs ops tr) = true /\
    ha_len (p_rb (prun (fixed_cc w) s0 ops)) = 2047 /\ ha_len (p_wa (prun (fixed_cc w) s0 ops)) = 1980.
Proof. exact Pair_Proofs.c01_pair_unguarded_refuted. Qed.

(* regression for D17 (repaired): the op list that used to make A retransmit from the un-truncated
   ring after its message channel was closed now satisfies the predicate and is in no class *)
Theorem c01_pair_channel_closed_regression :
  exists s0 : pair (CC := unit),
    pair_new (fixed_cc 100000) (fun _ _ => tt) d17_cfg = Some s0 /\
    let tr := ptrace (fixed_cc 100000) s0 d17_pair_ops in
    let evs := pevents (fixed_cc 100000) s0 d17_pair_ops in
    c01_pair_ok (zip_obs d17_pair_ops tr) = true /\ c01_kf1_class evs = false /\ c01_d17_class evs = false /\
    In (KeClose SA) evs /\
    ha_len (p_rb (prun (fixed_cc 100000) s0 d17_pair_ops)) = 528 /\
    ha_len (p_wa (prun (fixed_cc 100000) s0 d17_pair_ops)) = 3000.
Proof. exact Pair_Proofs.c01_pair_channel_closed_regression. Qed.

Print Assumptions c01_dp_packet_bytes.
Print Assumptions c01_dp_prefix.
Print Assumptions c01_dp_prefix_unguarded_refuted.
Print Assumptions c01_prefix_sys_partial.
Print Assumptions c01_pair_unguarded_refuted.
Print Assumptions c01_pair_channel_closed_regression.
Print Assumptions c01_send_data_payload.

(* ==================================================================================================
   The lift to the pair model (two connections + network): every step of a pair trace refines a list
   of data-path ops, for each direction (writer sd -> reader other sd).
     c01_poll_is_data_events        what one VirtualSocket::poll does to the ring, the segment table,
                                    the receiver, the ack counter and the data packets emitted is a list
                                    of data events (Pair/Pair_Refine.v) applied to the data view;
                                    deliveries come from messages of the inbox; an error event only
                                    when the poll returned Ready
     c01_sender_events_are_dp_ops / c01_receiver_events_are_dp_ops
                                    data events are DP ops (sender side: all of them; receiver side:
                                    all but the acceptance of the peer's FIN and the error queued at
                                    death, for which DP has no op)
     c01_pair_step_refines_dp       every pair op (clock, hole, application op and poll of either
                                    endpoint, deliver / drop / duplicate) maps to DP ops re-establishing
                                    the relation psim, while the direction is LIVE after the step
     c01_pair_init_refines_dp       pair_new is dp_init, for both directions
     c01_pair_trace_refines_dp      all op lists
     c01_prefix_pair_trace_partial  what the reader has read is a prefix of what the writer wrote, on
                                    every pair trace from pair_new along which the direction stays live,
                                    whenever the matching data-path run is guarded (d_clean: KF1,
                                    d_wrap: 16-bit).  PARTIAL: (1) states after the reader accepted the
                                    writer's FIN, or after the reader's future is gone, are not covered
                                    (DP has no end-of-stream / error marker); (2) the guards are those of
                                    the data-path run, not yet derived from the classifier c01_kf1_class
                                    of the trace.
     c01_live_nonvacuous            the hypotheses hold on a recorded 3000-byte transfer. *)
From Utp Require Import Pair.Pair_Refine Pair.Pair_RefineWalk Pair.Pair_RefineWalkPoll Pair.Pair_RefineSim
  Pair.Pair_RefinePair Pair.Pair_RefineTrace Pair.Pair_RefineWitness.

Theorem c01_poll_is_data_events : forall (CC : Type) (cci : cc_iface CC) (s : vsock CC),
  ss_ok (v_ss s) -> poll_post (v_inbox s) (poll_reset s) (poll cci s).
Proof. exact @poll_ev. Qed.

Theorem c01_sender_events_are_dp_ops : forall (isn ti : Z) (evs : list dev) (st : dst) (d : dp),
  dp_tx_inv isn ti d -> wrel st d ->
  exists dops : list dop, wrel (drun st evs) (dp_run d dops) /\ wframe d (dp_run d dops).
Proof. exact wsim_run. Qed.

Theorem c01_receiver_events_are_dp_ops : forall (evs : list dev) (st : dst) (d : dp),
  rrel st d ->
  Forall (fun e : dev => forall (seq : Z) (pl : list Z), e = EvData seq pl -> in_net d (seq, pl)) evs ->
  existsb is_fin_ev evs = false -> existsb is_err_ev evs = false ->
  exists dops : list dop, rrel (drun st evs) (dp_run d dops) /\ rframe d (dp_run d dops).
Proof. exact rsim_run. Qed.

Theorem c01_pair_step_refines_dp : forall (CC : Type) (cci : cc_iface CC) (isn ti : Z) (sd : side)
    (s : pair (CC := CC)) (d : dp) (o : pop),
  psim isn ti sd s d -> dir_live sd (fst (pstep cci s o)) = true ->
  exists dops : list dop, psim isn ti sd (fst (pstep cci s o)) (dp_run d dops).
Proof. exact @pstep_refines. Qed.

Theorem c01_pair_init_refines_dp : forall (CC : Type) (cci : cc_iface CC) (mk_cc : Z -> Z -> CC) (c : pconfig)
    (s0 : pair (CC := CC)) (sd : side),
  pconfig_ok c = true -> pair_new cci mk_cc c = Some s0 ->
  psim (dir_isn sd c) (pc_tx_init c) sd s0 (dir_init sd c).
Proof. exact @pair_new_psim. Qed.

Theorem c01_pair_trace_refines_dp : forall (CC : Type) (cci : cc_iface CC) (isn ti : Z) (sd : side) (ops : list pop)
    (s : pair (CC := CC)) (d : dp),
  psim isn ti sd s d -> live_run cci sd s ops = true ->
  exists dops : list dop, psim isn ti sd (prun cci s ops) (dp_run d dops).
Proof. exact @pair_trace_refines. Qed.

Theorem c01_prefix_pair_trace_partial : forall (CC : Type) (cci : cc_iface CC) (mk_cc : Z -> Z -> CC) (c : pconfig)
    (s0 : pair (CC := CC)) (sd : side) (ops : list pop),
  pconfig_ok c = true -> pair_new cci mk_cc c = Some s0 -> live_run cci sd s0 ops = true ->
  exists dops : list dop,
    let d := dp_run (dir_init sd c) dops in
    let s := prun cci s0 ops in
    psim (dir_isn sd c) (pc_tx_init c) sd s d /\
    (dp_guards d = true -> is_prefix (g_read (v_rx (ep s (other sd)))) (g_written (v_tx (ep s sd)))).
Proof. exact @pair_trace_prefix. Qed.

Theorem c01_live_nonvacuous :
  exists s0 : pair (CC := unit),
    pair_new (fixed_cc 100000) (fun _ _ => tt) d17_cfg = Some s0 /\
    pconfig_ok d17_cfg = true /\
    live_run (fixed_cc 100000) SA s0 d17_pair_ops = true /\
    ha_len (p_rb (prun (fixed_cc 100000) s0 d17_pair_ops)) = 528 /\
    ha_len (p_wa (prun (fixed_cc 100000) s0 d17_pair_ops)) = 3000.
Proof. exact live_run_nonvacuous. Qed.

Print Assumptions c01_poll_is_data_events.
Print Assumptions c01_sender_events_are_dp_ops.
Print Assumptions c01_receiver_events_are_dp_ops.
Print Assumptions c01_pair_step_refines_dp.
Print Assumptions c01_pair_init_refines_dp.
Print Assumptions c01_pair_trace_refines_dp.
Print Assumptions c01_prefix_pair_trace_partial.
Print Assumptions c01_live_nonvacuous.

(* FALSE of the model: the guarded predicate c01_pair_guarded (prefix property outside the class
   c01_kf1_class) fails on a trace of the KF1 family that the classifier does not recognise: the ACK of a
   delivered MTU probe is delayed (not lost), the probe is popped and re-segmented in a poll whose
   transport answers Pending, and the old ACK then acknowledges the re-segmented, never-sent segment of
   the same sequence number.  No sequence number is emitted with two lengths.  The direction is live, so
   by c01_prefix_pair_trace_partial the matching data-path run is not guarded (d_clean flags the pop). *)
Theorem c01_pair_guarded_refuted :
  exists s0 : pair (CC := unit),
    pair_new (fixed_cc 100000) (fun _ _ => tt) kf1_cfg = Some s0 /\
    pconfig_ok kf1_cfg = true /\
    live_run (fixed_cc 100000) SA s0 kf1_delayed_ack_ops = true /\
    let tr := ptrace (fixed_cc 100000) s0 kf1_delayed_ack_ops in
    let evs := pevents (fixed_cc 100000) s0 kf1_delayed_ack_ops in
    c01_pair_ok (zip_obs kf1_delayed_ack_ops tr) = false /\ c01_kf1_class evs = false /\
    c01_d17_class evs = false /\
    c01_pair_guarded evs (zip_obs kf1_delayed_ack_ops tr) = false /\
    evs = [KeEmit SA 101 528; KeEmit SA 102 991; KeDeliver SA 101 528; KeDeliver SA 102 991;
           KeEmit SA 103 528; KeDeliver SA 103 528] /\
    ha_len (p_rb (prun (fixed_cc 100000) s0 kf1_delayed_ack_ops)) = 2047 /\
    ha_len (p_wa (prun (fixed_cc 100000) s0 kf1_delayed_ack_ops)) = 1980.
Proof. exact Pair_RefineWitness.c01_pair_guarded_refuted. Qed.
Print Assumptions c01_pair_guarded_refuted.

(* The extracted predicate of one direction on every live pair trace: the cumulative (length, hash) of
   what the reader got is, after every op, that of a prefix of what the writer's application wrote,
   whenever the data-path run matching the trace is guarded.  PARTIAL for the same two reasons as
   c01_prefix_pair_trace_partial (live directions only; the guard is that of the data-path run). *)
From Utp Require Import Pair.Pair_RefineObs Pair.C01_Pred2.

Theorem c01_dir_ok_pair_trace_partial : forall (CC : Type) (cci : cc_iface CC) (mk_cc : Z -> Z -> CC) (c : pconfig)
    (s0 : pair (CC := CC)) (sd : side) (ops : list pop),
  pconfig_ok c = true -> pair_new cci mk_cc c = Some s0 -> live_run cci sd s0 ops = true ->
  exists dops : list dop,
    psim (dir_isn sd c) (pc_tx_init c) sd (prun cci s0 ops) (dp_run (dir_init sd c) dops) /\
    (dp_guards (dp_run (dir_init sd c) dops) = true ->
     c01_dir_ok (other sd) (zip_obs ops (ptrace cci s0 ops)) = true).
Proof. exact @pair_trace_dir_ok. Qed.

(* the widened class c01_kf1_class2 (Pair/C01_Pred2.v: a probe popped, seen in the sender's fingerprints,
   and delivered) contains the delayed-ACK trace and the original KF1 trace and not the lossy 3000-byte
   transfer; c01_pair_guarded2 holds on all three *)
Theorem c01_kf1_class2_witnesses :
  (exists s0 : pair (CC := unit),
     pair_new (fixed_cc 100000) (fun _ _ => tt) kf1_cfg = Some s0 /\
     let tr := ptrace (fixed_cc 100000) s0 kf1_delayed_ack_ops in
     let evs := pevents (fixed_cc 100000) s0 kf1_delayed_ack_ops in
     let fps := pair_fps (fixed_cc 100000) s0 tr in
     c01_kf1_class evs = false /\ c01_kf1_popped_dir SA fps evs = true /\ c01_kf1_class2 fps evs = true /\
     pops_of SA fps = [(102, 991)] /\
     c01_pair_guarded2 fps evs (zip_obs kf1_delayed_ack_ops tr) = true) /\
  (exists s0 : pair (CC := unit),
     pair_new (fixed_cc 100000) (fun _ _ => tt) kf1_cfg = Some s0 /\
     let tr := ptrace (fixed_cc 100000) s0 kf1_pair_ops in
     let evs := pevents (fixed_cc 100000) s0 kf1_pair_ops in
     let fps := pair_fps (fixed_cc 100000) s0 tr in
     c01_kf1_class evs = true /\ c01_kf1_popped_dir SA fps evs = true /\ c01_kf1_class2 fps evs = true /\
     c01_pair_guarded2 fps evs (zip_obs kf1_pair_ops tr) = true) /\
  (exists s0 : pair (CC := unit),
     pair_new (fixed_cc 100000) (fun _ _ => tt) d17_cfg = Some s0 /\
     let tr := ptrace (fixed_cc 100000) s0 d17_pair_ops in
     let evs := pevents (fixed_cc 100000) s0 d17_pair_ops in
     let fps := pair_fps (fixed_cc 100000) s0 tr in
     c01_kf1_class2 fps evs = false /\ c01_pair_ok (zip_obs d17_pair_ops tr) = true /\
     c01_pair_guarded2 fps evs (zip_obs d17_pair_ops tr) = true).
Proof. exact Pair_RefineWitness.c01_kf1_class2_witnesses. Qed.

Print Assumptions c01_dir_ok_pair_trace_partial.
Print Assumptions c01_kf1_class2_witnesses.

(* C04 — receiver honesty: acknowledgements and advertised window never overstate.
   Component level (UserRx + read half under every op list). Only statements + exact. *)
From Utp Require Import Base.Prelude Rx.Rx Rx.Rx_Proofs.

(* every reachable state satisfies the accounting invariant; no unwrap/index panic *)
Theorem c04_reachable_inv : forall max_rx max_in ops,
  0 < max_in -> 0 < max_rx -> Forall op_ok ops -> rx_inv (rx_run (rx_build max_rx max_in) ops).
Proof. exact rx_reachable_inv. Qed.

Theorem c04_no_panic : forall ops s,
  rx_inv s -> Forall op_ok ops ->
  Forall (fun ob => is_panic (ob_out ob) = false) (rx_trace s ops).
Proof. exact rx_trace_no_panic. Qed.

Theorem c04_accounting : forall s,
  rx_inv s ->
  0 <= filled_front s <= ooq_len s /\ ooq_len s <= ooq_capacity s /\
  ooq_len s = count_nondefault (ooq_data s) /\
  ooq_len_bytes s = sum_slot_bytes (ooq_data s) /\
  q_len_bytes s = sum_q_bytes (q s) /\ 0 <= q_len_bytes s <= q_capacity s.
Proof. exact accounting. Qed.

(* one step: the ack number (consumed) advances by exactly the returned count, never backwards;
   bytes returned by Read are appended to g_read; the in-order stream only grows by appending *)
Theorem c04_step : forall s o s' out w,
  rx_inv s -> op_ok o -> rx_step s o = (s', out, w) ->
  rx_inv s' /\ is_panic out = false /\
  consumed s' = consumed s + seqs_consumed out /\ 0 <= seqs_consumed out /\
  g_read s' = g_read s ++ bytes_returned out /\
  (is_read_err out = false -> exists ext, stream s' = stream s ++ ext) /\
  q_capacity s' = q_capacity s /\ ooq_capacity s' = ooq_capacity s.
Proof. exact rx_step_spec. Qed.

Theorem c04_ack_monotone : forall ops s,
  rx_inv s -> Forall op_ok ops -> consumed s <= consumed (rx_run s ops).
Proof. exact rx_run_consumed_mono. Qed.

(* the slot right after the acknowledged prefix is a hole, and every slot before it is filled:
   the ack number is the HIGHEST sequence number received and stored in order *)
Theorem c04_ack_is_highest_inorder : forall s,
  rx_inv s -> filled_front s < ooq_capacity s ->
  slot_is_default (nth (Z.to_nat (filled_front s)) (ooq_data s) slot_default) = true.
Proof. exact hole_at_filled_front. Qed.

Theorem c04_front_filled : forall s (i : nat),
  rx_inv s -> Z.of_nat i < filled_front s ->
  slot_is_default (nth i (ooq_data s) slot_default) = false.
Proof. exact front_slots_filled. Qed.

Theorem c04_sack_exact : forall s bits (i : nat),
  selective_ack s = Some bits -> (i < 64)%nat ->
  length bits = 64%nat /\
  nth i bits false =
  negb (slot_is_default (nth (Z.to_nat (filled_front s + 1) + i) (ooq_data s) slot_default)).
Proof. exact sack_exact. Qed.

Theorem c04_sack_none_iff : forall s,
  rx_inv s ->
  (selective_ack s = None <->
   (filled_front s = ooq_len s \/ ooq_capacity s <= filled_front s + 1)).
Proof. exact sack_none_iff. Qed.

Theorem c04_window_le_free : forall s,
  rx_inv s ->
  0 <= remaining_rx_window s <= Z.max 0 (q_capacity s - q_len_bytes s - ooq_len_bytes s).
Proof. exact window_le_free. Qed.

(* nothing acknowledged is discarded: over any run without a queued-error read, the in-order
   stream (bytes already read ++ bytes still held in order) only grows by appending *)
Theorem c04_no_discard : forall ops s,
  rx_inv s -> Forall op_ok ops -> no_read_err (rx_trace s ops) ->
  exists ext, stream (rx_run s ops) = stream s ++ ext.
Proof. exact rx_run_stream_extends. Qed.

Theorem c04_read_prefix_of_stream : forall s, exists rest, stream s = g_read s ++ rest.
Proof. exact g_read_prefix_stream. Qed.

(* the extracted predicate evaluated on implementation traces holds of every model trace *)
Theorem c04_model_trace_ok : forall max_rx max_in ops,
  0 < max_in -> 0 < max_rx -> Forall op_ok ops ->
  c04_ok max_rx max_in (rx_trace (rx_build max_rx max_in) ops) = true.
Proof. exact model_trace_c04_ok. Qed.

Print Assumptions c04_reachable_inv.
Print Assumptions c04_no_panic.
Print Assumptions c04_accounting.
Print Assumptions c04_step.
Print Assumptions c04_ack_monotone.
Print Assumptions c04_ack_is_highest_inorder.
Print Assumptions c04_front_filled.
Print Assumptions c04_sack_exact.
Print Assumptions c04_sack_none_iff.
Print Assumptions c04_window_le_free.
Print Assumptions c04_no_discard.
Print Assumptions c04_read_prefix_of_stream.
Print Assumptions c04_model_trace_ok.

(* ================================================================== connection level: c04_vsock_ack_ok
   (Conn/C04_Pred.v: every emitted ack_nr is the highest in-order sequence number received, never moves back)
   against every trace of the connection model (proofs in Conn/C04_Step.v, guard in Conn/C04_Guard.v) *)
From Utp Require Import Wire.SeqNr Wire.Header Conn.Recovery Conn.Msg Conn.VSockRec Conn.VSock Conn.VSockRun Conn.VObs
  Conn.C17_Proofs Conn.C04_Pred Conn.C04_Pred2 Conn.C04_Guard Conn.C04_Step Conn.C04_Consumed.

(* c04_vsock_ack_ok AS WRITTEN IS FALSE of the model (two witnesses below).  Under the guard c04_peer_ok - the peer
   delivers at most WRAP_TOLERANCE packets that carry a sequence number, with 16-bit sequence numbers, and no
   ST_DATA numbered at or above an ST_FIN it delivers - it holds along every trace from vsock_new on a valid
   configuration: c04_vsock_ack_guarded cfg tr = if c04_peer_ok cfg tr then c04_vsock_ack_ok cfg tr else true *)
Theorem c04_vsock_ack_guarded_trace :
  forall CC (cci : cc_iface CC) mk c cfg (s0 : vsock CC) ops,
  C10_Pred.vconfig_ok c = true -> vsock_new cci mk c = Some s0 ->
  c04_vsock_ack_guarded cfg (ftrace cci s0 ops) = true.
Proof. exact (@C04_Step.c04_vsock_ack_guarded_trace). Qed.

(* the guard in its two parts: inside the tolerance part (c04_tol_ok: at most WRAP_TOLERANCE sequence-carrying
   packets, 16-bit numbers) a failure of c04_vsock_ack_ok is of the known class D22 (c04_d22_class: the peer
   delivered an ST_DATA numbered at or above an ST_FIN it delivered):
   c04_vsock_ack_or_d22 cfg tr = if c04_tol_ok cfg tr then c04_vsock_ack_ok cfg tr || c04_d22_class cfg tr else true *)
Theorem c04_vsock_ack_or_d22_trace :
  forall CC (cci : cc_iface CC) mk c cfg (s0 : vsock CC) ops,
  C10_Pred.vconfig_ok c = true -> vsock_new cci mk c = Some s0 ->
  c04_vsock_ack_or_d22 cfg (ftrace cci s0 ops) = true.
Proof. exact (@C04_Step.c04_vsock_ack_or_d22_trace). Qed.

(* the same for c04_consumed_honest_ok (Conn/C04_Pred2.v: after EVERY event the number the endpoint would
   acknowledge is honest and has not moved back), under the same guard:
   c04_consumed_honest_guarded cfg tr = if c04_peer_ok cfg tr then c04_consumed_honest_ok cfg tr else true *)
Theorem c04_consumed_honest_guarded_trace :
  forall CC (cci : cc_iface CC) mk c cfg (s0 : vsock CC) ops,
  C10_Pred.vconfig_ok c = true -> vsock_new cci mk c = Some s0 ->
  c04_consumed_honest_guarded cfg (ftrace cci s0 ops) = true.
Proof. exact (@C04_Consumed.c04_consumed_honest_guarded_trace). Qed.

Theorem c04_peer_ok_split :
  forall cfg tr, c04_peer_ok cfg tr = c04_tol_ok cfg tr && negb (c04_d22_class cfg tr).
Proof. exact C04_Step.peer_ok_split. Qed.

(* (2) a peer that sends ST_DATA above its own FIN makes the endpoint acknowledge a number that never arrived
   (ack_nr 3 after 2, 4, FIN 1, 2): the same on the real code *)
Theorem c04_vsock_ack_ok_refuted_after_fin :
  exists cfg ops s0,
    C10_Pred.vconfig_ok cfg = true /\
    vsock_new (fixed_cc 4096) (fun _ _ => tt) cfg = Some s0 /\
    c04_vsock_ack_ok cfg (ftrace (fixed_cc 4096) s0 ops) = false.
Proof. exact C04_Step.c04_vsock_ack_ok_refuted_after_fin. Qed.

Theorem c04_after_fin_shape : c04_after_fin_b = true.
Proof. exact C04_Step.c04_after_fin_shape. Qed.

(* (1) beyond the wrap tolerance (D4) the predicate's own distance is read as negative: 1025 in-order packets
   across the wrap of the sequence space; with 1024 the guard and the predicate hold *)
Theorem c04_vsock_ack_ok_refuted_wrap :
  exists cfg ops s0,
    C10_Pred.vconfig_ok cfg = true /\
    vsock_new (fixed_cc 4096) (fun _ _ => tt) cfg = Some s0 /\
    c04_vsock_ack_ok cfg (ftrace (fixed_cc 4096) s0 ops) = false.
Proof. exact C04_Step.c04_vsock_ack_ok_refuted_wrap. Qed.

Theorem c04_wrap_shape : c04_wrap_b = true.
Proof. exact C04_Step.c04_wrap_shape. Qed.

Print Assumptions c04_vsock_ack_guarded_trace.
Print Assumptions c04_vsock_ack_or_d22_trace.
Print Assumptions c04_consumed_honest_guarded_trace.
Print Assumptions c04_peer_ok_split.
Print Assumptions c04_vsock_ack_ok_refuted_after_fin.
Print Assumptions c04_after_fin_shape.
Print Assumptions c04_vsock_ack_ok_refuted_wrap.
Print Assumptions c04_wrap_shape.

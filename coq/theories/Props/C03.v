(* C03 — flush/shutdown success means delivered; aborted connections resolve every application call.
   Only statements + exact. *)
From Utp Require Import Base.Prelude Wire.SeqNr Wire.Header Rtt.Rtte Mtu.SegSizes Rx.Rx Rx.Rx_Proofs
  Tx.Ring Tx.Ring_Proofs Tx.Segments Conn.Recovery Conn.Msg Conn.VSockRec Conn.VSock Conn.VSockRun
  Conn.VObs Conn.VSock_LemmasFin Conn.C17_Proofs Conn.C03_Pred Conn.C03_Proofs.

Section WithCC.
Context {CC : Type} (cci : cc_iface CC).
Notation vsock := (vsock CC).

(* Ok from flush means the ring is empty *)
Theorem c03_flush_ok_ring_empty :
  forall s s' w, poll_flush s = (s', UrOk, w) -> ring s = [] /\ s' = s.
Proof. exact (flush_ok_ring_empty). Qed.

(* Ok from shutdown means the ring is empty *)
Theorem c03_shutdown_ok_ring_empty :
  forall s s' w, poll_shutdown s = (s', UrOk, w) -> ring s = [] /\ t_vsock_closed s = true /\ s' = s.
Proof. exact (shutdown_ok_ring_empty). Qed.

(* (f) error death *)
Theorem c03_death_resolves :
  forall (s : vsock) e,
  vsock_closed (v_rx s) = false ->
  let s' := just_before_death s (Some e) in
  vsock_closed (v_rx s') = true /\ t_vsock_closed (v_tx s') = true /\
  q (v_rx s') = q (v_rx s) ++ [QError] /\
  reader_waker (v_rx s') = false /\ writer_waker (v_tx s') = false /\
  (reader_waker (v_rx s) = true -> In VwReader (v_wakes s')) /\
  (writer_waker (v_tx s) = true -> In VwWriter (v_wakes s')) /\
  (forall n, 0 < n -> snd (fst (rx_read (v_rx s') n)) <> RdPending) /\
  (forall buf, snd (fst (poll_write (v_tx s') buf)) = WrErrClosed \/
               (snd (fst (poll_write (v_tx s') buf)) = WrPending /\ snd (poll_write (v_tx s') buf) = [TwSelf])) /\
  snd (fst (poll_flush (v_tx s'))) = (match ring (v_tx s) with [] => UrOk | _ => UrErr end) /\
  snd (fst (poll_shutdown (v_tx s'))) = (match ring (v_tx s) with [] => UrOk | _ => UrErr end) /\
  drop_vsock s' = add_wakes s' [].
Proof. exact (death_resolves). Qed.

(* (f) clean death *)
Theorem c03_ok_death_resolves :
  forall (s : vsock),
  vsock_closed (v_rx s) = false ->
  let s' := just_before_death s None in
  vsock_closed (v_rx s') = true /\ t_vsock_closed (v_tx s') = true /\ q (v_rx s') = q (v_rx s) /\
  reader_waker (v_rx s') = false /\ writer_waker (v_tx s') = false /\
  (reader_waker (v_rx s) = true -> In VwReader (v_wakes s')) /\
  (writer_waker (v_tx s) = true -> In VwWriter (v_wakes s')) /\
  v_out s' = v_out s /\
  (forall n, 0 < n -> snd (fst (rx_read (v_rx s') n)) <> RdPending).
Proof. exact (ok_death_resolves). Qed.

(* (f) cancellation *)
Theorem c03_drop_resolves :
  forall (s : vsock),
  let s' := drop_vsock s in
  vsock_closed (v_rx s') = true /\ t_vsock_closed (v_tx s') = true /\ writer_waker (v_tx s') = false /\
  (vsock_closed (v_rx s) = false -> reader_waker (v_rx s') = false) /\
  (forall n, 0 < n -> snd (fst (rx_read (v_rx s') n)) <> RdPending).
Proof. exact (drop_resolves). Qed.

(* (f) a closed read half never parks *)
Theorem c03_read_after_close_never_pending :
  forall s n s' r w,
  vsock_closed s = true -> 0 < n -> rx_read s n = (s', r, w) -> r <> RdPending.
Proof. exact (read_after_close_never_pending). Qed.

(* (f) and stays closed *)
Theorem c03_read_keeps_closed :
  forall s n s' r w,
  rx_inv s -> rx_read s n = (s', r, w) -> vsock_closed s' = vsock_closed s.
Proof. exact (read_keeps_closed). Qed.

(* (f) a closed write half *)
Theorem c03_write_after_close :
  forall s buf,
  t_vsock_closed s = true ->
  poll_write s buf = (s, WrErrClosed, []) \/
  (exists s', poll_write s buf = (s', WrPending, [TwSelf]) /\ t_vsock_closed s' = true /\
              forall buf', poll_write s' buf' = (s', WrErrClosed, [])).
Proof. exact (write_after_close). Qed.

(* (f) *)
Theorem c03_flush_after_close :
  forall s,
  t_vsock_closed s = true ->
  poll_flush s = (s, (match ring s with [] => UrOk | _ => UrErr end), []).
Proof. exact (flush_after_close). Qed.

(* (f) *)
Theorem c03_shutdown_after_close :
  forall s,
  t_vsock_closed s = true ->
  poll_shutdown s = (s, (match ring s with [] => UrOk | _ => UrErr end), []).
Proof. exact (shutdown_after_close). Qed.

(* a poll returns Ready only through just_before_death *)
Theorem c03_poll_ready_died :
  forall fuel s0 s r,
  poll_loop cci fuel s0 = (s, r) -> r = PollReadyOk \/ (exists e, r = PollReadyErr e) -> died s r.
Proof. exact (poll_ready_died cci). Qed.

(* (h) retransmission limit *)
Theorem c03_failure_bounded_partial :
  forall (s : vsock) f l,
  v_transport_pending s = false -> timer_expired (v_t_retransmit s) (v_now s) = true ->
  iter_for_sending (v_segs s) None = f :: l ->
  seg_retransmit_count (fs_seg f) = o_max_retx (v_opts s) ->
  send_tx_queue cci s = SErr s ErrMaxRetransmissionsReached.
Proof. exact (rto_exhausted_error cci). Qed.

(* (h) *)
Theorem c03_max_retransmissions_error :
  forall (s : vsock) h f,
  seg_retransmit_count (fs_seg f) = o_max_retx (v_opts s) ->
  send_data s h f = SErr s ErrMaxRetransmissionsReached.
Proof. exact (max_retransmissions_error). Qed.

(* (h) *)
Theorem c03_retransmit_count_grows :
  forall g now,
  seg_retransmit_count (seg_on_sent g now) =
  match sg_sent g with NotSent => 0 | SentTime _ => 1 | Retransmitted c _ => c + 1 end.
Proof. exact (seg_on_sent_counts). Qed.

(* (g) partial *)
Theorem c03_eof_after_all_partial :
  forall (s : vsock) m s' r,
  ch_type (m_hdr m) = ST_FIN ->
  ((exists k, v_state s = SynAckSent k) \/
   v_state s = Established \/ (exists f, v_state s = FinWait1 f) \/ v_state s = FinWait2) ->
  process_incoming_message cci s m = SOk s' r -> v_rx s' <> v_rx s ->
  ch_seq (m_hdr m) = wadd16 (v_last_consumed s) 1.
Proof. exact (fin_stored_only_in_sequence cci). Qed.

End WithCC.

Print Assumptions c03_flush_ok_ring_empty.
Print Assumptions c03_shutdown_ok_ring_empty.
Print Assumptions c03_death_resolves.
Print Assumptions c03_ok_death_resolves.
Print Assumptions c03_drop_resolves.
Print Assumptions c03_read_after_close_never_pending.
Print Assumptions c03_read_keeps_closed.
Print Assumptions c03_write_after_close.
Print Assumptions c03_flush_after_close.
Print Assumptions c03_shutdown_after_close.
Print Assumptions c03_poll_ready_died.
Print Assumptions c03_failure_bounded_partial.
Print Assumptions c03_max_retransmissions_error.
Print Assumptions c03_retransmit_count_grows.
Print Assumptions c03_eof_after_all_partial.

(* ================================================================================================
   Step-level and trace-level theorems (Conn/C03_Step.v). *)
From Utp Require Import Conn.VSock_Lemmas Conn.VSock_LemmasStep Conn.VSock_LemmasReach
  Conn.VSock_LemmasPark Conn.C03_Step.

(* the poll that returns Ready leaves both halves closed, no application waker registered, and has
   fired every waker that was registered — from every state satisfying the invariant pk *)
Theorem c03_ready_closed_ok_every_step : forall (CC : Type) (cci : cc_iface CC) (cfg : vconfig) (s : vsock CC) (o : vop),
  pk s -> c03_ready_closed_ok cfg (VSock_Lemmas.fstep_of cci s o) = true.
Proof. exact @c03_ready_closed_ok_step. Qed.

(* no call parks on a closed half — from every state whose read half is not marked closed (an
   invariant of every state before the Ready poll, c03_ncrx_live) *)
Theorem c03_no_hang_ok_every_step : forall (CC : Type) (cci : cc_iface CC) (cfg : vconfig) (s : vsock CC) (o : vop),
  ncrx s -> c03_no_hang_ok cfg (VSock_Lemmas.fstep_of cci s o) = true.
Proof. exact @c03_no_hang_ok_step. Qed.

Theorem c03_ncrx_live : forall (CC : Type) (cci : cc_iface CC) (s : vsock CC) (o : vop),
  ncrx s -> poll_finished (vstep_out cci s o) = false -> ncrx (vstep_state cci s o).
Proof. exact @ncrx_vstep_live. Qed.

Theorem c03_after_death_ok_every_trace : forall (CC : Type) (cci : cc_iface CC) (cfg : vconfig)
    (mk : Z -> Z -> CC) (c : vconfig) (s0 : vsock CC) (ops : list vop),
  vsock_new cci mk c = Some s0 -> c03_after_death_ok cfg (ftrace cci s0 ops) = true.
Proof. exact @c03_after_death_ok_trace. Qed.

Print Assumptions c03_ready_closed_ok_every_step.
Print Assumptions c03_no_hang_ok_every_step.
Print Assumptions c03_ncrx_live.
Print Assumptions c03_after_death_ok_every_trace.

(* C14 — path-MTU discovery: the search and the size arithmetic of src/mtu.rs (SegmentSizes).
   The emission-size, one-probe-newest and data-intact clauses are connection-level (later).
   This file contains only statements closed by `exact`, and Print Assumptions. *)
From Utp Require Import Base.Prelude Mtu.SegSizes Mtu.SegSizes_Proofs.
From Utp Require Import Wire.SeqNr Wire.Header Tx.Segments Conn.Recovery Conn.Msg Conn.VSockRec Conn.VSock Conn.VSockRun
  Conn.VObs Conn.C10_Pred Conn.C14C08_Pred Conn.C14_Pred2 Conn.VSock_Lemmas Conn.VSock_Inv Conn.C10_Proofs Conn.C14_Step.

(* --- the search invariant: a path that delivers exactly the payload sizes <= P *)
Theorem c14_search_invariant : forall ops P s s',
  wf s -> min_ss s <= P <= max_ss s -> forallb (path_op_ok P) ops = true ->
  ss_run s ops = Some s' ->
  min_ss s' <= P <= max_ss s' /\ 0 <= min_ss s' /\ max_ss s' <= U16_MAX.
Proof. exact search_invariant. Qed.

Theorem c14_search_invariant_new : forall c P ops,
  cfg_in_range c = true -> floor_of c <= P <= ceiling_of c ->
  forallb (path_op_ok P) ops = true ->
  exists s', ss_run (ss_new c) ops = Some s' /\ min_ss s' <= P <= max_ss s'.
Proof. exact search_invariant_new. Qed.

(* outcomes reported only for sizes returned by next_segment_size along the run *)
Theorem c14_search_invariant_sent : forall ops P s sent s',
  wf s -> min_ss s <= P <= max_ss s ->
  Forall (fun r => 0 <= r <= U16_MAX) sent ->
  sent_disc P s sent ops = true -> ss_run s ops = Some s' ->
  min_ss s' <= P <= max_ss s'.
Proof. exact search_invariant_sent. Qed.

(* --- convergence *)
Theorem c14_probe_round_halves : forall P s,
  wf_lt s ->
  exists s', probe_round P s = Some s' /\ wf_lt s' /\
    min_ss s <= min_ss s' /\ max_ss s' <= max_ss s /\
    max_ss s' - min_ss s' <= (max_ss s - min_ss s) / 2 /\
    target P s' = target P s.
Proof. exact probe_round_halves. Qed.

Theorem c14_converges : forall P s n,
  wf_lt s -> min_ss s <= P <= max_ss s -> max_ss s - min_ss s < 2 ^ Z.of_nat n ->
  exists s', probe_rounds n P s = Some s' /\
    min_ss s' = P /\ max_ss s' = P /\ mss s' = P /\ is_probing s' = Some false.
Proof. exact converges. Qed.

Theorem c14_converges_log2 : forall P s,
  wf_lt s -> min_ss s <= P <= max_ss s ->
  exists s', probe_rounds (Z.to_nat (Z.log2_up (max_ss s - min_ss s) + 1)) P s = Some s' /\
    min_ss s' = P /\ max_ss s' = P /\ mss s' = P /\ is_probing s' = Some false.
Proof. exact converges_log2. Qed.

Theorem c14_converges_16 : forall P s n,
  wf_lt s -> min_ss s <= P <= max_ss s -> (16 <= n)%nat ->
  exists s', probe_rounds n P s = Some s' /\
    min_ss s' = P /\ max_ss s' = P /\ mss s' = P /\ is_probing s' = Some false.
Proof. exact converges_16. Qed.

(* any P, inside the initial interval or not: the search settles on P clamped to it *)
Theorem c14_converges_clamped : forall n P s,
  wf_lt s -> max_ss s - min_ss s < 2 ^ Z.of_nat n ->
  exists s', probe_rounds n P s = Some s' /\ wf_lt s' /\ converged P s s'.
Proof. exact probe_rounds_converge. Qed.

Theorem c14_mtu_search_ok : forall c P,
  cfg_in_range c = true -> c14_search_ok c P (mtu_search c P) = true.
Proof. exact mtu_search_ok. Qed.

(* --- sizes handed out *)
Theorem c14_ordinary_le_proven : forall s s' r,
  wf s -> next_segment_size s = Some (s', r) ->
  min_ss s' = min_ss s /\ max_ss s' = max_ss s /\ cd_max s' = cd_max s /\
  cd_rem s' = (if cd_rem s =? 0 then cd_max s else sat_sub (cd_rem s) 1) /\
  (r = mss s \/ next_probe s = Some r) /\
  mss s <= r <= max_ss s /\
  (mss s < r -> cd_rem s = 0 /\ r = probe_value s).
Proof. exact next_size_spec. Qed.

(* --- u16 arithmetic *)
Theorem c14_min_le_max : forall c ops s',
  cfg_in_range c = true -> forallb op_in_domain ops = true ->
  ss_run (ss_new c) ops = Some s' -> 0 <= min_ss s' <= max_ss s' /\ max_ss s' <= U16_MAX.
Proof. exact run_min_le_max. Qed.

Theorem c14_no_u16_overflow : forall s,
  0 <= min_ss s <= max_ss s -> max_ss s <= U16_MAX -> min_ss s < U16_MAX ->
  0 <= np_diff s <= U16_MAX /\ 0 <= np_half s <= U16_MAX /\
  0 <= np_sum1 s <= U16_MAX /\ 0 <= np_sum2 s <= U16_MAX /\
  next_probe s = Some (probe_value s) /\ next_probe_wrapping s = probe_value s /\
  min_ss s <= probe_value s <= max_ss s.
Proof. exact next_probe_no_overflow. Qed.

Theorem c14_new_no_u16_overflow : forall c, cfg_in_range c = true ->
  let ip := ip_header (cfg_ipv4 c) in
  let link := clamped_link_mtu c in
  let min_mtu := Z.min (default_min_mtu (cfg_ipv4 c)) link in
  0 <= ip + UDP_HEADER <= U16_MAX /\ 0 <= ip + UDP_HEADER + UTP_HEADER <= U16_MAX /\
  0 <= ip + UDP_HEADER + UTP_HEADER + 1 <= U16_MAX /\
  0 <= link <= U16_MAX /\ 0 <= min_mtu <= U16_MAX /\
  (forall mtu, mtu = min_mtu \/ mtu = link ->
     0 <= mtu - ip /\ 0 <= mtu - ip - UTP_HEADER /\ 1 <= mtu - ip - UTP_HEADER - UDP_HEADER).
Proof. exact new_no_u16_overflow. Qed.

(* no op list from `new` panics: no bound on the sizes reported delivered or failed *)
Theorem c14_no_panic : forall c ops,
  cfg_in_range c = true -> forallb op_in_domain ops = true -> ss_run (ss_new c) ops <> None.
Proof. exact no_panic. Qed.

Theorem c14_trace_no_panic : forall c ops,
  cfg_in_range c = true -> forallb op_in_domain ops = true ->
  ~ In None (ss_trace (ss_new c) ops).
Proof. exact trace_no_panic. Qed.

(* next_probe overflows u16 only in the state min_ss = max_ss = 65535 ... *)
Theorem c14_next_probe_overflow_iff : forall s,
  wf s -> (next_probe s = None <-> min_ss s = U16_MAX).
Proof. exact next_probe_none_iff. Qed.

(* ... which no op list reaches *)
Theorem c14_overflow_unreachable : forall c ops s',
  cfg_in_range c = true -> forallb op_in_domain ops = true ->
  ss_run (ss_new c) ops = Some s' ->
  max_ss s' < U16_MAX /\ next_probe s' = Some (probe_value s') /\
  is_probing s' = Some (min_ss s' <? max_ss s').
Proof. exact overflow_unreachable. Qed.

(* --- ceiling: whatever sizes are reported delivered or failed (any integer) *)
Theorem c14_ceiling : forall c ops s',
  cfg_in_range c = true -> forallb not_new ops = true ->
  ss_run (ss_new c) ops = Some s' ->
  mss s' <= max_ss s' /\ max_ss s' <= ceiling_of c.
Proof. exact ceiling_invariant. Qed.

Theorem c14_trace_le_ceiling : forall c ops mn mx pr ret,
  cfg_in_range c = true -> forallb not_new ops = true ->
  In (Some (mn, mx, pr, ret)) (ss_trace (ss_new c) ops) ->
  mn <= mx /\ mx <= ceiling_of c /\ (forall r, ret = Some r -> r <= ceiling_of c).
Proof. exact trace_le_ceiling. Qed.

(* regression of D3: one payload of any size from the peer right after `new` *)
Theorem c14_peer_payload_capped : forall c n,
  cfg_in_range c = true -> c14_d3_ok c (mtu_d3 c n) = true.
Proof. exact mtu_d3_ok. Qed.

Theorem c14_ceiling_datagram : forall c,
  ip_header (cfg_ipv4 c) + UDP_HEADER + UTP_HEADER + 1 <= cfg_link_mtu c ->
  ceiling_of c + UTP_HEADER + UDP_HEADER + ip_header (cfg_ipv4 c) = cfg_link_mtu c.
Proof. exact ceiling_datagram. Qed.

(* --- the boolean predicate evaluated on the implementation's traces *)
Theorem c14_model_trace_ok : forall c ops,
  cfg_in_range c = true -> forallb op_in_domain ops = true ->
  c14_ok c ops (ss_trace (ss_new c) ops) = true.
Proof. exact model_trace_ok. Qed.

Theorem c14_cfg : segsizes_cfg_ok = true.
Proof. vm_compute. reflexivity. Qed.

Print Assumptions c14_search_invariant.
Print Assumptions c14_search_invariant_new.
Print Assumptions c14_search_invariant_sent.
Print Assumptions c14_probe_round_halves.
Print Assumptions c14_converges.
Print Assumptions c14_converges_log2.
Print Assumptions c14_converges_16.
Print Assumptions c14_converges_clamped.
Print Assumptions c14_mtu_search_ok.
Print Assumptions c14_ordinary_le_proven.
Print Assumptions c14_min_le_max.
Print Assumptions c14_no_u16_overflow.
Print Assumptions c14_new_no_u16_overflow.
Print Assumptions c14_no_panic.
Print Assumptions c14_trace_no_panic.
Print Assumptions c14_next_probe_overflow_iff.
Print Assumptions c14_overflow_unreachable.
Print Assumptions c14_ceiling.
Print Assumptions c14_trace_le_ceiling.
Print Assumptions c14_peer_payload_capped.
Print Assumptions c14_ceiling_datagram.
Print Assumptions c14_model_trace_ok.
Print Assumptions c14_cfg.

(* ================================================================== connection level (M3):
   the step predicates of Conn/C14C08_Pred.v are theorems of every step of the model from a state
   satisfying the invariant c14_inv (bounds of the size state, every segment at most the ceiling, the
   only undelivered probe is the newest segment, the table ends at the offset), which every event
   keeps and vsock_new establishes: hence of every trace.  No hypothesis on the configuration, the
   transport script (EMSGSIZE, Pending, I/O errors at will), the peer or the clock. *)
Theorem c14_inv_initial : forall (CC : Type) (cci : cc_iface CC) (mk : Z -> Z -> CC) (c : vconfig) (s : vsock CC),
  vsock_new cci mk c = Some s -> c14_inv c s.
Proof. exact @c14_inv_vsock_new. Qed.

Theorem c14_inv_every_step : forall (CC : Type) (cci : cc_iface CC) (c : vconfig) (s : vsock CC) (o : vop),
  c14_inv c s ->
  c14_inv c (vstep_state cci s o) /\
  c14_datagram_ok c (VSock_Lemmas.fstep_of cci s o) = true /\
  c14_segments_ok c (VSock_Lemmas.fstep_of cci s o) = true /\
  c14_wire_ok c (VSock_Lemmas.fstep_of cci s o) = true.
Proof. exact @c14_step. Qed.

(* every emitted datagram carries at most link MTU - IP - UDP - uTP header bytes of payload *)
Theorem c14_datagram_ok_every_step : forall (CC : Type) (cci : cc_iface CC) (c : vconfig) (s : vsock CC) (o : vop),
  c14_inv c s -> c14_datagram_ok c (VSock_Lemmas.fstep_of cci s o) = true.
Proof. exact @c14_datagram_ok_step. Qed.

Theorem c14_datagram_ok_every_trace : forall (CC : Type) (cci : cc_iface CC)
    (mk : Z -> Z -> CC) (c : vconfig) (s0 : vsock CC) (ops : list vop),
  vsock_new cci mk c = Some s0 -> forallb (c14_datagram_ok c) (ftrace cci s0 ops) = true.
Proof. exact @c14_datagram_ok_trace. Qed.

(* ordinary segments cut by a poll are at most the proven size, a segment is flagged as probe
   exactly when it is larger, at most one undelivered probe and it is the newest segment,
   floor <= mss <= max_ss <= ceiling *)
Theorem c14_segments_ok_every_step : forall (CC : Type) (cci : cc_iface CC) (c : vconfig) (s : vsock CC) (o : vop),
  c14_inv c s -> c14_segments_ok c (VSock_Lemmas.fstep_of cci s o) = true.
Proof. exact @c14_segments_ok_step. Qed.

Theorem c14_segments_ok_every_trace : forall (CC : Type) (cci : cc_iface CC)
    (mk : Z -> Z -> CC) (c : vconfig) (s0 : vsock CC) (ops : list vop),
  vsock_new cci mk c = Some s0 -> forallb (c14_segments_ok c) (ftrace cci s0 ops) = true.
Proof. exact @c14_segments_ok_trace. Qed.

(* every poll, whatever its result, keeps the invariant and emits only bounded datagrams *)
Theorem c14_poll_keeps_inv : forall (CC : Type) (cci : cc_iface CC) (C F TB : Z),
  1 <= F -> 0 <= C -> forall (s s' : vsock CC) (r : poll_result),
  poll cci s = (s', r) -> J C F TB (poll_init s) -> J C F TB s'.
Proof. exact @poll_J. Qed.

(* the whole uTP part of every datagram (header + selective-ACK extension + payload) is at most
   20 + the ceiling, and a datagram with the extension has no payload; no hypothesis: the extension
   is written only when it fits the scratch buffer sized from the ceiling at creation *)
Theorem c14_wire_ok_every_step : forall (CC : Type) (cci : cc_iface CC) (c : vconfig) (s : vsock CC) (o : vop),
  c14_inv c s -> c14_wire_ok c (VSock_Lemmas.fstep_of cci s o) = true.
Proof. exact @c14_wire_ok_step. Qed.

Theorem c14_wire_ok_every_trace : forall (CC : Type) (cci : cc_iface CC)
    (mk : Z -> Z -> CC) (c : vconfig) (s0 : vsock CC) (ops : list vop),
  vsock_new cci mk c = Some s0 -> forallb (c14_wire_ok c) (ftrace cci s0 ops) = true.
Proof. exact @c14_wire_ok_trace. Qed.

(* the clauses are exercised: a probe is cut, fails with EMSGSIZE, is popped; a smaller probe and
   ordinary segments at the new proven size follow *)
Theorem c14_connection_nonvacuous :
  exists w cfg ops,
    vconfig_ok cfg = true /\ Forall op_msg_ok ops /\
    existsb new_probe_cut (wtrace w cfg ops) = true /\
    existsb new_ordinary_cut (wtrace w cfg ops) = true /\
    existsb (probe_failed_step cfg) (wtrace w cfg ops) = true /\
    existsb (big_datagram cfg) (wtrace w cfg ops) = true /\
    forallb (c14_datagram_ok cfg) (wtrace w cfg ops) = true /\
    forallb (c14_segments_ok cfg) (wtrace w cfg ops) = true /\
    forallb (c14_wire_ok cfg) (wtrace w cfg ops) = true.
Proof. exact c14_nonvacuous. Qed.

Theorem c14_wire_ok_nonvacuous :
  exists w cfg ops,
    vconfig_ok cfg = true /\ Forall op_msg_ok ops /\
    existsb sack_datagram (wtrace w cfg ops) = true /\
    forallb (c14_wire_ok cfg) (wtrace w cfg ops) = true.
Proof. exact c14_wire_nonvacuous. Qed.

Print Assumptions c14_wire_ok_nonvacuous.
Print Assumptions c14_inv_initial.
Print Assumptions c14_inv_every_step.
Print Assumptions c14_datagram_ok_every_step.
Print Assumptions c14_datagram_ok_every_trace.
Print Assumptions c14_segments_ok_every_step.
Print Assumptions c14_segments_ok_every_trace.
Print Assumptions c14_poll_keeps_inv.
Print Assumptions c14_wire_ok_every_step.
Print Assumptions c14_wire_ok_every_trace.
Print Assumptions c14_connection_nonvacuous.

(* C09 — 16-bit wrap safety: the arithmetic part. *)
From Utp Require Import Base.Prelude Wire.SeqNr Wire.SeqNr_Proofs.

Theorem c09_offset_true_distance : forall old k tol,
  0 <= old < M16 -> 0 <= tol <= 32767 -> - tol <= k <= tol ->
  seq_nr_offset ((old + k) mod M16) old tol = k.
Proof. exact offset_true_distance. Qed.

Theorem c09_offset_pair : forall a b tol k,
  0 <= a < M16 -> 0 <= b < M16 -> 0 <= tol <= 32767 -> - tol <= k <= tol ->
  (a - b - k) mod M16 = 0 -> seq_nr_offset a b tol = k.
Proof. exact offset_true_distance_pair. Qed.

Theorem c09_cmp_sign : forall a b k,
  0 <= a < M16 -> 0 <= b < M16 -> - WRAP_TOLERANCE <= k <= WRAP_TOLERANCE ->
  (a - b - k) mod M16 = 0 -> seq_cmp a b = Z.compare k 0.
Proof. exact cmp_sign. Qed.

Theorem c09_offset_shift : forall a b s tol k,
  0 <= a < M16 -> 0 <= b < M16 -> 0 <= tol <= 32767 -> - tol <= k <= tol ->
  (a - b - k) mod M16 = 0 ->
  seq_nr_offset ((a + s) mod M16) ((b + s) mod M16) tol = seq_nr_offset a b tol.
Proof. exact offset_shift. Qed.

Theorem c09_offset_antisym : forall a b tol,
  0 <= a < M16 -> 0 <= b < M16 -> 0 <= tol ->
  seq_nr_offset a b tol = - seq_nr_offset b a tol.
Proof. exact offset_antisym. Qed.

Theorem c09_outside_tol_refuted :
  exists old k, 0 <= old < M16 /\ 1024 < k <= 32767 /\
    seq_nr_offset ((old + k) mod M16) old 1024 <> k.
Proof. exact outside_tol_refuted. Qed.

Theorem c09_offset_full_range : forall a b,
  0 <= a < M16 -> 0 <= b < M16 ->
  let d := seq_nr_offset a b 32767 in
  (a - b - d) mod M16 = 0 /\ -32768 <= d <= 32768.
Proof. exact offset_full_range. Qed.

Theorem c09_model_obs_ok : forall new old tol,
  0 <= new < M16 -> 0 <= old < M16 -> 0 <= tol <= 32767 ->
  c09_obs_ok new old tol (seq_nr_offset new old tol) = true.
Proof. exact model_obs_ok. Qed.

Print Assumptions c09_offset_true_distance.
Print Assumptions c09_model_obs_ok.
Print Assumptions c09_offset_pair.
Print Assumptions c09_cmp_sign.
Print Assumptions c09_offset_shift.
Print Assumptions c09_offset_antisym.
Print Assumptions c09_outside_tol_refuted.
Print Assumptions c09_offset_full_range.

(* C09 — 16-bit wrap safety: the arithmetic part. *)
From Utp Require Import Base.Prelude Wire.SeqNr Wire.SeqNr_Proofs.

Theorem c09_offset_true_distance : forall old k tol,
  0 <= old < M16 -> 0 <= tol <= 32767 -> - tol <= k <= tol ->
  seq_nr_offset ((old + k) mod M16) old tol = k.
Proof. exact offset_true_distance. Qed.

Theorem c09_offset_pair : forall a b tol k,
  0 <= a < M16 -> 0 <= b < M16 -> 0 <= tol <= 32767 -> - tol <= k <= tol ->
  (a - b - k) mod M16 = 0 -> seq_nr_offset a b tol = k.
Proof. exact offset_true_distance_pair. Qed.

Theorem c09_cmp_sign : forall a b k,
  0 <= a < M16 -> 0 <= b < M16 -> - WRAP_TOLERANCE <= k <= WRAP_TOLERANCE ->
  (a - b - k) mod M16 = 0 -> seq_cmp a b = Z.compare k 0.
Proof. exact cmp_sign. Qed.

Theorem c09_offset_shift : forall a b s tol k,
  0 <= a < M16 -> 0 <= b < M16 -> 0 <= tol <= 32767 -> - tol <= k <= tol ->
  (a - b - k) mod M16 = 0 ->
  seq_nr_offset ((a + s) mod M16) ((b + s) mod M16) tol = seq_nr_offset a b tol.
Proof. exact offset_shift. Qed.

Theorem c09_offset_antisym : forall a b tol,
  0 <= a < M16 -> 0 <= b < M16 -> 0 <= tol ->
  seq_nr_offset a b tol = - seq_nr_offset b a tol.
Proof. exact offset_antisym. Qed.

Theorem c09_outside_tol_refuted :
  exists old k, 0 <= old < M16 /\ 1024 < k <= 32767 /\
    seq_nr_offset ((old + k) mod M16) old 1024 <> k.
Proof. exact outside_tol_refuted. Qed.

Theorem c09_offset_full_range : forall a b,
  0 <= a < M16 -> 0 <= b < M16 ->
  let d := seq_nr_offset a b 32767 in
  (a - b - d) mod M16 = 0 /\ -32768 <= d <= 32768.
Proof. exact offset_full_range. Qed.

Theorem c09_model_obs_ok : forall new old tol,
  0 <= new < M16 -> 0 <= old < M16 -> 0 <= tol <= 32767 ->
  c09_obs_ok new old tol (seq_nr_offset new old tol) = true.
Proof. exact model_obs_ok. Qed.

Print Assumptions c09_offset_true_distance.
Print Assumptions c09_model_obs_ok.
Print Assumptions c09_offset_pair.
Print Assumptions c09_cmp_sign.
Print Assumptions c09_offset_shift.
Print Assumptions c09_offset_antisym.
Print Assumptions c09_outside_tol_refuted.
Print Assumptions c09_offset_full_range.

(* ------------------------------------------------------------------------------------------------
   C09 — the trace-shift clause on the connection model (Conn/C09_Shift.v, Conn/C09_ShiftProofs*.v).
   da / db / dc relabel our sequence numbers / the peer's / the connection id we send with.
   The guard `c09_guard_vstep` (and `c09_guard_trace` along a scenario) is a boolean function of the
   state and the event: it follows the step and requires, wherever two sequence numbers are compared
   with the wrap-tolerant order, that both are u16 values at true modular distance <= WRAP_TOLERANCE
   (`cmp_ok`), and wherever two are tested for equality that both are u16 values. *)
From Utp Require Import Wire.Header Rtt.Rtte Mtu.SegSizes Rx.Rx Tx.Ring Tx.Segments Conn.Recovery Conn.Msg
  Conn.VSockRec Conn.VSock Conn.VSockRun Conn.VObs Conn.VSock_Inv Conn.C09_Pred Conn.C09_Shift
  Conn.C09_ShiftProofsSeq Conn.C09_ShiftProofsSeg Conn.C09_ShiftProofsRec Conn.C09_ShiftProofsTx
  Conn.C09_ShiftProofsIn Conn.C09_ShiftProofsPoll Conn.C09_ShiftProofsGuard Conn.C09_ShiftProofsEx.

(* layer 0: the comparison *)
Theorem c09_seq_sub_shift : forall d a b, cmp_ok a b = true ->
  seq_sub (sh16 d a) (sh16 d b) = seq_sub a b.
Proof. exact cmp_ok_seq_sub. Qed.

Theorem c09_seq_sub_shift_tight : forall a b,
  u16_ok a = true -> u16_ok b = true -> near WRAP_TOLERANCE a b = false ->
  exists d, seq_sub (sh16 d a) (sh16 d b) <> seq_sub a b.
Proof. exact seq_sub_shift_tight. Qed.

(* layer 1: Segments and Recovery *)
Theorem c09_remove_up_to_ack_shift : forall d t now ack sk, g_remove_up_to_ack t ack sk = true ->
  remove_up_to_ack (shift_segments d t) now (sh16 d ack) sk =
  (shift_segments d (fst (remove_up_to_ack t now ack sk)), snd (remove_up_to_ack t now ack sk)).
Proof. exact remove_up_to_ack_shift. Qed.

Theorem c09_calc_flight_size_shift : forall d t ls, g_calc_flight_size t ls = true ->
  calc_flight_size (shift_segments d t) (sh16 d ls) = calc_flight_size t ls.
Proof. exact calc_flight_size_shift. Qed.

Theorem c09_iter_for_sending_shift : forall d t st, g_iter_for_sending t st = true ->
  iter_for_sending (shift_segments d t) (shift_start d st) = map (shift_fs d) (iter_for_sending t st).
Proof. exact iter_for_sending_shift. Qed.

Theorem c09_calc_pipe_shift : forall d t hr hd rtt now, g_calc_pipe t hr hd = true ->
  calc_pipe (shift_segments d t) (sh16 d hr) (sh16 d hd) rtt now =
  shift_pipe_res d (calc_pipe t hr hd rtt now).
Proof. exact calc_pipe_shift. Qed.

Theorem c09_recovery_on_ack_shift :
  forall (CC : Type) (cci : cc_iface CC) (da db : Z) r h segs ls (cc : CC) now rtt,
  g_recovery_on_ack r h segs ls = true ->
  recovery_on_ack cci (shift_recovery da r) (shift_in_hdr da db h) (shift_segments da segs) (sh16 da ls)
                  cc now rtt =
  shift_rec_res da (recovery_on_ack cci r h segs ls cc now rtt).
Proof. exact (@recovery_on_ack_shift). Qed.

(* layer 2: the functions of VirtualSocket *)
Theorem c09_state_table_shift : forall (da db dc : Z) (CC : Type) (s : vsock CC) h,
  g_state_table s h = true ->
  state_table (shift_vsock da db dc s) (shift_in_hdr da db h) = shift_table_res da db dc (state_table s h).
Proof. exact (@state_table_shift). Qed.

Theorem c09_process_incoming_message_shift :
  forall (da db dc : Z) (CC : Type) (cci : cc_iface CC) (s : vsock CC) m, g_pim s m = true ->
  process_incoming_message cci (shift_vsock da db dc s) (shift_msg da db m) =
  shift_step da db dc idf (process_incoming_message cci s m).
Proof. exact (@pim_shift). Qed.

Theorem c09_process_all_incoming_messages_shift :
  forall (da db dc : Z) (CC : Type) (cci : cc_iface CC) (s : vsock CC), g_process_all cci s = true ->
  process_all_incoming_messages cci (shift_vsock da db dc s) =
  shift_step da db dc idf (process_all_incoming_messages cci s).
Proof. exact (@process_all_shift). Qed.

Theorem c09_send_tx_queue_shift :
  forall (da db dc : Z) (CC : Type) (cci : cc_iface CC) (s : vsock CC), g_send_tx_queue cci s = true ->
  send_tx_queue cci (shift_vsock da db dc s) = shift_step da db dc idf (send_tx_queue cci s).
Proof. exact (@send_tx_queue_shift). Qed.

Theorem c09_split_tx_queue_shift :
  forall (da db dc : Z) (CC : Type) (cci : cc_iface CC) (s : vsock CC), g_split cci s = true ->
  split_tx_queue_into_segments cci (shift_vsock da db dc s) =
  shift_step da db dc idf (split_tx_queue_into_segments cci s).
Proof. exact (@split_shift). Qed.

Theorem c09_poll_shift :
  forall (da db dc : Z) (CC : Type) (cci : cc_iface CC) (s : vsock CC), g_poll cci s = true ->
  poll cci (shift_vsock da db dc s) = (shift_vsock da db dc (fst (poll cci s)), snd (poll cci s)).
Proof. exact (@poll_shift). Qed.

(* the clause: one step of the relabelled run is the relabelled step, for every state and event *)
Theorem c09_vstep_shift :
  forall (da db dc : Z) (CC : Type) (cci : cc_iface CC) (s : vsock CC) (o : vop),
  c09_guard_vstep cci s o = true ->
  vstep cci (shift_vsock da db dc s) (shift_op da db o) = shift_vres da db dc (vstep cci s o).
Proof. exact (@vstep_shift). Qed.

(* ... and the trace of the relabelled run is the relabelled trace, for every scenario *)
Theorem c09_ftrace_shift :
  forall (da db dc : Z) (CC : Type) (cci : cc_iface CC) (ops : list vop) (s : vsock CC),
  c09_guard_trace cci s ops = true ->
  ftrace cci (shift_vsock da db dc s) (map (shift_op da db) ops) =
  map (shift_fstep da db dc) (ftrace cci s ops).
Proof. exact (@ftrace_shift). Qed.

(* hence the extracted predicate of the metamorphic check holds of the two model traces *)
Theorem c09_model_trace_shift_ok :
  forall (da db dc : Z) (CC : Type) (cci : cc_iface CC) (s : vsock CC) (ops : list vop),
  c09_guard_trace cci s ops = true ->
  c09_shift_ok da db dc (ftrace cci s ops)
               (ftrace cci (shift_vsock da db dc s) (map (shift_op da db) ops)) = true.
Proof. exact (@model_trace_shift_ok). Qed.

(* the relabelled run starts from the relabelled construction parameters *)
Theorem c09_vsock_new_shift :
  forall (da db dc : Z) (CC : Type) (cci : cc_iface CC) (mk_cc : Z -> Z -> CC) (c : vconfig),
  vsock_new cci mk_cc (shift_config da db dc c) =
  match vsock_new cci mk_cc c with Some s => Some (shift_vsock da db dc s) | None => None end.
Proof. exact (@vsock_new_shift). Qed.

Theorem c09_model_runs_shift_ok :
  forall (da db dc : Z) (CC : Type) (cci : cc_iface CC) (mk_cc : Z -> Z -> CC) (c : vconfig)
         (ops : list vop) (s : vsock CC),
  vsock_new cci mk_cc c = Some s -> c09_guard_trace cci s ops = true ->
  exists s2, vsock_new cci mk_cc (shift_config da db dc c) = Some s2 /\
             c09_shift_ok da db dc (ftrace cci s ops) (ftrace cci s2 (map (shift_op da db) ops)) = true.
Proof. exact (@model_runs_shift_ok). Qed.

(* the guard does not depend on the labelling: the relabelled scenario is inside it as well *)
Theorem c09_guard_trace_shift :
  forall (da db dc : Z) (CC : Type) (cci : cc_iface CC) (ops : list vop) (s : vsock CC),
  c09_guard_trace cci s ops = true ->
  c09_guard_trace cci (shift_vsock da db dc s) (map (shift_op da db) ops) = true.
Proof. exact (@guard_trace_shift). Qed.

(* the fingerprint-level guard of the metamorphic check judges a trace and its relabelling alike *)
Theorem c09_within_tol_shift : forall (da db dc tol : Z) (tr : list fstep),
  c09_within_tol tol (map (shift_fstep da db dc) tr) = c09_within_tol tol tr.
Proof. exact c09_within_tol_shift. Qed.

(* the guard is satisfiable: a scenario whose numbers wrap inside the transfer, with a timeout, a
   fast recovery and both FINs *)
Theorem c09_guard_satisfiable : ex_guard ex_ops = true /\ ex_reaches ex_ops = true.
Proof. exact guard_satisfiable. Qed.

(* outside the guard the clause is false of the model (class D4) *)
Theorem c09_shift_outside_guard_refuted :
  exists (s : vsock unit) (o : vop) (da db dc : Z),
    c09_guard_vstep (fixed_cc 100000) s o = false /\
    vstep (fixed_cc 100000) (shift_vsock da db dc s) (shift_op da db o) <>
    shift_vres da db dc (vstep (fixed_cc 100000) s o).
Proof. exact shift_outside_guard_refuted. Qed.

Print Assumptions c09_seq_sub_shift.
Print Assumptions c09_seq_sub_shift_tight.
Print Assumptions c09_remove_up_to_ack_shift.
Print Assumptions c09_calc_flight_size_shift.
Print Assumptions c09_iter_for_sending_shift.
Print Assumptions c09_calc_pipe_shift.
Print Assumptions c09_recovery_on_ack_shift.
Print Assumptions c09_state_table_shift.
Print Assumptions c09_process_incoming_message_shift.
Print Assumptions c09_process_all_incoming_messages_shift.
Print Assumptions c09_send_tx_queue_shift.
Print Assumptions c09_split_tx_queue_shift.
Print Assumptions c09_poll_shift.
Print Assumptions c09_vstep_shift.
Print Assumptions c09_ftrace_shift.
Print Assumptions c09_model_trace_shift_ok.
Print Assumptions c09_vsock_new_shift.
Print Assumptions c09_model_runs_shift_ok.
Print Assumptions c09_guard_trace_shift.
Print Assumptions c09_within_tol_shift.
Print Assumptions c09_guard_satisfiable.
Print Assumptions c09_shift_outside_guard_refuted.

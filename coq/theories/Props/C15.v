(* C15 — CUBIC congestion window stays sane and reacts to loss.
   This file contains only statements closed by `exact` and Print Assumptions.
   cbrt / powf3 (libm) are universally quantified functions: no assumption on them. *)
From Coq Require Import Reals.
From Flocq Require Import Core IEEE754.BinarySingleNaN.
From Utp Require Import Base.Prelude Cubic.F64 Cubic.Cubic Cubic.Cubic_Proofs.

(* EVERY float state (cwnd, ssthresh, ... may be NaN or +-inf): after set_remote_window win the
   byte window is an integer in [min(2 mss, win) - 1, win]. *)
Theorem c15_window_bounds : forall (s : cubic) (win : Z),
  (1 <= mss s < 65536)%Z -> (0 <= win < 2 ^ 32)%Z ->
  let w := cubic_window (cubic_set_remote_window s win) in
  (w <= win)%Z /\ (Z.min (2 * mss s) win - 1 <= w)%Z /\ (0 <= w)%Z.
Proof. exact window_bounds. Qed.

(* In MSS units the clamp cwnd.max(2.).min(rwnd) is exact, for every float cwnd. *)
Theorem c15_window_clamp_exact : forall c rw : f64, is_finite rw = true ->
  is_finite (rust_min (rust_max c f64_2) rw) = true /\
  B2R (rust_min (rust_max c f64_2) rw) =
    match c with
    | B754_nan => Rmin 2 (B2R rw)
    | B754_infinity false => B2R rw
    | B754_infinity true => Rmin 2 (B2R rw)
    | _ => Rmin (Rmax (B2R c) 2) (B2R rw)
    end.
Proof. exact eff_exact. Qed.

(* Every state with a finite peer window in [0, 2^32] MSS (any cwnd, NaN/inf included): RTO and
   entry into fast recovery never increase the byte window nor the clamped cwnd; ssthresh is
   max(fl(cwnd * 0.7), 2) and sshthresh() >= 2 mss. *)
Theorem c15_loss_never_increases : forall (cbrt : f64 -> f64) (s : cubic) (now : Z),
  (1 <= mss s < 65536)%Z ->
  (is_finite (rwnd s) = true /\ (0 <= B2R (rwnd s) <= 4294967296)%R) ->
  let s1 := cubic_on_retransmission_timeout s in
  let s2 := cubic_on_enter_recovery cbrt s now in
  (cubic_window s1 <= cubic_window s)%Z /\ (cubic_window s2 <= cubic_window s)%Z /\
  ssthresh s1 = rust_max (fmul (cwnd s) BETA_CUBIC) f64_2 /\
  ssthresh s2 = rust_max (fmul (cwnd s) BETA_CUBIC) f64_2 /\
  (2 * mss s <= cubic_sshthresh s1)%Z /\ (2 * mss s <= cubic_sshthresh s2)%Z /\
  (clampR (cwnd s1) (B2R (rwnd s)) <= clampR (cwnd s) (B2R (rwnd s)))%R /\
  (clampR (cwnd s2) (B2R (rwnd s)) <= clampR (cwnd s) (B2R (rwnd s)))%R.
Proof. exact loss_never_increases. Qed.

(* cwnd itself, finite cwnd >= 0 (MSS units; rnd = round-to-nearest-even to binary64). *)
Theorem c15_loss_cwnd_mss_units : forall (cbrt : f64 -> f64) (s : cubic) (now : Z),
  is_finite (cwnd s) = true -> (0 <= B2R (cwnd s))%R ->
  let s1 := cubic_on_retransmission_timeout s in
  let s2 := cubic_on_enter_recovery cbrt s now in
  cwnd s1 = f64_1 /\ ((1 <= B2R (cwnd s))%R -> (B2R (cwnd s1) <= B2R (cwnd s))%R) /\
  (Rmax (B2R (cwnd s1)) 2 <= Rmax (B2R (cwnd s)) 2)%R /\
  B2R (ssthresh s1) = Rmax (rnd (B2R (cwnd s) * B2R BETA_CUBIC)) 2 /\
  is_finite (cwnd s2) = true /\ B2R (cwnd s2) = rnd (B2R (cwnd s) * B2R BETA_CUBIC) /\
  (0 <= B2R (cwnd s2) <= B2R (cwnd s))%R /\
  B2R (ssthresh s2) = Rmax (rnd (B2R (cwnd s) * B2R BETA_CUBIC)) 2 /\
  B2R BETA_CUBIC = (6305039478318694 / 9007199254740992)%R.
Proof. exact loss_cwnd_mss_units. Qed.

(* PARTIAL: proved in MSS units (cwnd' = max(min(fl(cwnd + fl(len/mss)), rwnd), 2), hence
   cwnd' <= max(2, fl(cwnd + fl(len/mss)))).  The byte-level bound window' <= window + len + 1 is
   not proved as a theorem; it is the clause of c15_obs_ok checked on every model and
   implementation trace by tools/check. *)
Theorem c15_slow_start_growth_partial : forall (powf3 : f64 -> f64) (s : cubic) (now len rtt : Z),
  (1 <= mss s < 65536)%Z ->
  (is_finite (rwnd s) = true /\ (0 <= B2R (rwnd s) <= 4294967296)%R) ->
  (0 < len < 2 ^ 32)%Z ->
  is_finite (cwnd s) = true -> (0 <= B2R (cwnd s))%R ->
  fge (cwnd s) (rwnd s) = false -> flt (cwnd s) (ssthresh s) = true ->
  exists s', cubic_on_ack powf3 s now len rtt = Some s' /\
    cwnd s' = rust_max (rust_min (fadd (cwnd s) (fdiv (f64_of_Z len) (f64_of_Z (mss s)))) (rwnd s)) f64_2 /\
    is_finite (cwnd s') = true /\
    B2R (cwnd s') =
      Rmax (Rmin (rnd (B2R (cwnd s) + rnd (IZR len / IZR (mss s)))) (B2R (rwnd s))) 2 /\
    (B2R (cwnd s') <= Rmax 2 (rnd (B2R (cwnd s) + rnd (IZR len / IZR (mss s)))))%R /\
    ssthresh s' = ssthresh s /\ mss s' = mss s /\ rwnd s' = rwnd s.
Proof. exact slow_start_mss_units. Qed.

(* set_mss rescales (never resets): cwnd' = fl(cwnd * fl(mss/mss')), cwnd' mss' = cwnd mss (1 + d),
   |d| <= 3 * 2^-53. *)
Theorem c15_set_mss_rescales : forall (s : cubic) (m' : Z),
  (1 <= mss s < 65536)%Z -> (1 <= m' < 65536)%Z -> mss s <> m' ->
  is_finite (cwnd s) = true ->
  (/ 18446744073709551616 <= B2R (cwnd s) <= 18446744073709551616)%R ->
  let s' := cubic_set_mss s m' in
  cwnd s' = fmul (cwnd s) (fdiv (f64_of_Z (mss s)) (f64_of_Z m')) /\ mss s' = m' /\
  rwnd s' = rwnd s /\ is_finite (cwnd s') = true /\
  exists d : R, (Rabs d <= 3 * bpow radix2 (-53))%R /\
    (B2R (cwnd s') * IZR m' = B2R (cwnd s) * IZR (mss s) * (1 + d))%R.
Proof. exact set_mss_rescales. Qed.

(* The rounding-independent clauses of the observable predicate (window within
   [min(2 mss, win) - 1, win] whenever the peer window is in force, RTO / enter-recovery never
   increase window(), sshthresh() >= 2 mss after them, ssthresh/mss untouched by acks and
   window updates, zero-length acks change nothing, no panic) hold on EVERY model trace, for
   every cbrt / powf3. *)
Theorem c15_model_trace_core_ok : forall (cbrt powf3 : f64 -> f64) (mss0 : Z) (ops : list cubic_op),
  c15_obs_core mss0 ops (cubic_trace cbrt powf3 (cubic_new 0 mss0) ops) = true.
Proof. exact model_trace_core_ok. Qed.

Print Assumptions c15_window_bounds.
Print Assumptions c15_window_clamp_exact.
Print Assumptions c15_loss_never_increases.
Print Assumptions c15_loss_cwnd_mss_units.
Print Assumptions c15_slow_start_growth_partial.
Print Assumptions c15_set_mss_rescales.
Print Assumptions c15_model_trace_core_ok.

(* ======== byte-level results (Cubic/Cubic_Bytes_Proofs.v, predicates of Cubic/C15_Pred2.v) ======== *)
From Utp Require Import Cubic.C15_Pred2 Cubic.Cubic_Bytes_Proofs.

(* Slow start in BYTES (this closes c15_slow_start_growth_partial): any state with finite cwnd >= 0,
   cwnd < ssthresh (floats), finite peer window in [0, 2^32] MSS, 1 <= mss < 2^16, len < 2^32: one
   on_ack never lowers window() and raises it by at most len + 1.  The constant is exact: len + 1 is
   attained (Cubic_Proofs.slow_start_bytes_len_plus_one, a reachable state) because the previous
   window() was truncated down; "+ len" alone is false. *)
Theorem c15_slow_start_bytes : forall (powf3 : f64 -> f64) (s : cubic) (now len rtt : Z),
  (1 <= mss s < 65536)%Z ->
  (is_finite (rwnd s) = true /\ (0 <= B2R (rwnd s) <= 4294967296)%R) ->
  (0 <= len < 2 ^ 32)%Z ->
  is_finite (cwnd s) = true -> (0 <= B2R (cwnd s))%R ->
  flt (cwnd s) (ssthresh s) = true ->
  exists s', cubic_on_ack powf3 s now len rtt = Some s' /\
    mss s' = mss s /\ rwnd s' = rwnd s /\ ssthresh s' = ssthresh s /\
    last_congestion_event s' = last_congestion_event s /\
    (cubic_window s <= cubic_window s' <= cubic_window s + len + 1)%Z.
Proof. exact slow_start_bytes. Qed.

(* The float-state invariant of every reachable state (operations inside the domain c15_op_dom):
   mss in range, peer window finite in [0, 2^32] MSS, cwnd and ssthresh each +inf or finite >= 0
   (never NaN, never negative), whatever cbrt / powf3 return. *)
Theorem c15_reachable_state_invariant : forall (cbrt powf3 : f64 -> f64) (mss0 : Z)
    (ops : list cubic_op) (s : cubic),
  (1 <= mss0 < 65536)%Z -> forallb c15_op_dom ops = true ->
  cubic_run cbrt powf3 (cubic_new 0 mss0) ops = Some s ->
  (1 <= mss s < 65536)%Z /\
  (is_finite (rwnd s) = true /\ (0 <= B2R (rwnd s) <= 4294967296)%R) /\
  (cwnd s = B754_infinity false \/ (is_finite (cwnd s) = true /\ (0 <= B2R (cwnd s))%R)) /\
  (ssthresh s = B754_infinity false \/ (is_finite (ssthresh s) = true /\ (0 <= B2R (ssthresh s))%R)).
Proof. exact reachable_state_invariant. Qed.

(* On EVERY reachable state, with the guard on observables only (window() < sshthresh(), the slow
   start clause of C05 / c15_obs_ok): one ACK of len bytes raises window() by at most len + 1. *)
Theorem c15_slow_start_bytes_reachable : forall (cbrt powf3 : f64 -> f64) (mss0 : Z)
    (ops : list cubic_op) (s : cubic) (now len rtt : Z) (s' : cubic),
  (1 <= mss0 < 65536)%Z -> forallb c15_op_dom ops = true ->
  cubic_run cbrt powf3 (cubic_new 0 mss0) ops = Some s ->
  (0 <= len < 2 ^ 32)%Z -> cubic_on_ack powf3 s now len rtt = Some s' ->
  (cubic_window s < cubic_sshthresh s)%Z ->
  (cubic_window s' <= cubic_window s + len + 1)%Z.
Proof. exact slow_start_bytes_reachable. Qed.

(* After RTO / entry into recovery, in bytes: 0.7 * window_before <= sshthresh_after + 1 for every
   state satisfying the reachable-state invariant (cwnd = +inf included) ... *)
Theorem c15_ssthresh_after_loss_lower : forall (s : cubic),
  (1 <= mss s < 65536)%Z ->
  (is_finite (rwnd s) = true /\ (0 <= B2R (rwnd s) <= 4294967296)%R) ->
  (cwnd s = B754_infinity false \/ (is_finite (cwnd s) = true /\ (0 <= B2R (cwnd s))%R)) ->
  (7 * cubic_window s <=
   10 * (usize_of_f64 (fmul (rust_max (fmul (cwnd s) BETA_CUBIC) f64_2) (f64_of_Z (mss s))) + 1))%Z.
Proof. exact ss_lower. Qed.

(* ... and sshthresh_after <= max(2 mss, 0.7 * (window_before + 1) + 1) when the peer window win is
   in force (rwnd = fl(win/mss)) and cwnd <= max(rwnd, 2). *)
Theorem c15_ssthresh_after_loss_upper : forall (s : cubic) (win : Z),
  (1 <= mss s < 65536)%Z -> (0 <= win < 2 ^ 32)%Z ->
  is_finite (rwnd s) = true -> B2R (rwnd s) = rnd (IZR win / IZR (mss s)) ->
  is_finite (cwnd s) = true -> (0 <= B2R (cwnd s) <= Rmax (B2R (rwnd s)) 2)%R ->
  (usize_of_f64 (fmul (rust_max (fmul (cwnd s) BETA_CUBIC) f64_2) (f64_of_Z (mss s)))
   <= Z.max (2 * mss s) ((7 * (cubic_window s + 1)) / 10 + 1))%Z.
Proof. exact ss_upper. Qed.

(* set_mss in BYTES (completes c15_set_mss_rescales): peer window win in force, cwnd <= max(rwnd, 2),
   byte window strictly inside (2 mss + 1, win - 1); then ANY list of at most 65536 set_mss calls and
   set_remote_window win again: window() is the old byte window, or the new two-segment floor if that
   is larger, up to one byte.  set_mss rescales; it never resets to the initial window. *)
Theorem c15_set_mss_chain_bytes : forall (s : cubic) (win : Z) (ms : list Z),
  (1 <= mss s < 65536)%Z -> (0 <= win < 2 ^ 32)%Z ->
  is_finite (rwnd s) = true -> B2R (rwnd s) = rnd (IZR win / IZR (mss s)) ->
  is_finite (cwnd s) = true -> (0 <= B2R (cwnd s) <= Rmax (B2R (rwnd s)) 2)%R ->
  (2 * mss s + 1 < cubic_window s)%Z -> (cubic_window s + 1 < win)%Z ->
  forallb c15_mss_ok ms = true -> (Z.of_nat (length ms) <= 65536)%Z ->
  let s1 := fold_left cubic_set_mss ms s in
  let w := cubic_window (cubic_set_remote_window s1 win) in
  let expect := Z.max (cubic_window s) (Z.min (2 * mss s1) win) in
  (expect - 1 <= w <= expect + 1)%Z.
Proof. exact set_mss_chain_bytes. Qed.

(* ALL clauses of the observable predicate c15_obs_ok, the rounding-sensitive ones included (slow
   start growth <= len + 1, 0.7 window <= sshthresh + 1 and its upper counterpart after loss, byte
   window kept across MSS changes), on EVERY model trace in which at most 65536 set_mss calls are
   consecutive, for every cbrt / powf3. *)
Theorem c15_model_trace_fine_ok : forall (cbrt powf3 : f64 -> f64) (mss0 : Z) (ops : list cubic_op),
  setmss_runs_ok ops = true ->
  c15_obs_ok mss0 ops (cubic_trace cbrt powf3 (cubic_new 0 mss0) ops) = true.
Proof. exact model_trace_fine_ok. Qed.

(* Unconditional: c15_obs_ok_b (= c15_obs_ok when no run of set_mss is longer than 65536, else
   c15_obs_core) holds on every model trace. *)
Theorem c15_model_trace_ok_b : forall (cbrt powf3 : f64 -> f64) (mss0 : Z) (ops : list cubic_op),
  c15_obs_ok_b mss0 ops (cubic_trace cbrt powf3 (cubic_new 0 mss0) ops) = true.
Proof. exact model_trace_ok_b. Qed.

Print Assumptions c15_slow_start_bytes.
Print Assumptions c15_reachable_state_invariant.
Print Assumptions c15_slow_start_bytes_reachable.
Print Assumptions c15_ssthresh_after_loss_lower.
Print Assumptions c15_ssthresh_after_loss_upper.
Print Assumptions c15_set_mss_chain_bytes.
Print Assumptions c15_model_trace_fine_ok.
Print Assumptions c15_model_trace_ok_b.

(* The slow-start clause of C05 at the congestion controller, cumulative and EXACT: from Cubic::new,
   after any sequence of at most 2^18 set_remote_window / on_ack / set_mss operations (no RTO, no
   recovery) with 2 * mss_max + acked_bytes < 2^32:  window() <= 2 * mss_max + acked_bytes, where
   (mss_max, acked_bytes) = ss_acc mss0 0 ops.  All float error is absorbed by the final truncation. *)
Theorem c15_slow_start_cumulative : forall (cbrt powf3 : f64 -> f64) (now0 mss0 : Z)
    (ops : list cubic_op) (s : cubic),
  (1 <= mss0 < 65536)%Z -> forallb ss_only ops = true -> forallb c15_op_dom ops = true ->
  (Z.of_nat (length ops) <= 262144)%Z ->
  (2 * fst (ss_acc mss0 0 ops) + snd (ss_acc mss0 0 ops) <= 4294967295)%Z ->
  cubic_run cbrt powf3 (cubic_new now0 mss0) ops = Some s ->
  (cubic_window s <= 2 * fst (ss_acc mss0 0 ops) + snd (ss_acc mss0 0 ops))%Z.
Proof. exact slow_start_cumulative. Qed.

Print Assumptions c15_slow_start_cumulative.

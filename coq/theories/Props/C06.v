(* C06 — retransmission discipline: back-off, fast retransmit, bounded, stable content.
   Connection level: theorems about the model's send path (Conn/VSock.v), Recovery and Segments.
   Only statements + exact. *)
From Utp Require Import Base.Prelude Wire.SeqNr Rtt.Rtte Rtt.Rtte_Proofs Tx.Ring Tx.Segments
  Conn.Recovery Conn.Msg Conn.VSockRec Conn.VSock Conn.VSock_LemmasTx Conn.VSock_LemmasIn Conn.C06_Pred
  Conn.C06_Proofs Conn.C06_RecProofs.
From Utp Require Import Tx.Segments_Proofs Wire.Header.

(* (e) the RTO part retransmits the FIRST undelivered segment of the table, and nothing else *)
Theorem c06_rto_resends_first_unacked : forall (CC : Type) (cci : cc_iface CC) s s' f rest,
  v_transport_pending s = false ->
  timer_expired (v_t_retransmit s) (v_now s) = true ->
  iter_for_sending (v_segs s) None = f :: rest ->
  0 <= v_rto_retransmissions s ->
  step_st (send_tx_queue cci s) = Some s' ->
  (item_ok (v_segs s) f /\
   forall j g, (j < fs_idx f)%nat -> nth_error (ss_segs (v_segs s)) j = Some g -> sg_delivered g = true) /\
  (v_out s' = v_out s \/ v_out s' = data_pkt s (outgoing_header s) f :: v_out s).
Proof. exact (@rto_resends_first_unacked). Qed.

(* (e) the timer the RTO part leaves: now + min(2 rto, 60 s) for a data segment and for the FIN;
   now + rto, estimator and congestion controller untouched, for an MTU probe (boundary B6) *)
Theorem c06_backoff_doubles : forall (CC : Type) (cci : cc_iface CC) s s1,
  rto_in_bounds (v_rtte s) ->
  step_st (rto_branch cci s (outgoing_header s)) = Some s1 ->
  v_out s1 = v_out s \/
  (exists f rest, iter_for_sending (v_segs s) None = f :: rest /\
     v_out s1 = data_pkt s (outgoing_header s) f :: v_out s /\
     v_t_retransmit s1 = Some (v_now s +
        (if sg_probe (fs_seg f) then retransmission_timeout (v_rtte s)
         else Z.min (2 * retransmission_timeout (v_rtte s)) (60 * NS_PER_SEC))) /\
     (sg_probe (fs_seg f) = true -> v_rtte s1 = v_rtte s /\ v_cc s1 = v_cc s)) \/
  (exists fin, iter_for_sending (v_segs s) None = [] /\
     v_out s1 = fin_pkt (set_last_sent_seq_nr s (wsub16 fin 1)) fin :: v_out s /\
     v_t_retransmit s1 = Some (v_now s + Z.min (2 * retransmission_timeout (v_rtte s)) (60 * NS_PER_SEC))).
Proof. exact (@backoff_doubles). Qed.

Theorem c06_backoff_within_bounds : forall (CC : Type) (cci : cc_iface CC) s s1,
  rto_in_bounds (v_rtte s) ->
  step_st (rto_branch cci s (outgoing_header s)) = Some s1 -> rto_in_bounds (v_rtte s1).
Proof. exact (@backoff_within_bounds). Qed.

(* the model's send_tx_queue is the composition of the named parts the lemmas speak about *)
Theorem c06_send_tx_queue_parts : forall (CC : Type) (cci : cc_iface CC) s,
  send_tx_queue cci s =
  if v_transport_pending s then SOk s tt
  else sbind (rto_branch cci s (outgoing_header s)) (after_rto_k cci (outgoing_header s)).
Proof. exact (@send_tx_queue_eq). Qed.

(* (f) the retry cap *)
Theorem c06_retry_cap_send_data : forall (CC : Type) (s : vsock CC) h f,
  seg_retransmit_count (fs_seg f) = o_max_retx (v_opts s) ->
  send_data s h f = SErr s ErrMaxRetransmissionsReached.
Proof. exact (@retry_cap_send_data). Qed.

Theorem c06_retry_cap_rto : forall (CC : Type) (cci : cc_iface CC) s f rest,
  v_transport_pending s = false ->
  timer_expired (v_t_retransmit s) (v_now s) = true ->
  iter_for_sending (v_segs s) None = f :: rest ->
  seg_retransmit_count (fs_seg f) = o_max_retx (v_opts s) ->
  send_tx_queue cci s = SErr s ErrMaxRetransmissionsReached.
Proof. exact (@retry_cap_rto). Qed.

Theorem c06_retry_cap_poll : forall (CC A : Type) (s : vsock CC) e (k : vsock CC -> A -> body_res),
  pend (SErr s e) k = BrReturn (just_before_death s (Some e)) (PollReadyErr e).
Proof. exact (@retry_cap_poll). Qed.

Theorem c06_sent_below_cap : forall (CC : Type) (cci : cc_iface CC) s s',
  0 <= v_rto_retransmissions s ->
  step_st (send_tx_queue cci s) = Some s' ->
  exists ctl sent, stq_emits s s' ctl sent /\
    Forall (fun f => seg_retransmit_count (fs_seg f) <> o_max_retx (v_opts s)) sent.
Proof. exact (@sent_below_cap). Qed.

(* (g) + (h, first half): every ST_DATA of a call names an undelivered segment of the table and
   carries `size` bytes of the ring at offset abs - removed *)
Theorem c06_never_resend_acked : forall (CC : Type) (cci : cc_iface CC) s s',
  0 <= v_rto_retransmissions s ->
  step_st (send_tx_queue cci s) = Some s' ->
  exists ctl sent,
    v_out s' = rev (map (data_pkt s (outgoing_header s)) sent) ++ ctl ++ v_out s /\
    (ctl = [] \/ (sent = [] /\ exists fin, ctl = [fin_pkt (set_last_sent_seq_nr s (wsub16 fin 1)) fin])) /\
    Forall (fun f =>
      exists g, nth_error (ss_segs (v_segs s)) (fs_idx f) = Some g /\ sg_delivered g = false /\
        sg_size g = sg_size (fs_seg f) /\ sg_abs g = sg_abs (fs_seg f) /\
        fs_seq f = wadd16 (ss_snd_una (v_segs s)) (Z.of_nat (fs_idx f) mod M16) /\
        p_payload (data_pkt s (outgoing_header s) f) =
          firstn (Z.to_nat (sg_size g)) (skipn (Z.to_nat (sg_abs g - ss_removed (v_segs s))) (ring (v_tx s))) /\
        0 <= sg_abs g - ss_removed (v_segs s) /\
        sg_abs g - ss_removed (v_segs s) + sg_size g <= Z.of_nat (length (ring (v_tx s)))) sent.
Proof. exact (@never_resend_acked). Qed.

(* (i) duplicate counting (Conn/Recovery.v) *)
Theorem c06_count_sack_three : forall h d k,
  ch_sack h = Some k -> 3 <= count_ones (sk_bits k) -> count_sack_duplicates h d = Some 3.
Proof. exact count_sack_three. Qed.

Theorem c06_count_sack_one : forall h d k,
  ch_sack h = Some k -> count_ones (sk_bits k) < 3 -> d + 1 <= 255 -> count_sack_duplicates h d = Some (d + 1).
Proof. exact count_sack_one. Qed.

Theorem c06_count_non_sack_repeat : forall h d w a,
  ch_type h = ST_STATE -> a = ch_ack h -> w = ch_wnd h ->
  count_non_sack_duplicates h d (Some (w, a)) = (Z.min 255 (d + 1), Some (w, a)).
Proof. exact count_non_sack_repeat. Qed.

(* a window update, another ack_nr, or a packet that is not ST_STATE resets the count *)
Theorem c06_count_non_sack_reset : forall h d la,
  (match la with
   | Some (w, a) => ch_type h <> ST_STATE \/ a <> ch_ack h \/ w <> ch_wnd h
   | None => True
   end) ->
  count_non_sack_duplicates h d la = (0, Some (ch_wnd h, ch_ack h)).
Proof. exact count_non_sack_reset. Qed.

Theorem c06_dup_threshold : forall (CC : Type) (cci : cc_iface CC) r h segs ls cc now rtt d r' segs' cc',
  rv_phase r = CountingDuplicates d -> ss_segs segs <> [] ->
  recovery_on_ack cci r h segs ls cc now rtt = Some (r', segs', cc') ->
  exists c, counted_dups r h d = Some c /\
    (c < 3 -> rv_phase r' = CountingDuplicates c /\ segs' = segs /\ cc' = cc) /\
    (3 <= c -> exists rc, rv_phase r' = Recovering rc /\
                 rc_high_rxt rc = wsub16 (ss_snd_una segs) 1 /\ rc_recovery_point rc = ls /\
                 rc_total_retx rc = 0 /\ cc' = cc_on_enter_recovery cci cc now).
Proof. exact (@dup_threshold). Qed.

Theorem c06_dup_empty_table_resets : forall (CC : Type) (cci : cc_iface CC) r h segs ls cc now rtt d r' segs' cc',
  rv_phase r = CountingDuplicates d -> ss_segs segs = [] ->
  recovery_on_ack cci r h segs ls cc now rtt = Some (r', segs', cc') ->
  rv_phase r' = CountingDuplicates 0 /\ segs' = segs /\ cc' = cc.
Proof. exact (@dup_empty_table_resets). Qed.

Theorem c06_dup_ignored_until_recovery_point : forall (CC : Type) (cci : cc_iface CC) r h segs ls cc now rtt rp r' segs' cc',
  rv_phase r = IgnoringUntilRecoveryPoint rp ->
  recovery_on_ack cci r h segs ls cc now rtt = Some (r', segs', cc') ->
  is_recovering r' = false /\ segs' = segs /\ cc' = cc /\
  (rv_phase r' = IgnoringUntilRecoveryPoint rp \/
   (seq_ge (ch_ack h) rp = true /\ rv_phase r' = CountingDuplicates 0)).
Proof. exact (@dup_ignored_until_recovery_point). Qed.

(* (i) fast retransmit: Recovering with nothing retransmitted yet, no RTO pending, no RTO mode: the
   first item of the recovery iterator goes out in this call *)
Theorem c06_fast_retransmit : forall (CC : Type) (cci : cc_iface CC) s s' rc f rest s1,
  v_transport_pending s = false ->
  timer_expired (v_t_retransmit s) (v_now s) = false ->
  v_rto_retransmissions s = 0 ->
  ss_segs (v_segs s) <> [] ->
  rv_phase (v_recovery s) = Recovering rc -> rc_total_retx rc = 0 ->
  rec_items s rc = f :: rest ->
  send_data s (outgoing_header s) f = SOk s1 SdSent ->
  step_st (send_tx_queue cci s) = Some s' ->
  In f (iter_for_sending (v_segs s) None) /\
  exists more, v_out s' = more ++ data_pkt s (outgoing_header s) f :: v_out s.
Proof. exact (@fast_retransmit). Qed.

(* (j) Karn *)
Theorem c06_karn_sample_source : forall t now ack sk t' r x,
  remove_up_to_ack t now ack sk = (t', r) -> ar_new_rtt r = Some x ->
  exists g ts, In g (ss_segs t) /\ sg_sent g = SentTime ts /\ x = sat_sub now ts.
Proof. exact karn_sample_source. Qed.

Theorem c06_karn : forall (CC : Type) (cci : cc_iface CC) (s1 : vsock CC) h s2 res,
  pim_ack cci s1 h = Some (s2, res) ->
  v_rtte s2 = v_rtte s1 \/
  (is_recovering (v_recovery s1) = false /\
   exists x g ts, sample (v_rtte s1) x = Some (v_rtte s2) /\
     In g (ss_segs (v_segs s1)) /\ sg_sent g = SentTime ts /\ x = sat_sub (v_now s1) ts).
Proof. exact (@karn_conn). Qed.

(* pim_ack is the ACK-processing part of process_incoming_message *)
Theorem c06_process_incoming_message_parts : forall (CC : Type) (cci : cc_iface CC) s m,
  process_incoming_message cci s m =
  match state_table s (m_hdr m) with
  | TblDrop s1 => SOk s1 on_ack_result_default
  | TblErr s1 e => SErr s1 e
  | TblContinue s1 => pim_cont cci s1 m (is_remote_fin_or_later (v_state s))
  end.
Proof. exact (@process_incoming_message_eq). Qed.

(* (h) PARTIAL *)
Theorem c06_stable_content_partial : forall (gw1 ext ring1 ring2 : list Z) (gr1 gr2 abs size : Z),
  gw1 = firstn (Z.to_nat gr1) gw1 ++ ring1 ->
  gw1 ++ ext = firstn (Z.to_nat gr2) (gw1 ++ ext) ++ ring2 ->
  0 <= gr1 <= abs -> 0 <= gr2 <= abs -> (Z.to_nat gr1 <= length gw1)%nat -> (Z.to_nat gr2 <= length (gw1 ++ ext))%nat ->
  0 <= size -> abs + size <= Z.of_nat (length gw1) ->
  firstn (Z.to_nat size) (skipn (Z.to_nat (abs - gr1)) ring1) =
  firstn (Z.to_nat size) (skipn (Z.to_nat (abs - gr2)) ring2).
Proof. exact stable_content_partial. Qed.

Theorem c06_joint_inv_ack_then_truncate_partial : forall t now ack sk t' r (tx tx' : tx),
  seg_inv t -> remove_up_to_ack t now ack sk = (t', r) ->
  ss_removed t = g_removed tx -> ar_acked_bytes r <= Z.of_nat (length (ring tx)) ->
  truncate_front tx (ar_acked_bytes r) = (tx', TrOk) ->
  ss_removed t' = g_removed tx'.
Proof. exact joint_inv_ack_then_truncate. Qed.

(* (h) at the connection: process_all_incoming_messages as a whole.  joint_rel p s = the table
   invariant, removed_offset = bytes truncated from the ring + p, and the table ends inside the
   ring.  Once its receive loop has returned - by whichever arm: `early` = true is the poll that
   sees the message channel closed (finding T1 = D17, repaired) - the function never reports
   BugTruncateFront and re-establishes the relation with p = 0, in every state. *)
Theorem c06_joint_inv_process_all : forall (CC : Type) (cci : cc_iface CC) (s s1 : vsock CC) r early,
  joint_rel 0 s ->
  recv_loop cci (v_inbox s ++ [ {| m_hdr := outgoing_header s; m_payload := [] |} ]) s
            on_ack_result_default = SOk s1 (r, early) ->
  match process_all_incoming_messages cci s with
  | SOk s' _ => joint_rel 0 s'
  | SErr _ _ => False
  | SPanic => True
  end.
Proof. exact (@joint_inv_process_all). Qed.

(* ... and the receive loop itself: p grows by exactly the bytes the messages acknowledged *)
Theorem c06_joint_recv_loop : forall (CC : Type) (cci : cc_iface CC) fuel (s : vsock CC) acc s' r early,
  acc_ok acc -> joint_rel (ar_acked_bytes acc) s ->
  recv_loop cci fuel s acc = SOk s' (r, early) ->
  acc_ok r /\ joint_rel (ar_acked_bytes r) s'.
Proof. exact (@recv_loop_joint). Qed.

Print Assumptions c06_rto_resends_first_unacked.
Print Assumptions c06_backoff_doubles.
Print Assumptions c06_backoff_within_bounds.
Print Assumptions c06_send_tx_queue_parts.
Print Assumptions c06_retry_cap_send_data.
Print Assumptions c06_retry_cap_rto.
Print Assumptions c06_retry_cap_poll.
Print Assumptions c06_sent_below_cap.
Print Assumptions c06_never_resend_acked.
Print Assumptions c06_count_sack_three.
Print Assumptions c06_count_sack_one.
Print Assumptions c06_count_non_sack_repeat.
Print Assumptions c06_count_non_sack_reset.
Print Assumptions c06_dup_threshold.
Print Assumptions c06_dup_empty_table_resets.
Print Assumptions c06_dup_ignored_until_recovery_point.
Print Assumptions c06_fast_retransmit.
Print Assumptions c06_karn_sample_source.
Print Assumptions c06_karn.
Print Assumptions c06_process_incoming_message_parts.
Print Assumptions c06_stable_content_partial.
Print Assumptions c06_joint_inv_ack_then_truncate_partial.
Print Assumptions c06_joint_inv_process_all.
Print Assumptions c06_joint_recv_loop.

(* ================================================================================================
   Step-level and trace-level theorems (Conn/C06_Step.v, Conn/C06_StepLemmas.v): the boolean predicates of
   Conn/C06_Pred.v hold of EVERY step of the model from a state satisfying a proved invariant, and of
   every trace from vsock_new. *)
From Utp Require Import Rx.Rx Conn.VSockRun Conn.VObs Conn.C10_Pred Conn.VSock_Lemmas Conn.C17_StepLemmas
  Conn.C06_StepLemmas Conn.C06_Step.

(* ---- c06_joint_ok: the joint invariant of ring and table, after every Pending poll of every trace.
   Invariant (kept by every event): JI w s = the segment-table / segment-size invariants, segmented bytes
   within the ring (LB), removed_offset = bytes truncated from the ring, and bytes truncated + bytes in
   the ring = w, the bytes accepted from the writer so far. *)
Theorem c06_joint_ok_poll_invariant : forall (CC : Type) (cci : cc_iface CC) (w : Z) (s s' : vsock CC),
  JI w s -> poll cci s = (s', PollPending) -> JI w s'.
Proof. exact @poll_JI. Qed.

Theorem c06_joint_ok_from_invariant : forall (CC : Type) (cci : cc_iface CC) (ops : list vop) (w : Z)
    (s : vsock CC),
  JI w s -> joint_trace w (ftrace cci s ops) = true.
Proof. exact @joint_trace_ok. Qed.

Theorem c06_joint_ok_every_trace : forall (CC : Type) (cci : cc_iface CC) (cfg : vconfig)
    (mk : Z -> Z -> CC) (c : vconfig) (s0 : vsock CC) (ops : list vop),
  vconfig_ok c = true -> vsock_new cci mk c = Some s0 -> c06_joint_ok cfg (ftrace cci s0 ops) = true.
Proof. exact @c06_joint_ok_trace. Qed.

Print Assumptions c06_joint_ok_poll_invariant.
Print Assumptions c06_joint_ok_from_invariant.
Print Assumptions c06_joint_ok_every_trace.

(* ---- c06_cap_ok: the retry cap, after EVERY event (every state, every event, every poll result:
   Pending, Ready, error, panic).  CAPc cfg s = every segment of the table shows between 0 and
   max_retransmissions retransmissions (CAP), and the option the connection carries is cfg's.  It is an
   invariant: kept by every event, established by vsock_new whenever 0 <= vc_max_retx. *)
Theorem c06_cap_ok_every_step : forall (CC : Type) (cci : cc_iface CC) (cfg : vconfig) (s : vsock CC) (o : vop),
  CAPc cfg s -> CAPc cfg (vstep_state cci s o) /\ c06_cap_ok cfg (VSock_Lemmas.fstep_of cci s o) = true.
Proof. exact @c06_cap_ok_step. Qed.

Theorem c06_cap_initial : forall (CC : Type) (cci : cc_iface CC) (mk : Z -> Z -> CC) (c : vconfig) (s0 : vsock CC),
  0 <= vc_max_retx c -> vsock_new cci mk c = Some s0 -> CAPc c s0.
Proof. exact @CAPc_vsock_new. Qed.

Theorem c06_cap_ok_every_trace : forall (CC : Type) (cci : cc_iface CC)
    (mk : Z -> Z -> CC) (c : vconfig) (s0 : vsock CC) (ops : list vop),
  0 <= vc_max_retx c -> vsock_new cci mk c = Some s0 ->
  forallb (c06_cap_ok c) (ftrace cci s0 ops) = true.
Proof. exact @c06_cap_ok_trace. Qed.

(* the poll-level form: CAP after every poll whatever its result; the poll that gives up with
   MaxRetransmissionsReached leaves an undelivered segment AT the cap in the table *)
Theorem c06_cap_poll : forall (CC : Type) (cci : cc_iface CC) (s s' : vsock CC) (r : poll_result),
  CAP s -> poll cci s = (s', r) ->
  CAP s' /\ (r = PollReadyErr ErrMaxRetransmissionsReached -> MAXW s').
Proof. exact @poll_CAP. Qed.

Print Assumptions c06_cap_ok_every_step.
Print Assumptions c06_cap_initial.
Print Assumptions c06_cap_ok_every_trace.
Print Assumptions c06_cap_poll.

(* ---- c06_emitted_live_ok: FALSE as stated (a poll that restarts after popping a failed MTU probe processes
   queued ACKs after its first iteration sent data); TRUE of every poll the transport cannot answer with
   EMSGSIZE (no path limit in force, no EMSGSIZE in the script) -- the guard is on the EVENTS of the trace,
   c06_emitted_live_ok_g (Conn/C06_Pred2.v) carries it. *)
From Utp Require Import Conn.C06_Pred2 Conn.C10_Proofs Conn.VSock_LemmasPipe.

Theorem c06_emitted_live_ok_restart_refuted :
  exists w cfg ops,
    vconfig_ok cfg = true /\ Forall op_msg_ok ops /\
    forallb (c06_emitted_live_ok cfg) (wtrace w cfg ops) = false /\
    c06_emitted_live_ok_g cfg (wtrace w cfg ops) = true /\
    forallb (c06_cap_ok cfg) (wtrace w cfg ops) = true.
Proof. exact emitted_live_restart_refuted. Qed.

(* NW = the poll's clock is env.now(); OUT = every ST_DATA in the poll's output names a segment that is in
   the table, not delivered, sent, of that payload size, (re)transmitted at this poll's clock *)
Theorem c06_emitted_live_poll_strict : forall (CC : Type) (cci : cc_iface CC) (s s' : vsock CC),
  LB 0 s -> EF s -> poll cci s = (s', PollPending) -> NW s' /\ OUT s'.
Proof. exact @poll_OUT_strict. Qed.

Theorem c06_emitted_live_ok_guarded_step : forall (CC : Type) (cci : cc_iface CC) (cfg : vconfig)
    (s : vsock CC) (sc : list send_outcome),
  LB 0 s -> v_emsg_limit s = None -> script_legit sc = true ->
  c06_emitted_live_ok cfg (VSock_Lemmas.fstep_of cci s (VoPoll sc)) = true.
Proof. exact @c06_emitted_live_ok_poll. Qed.

Theorem c06_emitted_live_ok_other_events : forall (CC : Type) (cci : cc_iface CC) (cfg : vconfig)
    (s : vsock CC) (o : vop),
  (forall sc, o <> VoPoll sc) -> c06_emitted_live_ok cfg (VSock_Lemmas.fstep_of cci s o) = true.
Proof. exact @c06_emitted_live_ok_other. Qed.

(* LB 0 is an invariant of every trace (Conn/C17_StepLemmas.v vstep_LB, vsock_new_LB) *)
Theorem c06_emitted_live_ok_g_every_trace : forall (CC : Type) (cci : cc_iface CC) (cfg : vconfig)
    (mk : Z -> Z -> CC) (c : vconfig) (s0 : vsock CC) (ops : list vop),
  vconfig_ok c = true -> vsock_new cci mk c = Some s0 ->
  c06_emitted_live_ok_g cfg (ftrace cci s0 ops) = true.
Proof. exact @c06_emitted_live_ok_g_trace. Qed.

Print Assumptions c06_emitted_live_ok_restart_refuted.
Print Assumptions c06_emitted_live_poll_strict.
Print Assumptions c06_emitted_live_ok_guarded_step.
Print Assumptions c06_emitted_live_ok_other_events.
Print Assumptions c06_emitted_live_ok_g_every_trace.

(* ---- c06_backoff_ok: after EVERY event the RTO is within [200 ms, 60 s]; the poll in which the RTO part
   retransmitted a data segment emitted exactly that ST_DATA, doubled the estimator's RTO (capped; untouched
   for an MTU probe) and restarted the timer at now + RTO -- whatever else the poll did (restarts included).
   Invariants: ti (Conn/VSock_LemmasTimers.v) and LB 0 (Conn/C17_StepLemmas.v), both kept by every event. *)
From Utp Require Import Conn.VSock_LemmasTimers Conn.C06_StepLemmas2.

Theorem c06_backoff_ok_every_step : forall (CC : Type) (cci : cc_iface CC) (cfg : vconfig) (s : vsock CC) (o : vop),
  ti s -> LB 0 s -> c06_backoff_ok cfg (VSock_Lemmas.fstep_of cci s o) = true.
Proof. exact @c06_backoff_ok_step. Qed.

Theorem c06_backoff_ok_every_trace : forall (CC : Type) (cci : cc_iface CC) (cfg : vconfig)
    (mk : Z -> Z -> CC) (c : vconfig) (s0 : vsock CC) (ops : list vop),
  vconfig_ok c = true -> vsock_new cci mk c = Some s0 ->
  forallb (c06_backoff_ok cfg) (ftrace cci s0 ops) = true.
Proof. exact @c06_backoff_ok_trace. Qed.

(* the poll-level form: BC r0 rt0 s' = ti, the poll's clock is env.now(), and EITHER the RTO branch fired
   (MF: one ST_DATA among non-data datagrams, naming a table segment; estimator = on_rto_timeout rt0, or rt0
   for a probe; timer = now + RTO; counter = r0 + 1) OR the counter did not grow *)
Theorem c06_backoff_poll : forall (CC : Type) (cci : cc_iface CC) (r0 : Z) (rt0 : rtt_state) (s s' : vsock CC),
  ti s -> v_rto_retransmissions s = r0 -> v_rtte s = rt0 ->
  poll cci s = (s', PollPending) -> BC r0 rt0 s'.
Proof. exact @poll_backoff. Qed.

(* what one send_tx_queue call does to the RTO counter *)
Theorem c06_send_tx_queue_rto_counter : forall (CC : Type) (cci : cc_iface CC) (s s' : vsock CC) (u : unit),
  send_tx_queue cci s = SOk s' u -> ti s -> stq_out s s'.
Proof. exact @stq_mode. Qed.

(* an RTT sample is taken only by a poll whose messages acknowledged something *)
Theorem c06_incoming_path_rto_mode : forall (CC : Type) (cci : cc_iface CC) (s s' : vsock CC) (u : unit),
  process_all_incoming_messages cci s = SOk s' u -> RB s ->
  RB s' /\ v_now s' = v_now s /\
  ((v_rto_retransmissions s' = v_rto_retransmissions s /\ v_rtte s' = v_rtte s /\ (NE s -> NE s')) \/
   (v_rto_retransmissions s' = 0 /\ NE s')).
Proof. exact @pim_mode. Qed.

Print Assumptions c06_backoff_ok_every_step.
Print Assumptions c06_backoff_ok_every_trace.
Print Assumptions c06_backoff_poll.
Print Assumptions c06_send_tx_queue_rto_counter.
Print Assumptions c06_incoming_path_rto_mode.

(* ---- c06_no_resend_acked ("a segment the peer has acknowledged, cumulatively or selectively, is never
   retransmitted"): every ST_DATA of a poll -- WHATEVER the poll's result -- names, in the table as it was
   before the poll, nothing or a segment not yet delivered.  Proved for the polls the transport cannot answer
   with EMSGSIZE, with the tables before and after the poll within the wrap tolerance (the guard of
   c06_no_resend_acked_t / _g, Conn/C06_Pred2.v).  DM t0 t: a delivered segment of t0 is either dropped from
   the front of t or still in t, delivered, at the shifted index. *)
Theorem c06_delivered_stays_delivered : forall (CC : Type) (cci : cc_iface CC) (s s' : vsock CC) (r : poll_result),
  LB 0 s -> EF s -> poll cci s = (s', r) ->
  match r with
  | PollPanic => v_out s' = []
  | _ => NW s' /\ OUT s' /\ DM (v_segs s) (v_segs s')
  end.
Proof. exact @poll_OUT_DM_strict_all. Qed.

Theorem c06_no_resend_acked_guarded_step : forall (CC : Type) (cci : cc_iface CC) (cfg : vconfig)
    (s : vsock CC) (sc : list send_outcome),
  LB 0 s -> v_emsg_limit s = None -> script_legit sc = true ->
  c06_no_resend_acked_t cfg (VSock_Lemmas.fstep_of cci s (VoPoll sc)) = true.
Proof. exact @c06_no_resend_acked_t_poll. Qed.

Theorem c06_no_resend_acked_g_every_trace : forall (CC : Type) (cci : cc_iface CC) (cfg : vconfig)
    (mk : Z -> Z -> CC) (c : vconfig) (s0 : vsock CC) (ops : list vop),
  vconfig_ok c = true -> vsock_new cci mk c = Some s0 ->
  c06_no_resend_acked_g cfg (ftrace cci s0 ops) = true.
Proof. exact @c06_no_resend_acked_g_trace. Qed.

Print Assumptions c06_delivered_stays_delivered.
Print Assumptions c06_no_resend_acked_guarded_step.
Print Assumptions c06_no_resend_acked_g_every_trace.

(* ---- c06_fast_retx_ok: the poll in which Recovering is entered (no RTO mode, transport writable)
   retransmits the first undelivered segment when it lies within the recovery point.  Proved for the polls the
   transport cannot answer with EMSGSIZE, under the guard of c06_fast_retx_ok_t (SACK depth not negative;
   segments before the poll + index of the first undelivered one < 1024: the distance the sequence-number
   comparison with high_rxt has to bridge).  HRI L = a Recovering phase entered while the poll processes its
   messages has retransmitted nothing and its high_rxt is at most L segments below the left edge. *)
From Utp Require Import Conn.C06_StepLemmas3.

Theorem c06_fast_retransmit_in_send_tx_queue : forall (CC : Type) (cci : cc_iface CC) (s s' : vsock CC) (u : unit)
    (rc : recovering) (f0 : for_sending) (rest : list for_sending),
  send_tx_queue cci s = SOk s' u -> ti s ->
  v_transport_pending s = false -> v_transport_pending s' = false -> v_rto_retransmissions s' = 0 ->
  rv_phase (v_recovery s) = Recovering rc -> rc_total_retx rc = 0 ->
  rec_items s rc = f0 :: rest ->
  (exists more, v_out s' = more ++ data_pkt s (outgoing_header s) f0 :: v_out s) /\
  (forall rc', rv_phase (v_recovery s') = Recovering rc' -> rc_recovery_point rc' = rc_recovery_point rc).
Proof. exact @stq_fast. Qed.

Theorem c06_recovery_entered_while_receiving : forall (CC : Type) (cci : cc_iface CC) (L : Z)
    (s1 s2 : vsock CC) (h : chdr) (res : on_ack_result),
  pim_ack cci s1 h = Some (s2, res) -> HRI L s1 -> HRI L s2.
Proof. exact @pim_ack_HRI. Qed.

Theorem c06_fast_retx_poll_strict : forall (CC : Type) (cci : cc_iface CC) (L : Z) (s s' : vsock CC),
  LB 0 s -> ti s -> EF s -> is_recovering (v_recovery s) = false ->
  len_z (ss_segs (v_segs s)) <= L ->
  poll cci s = (s', PollPending) -> FC L s'.
Proof. exact @poll_fast_strict. Qed.

Theorem c06_fast_retx_ok_guarded_step : forall (CC : Type) (cci : cc_iface CC) (cfg : vconfig)
    (s : vsock CC) (sc : list send_outcome),
  LB 0 s -> ti s -> v_emsg_limit s = None -> script_legit sc = true ->
  c06_fast_retx_ok_t cfg (VSock_Lemmas.fstep_of cci s (VoPoll sc)) = true.
Proof. exact @c06_fast_retx_ok_t_poll. Qed.

Theorem c06_fast_retx_ok_g_every_trace : forall (CC : Type) (cci : cc_iface CC) (cfg : vconfig)
    (mk : Z -> Z -> CC) (c : vconfig) (s0 : vsock CC) (ops : list vop),
  vconfig_ok c = true -> vsock_new cci mk c = Some s0 ->
  c06_fast_retx_ok_g cfg (ftrace cci s0 ops) = true.
Proof. exact @c06_fast_retx_ok_g_trace. Qed.

Print Assumptions c06_fast_retransmit_in_send_tx_queue.
Print Assumptions c06_recovery_entered_while_receiving.
Print Assumptions c06_fast_retx_poll_strict.
Print Assumptions c06_fast_retx_ok_guarded_step.
Print Assumptions c06_fast_retx_ok_g_every_trace.

(* ---- the guards of the step theorems are met by reachable steps: five RTO back-offs then the cap
   (MaxRetransmissionsReached) on one trace; three duplicate ACKs and a fast retransmission on another *)
Theorem c06_backoff_cap_nonvacuous :
  exists w cfg ops,
    vconfig_ok cfg = true /\ Forall op_msg_ok ops /\
    Z.of_nat (length (filter rto_fired (wtrace w cfg ops))) = 5 /\
    existsb gave_up (wtrace w cfg ops) = true /\
    forallb (c06_backoff_ok cfg) (wtrace w cfg ops) = true /\
    forallb (c06_cap_ok cfg) (wtrace w cfg ops) = true /\
    c06_emitted_live_ok_g cfg (wtrace w cfg ops) = true /\
    c06_no_resend_acked_g cfg (wtrace w cfg ops) = true /\
    c06_joint_ok cfg (wtrace w cfg ops) = true.
Proof. exact backoff_cap_nonvacuous. Qed.

Theorem c06_fast_retx_nonvacuous :
  exists w cfg ops,
    vconfig_ok cfg = true /\ Forall op_msg_ok ops /\
    existsb entered_recovery (wtrace w cfg ops) = true /\
    c06_fast_retx_ok_g cfg (wtrace w cfg ops) = true /\
    forallb (c06_fast_retx_ok cfg) (wtrace w cfg ops) = true.
Proof. exact fast_retx_nonvacuous. Qed.

Print Assumptions c06_backoff_cap_nonvacuous.
Print Assumptions c06_fast_retx_nonvacuous.

(* ---- session 6: the remaining trace predicates (Conn/C06_Step2.v, Conn/C06_Step2b.v) ---- *)
From Utp Require Import Conn.C06_Step2 Conn.C06_Pred3 Conn.C06_Step2b.

(* the phase IgnoringUntilRecoveryPoint rp ends with the poll that takes an acknowledgement reaching rp:
   every trace of the model from vsock_new, no hypothesis on the configuration *)
Theorem c06_rp_exit_ok_trace : forall CC (cci : cc_iface CC) cfg mk c (s0 : vsock CC) ops,
  vsock_new cci mk c = Some s0 -> c06_rp_exit_ok cfg (ftrace cci s0 ops) = true.
Proof. exact (@C06_Step2.c06_rp_exit_ok_trace). Qed.

(* one poll: Established, Ignoring rp, a message reaching rp queued, retransmission timer not expired:
   Pending with the transport writable leaves the phase (or the connection left Established) *)
Theorem c06_poll_rp_exit : forall CC (cci : cc_iface CC) rp (s : vsock CC) sc s',
  ti s -> v_state s = Established -> ign (v_recovery s) = Some rp ->
  Exists (fun m => reaches_rp rp (m_hdr m) = true) (v_inbox s) ->
  timer_expired (v_t_retransmit s) (v_env_now s) = false ->
  poll cci (VSockRec.set_sends s sc) = (s', PollPending) ->
  v_transport_pending s' = true \/ (v_state s' = Established -> ign (v_recovery s') = None).
Proof. exact (@C06_Step2.poll_rp_exit). Qed.

Theorem c06_rp_exit_nonvacuous :
  exists w cfg ops,
    vconfig_ok cfg = true /\ Forall op_msg_ok ops /\
    existsb rp_exit_seen (wtrace w cfg ops) = true /\
    c06_rp_exit_ok cfg (wtrace w cfg ops) = true.
Proof. exact rp_exit_nonvacuous. Qed.

Print Assumptions c06_rp_exit_ok_trace.
Print Assumptions c06_poll_rp_exit.
Print Assumptions c06_rp_exit_nonvacuous.

(* ---- c06_stable_plen_ok: guarded forms (Conn/C06_Pred3.v) ----
   (a) within one poll (the map starts empty at every poll): every trace, unconditional *)
Theorem c06_stable_plen_ok_p_trace : forall CC (cci : cc_iface CC) cfg mk c (s0 : vsock CC) ops,
  vconfig_ok c = true -> vsock_new cci mk c = Some s0 ->
  c06_stable_plen_ok_p cfg (ftrace cci s0 ops) = true.
Proof. exact (@C06_Step2b.c06_stable_plen_ok_p_trace). Qed.

(* (b) across polls, with a map that forgets the numbers the table no longer names: PARTIAL.
   Proved GIVEN SMH (over one EMSGSIZE-free poll from an LB state the table after the poll is the table before it
   with d entries dropped from the front, and what stays keeps its size and stays a non-probe unless it was a
   probe).  SMH itself is NOT proved: it needs pointwise size/probe-preservation lemmas for sack_phase,
   recovery_on_ack, calc_pipe, on_sent, strip_delivered, pop_expired_mtu_probe, enqueue/segment_loop and a poll_H
   walk like poll_OUT_DM_strict_all (Conn/C06_StepLemmas2.v). *)
Theorem c06_stable_plen_ok_g_partial : forall CC (cci : cc_iface CC),
  SMH cci ->
  forall cfg mk c (s0 : vsock CC) ops,
    vconfig_ok c = true -> vsock_new cci mk c = Some s0 ->
    c06_stable_plen_ok_g cfg (ftrace cci s0 ops) = true.
Proof. exact (@C06_Step2b.c06_stable_plen_ok_g_partial_SM). Qed.

Theorem c06_stable_plen_nonvacuous :
  exists w cfg ops,
    vconfig_ok cfg = true /\ Forall op_msg_ok ops /\
    forallb (fun st => poll_noemsg None st && tol_ok (fs_pre st) && tol_ok (fs_post st)) (wtrace w cfg ops) = true /\
    (6 <=? Z.of_nat (length (data_seqs (wtrace w cfg ops)))) = true /\
    forallb (fun q => q =? 101) (data_seqs (wtrace w cfg ops)) = true /\
    c06_stable_plen_ok_g cfg (wtrace w cfg ops) = true /\
    c06_stable_plen_ok cfg (wtrace w cfg ops) = true.
Proof. exact stable_plen_g_nonvacuous. Qed.

Theorem c06_stable_plen_p_nonvacuous :
  exists w cfg ops,
    vconfig_ok cfg = true /\ Forall op_msg_ok ops /\
    forallb (fun st => poll_noemsg None st && tol_ok (fs_post st)) (wtrace w cfg ops) = true /\
    (6 <=? Z.of_nat (length (data_seqs (wtrace w cfg ops)))) = true /\
    c06_stable_plen_ok_p cfg (wtrace w cfg ops) = true.
Proof. exact stable_plen_p_nonvacuous. Qed.

Print Assumptions c06_stable_plen_ok_p_trace.
Print Assumptions c06_stable_plen_ok_g_partial.
Print Assumptions c06_stable_plen_nonvacuous.
Print Assumptions c06_stable_plen_p_nonvacuous.

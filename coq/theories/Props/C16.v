(* C16 — retransmission-timeout estimator stays within bounds.
   This file contains only statements closed by `exact`, pins and Print Assumptions. *)
From Utp Require Import Base.Prelude Rtt.Rtte Rtt.Rtte_Proofs.

Theorem c16_rto_bounds : forall ops s',
  rtte_run rtte_default ops = Some s' ->
  200 * MS <= retransmission_timeout s' <= 60 * NS_PER_SEC.
Proof. exact rto_bounds. Qed.

Theorem c16_trace_bounds : forall ops s rto rtt,
  In (Some (rto, rtt)) (rtte_trace s ops) -> RTTE_MIN_RTO <= rto <= RTTE_MAX_RTO.
Proof. exact trace_in_bounds. Qed.

Theorem c16_rto_after_sample : forall s r s',
  sample s r = Some s' ->
  exists srtt' rttvar',
    s' = Subsequent (clamp (srtt' + Z.max (4 * rttvar') (10 * MS))) srtt' rttvar'.
Proof. exact rto_after_sample. Qed.

Theorem c16_rto_after_sample_rfc6298 : forall rto0 srtt rttvar r s',
  sample (Subsequent rto0 srtt rttvar) r = Some s' ->
  let rttvar' := rttvar * 3 / 4 + Z.abs (srtt - r) / 4 in
  let srtt' := (srtt * 7 + r) / 8 in
  s' = Subsequent (clamp (srtt' + Z.max (4 * rttvar') (10 * MS))) srtt' rttvar'.
Proof. exact rto_after_sample_subsequent. Qed.

Theorem c16_first_sample : forall rto0 r s',
  sample (Initial rto0) r = Some s' ->
  s' = Subsequent (clamp (r + Z.max (4 * (r / 2)) (10 * MS))) r (r / 2).
Proof. exact rto_after_sample_initial. Qed.

Theorem c16_timeout_doubles : forall s s',
  rto_in_bounds s -> on_rto_timeout s = Some s' ->
  retransmission_timeout s' = Z.min (2 * retransmission_timeout s) (60 * NS_PER_SEC).
Proof. exact timeout_doubles_rto. Qed.

Theorem c16_sample_resets : forall n s s' r,
  timeouts n s = Some s' -> sample s' r = sample s r.
Proof. exact sample_resets. Qed.

Theorem c16_srtt_between : forall lo hi ops s',
  Forall (op_sample_in lo hi) ops -> rtte_run rtte_default ops = Some s' ->
  srtt_between lo hi s'.
Proof. exact srtt_between_samples. Qed.

Theorem c16_no_overflow : forall ops,
  Forall (op_sample_in 0 SAMPLE_BOUND) ops -> rtte_run rtte_default ops <> None.
Proof. exact no_overflow. Qed.

Theorem c16_cfg : rtte_cfg_ok = true.
Proof. vm_compute. reflexivity. Qed.

Theorem c16_model_trace_ok : forall ops, c16_ok ops (rtte_trace rtte_default ops) = true.
Proof. exact model_trace_ok. Qed.

(* the sample clause at full strength, on every trace: after each sample rtt = srtt and
   rto = clamp (srtt + max (4 rttvar) G) with srtt / rttvar carried by the RFC 6298 recurrence;
   a timeout leaves them alone (so the next sample "returns to the sample-derived value") *)
Theorem c16_model_trace_exact_ok : forall ops, c16_exact_ok ops (rtte_trace rtte_default ops) = true.
Proof. exact model_trace_exact_ok. Qed.

Print Assumptions c16_rto_bounds.
Print Assumptions c16_model_trace_exact_ok.
Print Assumptions c16_model_trace_ok.
Print Assumptions c16_trace_bounds.
Print Assumptions c16_rto_after_sample.
Print Assumptions c16_rto_after_sample_rfc6298.
Print Assumptions c16_first_sample.
Print Assumptions c16_timeout_doubles.
Print Assumptions c16_sample_resets.
Print Assumptions c16_srtt_between.
Print Assumptions c16_no_overflow.
Print Assumptions c16_cfg.

(* C18 — Nagle coalescing: no partial segment while earlier data is unacknowledged.
   Connection level (segment_loop / split_tx_queue_into_segments of Conn/VSock.v).
   Only statements + exact. *)
From Utp Require Import Base.Prelude Wire.SeqNr Wire.Header Rtt.Rtte Mtu.SegSizes Rx.Rx Tx.Ring
  Tx.Segments Conn.Recovery Conn.Msg Conn.VSockRec Conn.VSock Conn.VSockRun Conn.VObs
  Conn.VSock_Lemmas Conn.C18_Pred Conn.C18_Proofs.

(* (a) Nagle on: the loop appends exactly the logged segments; every segment cut while the
   table was non-empty has size = min(size offered by next_segment_size, remaining remote
   window); a smaller one is cut only when the table was empty *)
Theorem c18_no_partial_while_unacked : forall fuel ss segs rem rwr ss' segs' rem',
  segment_loop fuel true ss segs rem rwr = Some (ss', segs', rem') ->
  let log := seg_log fuel true ss segs rem rwr in
  ss_segs segs' = ss_segs segs ++ segs_of_log (ss_offset segs) log /\
  rem' = rem - sumZ (map e_size log) /\
  Forall (fun e => e_inflight e = true -> e_size e = Z.min (e_offer e) (e_rwr e)) log /\
  Forall (fun e => e_size e < Z.min (e_offer e) (e_rwr e) -> e_inflight e = false) log.
Proof. exact c18_no_partial_while_unacked_lemma. Qed.

(* the log's first record is what the loop saw at that iteration *)
Theorem c18_log_faithful : forall fuel nagle ss segs rem rwr e rest,
  seg_log fuel nagle ss segs rem rwr = e :: rest ->
  mss ss <= e_offer e /\ 0 < e_rwr e /\ 0 < e_rem e /\
  e_size e = Z.min (Z.min (e_offer e) (e_rwr e)) (e_rem e) /\
  e_inflight e = nonempty (ss_segs segs).
Proof. exact c18_log_head_faithful. Qed.

(* (a) for split_tx_queue_into_segments on what the fingerprint shows (the extracted predicate) *)
Theorem c18_nagle_predicate_split : forall (CC : Type) (cci : cc_iface CC) (s s' : vsock CC) u,
  split_tx_queue_into_segments cci s = SOk s' u ->
  v_last_remote_window s' = v_last_remote_window s /\
  c18_nagle_fp (o_nagle (v_opts s)) (fp_of_vsock cci s) (fp_of_vsock cci s') = true.
Proof. exact (@c18_nagle_fp_split). Qed.

(* (b) Nagle on or off: pipe drained, data buffered, window open, no peer FIN => segmented now *)
Theorem c18_drain_sends : forall (CC : Type) (cci : cc_iface CC) (s s' : vsock CC) u,
  split_tx_queue_into_segments cci s = SOk s' u ->
  ss_segs (v_segs s) = [] ->
  0 <= ss_len_bytes (v_segs s) < Z.of_nat (length (ring (v_tx s))) ->
  0 < v_last_remote_window s ->
  is_remote_fin_or_later (v_state s) = false ->
  ss_segs (v_segs s') <> [].
Proof. exact (@c18_drain_sends_lemma). Qed.

Print Assumptions c18_no_partial_while_unacked.
Print Assumptions c18_log_faithful.
Print Assumptions c18_nagle_predicate_split.
Print Assumptions c18_drain_sends.

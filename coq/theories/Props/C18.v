(* C18 — Nagle coalescing: no partial segment while earlier data is unacknowledged.
   Connection level (segment_loop / split_tx_queue_into_segments of Conn/VSock.v).
   Only statements + exact. *)
From Utp Require Import Base.Prelude Wire.SeqNr Wire.Header Rtt.Rtte Mtu.SegSizes Rx.Rx Tx.Ring
  Tx.Segments Conn.Recovery Conn.Msg Conn.VSockRec Conn.VSock Conn.VSockRun Conn.VObs
  Conn.VSock_Lemmas Conn.C18_Pred Conn.C18_Proofs.

(* (a) Nagle on: the loop appends exactly the logged segments; every segment cut while the
   table was non-empty has size = min(size offered by next_segment_size, remaining remote
   window); a smaller one is cut only when the table was empty *)
Theorem c18_no_partial_while_unacked : forall fuel ss segs rem rwr ss' segs' rem',
  segment_loop fuel true ss segs rem rwr = Some (ss', segs', rem') ->
  let log := seg_log fuel true ss segs rem rwr in
  ss_segs segs' = ss_segs segs ++ segs_of_log (ss_offset segs) log /\
  rem' = rem - sumZ (map e_size log) /\
  Forall (fun e => e_inflight e = true -> e_size e = Z.min (e_offer e) (e_rwr e)) log /\
  Forall (fun e => e_size e < Z.min (e_offer e) (e_rwr e) -> e_inflight e = false) log.
Proof. exact c18_no_partial_while_unacked_lemma. Qed.

(* the log's first record is what the loop saw at that iteration *)
Theorem c18_log_faithful : forall fuel nagle ss segs rem rwr e rest,
  seg_log fuel nagle ss segs rem rwr = e :: rest ->
  mss ss <= e_offer e /\ 0 < e_rwr e /\ 0 < e_rem e /\
  e_size e = Z.min (Z.min (e_offer e) (e_rwr e)) (e_rem e) /\
  e_inflight e = nonempty (ss_segs segs).
Proof. exact c18_log_head_faithful. Qed.

(* (a) for split_tx_queue_into_segments on what the fingerprint shows (the extracted predicate) *)
Theorem c18_nagle_predicate_split : forall (CC : Type) (cci : cc_iface CC) (s s' : vsock CC) u,
  split_tx_queue_into_segments cci s = SOk s' u ->
  v_last_remote_window s' = v_last_remote_window s /\
  c18_nagle_fp (o_nagle (v_opts s)) (fp_of_vsock cci s) (fp_of_vsock cci s') = true.
Proof. exact (@c18_nagle_fp_split). Qed.

(* (b) Nagle on or off: pipe drained, data buffered, window open, no peer FIN => segmented now *)
Theorem c18_drain_sends : forall (CC : Type) (cci : cc_iface CC) (s s' : vsock CC) u,
  split_tx_queue_into_segments cci s = SOk s' u ->
  ss_segs (v_segs s) = [] ->
  0 <= ss_len_bytes (v_segs s) < Z.of_nat (length (ring (v_tx s))) ->
  0 < v_last_remote_window s ->
  is_remote_fin_or_later (v_state s) = false ->
  ss_segs (v_segs s') <> [].
Proof. exact (@c18_drain_sends_lemma). Qed.

Print Assumptions c18_no_partial_while_unacked.
Print Assumptions c18_log_faithful.
Print Assumptions c18_nagle_predicate_split.
Print Assumptions c18_drain_sends.

(* ================================================================================================
   The lift to a whole poll and to every trace (Conn/C18_Step.v).
   TI = the table invariant (segments tile [base, offset) with positive sizes, len_bytes = sum of
   the sizes, mss >= 1): holds of vsock_new, kept by every event; it implies the guard c18_pre. *)
From Utp Require Import Tx.Segments_Proofs Conn.VSock_LemmasStep Conn.C10_Pred Conn.C10_Proofs
  Conn.C18_Pred2 Conn.C18_StepLemmas Conn.C18_Step Conn.C18_StepEx.

Theorem c18_table_invariant_initial : forall (CC : Type) (cci : cc_iface CC) (mk : Z -> Z -> CC)
    (c : vconfig) (s : vsock CC),
  vsock_new cci mk c = Some s -> TI s.
Proof. exact @TI_vsock_new. Qed.

Theorem c18_table_invariant_every_step : forall (CC : Type) (cci : cc_iface CC) (s : vsock CC) (o : vop),
  TI s -> TI (vstep_state cci s o).
Proof. exact @TI_vstep. Qed.

(* what TI says, spelled out *)
Theorem c18_table_invariant_meaning : forall (CC : Type) (s : vsock CC),
  TI s <->
  1 <= mss (v_ss s) /\
  ss_len_bytes (v_segs s) = sum_sizes (ss_segs (v_segs s)) /\
  exists base, tiled base (ss_segs (v_segs s)) /\
               Forall (fun g => 0 < sg_size g) (ss_segs (v_segs s)) /\
               ss_offset (v_segs s) = base + sum_sizes (ss_segs (v_segs s)).
Proof. exact @TI_meaning. Qed.

(* the monitored guard of c18_nagle_ok is an invariant *)
Theorem c18_pre_invariant : forall (CC : Type) (cci : cc_iface CC) (s : vsock CC),
  TI s -> c18_pre (fp_of_vsock cci s) = true.
Proof. exact @TI_c18_pre. Qed.

Theorem c18_pre_monitor_every_trace : forall (CC : Type) (cci : cc_iface CC) (cfg : vconfig)
    (mk : Z -> Z -> CC) (c : vconfig) (s0 : vsock CC) (ops : list vop),
  vsock_new cci mk c = Some s0 -> forallb (c18_pre_monitor cfg) (ftrace cci s0 ops) = true.
Proof. exact @c18_pre_monitor_trace. Qed.

Theorem c18_pre_ok_every_step : forall (CC : Type) (cci : cc_iface CC) (cfg : vconfig) (s : vsock CC) (o : vop),
  TI s -> c18_pre_ok cfg (VSock_Lemmas.fstep_of cci s o) = true.
Proof. exact @c18_pre_ok_step. Qed.

Theorem c18_pre_ok_every_trace : forall (CC : Type) (cci : cc_iface CC) (cfg : vconfig)
    (mk : Z -> Z -> CC) (c : vconfig) (s0 : vsock CC) (ops : list vop),
  vsock_new cci mk c = Some s0 -> forallb (c18_pre_ok cfg) (ftrace cci s0 ops) = true.
Proof. exact @c18_pre_ok_trace. Qed.

(* (a) the Nagle rule on what the fingerprint shows, for EVERY poll of the model: restart loop,
   acknowledgements processed before the segmentation, popped probes included *)
Theorem c18_nagle_ok_every_step : forall (CC : Type) (cci : cc_iface CC) (cfg : vconfig) (s : vsock CC) (o : vop),
  TI s -> (vc_nagle cfg = true -> o_nagle (v_opts s) = true) ->
  c18_nagle_ok cfg (VSock_Lemmas.fstep_of cci s o) = true.
Proof. exact @c18_nagle_ok_step. Qed.

Theorem c18_nagle_ok_every_trace : forall (CC : Type) (cci : cc_iface CC)
    (mk : Z -> Z -> CC) (c : vconfig) (s0 : vsock CC) (ops : list vop),
  vsock_new cci mk c = Some s0 -> forallb (c18_nagle_ok c) (ftrace cci s0 ops) = true.
Proof. exact @c18_nagle_ok_trace. Qed.

(* the invariant of one poll behind it: off0 / m0 = next-byte offset / mss before the poll *)
Theorem c18_poll_invariant : forall (CC : Type) (cci : cc_iface CC) (off0 m0 : Z) (s s' : vsock CC) r,
  Core1 off0 m0 (VSock_Lemmas.poll_init s) -> poll cci s = (s', r) -> Core1 off0 m0 s'.
Proof. exact @Core1_poll. Qed.

(* (c18_off_all_segmented) Nagle off, no undelivered probe outstanding before or after, peer FIN
   not seen, send buffer not empty: after a completed poll unsegmented = 0 or the bytes segmented
   in this poll use up the peer's window *)
Theorem c18_off_all_segmented_every_step : forall (CC : Type) (cci : cc_iface CC) (cfg : vconfig) (s : vsock CC) (o : vop),
  TI s -> (vc_nagle cfg = false -> o_nagle (v_opts s) = false) ->
  c18_off_all_segmented_ok cfg (VSock_Lemmas.fstep_of cci s o) = true.
Proof. exact @c18_off_all_segmented_ok_step. Qed.

Theorem c18_off_all_segmented_every_trace : forall (CC : Type) (cci : cc_iface CC)
    (mk : Z -> Z -> CC) (c : vconfig) (s0 : vsock CC) (ops : list vop),
  vsock_new cci mk c = Some s0 -> forallb (c18_off_all_segmented_ok c) (ftrace cci s0 ops) = true.
Proof. exact @c18_off_all_segmented_ok_trace. Qed.

(* (c18_drain_sends) at the level of the poll: after a completed poll, peer FIN not seen, window
   open: unsegmented buffered bytes imply a non-empty table (nothing is held back with nothing in
   flight) *)
Theorem c18_drain_sends_every_step : forall (CC : Type) (cci : cc_iface CC) (cfg : vconfig) (s : vsock CC) (o : vop),
  TI s -> c18_drain_sends_ok cfg (VSock_Lemmas.fstep_of cci s o) = true.
Proof. exact @c18_drain_sends_ok_step. Qed.

Theorem c18_drain_sends_every_trace : forall (CC : Type) (cci : cc_iface CC) (cfg : vconfig)
    (mk : Z -> Z -> CC) (c : vconfig) (s0 : vsock CC) (ops : list vop),
  vsock_new cci mk c = Some s0 -> forallb (c18_drain_sends_ok cfg) (ftrace cci s0 ops) = true.
Proof. exact @c18_drain_sends_ok_trace. Qed.

(* the guards are met by steps of reachable traces *)
Theorem c18_nagle_guard_met :
  exists w cfg ops,
    vconfig_ok cfg = true /\ vc_nagle cfg = true /\
    existsb (fun st => c18_is_poll st && c18_pre (fs_pre st) && c18_no_probe_last (fs_pre st)
                       && nonempty (f_segs (fs_pre st))
                       && (f_seg_offset (fs_pre st) <? f_seg_offset (fs_post st))
                       && (0 <? f_unsegmented (fs_post st))
                       && (f_unsegmented (fs_post st) <? f_mss (fs_pre st)))
            (wtrace w cfg ops) = true /\
    forallb (c18_nagle_ok cfg) (wtrace w cfg ops) = true /\
    existsb (fun st => c18_completed st && (0 <? f_last_remote_window (fs_post st))
                       && (f_seg_len_bytes (fs_post st) <? f_tx_len (fs_post st)))
            (wtrace w cfg ops) = true /\
    forallb (c18_drain_sends_ok cfg) (wtrace w cfg ops) = true.
Proof. exact c18_nagle_guard_nonvacuous. Qed.

Theorem c18_off_guard_met :
  exists w cfg ops,
    vconfig_ok cfg = true /\ vc_nagle cfg = false /\
    existsb (fun st => c18_off_guard cfg st && (f_unsegmented (fs_post st) =? 0)
                       && (f_seg_offset (fs_pre st) <? f_seg_offset (fs_post st)))
            (wtrace w cfg ops) = true /\
    existsb (fun st => c18_off_guard cfg st && (0 <? f_unsegmented (fs_post st))
                       && (f_last_remote_window (fs_post st) =? f_seg_offset (fs_post st) - f_seg_offset (fs_pre st)))
            (wtrace w cfg ops) = true /\
    forallb (c18_off_all_segmented_ok cfg) (wtrace w cfg ops) = true.
Proof. exact c18_off_guard_nonvacuous. Qed.

(* data buffered => something is segmented: after a completed poll, peer FIN not seen, window open,
   a non-empty send buffer implies a non-empty segment table *)
Theorem c18_buffered_segmented_every_step : forall (CC : Type) (cci : cc_iface CC) (cfg : vconfig) (s : vsock CC) (o : vop),
  TI s -> c18_buffered_segmented_ok cfg (VSock_Lemmas.fstep_of cci s o) = true.
Proof. exact @c18_buffered_segmented_ok_step. Qed.

Theorem c18_buffered_segmented_every_trace : forall (CC : Type) (cci : cc_iface CC) (cfg : vconfig)
    (mk : Z -> Z -> CC) (c : vconfig) (s0 : vsock CC) (ops : list vop),
  vsock_new cci mk c = Some s0 -> forallb (c18_buffered_segmented_ok cfg) (ftrace cci s0 ops) = true.
Proof. exact @c18_buffered_segmented_ok_trace. Qed.

(* the guard "no undelivered probe outstanding BEFORE the poll" of c18_off_all_segmented_ok cannot be
   dropped from the observable form: an expired probe is popped and the next-byte offset rewinds *)
Theorem c18_off_probe_guard_is_needed :
  exists w cfg ops,
    vconfig_ok cfg = true /\ vc_nagle cfg = false /\
    existsb (fun st => c18_completed st && negb (c18_no_probe_last (fs_pre st))
                       && c18_no_probe_last (fs_post st)
                       && negb (is_remote_fin_or_later (f_state (fs_post st)))
                       && (0 <? f_unsegmented (fs_post st))
                       && (f_seg_offset (fs_post st) - f_seg_offset (fs_pre st) <? f_last_remote_window (fs_post st))
                       && (f_seg_offset (fs_post st) <? f_seg_offset (fs_pre st)))
            (wtrace w cfg ops) = true /\
    forallb (c18_off_all_segmented_ok cfg) (wtrace w cfg ops) = true.
Proof. exact c18_off_probe_guard_needed. Qed.

Print Assumptions c18_table_invariant_initial.
Print Assumptions c18_table_invariant_every_step.
Print Assumptions c18_table_invariant_meaning.
Print Assumptions c18_pre_invariant.
Print Assumptions c18_pre_monitor_every_trace.
Print Assumptions c18_pre_ok_every_step.
Print Assumptions c18_pre_ok_every_trace.
Print Assumptions c18_nagle_ok_every_step.
Print Assumptions c18_nagle_ok_every_trace.
Print Assumptions c18_poll_invariant.
Print Assumptions c18_off_all_segmented_every_step.
Print Assumptions c18_off_all_segmented_every_trace.
Print Assumptions c18_drain_sends_every_step.
Print Assumptions c18_drain_sends_every_trace.
Print Assumptions c18_nagle_guard_met.
Print Assumptions c18_off_guard_met.
Print Assumptions c18_buffered_segmented_every_step.
Print Assumptions c18_buffered_segmented_every_trace.
Print Assumptions c18_off_probe_guard_is_needed.

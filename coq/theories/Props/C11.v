(* C11 — wire format: total parser, lossless round-trip, well-formed output.
   This file contains only statements closed by `exact`, and Print Assumptions.
   Model: Wire/Header.v (deserialize, serialize, msg_deserialize; wf_packet is the declarative
   BEP-29 shape).  The clause "every emitted datagram ..." is a connection-level statement and
   is not in this file. *)
From Utp Require Import Base.Prelude Wire.Header Wire.Header_Proofs.

(* accepts exactly: >= 20 bytes, version nibble 1, type nibble <= 4, extension chain fits *)
Theorem c11_accepts_iff : forall bs h n,
  bytes_okb bs = true ->
  (deserialize bs = Some (h, n) <-> wf_packet bs h n).
Proof. exact accepts_iff. Qed.

Theorem c11_rejects_iff : forall bs,
  bytes_okb bs = true ->
  (deserialize bs = None <-> forall h n, ~ wf_packet bs h n).
Proof. exact rejects_iff. Qed.

(* the only panic sites of the parsing path (`buf.len() - hsize`, `buf[hsize..]`) are unreachable,
   for every list of integers, byte or not *)
Theorem c11_no_panic : forall bs, msg_deserialize bs <> MsgPanic.
Proof. exact no_panic. Qed.

Theorem c11_parsed_in_range : forall bs h n,
  bytes_okb bs = true -> deserialize bs = Some (h, n) ->
  20 <= n <= Zlength bs /\ hdr_wfb h = true.
Proof. exact parsed_wf. Qed.

(* payload present exactly for data packets *)
Theorem c11_msg_payload_rule : forall bs h p,
  bytes_okb bs = true ->
  (msg_deserialize bs = MsgSome h p <->
   exists n, deserialize bs = Some (h, n) /\ p = skipn (Z.to_nat n) bs /\
             (p <> [] <-> h_type h = ST_DATA)).
Proof. exact msg_payload_rule. Qed.

Theorem c11_msg_rejects_iff : forall bs,
  bytes_okb bs = true ->
  (msg_deserialize bs = MsgNone <->
   match deserialize bs with
   | None => True
   | Some (h, n) => ~ (skipn (Z.to_nat n) bs <> [] <-> h_type h = ST_DATA)
   end).
Proof. exact msg_rejects_iff. Qed.

(* serialise then parse: same header, same length; any payload may follow *)
Theorem c11_roundtrip : forall h buflen payload,
  hdr_okb h = true -> ser_len h <= buflen -> bytes_okb payload = true ->
  exists bs, serialize h buflen = Some bs /\ Zlength bs = ser_len h /\
             deserialize (bs ++ payload) = Some (h, ser_len h).
Proof. exact roundtrip. Qed.

Theorem c11_serialize_err_iff : forall h buflen, serialize h buflen = None <-> buflen < 20.
Proof. exact serialize_err. Qed.

(* boundary of "any header": a parsed header (SACK of any bit-length) reaches the 64-bit normal
   form in one serialise/parse round and is stable afterwards *)
Theorem c11_reserialize_normalises : forall bs h n buflen,
  bytes_okb bs = true -> deserialize bs = Some (h, n) -> ser_len h <= buflen ->
  exists bs', serialize h buflen = Some bs' /\
              deserialize bs' = Some (normalise h, ser_len h) /\
              hdr_okb (normalise h) = true /\
              (exists bs'', serialize (normalise h) buflen = Some bs'' /\
                            deserialize bs'' = Some (normalise h, ser_len h)).
Proof. exact reserialize_normalises. Qed.

Theorem c11_roundtrip_refuted_without_len64 :
  exists h, hdr_wfb h = true /\
            option_map deserialize (serialize h 1024) <> Some (Some (h, ser_len h)).
Proof. exact roundtrip_refuted_without_len64. Qed.

(* unknown extensions (any id other than 1 and 3, or id 3 with a length other than 4) are
   skipped: same header as the packet without them, payload boundary 20 + sum (2 + len) *)
Theorem c11_unknown_ext_skipped : forall h exts payload,
  fields_okb h = true -> exts_wire_okb exts = true -> bytes_okb payload = true ->
  let known := filter ext_known exts in
  let h' := with_ext h (apply_exts known no_ext) in
  deserialize (encode_packet h exts ++ payload) = Some (h', 20 + ext_size exts) /\
  deserialize (encode_packet h known ++ payload) = Some (h', 20 + ext_size known) /\
  skipn (Z.to_nat (20 + ext_size exts)) (encode_packet h exts ++ payload) = payload.
Proof. exact unknown_ext_skipped. Qed.

Theorem c11_sack_new_ok : forall idxs, sack_okb (sack_new idxs) = true.
Proof. exact sack_new_ok. Qed.

(* the extracted predicates: true of every model observation, and exactly the property *)
Theorem c11_de_ok_iff : forall bs obs,
  bytes_okb bs = true ->
  (c11_de_ok bs obs = true <->
   match obs with
   | Some (h, n) => wf_packet bs h n
   | None => forall h n, ~ wf_packet bs h n
   end).
Proof. exact de_ok_iff. Qed.

Theorem c11_de_model_ok : forall bs, bytes_okb bs = true -> c11_de_ok bs (deserialize bs) = true.
Proof. exact de_model_ok. Qed.

Theorem c11_msg_model_ok : forall bs,
  bytes_okb bs = true -> c11_msg_ok bs (msg_obs (msg_deserialize bs)) = true.
Proof. exact msg_model_ok. Qed.

Theorem c11_ser_model_ok : forall h buflen,
  hdr_wfb h = true -> c11_ser_ok h buflen (serialize h buflen) = true.
Proof. exact ser_model_ok. Qed.

Theorem c11_ser_ok_full : forall h buflen bs,
  ser_len h <= buflen -> c11_ser_ok h buflen (Some bs) = true ->
  deserialize bs = Some (normalise h, ser_len h) /\ Zlength bs = ser_len h /\
  nth 0 bs 0 mod 16 = 1.
Proof. exact ser_ok_full. Qed.

(* non-vacuity: /repo/test/resources/packet_fin_with_extension.bin *)
Theorem c11_example_fin_parses : deserialize fin_packet = Some (fin_header, 26).
Proof. exact fin_packet_parses. Qed.

Theorem c11_example_fin_ok : hdr_okb fin_header = true /\ ser_len fin_header = 26.
Proof. exact fin_header_ok. Qed.

Theorem c11_example_fin_serialises : serialize fin_header 1024 = Some fin_packet.
Proof. exact fin_header_serialises. Qed.

Print Assumptions c11_accepts_iff.
Print Assumptions c11_rejects_iff.
Print Assumptions c11_no_panic.
Print Assumptions c11_parsed_in_range.
Print Assumptions c11_msg_payload_rule.
Print Assumptions c11_msg_rejects_iff.
Print Assumptions c11_roundtrip.
Print Assumptions c11_serialize_err_iff.
Print Assumptions c11_reserialize_normalises.
Print Assumptions c11_roundtrip_refuted_without_len64.
Print Assumptions c11_unknown_ext_skipped.
Print Assumptions c11_sack_new_ok.
Print Assumptions c11_de_ok_iff.
Print Assumptions c11_de_model_ok.
Print Assumptions c11_msg_model_ok.
Print Assumptions c11_ser_model_ok.
Print Assumptions c11_ser_ok_full.
Print Assumptions c11_example_fin_parses.
Print Assumptions c11_example_fin_ok.
Print Assumptions c11_example_fin_serialises.

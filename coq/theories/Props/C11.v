(* C11 — wire format: total parser, lossless round-trip, well-formed output.
   This file contains only statements closed by `exact`, and Print Assumptions.
   Model: Wire/Header.v (deserialize, serialize, msg_deserialize; wf_packet is the declarative
   BEP-29 shape).  The clause "every emitted datagram ..." is a connection-level statement and
   is not in this file. *)
From Utp Require Import Base.Prelude Wire.Header Wire.Header_Proofs.

(* accepts exactly: >= 20 bytes, version nibble 1, type nibble <= 4, extension chain fits *)
Theorem c11_accepts_iff : forall bs h n,
  bytes_okb bs = true ->
  (deserialize bs = Some (h, n) <-> wf_packet bs h n).
Proof. exact accepts_iff. Qed.

Theorem c11_rejects_iff : forall bs,
  bytes_okb bs = true ->
  (deserialize bs = None <-> forall h n, ~ wf_packet bs h n).
Proof. exact rejects_iff. Qed.

(* the only panic sites of the parsing path (`buf.len() - hsize`, `buf[hsize..]`) are unreachable,
   for every list of integers, byte or not *)
Theorem c11_no_panic : forall bs, msg_deserialize bs <> MsgPanic.
Proof. exact no_panic. Qed.

Theorem c11_parsed_in_range : forall bs h n,
  bytes_okb bs = true -> deserialize bs = Some (h, n) ->
  20 <= n <= Zlength bs /\ hdr_wfb h = true.
Proof. exact parsed_wf. Qed.

(* payload present exactly for data packets *)
Theorem c11_msg_payload_rule : forall bs h p,
  bytes_okb bs = true ->
  (msg_deserialize bs = MsgSome h p <->
   exists n, deserialize bs = Some (h, n) /\ p = skipn (Z.to_nat n) bs /\
             (p <> [] <-> h_type h = ST_DATA)).
Proof. exact msg_payload_rule. Qed.

Theorem c11_msg_rejects_iff : forall bs,
  bytes_okb bs = true ->
  (msg_deserialize bs = MsgNone <->
   match deserialize bs with
   | None => True
   | Some (h, n) => ~ (skipn (Z.to_nat n) bs <> [] <-> h_type h = ST_DATA)
   end).
Proof. exact msg_rejects_iff. Qed.

(* serialise then parse: same header, same length; any payload may follow *)
Theorem c11_roundtrip : forall h buflen payload,
  hdr_okb h = true -> ser_len h <= buflen -> bytes_okb payload = true ->
  exists bs, serialize h buflen = Some bs /\ Zlength bs = ser_len h /\
             deserialize (bs ++ payload) = Some (h, ser_len h).
Proof. exact roundtrip. Qed.

Theorem c11_serialize_err_iff : forall h buflen, serialize h buflen = None <-> buflen < 20.
Proof. exact serialize_err. Qed.

(* boundary of "any header": a parsed header (SACK of any bit-length) reaches the 64-bit normal
   form in one serialise/parse round and is stable afterwards *)
Theorem c11_reserialize_normalises : forall bs h n buflen,
  bytes_okb bs = true -> deserialize bs = Some (h, n) -> ser_len h <= buflen ->
  exists bs', serialize h buflen = Some bs' /\
              deserialize bs' = Some (normalise h, ser_len h) /\
              hdr_okb (normalise h) = true /\
              (exists bs'', serialize (normalise h) buflen = Some bs'' /\
                            deserialize bs'' = Some (normalise h, ser_len h)).
Proof. exact reserialize_normalises. Qed.

Theorem c11_roundtrip_refuted_without_len64 :
  exists h, hdr_wfb h = true /\
            option_map deserialize (serialize h 1024) <> Some (Some (h, ser_len h)).
Proof. exact roundtrip_refuted_without_len64. Qed.

(* unknown extensions (any id other than 1 and 3, or id 3 with a length other than 4) are
   skipped: same header as the packet without them, payload boundary 20 + sum (2 + len) *)
Theorem c11_unknown_ext_skipped : forall h exts payload,
  fields_okb h = true -> exts_wire_okb exts = true -> bytes_okb payload = true ->
  let known := filter ext_known exts in
  let h' := with_ext h (apply_exts known no_ext) in
  deserialize (encode_packet h exts ++ payload) = Some (h', 20 + ext_size exts) /\
  deserialize (encode_packet h known ++ payload) = Some (h', 20 + ext_size known) /\
  skipn (Z.to_nat (20 + ext_size exts)) (encode_packet h exts ++ payload) = payload.
Proof. exact unknown_ext_skipped. Qed.

Theorem c11_sack_new_ok : forall idxs, sack_okb (sack_new idxs) = true.
Proof. exact sack_new_ok. Qed.

(* the extracted predicates: true of every model observation, and exactly the property *)
Theorem c11_de_ok_iff : forall bs obs,
  bytes_okb bs = true ->
  (c11_de_ok bs obs = true <->
   match obs with
   | Some (h, n) => wf_packet bs h n
   | None => forall h n, ~ wf_packet bs h n
   end).
Proof. exact de_ok_iff. Qed.

Theorem c11_de_model_ok : forall bs, bytes_okb bs = true -> c11_de_ok bs (deserialize bs) = true.
Proof. exact de_model_ok. Qed.

Theorem c11_msg_model_ok : forall bs,
  bytes_okb bs = true -> c11_msg_ok bs (msg_obs (msg_deserialize bs)) = true.
Proof. exact msg_model_ok. Qed.

Theorem c11_ser_model_ok : forall h buflen,
  hdr_wfb h = true -> c11_ser_ok h buflen (serialize h buflen) = true.
Proof. exact ser_model_ok. Qed.

Theorem c11_ser_ok_full : forall h buflen bs,
  ser_len h <= buflen -> c11_ser_ok h buflen (Some bs) = true ->
  deserialize bs = Some (normalise h, ser_len h) /\ Zlength bs = ser_len h /\
  nth 0 bs 0 mod 16 = 1.
Proof. exact ser_ok_full. Qed.

(* non-vacuity: /repo/test/resources/packet_fin_with_extension.bin *)
Theorem c11_example_fin_parses : deserialize fin_packet = Some (fin_header, 26).
Proof. exact fin_packet_parses. Qed.

Theorem c11_example_fin_ok : hdr_okb fin_header = true /\ ser_len fin_header = 26.
Proof. exact fin_header_ok. Qed.

Theorem c11_example_fin_serialises : serialize fin_header 1024 = Some fin_packet.
Proof. exact fin_header_serialises. Qed.

Print Assumptions c11_accepts_iff.
Print Assumptions c11_rejects_iff.
Print Assumptions c11_no_panic.
Print Assumptions c11_parsed_in_range.
Print Assumptions c11_msg_payload_rule.
Print Assumptions c11_msg_rejects_iff.
Print Assumptions c11_roundtrip.
Print Assumptions c11_serialize_err_iff.
Print Assumptions c11_reserialize_normalises.
Print Assumptions c11_roundtrip_refuted_without_len64.
Print Assumptions c11_unknown_ext_skipped.
Print Assumptions c11_sack_new_ok.
Print Assumptions c11_de_ok_iff.
Print Assumptions c11_de_model_ok.
Print Assumptions c11_msg_model_ok.
Print Assumptions c11_ser_model_ok.
Print Assumptions c11_ser_ok_full.
Print Assumptions c11_example_fin_parses.
Print Assumptions c11_example_fin_ok.
Print Assumptions c11_example_fin_serialises.

(* ================================================================================================
   The connection-level clause: "every datagram the library emits carries version 1 and the
   connection id owed to that direction, and is well-formed".
   Conn/C11_Pred.v: c11_packet_ok / c11_emitted_ok (boolean, evaluated on implementation traces);
   Conn/C11_Proofs.v: the invariant J and its preservation by every function of the poll.
   Hypothesis c11_config_ok: the three configuration fields that become header fields (the initial
   sequence number, the remote sequence number and the remote connection id) are u16 values — in the
   Rust code they have type u16 (SeqNr); vconfig_ok (C10) implies it.  Nothing is assumed about the
   messages delivered, the transport's answers or the congestion controller. *)
From Utp Require Import Rtt.Rtte Mtu.SegSizes Rx.Rx Tx.Ring Tx.Segments Conn.Recovery Conn.Msg Conn.VSockRec
  Conn.VSock Conn.VSockRun Conn.VObs Conn.VSock_Lemmas Conn.C11_Pred Conn.C11_Proofs.

(* the invariant: holds of every new connection ... *)
Theorem c11_inv_initial : forall (CC : Type) (cci : cc_iface CC) (cfg : vconfig),
  c11_config_ok cfg = true ->
  forall (mk : Z -> Z -> CC) (s0 : vsock CC), vsock_new cci mk cfg = Some s0 -> J cfg s0.
Proof. exact @vsock_new_J. Qed.

(* ... is kept by every event, and every step from a state satisfying it emits only well-formed datagrams *)
Theorem c11_emitted_ok_every_step : forall (CC : Type) (cci : cc_iface CC) (cfg : vconfig),
  c11_config_ok cfg = true ->
  forall (s : vsock CC) (o : vop),
  J cfg s -> J cfg (vstep_state cci s o) /\ c11_emitted_ok cfg (VSock_Lemmas.fstep_of cci s o) = true.
Proof. exact @c11_emitted_ok_step. Qed.

Theorem c11_emitted_ok_every_trace : forall (CC : Type) (cci : cc_iface CC) (cfg : vconfig),
  c11_config_ok cfg = true ->
  forall (mk : Z -> Z -> CC) (s0 : vsock CC) (ops : list vop),
  vsock_new cci mk cfg = Some s0 -> forallb (c11_emitted_ok cfg) (ftrace cci s0 ops) = true.
Proof. exact @c11_emitted_ok_trace. Qed.

(* a connection itself emits only ST_DATA, ST_FIN, ST_STATE (ST_SYN / ST_RESET are the dispatcher's) *)
Theorem c11_conn_types_ok_every_step : forall (CC : Type) (cci : cc_iface CC) (cfg : vconfig),
  c11_config_ok cfg = true ->
  forall (s : vsock CC) (o : vop),
  J cfg s -> c11_conn_types_ok cfg (VSock_Lemmas.fstep_of cci s o) = true.
Proof. exact @c11_conn_types_ok_step. Qed.

Theorem c11_conn_types_ok_every_trace : forall (CC : Type) (cci : cc_iface CC) (cfg : vconfig),
  c11_config_ok cfg = true ->
  forall (mk : Z -> Z -> CC) (s0 : vsock CC) (ops : list vop),
  vsock_new cci mk cfg = Some s0 -> forallb (c11_conn_types_ok cfg) (ftrace cci s0 ops) = true.
Proof. exact @c11_conn_types_ok_trace. Qed.

(* function-level: one poll, whatever it returns (Pending, Ready, error, panic) *)
Theorem c11_poll_keeps_inv : forall (CC : Type) (cci : cc_iface CC) (cfg : vconfig),
  u16 (conn_id_send_of cfg) ->
  forall (s s' : vsock CC) (r : poll_result),
  poll cci s = (s', r) -> J cfg (poll_init s) -> J cfg s'.
Proof. exact @poll_J. Qed.

(* what the predicate says about one datagram, in wire terms: `serialize` writes it with version nibble 1
   and the type nibble of its type, and `deserialize` of those bytes followed by any payload returns the
   very header the connection built and the boundary right behind it (so c11_roundtrip applies) *)
Theorem c11_packet_ok_on_the_wire : forall (cfg : vconfig) (q : fpacket) (buflen : Z) (payload : list Z),
  c11_packet_ok cfg q = true ->
  ser_len (hdr_of_chdr (fq_hdr q)) <= buflen -> bytes_okb payload = true ->
  exists bs, serialize (hdr_of_chdr (fq_hdr q)) buflen = Some bs /\
             Zlength bs = ser_len (hdr_of_chdr (fq_hdr q)) /\
             nth 0 bs 0 mod 16 = 1 /\
             nth 0 bs 0 / 16 = type_to_number (ch_type (fq_hdr q)) /\
             deserialize (bs ++ payload) = Some (hdr_of_chdr (fq_hdr q), ser_len (hdr_of_chdr (fq_hdr q))).
Proof. exact packet_ok_on_the_wire. Qed.

Theorem c11_packet_ok_payload_rule : forall (cfg : vconfig) (q : fpacket),
  c11_packet_ok cfg q = true -> 0 <= fq_plen q /\ (0 < fq_plen q <-> ch_type (fq_hdr q) = ST_DATA).
Proof. exact packet_ok_payload_rule. Qed.

Theorem c11_packet_ok_conn_id : forall (cfg : vconfig) (q : fpacket),
  c11_packet_ok cfg q = true -> ch_conn_id (fq_hdr q) = expected_conn_id cfg (ch_type (fq_hdr q)).
Proof. exact packet_ok_conn_id. Qed.

(* non-vacuity: a reachable trace with an ST_DATA, an ST_STATE carrying a SACK and an ST_FIN, all accepted;
   and packets the predicate rejects *)
Theorem c11_emitted_ok_nonvacuous :
  c11_config_ok ex_cfg = true /\
  forallb (c11_emitted_ok ex_cfg) ex_trace = true /\
  emits_kind (fun q => ptype_eqb (ch_type (fq_hdr q)) ST_DATA && (fq_plen q =? 100) &&
                       (ch_conn_id (fq_hdr q) =? 2066)) ex_trace = true /\
  emits_kind (fun q => ptype_eqb (ch_type (fq_hdr q)) ST_STATE &&
                       match ch_sack (fq_hdr q) with Some _ => true | None => false end) ex_trace = true /\
  emits_kind (fun q => ptype_eqb (ch_type (fq_hdr q)) ST_FIN) ex_trace = true.
Proof. exact c11_emitted_nonvacuous. Qed.

Theorem c11_packet_ok_discriminates :
  c11_packet_ok ex_cfg (ex_pkt ST_STATE 2066 101 None 0) = true /\
  c11_packet_ok ex_cfg (ex_pkt ST_STATE 2065 101 None 0) = false /\
  c11_packet_ok ex_cfg (ex_pkt ST_SYN 2065 101 None 0) = true /\
  c11_packet_ok ex_cfg (ex_pkt ST_SYN 2066 101 None 0) = false /\
  c11_packet_ok ex_cfg (ex_pkt ST_DATA 2066 101 None 0) = false /\
  c11_packet_ok ex_cfg (ex_pkt ST_STATE 2066 101 None 3) = false /\
  c11_packet_ok ex_cfg (ex_pkt ST_FIN 2066 65536 None 0) = false /\
  c11_packet_ok ex_cfg (ex_pkt ST_STATE 2066 101 (Some {| sk_bits := repeat false 64; sk_len := 64 |}) 0) = true /\
  c11_packet_ok ex_cfg (ex_pkt ST_STATE 2066 101 (Some {| sk_bits := repeat false 64; sk_len := 32 |}) 0) = false.
Proof. exact c11_packet_ok_rejects. Qed.

Print Assumptions c11_inv_initial.
Print Assumptions c11_emitted_ok_every_step.
Print Assumptions c11_emitted_ok_every_trace.
Print Assumptions c11_conn_types_ok_every_step.
Print Assumptions c11_conn_types_ok_every_trace.
Print Assumptions c11_poll_keeps_inv.
Print Assumptions c11_packet_ok_on_the_wire.
Print Assumptions c11_packet_ok_payload_rule.
Print Assumptions c11_packet_ok_conn_id.
Print Assumptions c11_emitted_ok_nonvacuous.
Print Assumptions c11_packet_ok_discriminates.

(* ================================================================================================
   The same clause at the socket-dispatcher tier (Sock/Dispatcher.v): the datagrams the dispatcher itself
   emits — the ST_SYN of a connect() and the ST_RESET answering a SYN that can be neither served nor queued.
   Sock/DispC11_Pred.v: syn_header / rst_header (the UtpHeader literals of socket.rs), c11_devent_ok,
   c11_dstep_ok; Sock/DispC11_Proofs.v: invariant DI (next_connection_id, the pending random_u16 values, the
   cached SYNs are u16).  Hypotheses: what the environment feeds is u16 (random_u16 values; connection id /
   seq_nr / ack_nr of parsed datagrams, cf. c11_parsed_in_range). *)
From Utp Require Import Sock.Dispatcher Sock.DispC11_Pred Sock.DispC11_Proofs.

Theorem c11_disp_inv_initial : forall (max_streams : Z) (random : list Z),
  randoms_okb random = true -> DI (dstate_new max_streams random).
Proof. exact new_DI. Qed.

Theorem c11_disp_emitted_ok_every_step : forall (s : dstate) (o : dop) (s' : dstate) (e : list devent),
  dstep s o = (s', e) -> DI s -> dop_okb o = true -> DI s' /\ c11_dstep_ok e = true.
Proof. exact dstep_DI. Qed.

(* every op list = every interleaving of connects, accepts, drops and datagrams *)
Theorem c11_disp_emitted_ok_every_trace : forall (max_streams : Z) (random : list Z) (ops : list dop),
  randoms_okb random = true -> forallb dop_okb ops = true ->
  forallb (fun p => c11_dstep_ok (fst p)) (dtrace (dstate_new max_streams random) ops) = true.
Proof. exact dispatcher_emitted_ok. Qed.

(* an accepted event is 20 bytes with version 1 and type nibble ST_SYN = 4 / ST_RESET = 3 that the peer's
   parser reads back unchanged, whatever the (u32) timestamp *)
Theorem c11_disp_syn_on_the_wire : forall (a conn seq ts buflen : Z),
  c11_devent_ok (EvSentSyn a conn seq) = true -> 0 <= ts < 4294967296 -> 20 <= buflen ->
  exists bs, serialize (syn_header conn seq ts) buflen = Some bs /\ Zlength bs = 20 /\
             nth 0 bs 0 mod 16 = 1 /\ nth 0 bs 0 / 16 = 4 /\
             deserialize bs = Some (syn_header conn seq ts, 20).
Proof. exact syn_event_on_the_wire. Qed.

Theorem c11_disp_rst_on_the_wire : forall (a conn ack buflen : Z),
  c11_devent_ok (EvSentRst a conn ack) = true -> 20 <= buflen ->
  exists bs, serialize (rst_header conn ack) buflen = Some bs /\ Zlength bs = 20 /\
             nth 0 bs 0 mod 16 = 1 /\ nth 0 bs 0 / 16 = 3 /\
             deserialize bs = Some (rst_header conn ack, 20).
Proof. exact rst_event_on_the_wire. Qed.

(* the id owed to the direction, ST_RESET: it answers the SYN datagram handled in this very step, goes to
   its address, carries its connection id (the id the refused initiator receives on) and acknowledges its
   sequence number — every state, every step, no hypothesis *)
Theorem c11_disp_rst_answers_the_syn : forall (s : dstate) (o : dop) (s' : dstate) (e : list devent) (a c k : Z),
  dstep s o = (s', e) -> In (EvSentRst a c k) e ->
  exists pushes m, o = DoRunOnce pushes (ArmRecv a (Some m)) /\ dm_type m = ST_SYN /\
                   c = dm_conn m /\ k = dm_seq m.
Proof. exact rst_event_facts. Qed.

(* the id owed to the direction, ST_SYN: the id a SYN announces is the one the new connection should
   RECEIVE on (BEP 29).  FALSE of the model as a statement about what happens next: a SYN-ACK is matched to
   the pending connect by (address, ack_nr) only, the announced id is not kept, and a ST_STATE carrying
   another connection id completes the connect under that other id.  (With a peer that echoes the id the
   key is the announced id: c12 connected_event_facts / wiring_cross_keys.) *)
Theorem c11_disp_syn_ack_conn_id_unchecked_refuted :
  exists max_streams random ops a c q t k,
    randoms_okb random = true /\ forallb dop_okb ops = true /\
    all_events (dtrace (dstate_new max_streams random) ops) = [EvSentSyn a c q; EvConnected t k] /\
    k_addr k = a /\ k_conn k <> c.
Proof. exact syn_ack_conn_id_unchecked_refuted. Qed.

(* non-vacuity: reachable SYN and RESET emissions under the hypotheses *)
Theorem c11_disp_nonvacuous :
  randoms_okb [100; 200] = true /\ forallb dop_okb (syn_id_ops ++ rst_ops) = true /\
  all_events (dtrace (dstate_new 10 [100; 200]) rst_ops) = [EvSentRst 9 1032 532] /\
  forallb (fun p => c11_dstep_ok (fst p)) (dtrace (dstate_new 10 [100; 200]) (syn_id_ops ++ rst_ops)) = true.
Proof. exact rst_nonvacuous. Qed.

Print Assumptions c11_disp_inv_initial.
Print Assumptions c11_disp_emitted_ok_every_step.
Print Assumptions c11_disp_emitted_ok_every_trace.
Print Assumptions c11_disp_syn_on_the_wire.
Print Assumptions c11_disp_rst_on_the_wire.
Print Assumptions c11_disp_rst_answers_the_syn.
Print Assumptions c11_disp_syn_ack_conn_id_unchecked_refuted.
Print Assumptions c11_disp_nonvacuous.

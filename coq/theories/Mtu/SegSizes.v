(* M1: src/mtu.rs, struct SegmentSizes.  All fields are u16; every operation of the
   Rust code is written out over Z with its u16 meaning:
     a - b, a + b  on u16 : checked (the harness is built with overflow-checks = on, a
                            debug build panics; None = panic).  `ss_new` is written with
                            plain Z arithmetic, SegSizes_Proofs.new_no_u16_overflow shows no
                            intermediate leaves [0, 65535] for any u16 link_mtu.
     x as u16             : x mod 2^16
     saturating_sub       : sat_sub
     usize::min(u16::MAX) : Z.min _ 65535
   MODEL ONLY: no proofs in this file. *)
From Utp Require Import Base.Prelude.

Definition IPV4_HEADER : Z := 20.
Definition IPV6_HEADER : Z := 40.
Definition UDP_HEADER : Z := 8.
Definition UTP_HEADER : Z := 20.
Definition U16_MAX : Z := 65535.

Record segsizes := {
  min_ss : Z;      (* minimum uTP payload size known to go through *)
  max_ss : Z;      (* maximum uTP payload size to probe for *)
  cd_rem : Z;      (* cooldown_remaining_packets *)
  cd_max : Z       (* cooldown_max_packets *)
}.

Record ss_config := {
  cfg_ipv4 : bool;
  cfg_link_mtu : Z;          (* u16 *)
  cfg_cooldown : Z           (* u16: probe_expiry_cooldown_packets *)
}.

Definition ip_header (ipv4 : bool) : Z := if ipv4 then IPV4_HEADER else IPV6_HEADER.
Definition default_min_mtu (ipv4 : bool) : Z := if ipv4 then 576 else 1280.

(* calc = |mtu| mtu - ip_header_size - UTP_HEADER - UDP_HEADER *)
Definition ss_calc (ipv4 : bool) (mtu : Z) : Z :=
  mtu - ip_header ipv4 - UTP_HEADER - UDP_HEADER.

(* config.link_mtu.max(ip_header_size + UDP_HEADER + UTP_HEADER + 1) *)
Definition clamped_link_mtu (c : ss_config) : Z :=
  Z.max (cfg_link_mtu c) (ip_header (cfg_ipv4 c) + UDP_HEADER + UTP_HEADER + 1).

Definition ss_new (c : ss_config) : segsizes :=
  let link_mtu := clamped_link_mtu c in
  let min_mtu := Z.min (default_min_mtu (cfg_ipv4 c)) link_mtu in
  let max_mtu := link_mtu in
  {| min_ss := ss_calc (cfg_ipv4 c) min_mtu;
     max_ss := ss_calc (cfg_ipv4 c) max_mtu;
     cd_rem := 1;
     cd_max := cfg_cooldown c |}.

(* let p = payload_size.min(u16::MAX as usize) as u16; min_ss = min_ss.max(p.min(max_ss));
   max_ss is not touched (it starts at the ceiling and is only lowered by failed probes). *)
Definition on_payload_delivered (s : segsizes) (payload_size : Z) : segsizes :=
  let p := (Z.min payload_size U16_MAX) mod M16 in
  {| min_ss := Z.max (min_ss s) (Z.min p (max_ss s)); max_ss := max_ss s;
     cd_rem := cd_rem s; cd_max := cd_max s |}.

Definition mss (s : segsizes) : Z := min_ss s.

(* (self.min_ss + (self.max_ss - self.min_ss) / 2 + 1).min(self.max_ss)
   intermediates, in evaluation order: *)
Definition np_diff (s : segsizes) : Z := max_ss s - min_ss s.           (* checked sub *)
Definition np_half (s : segsizes) : Z := np_diff s / 2.
Definition np_sum1 (s : segsizes) : Z := min_ss s + np_half s.          (* checked add *)
Definition np_sum2 (s : segsizes) : Z := np_sum1 s + 1.                 (* checked add *)

Definition next_probe (s : segsizes) : option Z :=
  if (0 <=? np_diff s) && (np_sum1 s <=? U16_MAX) && (np_sum2 s <=? U16_MAX)
  then Some (Z.min (np_sum2 s) (max_ss s))
  else None.

(* What a build without overflow checks computes (wrapping u16 arithmetic); not used by the
   correspondence (the harness has overflow checks on), kept for the record. *)
Definition next_probe_wrapping (s : segsizes) : Z :=
  Z.min (wadd16 (wadd16 (min_ss s) (wsub16 (max_ss s) (min_ss s) / 2)) 1) (max_ss s).

Definition is_probing (s : segsizes) : option bool :=
  do p <- next_probe s; Some (min_ss s <? p).

Definition next_segment_size (s : segsizes) : option (segsizes * Z) :=
  if cd_rem s =? 0 then
    let s' := {| min_ss := min_ss s; max_ss := max_ss s; cd_rem := cd_max s; cd_max := cd_max s |} in
    do p <- next_probe s'; Some (s', p)
  else
    Some ({| min_ss := min_ss s; max_ss := max_ss s; cd_rem := sat_sub (cd_rem s) 1; cd_max := cd_max s |},
          min_ss s).

(* self.max_ss.min((size as u16).saturating_sub(1)).max(self.min_ss) ; size : usize *)
Definition on_probe_failed (s : segsizes) (size : Z) : segsizes :=
  {| min_ss := min_ss s;
     max_ss := Z.max (Z.min (max_ss s) (sat_sub (size mod M16) 1)) (min_ss s);
     cd_rem := cd_rem s; cd_max := cd_max s |}.

Definition disarm_cooldown (s : segsizes) : segsizes :=
  {| min_ss := min_ss s; max_ss := max_ss s; cd_rem := 0; cd_max := cd_max s |}.

(* ---- operations, step, run, trace ---- *)
Inductive ss_op :=
| OpNew (c : ss_config)
| OpDelivered (n : Z)        (* on_payload_delivered(n), n : usize *)
| OpNextSize                 (* next_segment_size() *)
| OpProbeFailed (n : Z)      (* on_probe_failed(n), n : usize *)
| OpDisarm.                  (* disarm_cooldown() *)

(* new state and the returned size, if the op returns one; None = panic *)
Definition ss_step (s : segsizes) (o : ss_op) : option (segsizes * option Z) :=
  match o with
  | OpNew c => Some (ss_new c, None)
  | OpDelivered n => Some (on_payload_delivered s n, None)
  | OpNextSize => do r <- next_segment_size s; Some (fst r, Some (snd r))
  | OpProbeFailed n => Some (on_probe_failed s n, None)
  | OpDisarm => Some (disarm_cooldown s, None)
  end.

Fixpoint ss_run (s : segsizes) (ops : list ss_op) : option segsizes :=
  match ops with
  | [] => Some s
  | o :: rest => do r <- ss_step s o; ss_run (fst r) rest
  end.

(* observation after each op: (min_ss, max_ss, is_probing, returned size); None = panic
   (of the op itself or of the is_probing() call that makes the observation) *)
Definition ss_obs : Type := Z * Z * bool * option Z.

Definition ss_observe (s : segsizes) (ret : option Z) : option ss_obs :=
  do p <- is_probing s; Some (min_ss s, max_ss s, p, ret).

Fixpoint ss_trace (s : segsizes) (ops : list ss_op) : list (option ss_obs) :=
  match ops with
  | [] => []
  | o :: rest =>
      match ss_step s o with
      | Some (s', ret) =>
          match ss_observe s' ret with
          | Some ob => Some ob :: ss_trace s' rest
          | None => [None]
          end
      | None => [None]
      end
  end.

(* ---- the scripted path: a link that delivers exactly the payload sizes <= P ---- *)
(* one probe outcome: disarm; s = next_segment_size(); delivered(s) if s <= P else probe_failed(s) *)
Definition probe_round (P : Z) (s : segsizes) : option segsizes :=
  do r <- next_segment_size (disarm_cooldown s);
  let '(s1, sz) := r in
  Some (if sz <=? P then on_payload_delivered s1 sz else on_probe_failed s1 sz).

Fixpoint probe_rounds (n : nat) (P : Z) (s : segsizes) : option segsizes :=
  match n with
  | O => Some s
  | S n' => do s' <- probe_round P s; probe_rounds n' P s'
  end.

(* while is_probing (at most `fuel` times): one probe_round; counts the outcomes *)
Fixpoint search_loop (fuel : nat) (P : Z) (s : segsizes) (cnt : Z) : option (Z * segsizes) :=
  match fuel with
  | O => Some (cnt, s)
  | S f =>
      do pr <- is_probing s;
      if pr then do s' <- probe_round P s; search_loop f P s' (cnt + 1)
      else Some (cnt, s)
  end.

Definition SEARCH_FUEL : nat := 40.

(* mtu_search observation: (number of probe outcomes, final mss, final max_ss, still probing) *)
Definition mtu_search (c : ss_config) (P : Z) : option (Z * Z * Z * bool) :=
  do r <- search_loop SEARCH_FUEL P (ss_new c) 0;
  let '(cnt, s) := r in
  do pr <- is_probing s;
  Some (cnt, mss s, max_ss s, pr).

(* ---- the property as boolean predicates over (case, observations) ---- *)
Definition cfg_in_range (c : ss_config) : bool :=
  (0 <=? cfg_link_mtu c) && (cfg_link_mtu c <=? U16_MAX) &&
  (0 <=? cfg_cooldown c) && (cfg_cooldown c <=? U16_MAX).

(* largest uTP payload the configured link MTU allows: link_mtu - ip - udp - utp, at least 1 *)
Definition ceiling_of (c : ss_config) : Z :=
  Z.max 1 (cfg_link_mtu c - ip_header (cfg_ipv4 c) - UDP_HEADER - UTP_HEADER).
(* the protocol minimum: payload of the smallest datagram every path must carry (576 / 1280),
   not above the ceiling *)
Definition floor_of (c : ss_config) : Z :=
  Z.min (ceiling_of c) (default_min_mtu (cfg_ipv4 c) - ip_header (cfg_ipv4 c) - UDP_HEADER - UTP_HEADER).

Definition clampZ (lo hi x : Z) : Z := Z.max lo (Z.min x hi).

(* mtu_search: settles on the largest payload size that fits, after at most
   ceil(log2(max_ss0 - min_ss0)) + 1 probe outcomes *)
Definition c14_search_ok (c : ss_config) (P : Z) (ob : option (Z * Z * Z * bool)) : bool :=
  match ob with
  | Some (cnt, m, mx, pr) =>
      (m =? clampZ (floor_of c) (ceiling_of c) P) && (mx =? m) && negb pr &&
      (0 <=? cnt) && (cnt <=? Z.log2_up (ceiling_of c - floor_of c) + 1)
  | None => false
  end.

(* mtu_d3: a payload of n bytes from the peer reported right after `new`:
   (max_ss before, mss after, max_ss after) *)
Definition mtu_d3 (c : ss_config) (n : Z) : Z * Z * Z :=
  let s0 := ss_new c in
  let s1 := on_payload_delivered s0 n in
  (max_ss s0, mss s1, max_ss s1).

(* whatever size the peer used, the segment size stays between the protocol minimum and the
   ceiling the configured link MTU implies *)
Definition c14_d3_ok (c : ss_config) (ob : Z * Z * Z) : bool :=
  let '(ceil, m, mx) := ob in
  (ceil =? ceiling_of c) && (floor_of c <=? m) && (m <=? mx) && (mx <=? ceil).

(* ops a Rust caller can express: usize arguments are >= 0, config fields are u16 *)
Definition op_in_domain (o : ss_op) : bool :=
  match o with
  | OpNew c => cfg_in_range c
  | OpDelivered n => 0 <=? n
  | OpProbeFailed n => 0 <=? n
  | _ => true
  end.

(* accumulator of the trace predicate *)
Record c14_acc := {
  a_min : Z; a_max : Z;        (* previous observation (initially the values the config implies) *)
  a_cd : Z; a_cdmax : Z;       (* cooldown counter implied by the ops *)
  a_ceil : Z;                  (* ceiling_of config *)
  a_lo : Z; a_hi : Z;          (* a path size P is consistent with the outcomes so far iff a_lo <= P <= a_hi *)
  a_maxsent : Z;               (* largest size returned by next_segment_size so far *)
  a_search : bool              (* search discipline held so far *)
}.

Definition c14_acc0 (c : ss_config) : c14_acc :=
  {| a_min := floor_of c; a_max := ceiling_of c; a_cd := 1; a_cdmax := cfg_cooldown c;
     a_ceil := ceiling_of c; a_lo := floor_of c; a_hi := ceiling_of c; a_maxsent := 0;
     a_search := true |}.

(* Search discipline: outcomes are reported only for sizes this endpoint was handed by
   next_segment_size (a segment may be shorter than the size handed out; n = 0 is the
   "nothing acked" call), and some path size P is consistent with all outcomes
   (every delivered n <= P < every failed n, floor <= P <= ceiling), i.e. lo <= hi. *)
Definition c14_acc_next (a : c14_acc) (o : ss_op) (mn mx : Z) (ret : option Z) : c14_acc :=
  match o with
  | OpNew c =>
      {| a_min := mn; a_max := mx; a_cd := 1; a_cdmax := cfg_cooldown c; a_ceil := ceiling_of c;
         a_lo := a_lo a; a_hi := a_hi a; a_maxsent := a_maxsent a;
         a_search := false |}
  | OpDelivered n =>
      let lo := Z.max (a_lo a) n in
      {| a_min := mn; a_max := mx; a_cd := a_cd a; a_cdmax := a_cdmax a; a_ceil := a_ceil a;
         a_lo := lo; a_hi := a_hi a; a_maxsent := a_maxsent a;
         a_search := a_search a && (n <=? a_maxsent a) && (lo <=? a_hi a) |}
  | OpProbeFailed n =>
      let hi := Z.min (a_hi a) (n - 1) in
      {| a_min := mn; a_max := mx; a_cd := a_cd a; a_cdmax := a_cdmax a; a_ceil := a_ceil a;
         a_lo := a_lo a; a_hi := hi; a_maxsent := a_maxsent a;
         a_search := a_search a && (n <=? a_maxsent a) && (a_lo a <=? hi) |}
  | OpNextSize =>
      {| a_min := mn; a_max := mx;
         a_cd := if a_cd a =? 0 then a_cdmax a else sat_sub (a_cd a) 1; a_cdmax := a_cdmax a;
         a_ceil := a_ceil a; a_lo := a_lo a; a_hi := a_hi a;
         a_maxsent := match ret with Some r => Z.max (a_maxsent a) r | None => a_maxsent a end;
         a_search := a_search a |}
  | OpDisarm =>
      {| a_min := mn; a_max := mx; a_cd := 0; a_cdmax := a_cdmax a; a_ceil := a_ceil a;
         a_lo := a_lo a; a_hi := a_hi a; a_maxsent := a_maxsent a;
         a_search := a_search a |}
  end.

(* what next_segment_size may return, given the sizes before the call and the cooldown *)
Definition c14_ret_check (a : c14_acc) (o : ss_op) (mn mx : Z) (ret : option Z) : bool :=
  match o, ret with
  | OpNextSize, Some r =>
      (mn =? a_min a) && (mx =? a_max a) &&
      (mn <=? r) && (r <=? mx) &&
      (* larger than the proven size only as a probe, only when the cooldown allows it,
         and then it is the midpoint (rounded up) of the open interval *)
      ((r =? mn) || ((a_cd a =? 0) && (r =? Z.min (mn + (mx - mn) / 2 + 1) mx)))
  | OpNextSize, None => false
  | _, Some _ => false
  | _, None => true
  end.

(* checks on one observation *)
Definition c14_obs_check (a : c14_acc) (o : ss_op) (a' : c14_acc) (mn mx : Z) (pr : bool) (ret : option Z) : bool :=
  (* well-formed u16 state *)
  (0 <=? mn) && (mn <=? mx) && (mx <=? U16_MAX) &&
  (* probing exactly while the search interval is not closed *)
  (Bool.eqb pr (mn <? mx)) &&
  (* sizes handed out *)
  c14_ret_check a o mn mx ret &&
  (* ceiling of the configured link MTU: always, whatever sizes were reported delivered *)
  (mx <=? a_ceil a') &&
  (* search: every path size P consistent with the outcomes so far stays inside [min_ss, max_ss] *)
  (if a_search a' then (mn <=? a_lo a') && (a_hi a' <=? mx) else true).

Fixpoint c14_obs_ok (a : c14_acc) (ops : list ss_op) (obs : list (option ss_obs)) : bool :=
  match ops, obs with
  | [], [] => true
  | o :: ops', Some (mn, mx, pr, ret) :: obs' =>
      let a' := c14_acc_next a o mn mx ret in
      op_in_domain o && c14_obs_check a o a' mn mx pr ret && c14_obs_ok a' ops' obs'
  (* a panic ([None]) is never acceptable *)
  | _, _ => false
  end.

Definition c14_ok (c : ss_config) (ops : list ss_op) (obs : list (option ss_obs)) : bool :=
  cfg_in_range c && c14_obs_ok (c14_acc0 c) ops obs.

(* constants the theorems fix; tools/check compares them with the compiled crate *)
Definition segsizes_cfg_ok : bool :=
  (IPV4_HEADER =? 20) && (IPV6_HEADER =? 40) && (UDP_HEADER =? 8) && (UTP_HEADER =? 20).

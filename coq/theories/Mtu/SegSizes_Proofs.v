From Utp Require Import Base.Prelude Mtu.SegSizes.

(* Unfold composite constants first, then the base ones (CONVENTIONS.md). *)
Ltac unf_consts :=
  unfold floor_of, clampZ in *;
  unfold ss_calc, clamped_link_mtu, ceiling_of in *;
  unfold ip_header, default_min_mtu in *;
  unfold IPV4_HEADER, IPV6_HEADER, UDP_HEADER, UTP_HEADER, U16_MAX, M16 in *.

(* ------------------------------------------------------------------ state invariants *)
Definition wf (s : segsizes) : Prop := 0 <= min_ss s <= max_ss s /\ max_ss s <= U16_MAX.
(* ... and below the one value at which next_probe overflows *)
Definition wf_lt (s : segsizes) : Prop := 0 <= min_ss s <= max_ss s /\ max_ss s < U16_MAX.

Lemma wf_lt_wf s : wf_lt s -> wf s.
Proof. unfold wf, wf_lt, U16_MAX. lia. Qed.

Lemma new_shape c :
  min_ss (ss_new c) = floor_of c /\ max_ss (ss_new c) = ceiling_of c /\
  cd_rem (ss_new c) = 1 /\ cd_max (ss_new c) = cfg_cooldown c.
Proof.
  unfold ss_new; cbn [min_ss max_ss cd_rem cd_max]. unf_consts.
  destruct (cfg_ipv4 c); lia.
Qed.

Lemma new_bounds c : cfg_in_range c = true ->
  1 <= floor_of c <= ceiling_of c /\ ceiling_of c <= 65487.
Proof. unfold cfg_in_range. unf_consts. destruct (cfg_ipv4 c); lia. Qed.

Lemma new_wf_lt c : cfg_in_range c = true -> wf_lt (ss_new c).
Proof.
  intro H. destruct (new_shape c) as (Hm & Hx & _). destruct (new_bounds c H) as [Hb1 Hb2].
  unfold wf_lt. rewrite Hm, Hx. unfold U16_MAX. lia.
Qed.

(* The u16 arithmetic of `new`: no intermediate leaves [0, 65535] for a u16 link_mtu. *)
Lemma new_no_u16_overflow c : cfg_in_range c = true ->
  let ip := ip_header (cfg_ipv4 c) in
  let link := clamped_link_mtu c in
  let min_mtu := Z.min (default_min_mtu (cfg_ipv4 c)) link in
  0 <= ip + UDP_HEADER <= U16_MAX /\ 0 <= ip + UDP_HEADER + UTP_HEADER <= U16_MAX /\
  0 <= ip + UDP_HEADER + UTP_HEADER + 1 <= U16_MAX /\
  0 <= link <= U16_MAX /\ 0 <= min_mtu <= U16_MAX /\
  (forall mtu, mtu = min_mtu \/ mtu = link ->
     0 <= mtu - ip /\ 0 <= mtu - ip - UTP_HEADER /\ 1 <= mtu - ip - UTP_HEADER - UDP_HEADER).
Proof.
  unfold cfg_in_range. unf_consts. cbv zeta.
  destruct (cfg_ipv4 c); intro H; (repeat (split; [lia|])); lia.
Qed.

(* with link_mtu at least one payload byte above the headers, the ceiling is exactly what the
   link MTU leaves after the IP, UDP and uTP headers *)
Lemma ceiling_datagram c :
  ip_header (cfg_ipv4 c) + UDP_HEADER + UTP_HEADER + 1 <= cfg_link_mtu c ->
  ceiling_of c + UTP_HEADER + UDP_HEADER + ip_header (cfg_ipv4 c) = cfg_link_mtu c.
Proof. unf_consts. destruct (cfg_ipv4 c); lia. Qed.

Lemma delivered_fields s n :
  0 <= n ->
  min_ss (on_payload_delivered s n) = Z.max (min_ss s) (Z.min (Z.min n U16_MAX) (max_ss s)) /\
  max_ss (on_payload_delivered s n) = max_ss s /\
  cd_rem (on_payload_delivered s n) = cd_rem s /\ cd_max (on_payload_delivered s n) = cd_max s.
Proof.
  intro Hn. unfold on_payload_delivered; cbn [min_ss max_ss cd_rem cd_max].
  assert (Hp : Z.min n U16_MAX mod M16 = Z.min n U16_MAX) by (unfold U16_MAX, M16; lia).
  rewrite Hp. auto.
Qed.

(* whatever the reported size (any Z): max_ss is untouched, min_ss only grows and stays <= max_ss *)
Lemma delivered_monotone s n : wf s ->
  max_ss (on_payload_delivered s n) = max_ss s /\
  min_ss s <= min_ss (on_payload_delivered s n) <= max_ss s.
Proof.
  unfold wf, on_payload_delivered; cbn [min_ss max_ss]. unfold U16_MAX, M16. lia.
Qed.

Lemma delivered_wf s n : wf s -> wf (on_payload_delivered s n).
Proof.
  unfold wf, on_payload_delivered; cbn [min_ss max_ss]. unfold U16_MAX, M16. lia.
Qed.

Lemma failed_fields s n :
  0 <= n <= U16_MAX ->
  min_ss (on_probe_failed s n) = min_ss s /\
  max_ss (on_probe_failed s n) = Z.max (Z.min (max_ss s) (Z.max 0 (n - 1))) (min_ss s) /\
  cd_rem (on_probe_failed s n) = cd_rem s /\ cd_max (on_probe_failed s n) = cd_max s.
Proof.
  intro Hn. unfold on_probe_failed, sat_sub; cbn [min_ss max_ss cd_rem cd_max].
  assert (Hp : n mod M16 = n) by (unfold U16_MAX, M16 in *; lia).
  rewrite Hp. auto.
Qed.

Lemma failed_wf s n : wf s -> wf (on_probe_failed s n).
Proof.
  unfold wf, on_probe_failed, sat_sub; cbn [min_ss max_ss]. unfold U16_MAX, M16. lia.
Qed.

(* on_probe_failed never raises max_ss and never moves min_ss, whatever the (truncated) size *)
Lemma failed_monotone s n : wf s ->
  min_ss (on_probe_failed s n) = min_ss s /\ max_ss (on_probe_failed s n) <= max_ss s.
Proof. unfold wf, on_probe_failed, sat_sub; cbn [min_ss max_ss]. lia. Qed.

(* ------------------------------------------------------------------ next_probe *)
Definition probe_value (s : segsizes) : Z :=
  Z.min (min_ss s + (max_ss s - min_ss s) / 2 + 1) (max_ss s).

Lemma next_probe_no_overflow s :
  0 <= min_ss s <= max_ss s -> max_ss s <= U16_MAX -> min_ss s < U16_MAX ->
  0 <= np_diff s <= U16_MAX /\ 0 <= np_half s <= U16_MAX /\
  0 <= np_sum1 s <= U16_MAX /\ 0 <= np_sum2 s <= U16_MAX /\
  next_probe s = Some (probe_value s) /\ next_probe_wrapping s = probe_value s /\
  min_ss s <= probe_value s <= max_ss s.
Proof.
  intros H1 H2 H3.
  assert (Hd : 0 <= np_diff s <= U16_MAX) by (unfold np_diff, U16_MAX in *; lia).
  assert (Hh : 0 <= np_half s <= U16_MAX) by (unfold np_half, np_diff, U16_MAX in *; lia).
  assert (Hs1 : 0 <= np_sum1 s <= U16_MAX) by (unfold np_sum1, np_half, np_diff, U16_MAX in *; lia).
  assert (Hs2 : 0 <= np_sum2 s <= U16_MAX) by (unfold np_sum2, np_sum1, np_half, np_diff, U16_MAX in *; lia).
  repeat (split; [assumption|]).
  split; [|split].
  - unfold next_probe.
    replace ((0 <=? np_diff s) && (np_sum1 s <=? U16_MAX) && (np_sum2 s <=? U16_MAX)) with true by lia.
    reflexivity.
  - unfold next_probe_wrapping, probe_value, wadd16, wsub16.
    unfold np_sum2, np_sum1, np_half, np_diff, U16_MAX, M16 in *.
    assert (E1 : (max_ss s - min_ss s) mod 65536 = max_ss s - min_ss s) by lia.
    rewrite E1.
    assert (E2 : (min_ss s + (max_ss s - min_ss s) / 2) mod 65536 = min_ss s + (max_ss s - min_ss s) / 2) by lia.
    rewrite E2.
    assert (E3 : (min_ss s + (max_ss s - min_ss s) / 2 + 1) mod 65536 = min_ss s + (max_ss s - min_ss s) / 2 + 1) by lia.
    rewrite E3. reflexivity.
  - unfold probe_value. lia.
Qed.

Lemma next_probe_some s : wf s -> min_ss s < U16_MAX -> next_probe s = Some (probe_value s).
Proof. intros [H1 H2] H3. apply next_probe_no_overflow; assumption. Qed.

(* the one overflow: min_ss = max_ss = 65535 *)
Lemma next_probe_none_iff s : wf s -> (next_probe s = None <-> min_ss s = U16_MAX).
Proof.
  intros [H1 H2]. split.
  - intro Hn. destruct (Z.eq_dec (min_ss s) U16_MAX) as [|Hne]; [assumption|].
    rewrite next_probe_some in Hn; [discriminate|split; assumption|lia].
  - intro He. unfold next_probe.
    replace ((0 <=? np_diff s) && (np_sum1 s <=? U16_MAX) && (np_sum2 s <=? U16_MAX)) with false;
      [reflexivity|].
    unfold np_sum2, np_sum1, np_half, np_diff, U16_MAX in *. lia.
Qed.

Lemma probe_value_gt s : wf s -> (min_ss s < probe_value s <-> min_ss s < max_ss s).
Proof. unfold wf, probe_value. lia. Qed.

Lemma is_probing_some s : wf s -> min_ss s < U16_MAX ->
  is_probing s = Some (min_ss s <? max_ss s).
Proof.
  intros Hw Hlt. unfold is_probing. rewrite (next_probe_some s Hw Hlt). cbn [bind].
  f_equal. pose proof (probe_value_gt s Hw). lia.
Qed.

Lemma is_probing_val s b : wf s -> is_probing s = Some b -> b = (min_ss s <? max_ss s).
Proof.
  intros Hw H. destruct (Z.eq_dec (min_ss s) U16_MAX) as [He|Hne].
  - apply (next_probe_none_iff s Hw) in He. unfold is_probing in H. rewrite He in H. discriminate.
  - rewrite is_probing_some in H; [congruence|assumption|destruct Hw; lia].
Qed.

Lemma is_probing_none s : wf s -> is_probing s = None -> max_ss s = U16_MAX.
Proof.
  intros Hw H. destruct (Z.eq_dec (min_ss s) U16_MAX) as [He|Hne].
  - destruct Hw. lia.
  - rewrite is_probing_some in H; [discriminate|assumption|destruct Hw; lia].
Qed.

(* ------------------------------------------------------------------ next_segment_size *)
Lemma next_size_spec s s' r :
  wf s -> next_segment_size s = Some (s', r) ->
  min_ss s' = min_ss s /\ max_ss s' = max_ss s /\ cd_max s' = cd_max s /\
  cd_rem s' = (if cd_rem s =? 0 then cd_max s else sat_sub (cd_rem s) 1) /\
  (r = mss s \/ next_probe s = Some r) /\
  mss s <= r <= max_ss s /\
  (mss s < r -> cd_rem s = 0 /\ r = probe_value s).
Proof.
  intros Hw H. unfold next_segment_size in H. unfold mss.
  destruct (cd_rem s =? 0) eqn:Ec.
  - set (s1 := {| min_ss := min_ss s; max_ss := max_ss s; cd_rem := cd_max s; cd_max := cd_max s |}) in *.
    assert (Hnp : next_probe s1 = next_probe s) by reflexivity.
    rewrite Hnp in H. destruct (next_probe s) as [p|] eqn:Ep; [|discriminate].
    cbn [bind] in H. injection H as <- <-. cbn [min_ss max_ss cd_rem cd_max].
    assert (Hlt : min_ss s < U16_MAX).
    { destruct (Z.eq_dec (min_ss s) U16_MAX) as [He|]; [|destruct Hw; lia].
      apply (next_probe_none_iff s Hw) in He. congruence. }
    rewrite (next_probe_some s Hw Hlt) in Ep. injection Ep as <-.
    destruct Hw as [Hw1 Hw2].
    destruct (next_probe_no_overflow s Hw1 Hw2 Hlt) as (_ & _ & _ & _ & _ & _ & Hr).
    repeat split; auto; try lia.
  - injection H as <- <-. cbn [min_ss max_ss cd_rem cd_max].
    destruct Hw as [Hw1 Hw2]. repeat split; auto; lia.
Qed.

Lemma next_size_wf s s' r : wf s -> next_segment_size s = Some (s', r) -> wf s'.
Proof.
  intros Hw H. destruct (next_size_spec s s' r Hw H) as (Hm & Hx & _).
  unfold wf in *. rewrite Hm, Hx. exact Hw.
Qed.

Lemma next_size_total s : wf s -> min_ss s < U16_MAX -> next_segment_size s <> None.
Proof.
  intros Hw Hlt. unfold next_segment_size. destruct (cd_rem s =? 0); [|discriminate].
  set (s1 := {| min_ss := min_ss s; max_ss := max_ss s; cd_rem := cd_max s; cd_max := cd_max s |}).
  assert (Hnp : next_probe s1 = next_probe s) by reflexivity.
  rewrite Hnp, (next_probe_some s Hw Hlt). discriminate.
Qed.

Lemma next_size_none s : wf s -> next_segment_size s = None -> max_ss s = U16_MAX.
Proof.
  intros Hw H. destruct (Z.eq_dec (min_ss s) U16_MAX) as [He|Hne].
  - destruct Hw. lia.
  - exfalso. apply (next_size_total s Hw); [destruct Hw; lia|exact H].
Qed.

(* ------------------------------------------------------------------ steps keep the state well-formed *)
Lemma step_wf s o s' ret :
  wf s -> op_in_domain o = true -> ss_step s o = Some (s', ret) -> wf s'.
Proof.
  intros Hw Hd H. destruct o as [c|n| |n|]; cbn [ss_step] in H.
  - injection H as <- _. apply wf_lt_wf, new_wf_lt. exact Hd.
  - injection H as <- _. apply delivered_wf; assumption.
  - destruct (next_segment_size s) as [[s1 r]|] eqn:E; [|discriminate].
    cbn [bind fst] in H. injection H as <- _. eapply next_size_wf; eauto.
  - injection H as <- _. apply failed_wf; assumption.
  - injection H as <- _. exact Hw.
Qed.

Lemma step_ret s o s' r :
  wf s -> ss_step s o = Some (s', Some r) ->
  o = OpNextSize /\ next_segment_size s = Some (s', r).
Proof.
  intros Hw H. destruct o; cbn [ss_step] in H; try (injection H; discriminate).
  destruct (next_segment_size s) as [[s1 r1]|] eqn:E; [|discriminate].
  cbn [bind fst snd] in H. injection H as <- <-. auto.
Qed.

Lemma run_wf : forall ops s s',
  wf s -> forallb op_in_domain ops = true -> ss_run s ops = Some s' -> wf s'.
Proof.
  induction ops as [|o ops IH]; cbn [ss_run forallb]; intros s s' Hw Hd H.
  - injection H as <-. exact Hw.
  - apply andb_true_iff in Hd as [Hd1 Hd2].
    destruct (ss_step s o) as [[s1 ret]|] eqn:E; [|discriminate]. cbn [bind fst] in H.
    eapply IH; [eapply step_wf; eauto | exact Hd2 | exact H].
Qed.

(* min_ss <= max_ss (and both u16) after every op list, from any configuration *)
Lemma run_min_le_max c ops s' :
  cfg_in_range c = true -> forallb op_in_domain ops = true ->
  ss_run (ss_new c) ops = Some s' -> 0 <= min_ss s' <= max_ss s' /\ max_ss s' <= U16_MAX.
Proof. intros Hc Hd H. exact (run_wf ops _ _ (wf_lt_wf _ (new_wf_lt c Hc)) Hd H). Qed.

(* ------------------------------------------------------------------ no panic, ever *)
(* max_ss never grows, so a state reached from `new` stays below 65535, the one value at which
   next_probe overflows. *)
Lemma step_total s o : wf_lt s -> op_in_domain o = true ->
  exists s' ret, ss_step s o = Some (s', ret) /\ wf_lt s'.
Proof.
  intros Hw Hd. pose proof (wf_lt_wf s Hw) as Hw0.
  destruct o as [c|n| |n|]; cbn [ss_step op_in_domain] in *.
  - eexists _, _. split; [reflexivity|]. apply new_wf_lt; assumption.
  - eexists _, _. split; [reflexivity|].
    destruct (delivered_monotone s n Hw0) as [Hx Hm].
    unfold wf_lt in *. rewrite Hx. lia.
  - destruct (next_segment_size s) as [[s1 r]|] eqn:E.
    + cbn [bind fst snd]. eexists _, _. split; [reflexivity|].
      destruct (next_size_spec s s1 r Hw0 E) as (Hm & Hx & _).
      unfold wf_lt in *. rewrite Hm, Hx. exact Hw.
    + exfalso. apply (next_size_total s Hw0); [unfold wf_lt in Hw; lia|exact E].
  - eexists _, _. split; [reflexivity|].
    destruct (failed_monotone s n Hw0) as [Hm Hx]. pose proof (failed_wf s n Hw0) as [Hf _].
    unfold wf_lt in *. rewrite Hm in *. lia.
  - eexists _, _. split; [reflexivity|]. exact Hw.
Qed.

Lemma run_total : forall ops s, wf_lt s -> forallb op_in_domain ops = true ->
  exists s', ss_run s ops = Some s' /\ wf_lt s'.
Proof.
  induction ops as [|o ops IH]; cbn [ss_run forallb]; intros s Hw Hd.
  - eauto.
  - apply andb_true_iff in Hd as [Hd1 Hd2].
    destruct (step_total s o Hw Hd1) as (s1 & ret & E & Hw1). rewrite E. cbn [bind fst].
    apply IH; assumption.
Qed.

Lemma no_panic c ops : cfg_in_range c = true -> forallb op_in_domain ops = true ->
  ss_run (ss_new c) ops <> None.
Proof.
  intros Hc Hd. destruct (run_total ops _ (new_wf_lt c Hc) Hd) as (s' & E & _).
  rewrite E. discriminate.
Qed.

(* the overflow state of next_probe (min_ss = max_ss = 65535) is unreachable *)
Lemma overflow_unreachable c ops s' :
  cfg_in_range c = true -> forallb op_in_domain ops = true ->
  ss_run (ss_new c) ops = Some s' ->
  max_ss s' < U16_MAX /\ next_probe s' = Some (probe_value s') /\
  is_probing s' = Some (min_ss s' <? max_ss s').
Proof.
  intros Hc Hd H. destruct (run_total ops _ (new_wf_lt c Hc) Hd) as (s1 & E & Hw).
  rewrite E in H. injection H as <-. pose proof (wf_lt_wf s1 Hw) as Hw0.
  unfold wf_lt in Hw. split; [lia|].
  split; [apply next_probe_some | apply is_probing_some]; auto; lia.
Qed.

(* ... and no observation of a trace is a panic *)
Lemma trace_no_panic_gen : forall ops s, wf_lt s -> forallb op_in_domain ops = true ->
  ~ In None (ss_trace s ops).
Proof.
  induction ops as [|o ops IH]; cbn [ss_trace forallb]; intros s Hw Hd HIn; [contradiction|].
  apply andb_true_iff in Hd as [Hd1 Hd2].
  destruct (step_total s o Hw Hd1) as (s1 & ret & E & Hw1). rewrite E in HIn.
  pose proof (wf_lt_wf s1 Hw1) as Hw0.
  unfold ss_observe in HIn. rewrite (is_probing_some s1 Hw0) in HIn by (unfold wf_lt in Hw1; lia).
  cbn [bind] in HIn. destruct HIn as [H|H]; [discriminate|]. exact (IH s1 Hw1 Hd2 H).
Qed.

Lemma trace_no_panic c ops : cfg_in_range c = true -> forallb op_in_domain ops = true ->
  ~ In None (ss_trace (ss_new c) ops).
Proof. intros Hc Hd. apply trace_no_panic_gen; [apply new_wf_lt; exact Hc|exact Hd]. Qed.

Definition cfg_default : ss_config := {| cfg_ipv4 := true; cfg_link_mtu := 1500; cfg_cooldown := 3 |}.

(* ------------------------------------------------------------------ ceiling *)
(* no hypothesis on the sizes reported delivered or failed (any Z); only `New` is excluded,
   because it installs another configuration with another ceiling *)
Definition not_new (o : ss_op) : bool := match o with OpNew _ => false | _ => true end.

Lemma step_ceiling c s o s' ret :
  wf s -> max_ss s <= c -> not_new o = true -> ss_step s o = Some (s', ret) ->
  wf s' /\ max_ss s' <= c /\ (forall r, ret = Some r -> r <= c).
Proof.
  intros Hw Hc Ho H. destruct o as [c0|n| |n|]; cbn [ss_step not_new] in *.
  - discriminate.
  - injection H as <- <-. split; [apply delivered_wf; exact Hw|]. split; [|discriminate].
    destruct (delivered_monotone s n Hw) as [Hx _]. rewrite Hx. exact Hc.
  - destruct (next_segment_size s) as [[s1 r]|] eqn:E; [|discriminate].
    cbn [bind fst snd] in H. injection H as <- <-.
    destruct (next_size_spec s s1 r Hw E) as (_ & Hx & _ & _ & _ & Hr & _).
    split; [eapply next_size_wf; eauto|].
    rewrite Hx. split; [assumption|]. intros r0 H0. injection H0 as <-. lia.
  - injection H as <- <-. split; [apply failed_wf; exact Hw|]. split; [|discriminate].
    destruct (failed_monotone s n Hw). lia.
  - injection H as <- <-. split; [exact Hw|]. split; [assumption|discriminate].
Qed.

Lemma ceiling_invariant_gen : forall ops c s s',
  wf s -> max_ss s <= c -> forallb not_new ops = true ->
  ss_run s ops = Some s' -> wf s' /\ max_ss s' <= c.
Proof.
  induction ops as [|o ops IH]; cbn [ss_run forallb]; intros c s s' Hw Hc Hd H.
  - injection H as <-. auto.
  - apply andb_true_iff in Hd as [Hd1 Hd2].
    destruct (ss_step s o) as [[s1 ret]|] eqn:E; [|discriminate]. cbn [bind fst] in H.
    destruct (step_ceiling c s o s1 ret Hw Hc Hd1 E) as (Hw1 & Hc1 & _).
    exact (IH c s1 s' Hw1 Hc1 Hd2 H).
Qed.

(* whatever sizes the peer uses: every Delivered n, every ProbeFailed n, n any integer *)
Lemma ceiling_invariant c ops s' :
  cfg_in_range c = true -> forallb not_new ops = true ->
  ss_run (ss_new c) ops = Some s' ->
  mss s' <= max_ss s' /\ max_ss s' <= ceiling_of c.
Proof.
  intros Hc Hd H. pose proof (wf_lt_wf _ (new_wf_lt c Hc)) as Hw.
  destruct (new_shape c) as (_ & Hx & _).
  destruct (ceiling_invariant_gen ops (ceiling_of c) _ s' Hw ltac:(lia) Hd H) as [[Hw1 _] Hc1].
  unfold mss. split; [lia|exact Hc1].
Qed.

(* every size handed out (and every max_ss observed) stays at or below the ceiling *)
Lemma trace_le_ceiling_gen : forall ops c s mn mx pr ret,
  wf s -> max_ss s <= c -> forallb not_new ops = true ->
  In (Some (mn, mx, pr, ret)) (ss_trace s ops) ->
  mn <= mx /\ mx <= c /\ (forall r, ret = Some r -> r <= c).
Proof.
  induction ops as [|o ops IH]; cbn [ss_trace forallb]; intros c s mn mx pr ret Hw Hc Hd HIn;
    [contradiction|].
  apply andb_true_iff in Hd as [Hd1 Hd2].
  destruct (ss_step s o) as [[s1 ret1]|] eqn:E.
  - destruct (step_ceiling c s o s1 ret1 Hw Hc Hd1 E) as (Hw1 & Hc1 & Hr1).
    unfold ss_observe in HIn. destruct (is_probing s1) as [b|]; cbn [bind] in HIn.
    + destruct HIn as [H|H].
      * injection H as <- <- <- <-. destruct Hw1. repeat split; auto; lia.
      * eapply IH; eauto.
    + destruct HIn as [H|[]]. discriminate.
  - destruct HIn as [H|[]]. discriminate.
Qed.

Lemma trace_le_ceiling c ops mn mx pr ret :
  cfg_in_range c = true -> forallb not_new ops = true ->
  In (Some (mn, mx, pr, ret)) (ss_trace (ss_new c) ops) ->
  mn <= mx /\ mx <= ceiling_of c /\ (forall r, ret = Some r -> r <= ceiling_of c).
Proof.
  intros Hc Hd. apply trace_le_ceiling_gen; auto.
  - apply wf_lt_wf, new_wf_lt; assumption.
  - destruct (new_shape c) as (_ & Hx & _). lia.
Qed.

(* the former D3 witness: a 5000-byte payload from the peer on a 1500 link now stops at the ceiling *)
Example ex_peer_payload_capped : exists s',
  ss_run (ss_new cfg_default) [OpDelivered 5000] = Some s' /\
  ceiling_of cfg_default = 1452 /\ mss s' = 1452 /\ max_ss s' = 1452.
Proof. eexists. repeat split; vm_compute; reflexivity. Qed.

Lemma mtu_d3_ok c n : cfg_in_range c = true -> c14_d3_ok c (mtu_d3 c n) = true.
Proof.
  intro Hc. pose proof (wf_lt_wf _ (new_wf_lt c Hc)) as Hw.
  destruct (new_shape c) as (Hm & Hx & _). destruct (new_bounds c Hc) as [Hb1 Hb2].
  destruct (delivered_monotone (ss_new c) n Hw) as [Hx' Hm'].
  unfold mtu_d3, c14_d3_ok, mss. rewrite Hx', Hx. lia.
Qed.

(* ------------------------------------------------------------------ search invariant *)
(* a path that delivers exactly the payload sizes <= P *)
Definition path_op_ok (P : Z) (o : ss_op) : bool :=
  match o with
  | OpNew _ => false
  | OpDelivered n => (0 <=? n) && (n <=? P)
  | OpProbeFailed n => (P <? n) && (n <=? U16_MAX)
  | _ => true
  end.

Definition path_inv (P : Z) (s : segsizes) : Prop :=
  wf s /\ min_ss s <= P <= max_ss s.

Lemma path_op_in_domain P o : 0 <= P -> path_op_ok P o = true -> op_in_domain o = true.
Proof. intro HP. destruct o; cbn [path_op_ok op_in_domain]; intro H; try exact H; try discriminate; try reflexivity; lia. Qed.

Lemma step_path P s o s' ret :
  path_inv P s -> path_op_ok P o = true -> ss_step s o = Some (s', ret) -> path_inv P s'.
Proof.
  intros [Hw HP] Ho H. unfold path_inv.
  assert (H0 : 0 <= P) by (destruct Hw; lia).
  split; [eapply step_wf; eauto; eapply path_op_in_domain; eauto|].
  destruct o as [c0|n| |n|]; cbn [ss_step path_op_ok] in *.
  - discriminate.
  - injection H as <- _. destruct (delivered_fields s n ltac:(lia)) as (Hm & Hx & _).
    rewrite Hm, Hx. destruct Hw. unfold U16_MAX in *. lia.
  - destruct (next_segment_size s) as [[s1 r]|] eqn:E; [|discriminate].
    cbn [bind fst] in H. injection H as <- _.
    destruct (next_size_spec s s1 r Hw E) as (Hm & Hx & _). rewrite Hm, Hx. exact HP.
  - injection H as <- _. destruct (failed_fields s n ltac:(lia)) as (Hm & Hx & _).
    rewrite Hm, Hx. lia.
  - injection H as <- _. exact HP.
Qed.

Lemma search_invariant : forall ops P s s',
  wf s -> min_ss s <= P <= max_ss s -> forallb (path_op_ok P) ops = true ->
  ss_run s ops = Some s' ->
  min_ss s' <= P <= max_ss s' /\ 0 <= min_ss s' /\ max_ss s' <= U16_MAX.
Proof.
  intros ops P s s' Hw HP.
  assert (Hi : path_inv P s) by (split; assumption). clear Hw HP.
  revert s s' Hi. induction ops as [|o ops IH]; cbn [ss_run forallb]; intros s s' Hi Hd H.
  - injection H as <-. destruct Hi as [[Hw1 Hw2] HP]. repeat split; lia.
  - apply andb_true_iff in Hd as [Hd1 Hd2].
    destruct (ss_step s o) as [[s1 ret]|] eqn:E; [|discriminate]. cbn [bind fst] in H.
    eapply IH; [eapply step_path; eauto | exact Hd2 | exact H].
Qed.

(* from a fresh connection, with P below 65535 nothing panics either *)
Lemma search_invariant_new c P ops :
  cfg_in_range c = true -> floor_of c <= P <= ceiling_of c ->
  forallb (path_op_ok P) ops = true ->
  exists s', ss_run (ss_new c) ops = Some s' /\ min_ss s' <= P <= max_ss s'.
Proof.
  intros Hc HP Hd. destruct (new_shape c) as (Hm & Hx & _). destruct (new_bounds c Hc) as [Hb1 Hb2].
  assert (Hdom : forallb op_in_domain ops = true).
  { rewrite forallb_forall in *. intros o Ho. specialize (Hd o Ho).
    apply (path_op_in_domain P o); [lia|exact Hd]. }
  destruct (run_total ops _ (new_wf_lt c Hc) Hdom) as (s' & E & _).
  exists s'. split; [exact E|].
  assert (Hw : wf (ss_new c)) by (apply wf_lt_wf, new_wf_lt; assumption).
  assert (HP' : min_ss (ss_new c) <= P <= max_ss (ss_new c)) by lia.
  destruct (search_invariant ops P _ s' Hw HP' Hd E) as [Hr _]. exact Hr.
Qed.

(* The same with the outcomes tied to sizes handed out by next_segment_size: `sent` is the
   list of sizes returned so far along the run. *)
Definition memZ (x : Z) (l : list Z) : bool := existsb (Z.eqb x) l.

Definition sent_op_ok (P : Z) (sent : list Z) (o : ss_op) : bool :=
  match o with
  | OpNew _ => false
  | OpDelivered n => (n <=? P) && memZ n sent
  | OpProbeFailed n => (P <? n) && memZ n sent
  | _ => true
  end.

Fixpoint sent_disc (P : Z) (s : segsizes) (sent : list Z) (ops : list ss_op) : bool :=
  match ops with
  | [] => true
  | o :: rest =>
      sent_op_ok P sent o &&
      match ss_step s o with
      | Some (s', ret) =>
          sent_disc P s' (match ret with Some r => r :: sent | None => sent end) rest
      | None => true
      end
  end.

Lemma memZ_in x l : memZ x l = true -> In x l.
Proof.
  unfold memZ. rewrite existsb_exists. intros [y [Hy He]]. apply Z.eqb_eq in He. subst. exact Hy.
Qed.

Lemma search_invariant_sent : forall ops P s sent s',
  wf s -> min_ss s <= P <= max_ss s ->
  Forall (fun r => 0 <= r <= U16_MAX) sent ->
  sent_disc P s sent ops = true -> ss_run s ops = Some s' ->
  min_ss s' <= P <= max_ss s'.
Proof.
  induction ops as [|o ops IH]; cbn [ss_run sent_disc]; intros P s sent s' Hw HP Hs Hd H.
  - injection H as <-. exact HP.
  - apply andb_true_iff in Hd as [Hd1 Hd2].
    destruct (ss_step s o) as [[s1 ret]|] eqn:E; [|discriminate]. cbn [bind fst] in H.
    assert (Hpo : path_op_ok P o = true).
    { rewrite Forall_forall in Hs.
      destruct o as [c0|n| |n|]; cbn [sent_op_ok path_op_ok] in *; auto.
      - apply andb_true_iff in Hd1 as [Hle Hm]. apply memZ_in in Hm. specialize (Hs n Hm). lia.
      - apply andb_true_iff in Hd1 as [Hle Hm]. apply memZ_in in Hm. specialize (Hs n Hm). lia. }
    destruct (step_path P s o s1 ret (conj Hw HP) Hpo E) as [Hw1 HP1].
    eapply IH; [exact Hw1|exact HP1| |exact Hd2|exact H].
    destruct ret as [r|]; [|exact Hs].
    constructor; [|exact Hs].
    destruct (step_ret s o s1 r Hw E) as [_ En].
    destruct (next_size_spec s s1 r Hw En) as (_ & _ & _ & _ & _ & Hr & _).
    unfold mss in Hr. destruct Hw. lia.
Qed.

(* ------------------------------------------------------------------ convergence *)
(* where the search must end: P clamped to the current interval *)
Definition target (P : Z) (s : segsizes) : Z := Z.max (min_ss s) (Z.min P (max_ss s)).

Lemma target_in_range P s : min_ss s <= P <= max_ss s -> target P s = P.
Proof. unfold target. lia. Qed.

Lemma next_size_disarmed s : wf s -> min_ss s < U16_MAX ->
  next_segment_size (disarm_cooldown s) =
  Some ({| min_ss := min_ss s; max_ss := max_ss s; cd_rem := cd_max s; cd_max := cd_max s |},
        probe_value s).
Proof.
  intros Hw Hlt. unfold next_segment_size, disarm_cooldown. cbn [cd_rem min_ss max_ss cd_max Z.eqb].
  set (s1 := {| min_ss := min_ss s; max_ss := max_ss s; cd_rem := cd_max s; cd_max := cd_max s |}).
  assert (Hnp : next_probe s1 = Some (probe_value s)).
  { change (probe_value s) with (probe_value s1). apply next_probe_some; [exact Hw|exact Hlt]. }
  rewrite Hnp. reflexivity.
Qed.

Lemma probe_round_halves P s :
  wf_lt s ->
  exists s', probe_round P s = Some s' /\ wf_lt s' /\
    min_ss s <= min_ss s' /\ max_ss s' <= max_ss s /\
    max_ss s' - min_ss s' <= (max_ss s - min_ss s) / 2 /\
    target P s' = target P s.
Proof.
  intros Hw. pose proof (wf_lt_wf s Hw) as Hw0.
  unfold probe_round.
  rewrite (next_size_disarmed s Hw0) by (unfold wf_lt in Hw; lia). cbn [bind].
  set (s1 := {| min_ss := min_ss s; max_ss := max_ss s; cd_rem := cd_max s; cd_max := cd_max s |}).
  assert (Hm : min_ss s1 = min_ss s) by reflexivity.
  assert (Hx : max_ss s1 = max_ss s) by reflexivity.
  clearbody s1.
  assert (Hr : probe_value s = Z.min (min_ss s + (max_ss s - min_ss s) / 2 + 1) (max_ss s)) by reflexivity.
  set (r := probe_value s) in *. clearbody r.
  unfold wf_lt in Hw.
  destruct (Z.leb_spec r P) as [Hle|Hgt].
  - eexists. split; [reflexivity|].
    destruct (delivered_fields s1 r ltac:(lia)) as (Hm' & Hx' & _).
    unfold wf_lt, target. rewrite Hm', Hx', Hm, Hx. unfold U16_MAX in *. lia.
  - eexists. split; [reflexivity|].
    destruct (failed_fields s1 r ltac:(unfold U16_MAX in *; lia)) as (Hm' & Hx' & _).
    unfold wf_lt, target. rewrite Hm', Hx', Hm, Hx. unfold U16_MAX in *. lia.
Qed.

Definition converged (P : Z) (s0 s : segsizes) : Prop :=
  min_ss s = target P s0 /\ max_ss s = target P s0 /\ is_probing s = Some false.

Lemma closed_is_converged P s : wf_lt s -> max_ss s - min_ss s < 1 ->
  min_ss s = target P s /\ max_ss s = target P s /\ is_probing s = Some false.
Proof.
  intros Hw Hd. pose proof (wf_lt_wf s Hw) as Hw0. unfold wf_lt in Hw.
  rewrite (is_probing_some s Hw0 ltac:(lia)). unfold target.
  repeat split; try lia. f_equal. lia.
Qed.

Lemma probe_rounds_converge : forall n P s,
  wf_lt s -> max_ss s - min_ss s < 2 ^ Z.of_nat n ->
  exists s', probe_rounds n P s = Some s' /\ wf_lt s' /\ converged P s s'.
Proof.
  induction n as [|n IH]; intros P s Hw Hd; cbn [probe_rounds].
  - exists s. split; [reflexivity|]. split; [exact Hw|]. apply closed_is_converged; [exact Hw|].
    cbn in Hd. lia.
  - destruct (probe_round_halves P s Hw) as (s1 & E & Hw1 & _ & _ & Hh & Ht).
    rewrite E. cbn [bind].
    rewrite Nat2Z.inj_succ, Z.pow_succ_r in Hd by lia.
    set (X := 2 ^ Z.of_nat n) in *.
    destruct (IH P s1 Hw1 ltac:(lia)) as (s' & E' & Hw' & Hc).
    exists s'. split; [exact E'|]. split; [exact Hw'|].
    unfold converged in *. rewrite <- Ht. exact Hc.
Qed.

(* the statement of the property: P inside the initial interval *)
Lemma converges P s n :
  wf_lt s -> min_ss s <= P <= max_ss s -> max_ss s - min_ss s < 2 ^ Z.of_nat n ->
  exists s', probe_rounds n P s = Some s' /\
    min_ss s' = P /\ max_ss s' = P /\ mss s' = P /\ is_probing s' = Some false.
Proof.
  intros Hw HP Hd. destruct (probe_rounds_converge n P s Hw Hd) as (s' & E & _ & Hm & Hx & Hp).
  rewrite (target_in_range P s HP) in *. exists s'. unfold mss. auto.
Qed.

Lemma pow_log2_up_bound d : 0 <= d -> d < 2 ^ (Z.log2_up d + 1).
Proof.
  intro Hd. pose proof (Z.log2_up_nonneg d) as Hl.
  replace (Z.log2_up d + 1) with (Z.succ (Z.log2_up d)) by lia.
  rewrite Z.pow_succ_r by exact Hl.
  destruct (Z_lt_le_dec 1 d) as [H1|H1].
  - pose proof (Z.log2_up_spec d H1) as [_ Hs]. lia.
  - assert (Hz : Z.log2_up d = 0) by (apply Z.log2_up_eqn0; lia).
    rewrite Hz. cbn. lia.
Qed.

(* ceil(log2(max_ss0 - min_ss0)) + 1 outcomes suffice *)
Lemma converges_log2 P s :
  wf_lt s -> min_ss s <= P <= max_ss s ->
  exists s', probe_rounds (Z.to_nat (Z.log2_up (max_ss s - min_ss s) + 1)) P s = Some s' /\
    min_ss s' = P /\ max_ss s' = P /\ mss s' = P /\ is_probing s' = Some false.
Proof.
  intros Hw HP. apply converges; auto.
  pose proof (Z.log2_up_nonneg (max_ss s - min_ss s)) as Hl.
  rewrite Z2Nat.id by lia. apply pow_log2_up_bound. unfold wf_lt in Hw. lia.
Qed.

(* 16 outcomes suffice for any u16 interval *)
Lemma converges_16 P s n :
  wf_lt s -> min_ss s <= P <= max_ss s -> (16 <= n)%nat ->
  exists s', probe_rounds n P s = Some s' /\
    min_ss s' = P /\ max_ss s' = P /\ mss s' = P /\ is_probing s' = Some false.
Proof.
  intros Hw HP Hn. apply converges; auto.
  assert (H16 : 2 ^ 16 <= 2 ^ Z.of_nat n) by (apply Z.pow_le_mono_r; lia).
  unfold wf_lt, U16_MAX in Hw. change (2 ^ 16) with 65536 in H16. lia.
Qed.

(* ------------------------------------------------------------------ the scripted search *)
Lemma search_loop_spec : forall fuel k P s cnt,
  (k <= fuel)%nat -> wf_lt s -> max_ss s - min_ss s < 2 ^ Z.of_nat k ->
  exists cnt' s', search_loop fuel P s cnt = Some (cnt', s') /\
    cnt <= cnt' <= cnt + Z.of_nat k /\ wf_lt s' /\
    min_ss s' = target P s /\ max_ss s' = target P s.
Proof.
  induction fuel as [|f IH]; intros k P s cnt Hk Hw Hd; cbn [search_loop].
  - assert (k = 0%nat) by lia. subst k. cbn in Hd.
    destruct (closed_is_converged P s Hw ltac:(lia)) as (Hm & Hx & _).
    exists cnt, s. split; [reflexivity|]. split; [lia|]. split; [exact Hw|]. split; assumption.
  - pose proof (wf_lt_wf s Hw) as Hw0.
    rewrite (is_probing_some s Hw0) by (unfold wf_lt in Hw; lia). cbn [bind].
    destruct (Z.ltb_spec (min_ss s) (max_ss s)) as [Hlt|Hge].
    + destruct k as [|k']; [cbn in Hd; lia|].
      destruct (probe_round_halves P s Hw) as (s1 & E & Hw1 & _ & _ & Hh & Ht).
      rewrite E. cbn [bind].
      rewrite Nat2Z.inj_succ, Z.pow_succ_r in Hd by lia.
      set (X := 2 ^ Z.of_nat k') in *.
      destruct (IH k' P s1 (cnt + 1) ltac:(lia) Hw1 ltac:(lia)) as (cnt' & s' & E' & Hc & Hw' & Hm & Hx).
      exists cnt', s'. rewrite <- Ht. split; [exact E'|]. split; [lia|]. split; [exact Hw'|]. split; assumption.
    + destruct (closed_is_converged P s Hw ltac:(lia)) as (Hm & Hx & _).
      exists cnt, s. split; [reflexivity|]. split; [lia|]. split; [exact Hw|]. split; assumption.
Qed.

Lemma log2_up_u16 d : 0 <= d <= 65536 -> 0 <= Z.log2_up d <= 16.
Proof.
  intros Hd. split; [apply Z.log2_up_nonneg|].
  change 16 with (Z.log2_up 65536). apply Z.log2_up_le_mono. lia.
Qed.

Lemma mtu_search_ok c P : cfg_in_range c = true -> c14_search_ok c P (mtu_search c P) = true.
Proof.
  intro Hc. pose proof (new_wf_lt c Hc) as Hw.
  destruct (new_shape c) as (Hm & Hx & _). destruct (new_bounds c Hc) as [Hb1 Hb2].
  set (d := ceiling_of c - floor_of c).
  assert (Hd : 0 <= d <= 65536) by (unfold d; lia).
  pose proof (log2_up_u16 d Hd) as Hl.
  set (k := Z.to_nat (Z.log2_up d + 1)).
  assert (Hk : (k <= SEARCH_FUEL)%nat) by (unfold k, SEARCH_FUEL; lia).
  assert (Hpow : max_ss (ss_new c) - min_ss (ss_new c) < 2 ^ Z.of_nat k).
  { unfold k. rewrite Z2Nat.id by lia. rewrite Hm, Hx. apply pow_log2_up_bound. lia. }
  destruct (search_loop_spec SEARCH_FUEL k P (ss_new c) 0 Hk Hw Hpow)
    as (cnt & s' & E & Hcnt & Hw' & Hm' & Hx').
  unfold mtu_search. rewrite E. cbn [bind].
  pose proof (wf_lt_wf s' Hw') as Hw0'.
  rewrite (is_probing_some s' Hw0') by (unfold wf_lt in Hw'; lia). cbn [bind].
  unfold c14_search_ok, mss.
  assert (Ht : target P (ss_new c) = clampZ (floor_of c) (ceiling_of c) P).
  { unfold target, clampZ. rewrite Hm, Hx. reflexivity. }
  rewrite Ht in *. fold d.
  assert (Hkz : Z.of_nat k = Z.log2_up d + 1) by (unfold k; lia).
  replace (min_ss s' <? max_ss s') with false by lia.
  cbn [negb]. lia.
Qed.

(* ------------------------------------------------------------------ non-vacuity *)
Example ex_trace_default :
  ss_trace (ss_new cfg_default)
    [OpNextSize; OpDisarm; OpNextSize; OpProbeFailed 991; OpDisarm; OpNextSize; OpDelivered 760]
  = [Some (528, 1452, true, Some 528); Some (528, 1452, true, None);
     Some (528, 1452, true, Some 991); Some (528, 990, true, None);
     Some (528, 990, true, None); Some (528, 990, true, Some 760);
     Some (760, 990, true, None)].
Proof. vm_compute. reflexivity. Qed.

Example ex_path_ops_ok :
  forallb (path_op_ok 800)
    [OpNextSize; OpDisarm; OpNextSize; OpProbeFailed 991; OpDisarm; OpNextSize; OpDelivered 760] = true
  /\ floor_of cfg_default <= 800 <= ceiling_of cfg_default.
Proof. split; [vm_compute; reflexivity|]. vm_compute. split; discriminate. Qed.

Example ex_sent_disc_ok :
  sent_disc 800 (ss_new cfg_default) []
    [OpNextSize; OpDisarm; OpNextSize; OpProbeFailed 991; OpDisarm; OpNextSize; OpDelivered 760] = true.
Proof. vm_compute. reflexivity. Qed.

Example ex_search_1000 : mtu_search cfg_default 1000 = Some (10, 1000, 1000, false).
Proof. vm_compute. reflexivity. Qed.

Example ex_search_ipv6_small :
  mtu_search {| cfg_ipv4 := false; cfg_link_mtu := 49; cfg_cooldown := 0 |} 7 = Some (0, 1, 1, false).
Proof. vm_compute. reflexivity. Qed.

Example ex_not_new_hostile :
  forallb not_new [OpDelivered 5000; OpDelivered 18446744073709551615; OpDisarm; OpNextSize; OpProbeFailed 70000] = true.
Proof. vm_compute. reflexivity. Qed.

Example ex_truncation :
  (* on_probe_failed(70000): 70000 as u16 = 4464, below min_ss: max_ss stops at min_ss *)
  let c9000 := {| cfg_ipv4 := true; cfg_link_mtu := 9000; cfg_cooldown := 3 |} in
  max_ss (on_probe_failed (on_payload_delivered (ss_new c9000) 6000) 70000) = 6000
  /\ max_ss (on_probe_failed (ss_new cfg_default) 66000) = 528.
Proof. split; vm_compute; reflexivity. Qed.

(* ------------------------------------------------------------------ the trace predicate holds of every model trace *)
Definition acc_rel (a : c14_acc) (s : segsizes) : Prop :=
  a_min a = min_ss s /\ a_max a = max_ss s /\ a_cd a = cd_rem s /\ a_cdmax a = cd_max s /\
  wf s /\
  a_ceil a < U16_MAX /\
  max_ss s <= a_ceil a /\
  (a_search a = true -> min_ss s <= a_lo a /\ a_hi a <= max_ss s) /\
  0 <= a_maxsent a <= U16_MAX.

Lemma observe_some s ret ob : wf s -> ss_observe s ret = Some ob ->
  ob = (min_ss s, max_ss s, min_ss s <? max_ss s, ret).
Proof.
  intros Hw H. unfold ss_observe in H. destruct (is_probing s) as [b|] eqn:E; [|discriminate].
  cbn [bind] in H. injection H as <-. rewrite (is_probing_val s b Hw E). reflexivity.
Qed.

Lemma observe_none s ret : wf s -> ss_observe s ret = None -> max_ss s = U16_MAX.
Proof.
  intros Hw H. unfold ss_observe in H. destruct (is_probing s) as [b|] eqn:E; [discriminate|].
  apply is_probing_none; assumption.
Qed.

Lemma eqb_ltb_refl a b : Bool.eqb (a <? b) (a <? b) = true.
Proof. apply Bool.eqb_reflx. Qed.

Ltac rel_split :=
  unfold acc_rel;
  cbn [a_min a_max a_cd a_cdmax a_search a_maxsent a_ceil a_lo a_hi];
  split; [|split; [|split; [|split; [|split; [|split; [|split; [|split]]]]]]].
Ltac rel_eqs := solve [reflexivity | assumption | symmetry; assumption | congruence].

(* one step: the checks pass and the relation is kept *)
Lemma step_rel a s o s' ret :
  acc_rel a s -> op_in_domain o = true -> ss_step s o = Some (s', ret) ->
  let a' := c14_acc_next a o (min_ss s') (max_ss s') ret in
  c14_obs_check a o a' (min_ss s') (max_ss s') (min_ss s' <? max_ss s') ret = true /\
  acc_rel a' s'.
Proof.
  intros (Hmin & Hmax & Hcd & Hcdm & Hw & Hclt & Hceil & Hsearch & Hsent) Hd H.
  pose proof (step_wf s o s' ret Hw Hd H) as Hw'.
  cbv zeta. unfold c14_obs_check. rewrite eqb_ltb_refl.
  assert (Hwfb : (0 <=? min_ss s') && (min_ss s' <=? max_ss s') && (max_ss s' <=? U16_MAX) = true)
    by (destruct Hw'; lia).
  rewrite Hwfb. cbn [andb].
  destruct o as [c|n| |n|]; cbn [ss_step op_in_domain] in H, Hd.
  - (* New *)
    injection H as <- <-. cbn [c14_acc_next c14_ret_check a_search a_ceil andb].
    destruct (new_shape c) as (Hm & Hx & Hc1 & Hc2). destruct (new_bounds c Hd) as [Hb1 Hb2].
    split; [rewrite Hx; lia|].
    rel_split.
    1-4: rel_eqs.
    + exact Hw'.
    + unfold U16_MAX. lia.
    + lia.
    + discriminate.
    + exact Hsent.
  - (* Delivered *)
    injection H as <- <-.
    destruct (delivered_fields s n ltac:(lia)) as (Hm & Hx & Hc1 & Hc2).
    cbn [c14_acc_next c14_ret_check a_search a_ceil a_lo a_hi andb].
    destruct Hw as [Hw1 Hw2].
    split.
    + replace (max_ss (on_payload_delivered s n) <=? a_ceil a) with true by (rewrite Hx; lia).
      cbn [andb].
      destruct (a_search a) eqn:Es; cbn [andb]; [|reflexivity].
      destruct ((n <=? a_maxsent a) && (Z.max (a_lo a) n <=? a_hi a)) eqn:Eg; [|reflexivity].
      specialize (Hsearch eq_refl). rewrite Hm, Hx. unfold U16_MAX in *. lia.
    + rel_split.
      1-4: rel_eqs.
      * exact Hw'.
      * exact Hclt.
      * rewrite Hx. exact Hceil.
      * intro Hb. apply andb_true_iff in Hb as [Hb Hb3]. apply andb_true_iff in Hb as [Hb1 Hb2].
        specialize (Hsearch Hb1). rewrite Hm, Hx. unfold U16_MAX in *. lia.
      * exact Hsent.
  - (* NextSize *)
    destruct (next_segment_size s) as [[s1 r]|] eqn:E; [|discriminate].
    cbn [bind fst snd] in H. injection H as <- <-.
    destruct (next_size_spec s s1 r Hw E) as (Hm & Hx & Hcm & Hcr & Hor & Hr & Hgt).
    cbn [c14_acc_next c14_ret_check a_search a_ceil a_lo a_hi].
    unfold mss in *.
    split.
    + assert (Hret : (min_ss s1 =? a_min a) && (max_ss s1 =? a_max a) && (min_ss s1 <=? r) &&
                     (r <=? max_ss s1) &&
                     ((r =? min_ss s1) ||
                      (a_cd a =? 0) && (r =? Z.min (min_ss s1 + (max_ss s1 - min_ss s1) / 2 + 1) (max_ss s1)))
                     = true).
      { rewrite Hm, Hx, Hmin, Hmax, Hcd.
        destruct (Z.eq_dec r (min_ss s)) as [He|Hne]; [lia|].
        destruct (Hgt ltac:(lia)) as [Hg1 Hg2]. unfold probe_value in Hg2. lia. }
      rewrite Hret. cbn [andb].
      replace (max_ss s1 <=? a_ceil a) with true by lia. cbn [andb].
      destruct (a_search a) eqn:Es; [|reflexivity]. specialize (Hsearch eq_refl). lia.
    + rel_split.
      1-2: rel_eqs.
      * rewrite Hcr, Hcd, Hcdm. reflexivity.
      * congruence.
      * exact Hw'.
      * exact Hclt.
      * rewrite Hx. exact Hceil.
      * rewrite Hm, Hx. exact Hsearch.
      * destruct Hw as [Hw1 Hw2]. lia.
  - (* ProbeFailed *)
    injection H as <- <-.
    cbn [c14_acc_next c14_ret_check a_search a_ceil a_lo a_hi andb].
    destruct (failed_monotone s n Hw) as [Hm Hxle].
    split.
    + replace (max_ss (on_probe_failed s n) <=? a_ceil a) with true by lia. cbn [andb].
      destruct (a_search a) eqn:Es; cbn [andb]; [|reflexivity].
      destruct ((n <=? a_maxsent a) && (a_lo a <=? Z.min (a_hi a) (n - 1))) eqn:Eg; [|reflexivity].
      specialize (Hsearch eq_refl).
      destruct (failed_fields s n ltac:(lia)) as (_ & Hx & _). rewrite Hm, Hx. lia.
    + rel_split.
      1-4: rel_eqs.
      * exact Hw'.
      * exact Hclt.
      * lia.
      * intro Hb. apply andb_true_iff in Hb as [Hb Hb3]. apply andb_true_iff in Hb as [Hb1 Hb2].
        specialize (Hsearch Hb1).
        destruct (failed_fields s n ltac:(lia)) as (_ & Hx & _). rewrite Hm, Hx. lia.
      * exact Hsent.
  - (* Disarm *)
    injection H as <- <-.
    cbn [c14_acc_next c14_ret_check a_search a_ceil a_lo a_hi andb].
    unfold disarm_cooldown; cbn [min_ss max_ss].
    split.
    + replace (max_ss s <=? a_ceil a) with true by lia. cbn [andb].
      destruct (a_search a) eqn:Es; [|reflexivity]. specialize (Hsearch eq_refl). lia.
    + rel_split; cbn [min_ss max_ss cd_rem cd_max].
      1-4: rel_eqs.
      * exact Hw.
      * exact Hclt.
      * exact Hceil.
      * exact Hsearch.
      * exact Hsent.
Qed.

Lemma acc_rel_wf_lt a s : acc_rel a s -> wf_lt s.
Proof.
  intros (_ & _ & _ & _ & [Hw1 Hw2] & Hclt & Hceil & _). unfold wf_lt. split; [exact Hw1|lia].
Qed.

Lemma obs_ok_model : forall ops a s,
  acc_rel a s -> forallb op_in_domain ops = true -> c14_obs_ok a ops (ss_trace s ops) = true.
Proof.
  induction ops as [|o ops IH]; intros a s HR Hdom; [reflexivity|].
  cbn [forallb] in Hdom. apply andb_true_iff in Hdom as [Hd Hdom].
  pose proof (acc_rel_wf_lt a s HR) as Hwl.
  destruct (step_total s o Hwl Hd) as (s' & ret & E & Hwl').
  pose proof (wf_lt_wf s' Hwl') as Hw'.
  cbn [ss_trace]. rewrite E.
  assert (Eo : ss_observe s' ret = Some (min_ss s', max_ss s', min_ss s' <? max_ss s', ret)).
  { unfold ss_observe. rewrite (is_probing_some s' Hw') by (unfold wf_lt in Hwl'; lia). reflexivity. }
  rewrite Eo. cbn [c14_obs_ok]. rewrite Hd. cbn [andb].
  destruct (step_rel a s o s' ret HR Hd E) as [Hchk HR'].
  rewrite Hchk. cbn [andb]. apply IH; assumption.
Qed.

Lemma model_trace_ok c ops :
  cfg_in_range c = true -> forallb op_in_domain ops = true ->
  c14_ok c ops (ss_trace (ss_new c) ops) = true.
Proof.
  intros Hc Hd. unfold c14_ok. rewrite Hc. cbn [andb]. apply obs_ok_model; [|exact Hd].
  destruct (new_shape c) as (Hm & Hx & Hc1 & Hc2). destruct (new_bounds c Hc) as [Hb1 Hb2].
  pose proof (new_wf_lt c Hc) as Hw.
  unfold c14_acc0. rel_split.
  1-4: rel_eqs.
  - apply wf_lt_wf; exact Hw.
  - unfold U16_MAX. lia.
  - lia.
  - intros _. lia.
  - unfold U16_MAX. lia.
Qed.

Example ex_pred_default :
  c14_ok cfg_default
    [OpNextSize; OpDisarm; OpNextSize; OpProbeFailed 991; OpDisarm; OpNextSize; OpDelivered 760]
    [Some (528, 1452, true, Some 528); Some (528, 1452, true, None);
     Some (528, 1452, true, Some 991); Some (528, 990, true, None);
     Some (528, 990, true, None); Some (528, 990, true, Some 760);
     Some (760, 990, true, None)] = true.
Proof. vm_compute. reflexivity. Qed.

(* the predicate rejects: a probe one below the midpoint (the `+ 1` dropped), a max_ss above the
   ceiling, an interval that lost a consistent P, the trace of the code before the D3 repair,
   and any panic *)
Example ex_pred_rejects :
  c14_ok cfg_default [OpDisarm; OpNextSize]
    [Some (528, 1452, true, None); Some (528, 1452, true, Some 990)] = false /\
  c14_ok cfg_default [OpDelivered 100] [Some (528, 1500, true, None)] = false /\
  c14_ok cfg_default [OpDisarm; OpNextSize; OpProbeFailed 991]
    [Some (528, 1452, true, None); Some (528, 1452, true, Some 991); Some (528, 900, true, None)] = false /\
  c14_ok cfg_default [OpDelivered 5000] [Some (5000, 5000, false, None)] = false /\
  c14_ok cfg_default [OpDelivered 65535] [None] = false.
Proof. repeat split; vm_compute; reflexivity. Qed.

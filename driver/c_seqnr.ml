(* seq_nr_offset: model side of the correspondence and the extracted predicate *)
open Model
open Zutil

let run_seqnr toks =
  (* seqnr <new> <old> <tol> *)
  match toks with
  | [a; b; t] ->
    string_of_z (seq_nr_offset (z_of_string a) (z_of_string b) (z_of_string t))
  | _ -> failwith "seqnr: bad case"

(* seqnr_row <old> <tol> : all 65536 values of new *)
let run_seqnr_row toks =
  match toks with
  | [b; t] ->
    let old = z_of_string b and tol = z_of_string t in
    let buf = Buffer.create (65536 * 7) in
    for n = 0 to 65535 do
      if n > 0 then Buffer.add_char buf ',';
      Buffer.add_string buf (string_of_z (seq_nr_offset (z_of_int n) old tol))
    done;
    Buffer.contents buf
  | _ -> failwith "seqnr_row: bad case"

(* seqsub_row <old> : SeqNr - SeqNr with the model's WRAP_TOLERANCE, all 65536 values of new *)
let run_seqsub_row toks =
  match toks with
  | [b] ->
    let old = z_of_string b in
    let buf = Buffer.create (65536 * 7) in
    for n = 0 to 65535 do
      if n > 0 then Buffer.add_char buf ',';
      Buffer.add_string buf (string_of_z (seq_sub (z_of_int n) old))
    done;
    Buffer.contents buf
  | _ -> failwith "seqsub_row: bad case"

(* seqnr_pred <new> <old> <tol> <res> *)
let run_seqnr_pred toks =
  match List.map z_of_string toks with
  | [a; b; t; r] -> if c09_obs_ok a b t r then "OK" else "FAIL c09_obs_ok"
  | _ -> failwith "seqnr_pred"

(* seqnr_row_pred <old> <tol> | r0,r1,...,r65535 *)
let run_seqnr_row_pred toks =
  match toks with
  | [b; t; "|"; row] ->
    let old = z_of_string b and tol = z_of_string t in
    let rs = String.split_on_char ',' row in
    let bad = ref None in
    List.iteri (fun n r ->
        if !bad = None && not (c09_obs_ok (z_of_int n) old tol (z_of_string r)) then bad := Some n) rs;
    if List.length rs <> 65536 then "FAIL row length"
    else (match !bad with None -> "OK" | Some n -> Printf.sprintf "FAIL c09_obs_ok new=%d" n)
  | _ -> failwith "seqnr_row_pred"


let dispatch0 = function
  | "seqsub_row" :: r -> Some (run_seqsub_row r)
  | _ -> None

let dispatch_rest = function
  | "seqnr" :: r -> Some (run_seqnr r)
  | "seqnr_row" :: r -> Some (run_seqnr_row r)
  | "seqnr_pred" :: r -> Some (run_seqnr_pred r)
  | "seqnr_row_pred" :: r -> Some (run_seqnr_row_pred r)
  | _ -> None

let dispatch t = match dispatch0 t with Some r -> Some r | None -> dispatch_rest t

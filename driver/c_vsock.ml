(* One connection (VirtualSocket::poll): model side (coq/theories/Conn/VSock.v, VSockRun.v).
   The congestion controller is the extracted CUBIC model with the libm oracles of c_cubic.ml. *)
open Model
open Zutil

let pattern start len = List.init len (fun j -> z_of_int ((start + j) mod 251))

let hash_bytes (bs : z list) =
  let h = ref 0 and p = ref 1 in
  List.iter (fun b ->
      h := (!h + (int_of_z b + 1) * !p) mod 1_000_000_007;
      p := (!p * 31) mod 1_000_000_007) bs;
  !h

let type_num = function ST_DATA -> 0 | ST_FIN -> 1 | ST_STATE -> 2 | ST_RESET -> 3 | ST_SYN -> 4
let type_of = function 0 -> ST_DATA | 1 -> ST_FIN | 2 -> ST_STATE | 3 -> ST_RESET | _ -> ST_SYN

let sack_hex_bits = function
  | None -> "-"
  | Some (k : sackbits) -> C_rx.sack_hex (Some k.sk_bits)

let packet_str (p : packet) =
  let h = p.p_hdr in
  Printf.sprintf "%d,%s,%s,%s,%s,%s,%s,%s,%d:%d" (type_num h.ch_type) (string_of_z h.ch_seq)
    (string_of_z h.ch_ack) (string_of_z h.ch_wnd) (string_of_z h.ch_ts) (string_of_z h.ch_ts_diff)
    (string_of_z h.ch_conn_id) (sack_hex_bits h.ch_sack) (List.length p.p_payload)
    (hash_bytes p.p_payload)

let bug_name = function
  | BugRecvInClosed -> "RecvInClosed"
  | BugUnexpectedPacketInSynReceived -> "UnexpectedPacketInSynReceived"
  | BugEmsgSizeNoProbe -> "EmsgSizeNoProbe"
  | BugInBufferComputations -> "InBufferComputations"
  | BugCantEnqueue -> "CantEnqueue"
  | BugOffsetBeyondBufferBounds -> "OffsetBeyondBufferBounds"
  | BugRequestedLengthExceedsBufferBounds -> "RequestedLengthExceedsBufferBounds"
  | BugTruncateFront -> "TruncateFront"
  | BugInvalidMessageExpectedStDataOrFin -> "InvalidMessageExpectedStDataOrFin"
  | BugAssemblerMissingSlot -> "AssemblerMissingSlot"
  | BugUnreachable -> "Unreachable"

let result_str = function
  | PollPending -> "PEND"
  | PollReadyOk -> "OK"
  | PollPanic -> "PANIC"
  | PollReadyErr e -> (match e with
      | ErrStResetReceived -> "ERESET"
      | ErrMaxRetransmissionsReached -> "EMAXRETX"
      | ErrMaxSynAckRetransmissionsReached -> "EMAXSYNACK"
      | ErrRemoteInactiveForTooLong -> "EINACTIVE"
      | ErrSend -> "ESEND"
      | ErrZeroPayloadStData -> "EZEROPAY"
      | ErrBug b -> "EBUG_" ^ bug_name b)

let optz = function None -> "-" | Some z -> string_of_z z

let fingerprint (s : cubic vsock) =
  let st, a, b = match s.v_state with
    | SynReceived -> 0, "-1", "-1"
    | SynAckSent c -> 1, string_of_z c, "-1"
    | Established -> 2, "-1", "-1"
    | FinWait1 f -> 3, string_of_z f, "-1"
    | FinWait2 -> 4, "-1", "-1"
    | LastAck (f, r) -> 5, string_of_z f, string_of_z r
    | Closed -> 6, "-1", "-1" in
  let rk, r1, r2, r3, r4, r5 = match s.v_recovery.rv_phase with
    | CountingDuplicates d -> 0, string_of_z d, "-1", "-1", "-1", "-1"
    | IgnoringUntilRecoveryPoint rp -> 1, string_of_z rp, "-1", "-1", "-1", "-1"
    | Recovering r -> 2, string_of_z r.rc_recovery_point, string_of_z r.rc_high_rxt,
                      string_of_z r.rc_total_retx, string_of_z r.rc_pipe, string_of_z r.rc_cwnd in
  let rx = s.v_rx and tx = s.v_tx in
  String.concat "," [
    string_of_int st; a; b; string_of_z s.v_seq_nr; string_of_z s.v_last_sent_seq_nr;
    string_of_z s.v_last_consumed; string_of_z s.v_last_sent_ack_nr;
    string_of_z s.v_last_sent_window; string_of_z s.v_last_remote_window; string_of_z s.v_cbu;
    string_of_z s.v_rto_retransmissions;
    optz s.v_t_retransmit; optz s.v_t_inactivity; optz s.v_t_ack_delay; optz s.v_t_recovery_pipe;
    optz s.v_t_syn_ack_resend;
    string_of_z s.v_ss.min_ss; string_of_z s.v_ss.max_ss; string_of_z s.v_unsegmented;
    string_of_z (retransmission_timeout s.v_rtte); string_of_z (roundtrip_time s.v_rtte);
    string_of_z (cubic_window s.v_cc); string_of_z (cubic_sshthresh s.v_cc);
    string_of_int rk; r1; r2; r3; r4; r5; string_of_bool s.v_recovery.rv_supports_sack ]
  ^ "|" ^ C_segs.digest s.v_segs
  ^ "|" ^ Printf.sprintf "%s,%s,%s,%s,%s%s%s%s" (string_of_z rx.filled_front) (string_of_z rx.ooq_len)
            (string_of_z rx.ooq_len_bytes) (string_of_z rx.q_len_bytes) (string_of_bool rx.disp_waker)
            (string_of_bool rx.reader_waker) (string_of_bool rx.reader_dropped)
            (string_of_bool rx.vsock_closed)
  ^ "|" ^ Printf.sprintf "%d:%d,%s,%s%s%s%s%s" (List.length tx.ring) (hash_bytes tx.ring)
            (string_of_z tx.cap) (string_of_bool tx.t_vsock_closed) (string_of_bool tx.writer_dropped)
            (string_of_bool tx.writer_shutdown) (string_of_bool tx.t_disp_waker)
            (string_of_bool tx.writer_waker)

let parse_op tok : vop =
  let c = tok.[0] and rest = String.sub tok 1 (String.length tok - 1) in
  match c with
  | 'T' -> VoSetNow (z_of_string rest)
  | 'L' -> VoSetLimit (if rest = "-" then None else Some (z_of_string rest))
  | 'P' -> VoPoll (List.map (function 'S' -> TSent | 'P' -> TPending | 'E' -> TEmsgsize | _ -> TIoErr)
                     (List.of_seq (String.to_seq rest)))
  | 'M' ->
    (match String.split_on_char ',' rest with
     | [ty; seq; ack; wnd; ts; plen; pstart; sk] ->
       VoDeliver { m_hdr = { ch_type = type_of (int_of_string ty); ch_conn_id = Z0;
                             ch_ts = z_of_string ts; ch_ts_diff = Z0; ch_wnd = z_of_string wnd;
                             ch_seq = z_of_string seq; ch_ack = z_of_string ack;
                             ch_sack = C_segs.parse_sack sk; ch_close_reason = None };
                   m_payload = pattern (int_of_string pstart) (int_of_string plen) }
     | _ -> failwith "vsock: bad M")
  | 'Z' -> VoCloseInbox
  | 'W' -> (match List.map int_of_string (String.split_on_char ',' rest) with
      | [len; start] -> VoWrite (pattern start len)
      | _ -> failwith "vsock: bad W")
  | 'F' -> VoFlush
  | 'H' -> VoShutdown
  | 'R' -> VoRead (z_of_string rest)
  | 'D' -> if rest = "R" then VoDropReader else VoDropWriter
  | _ -> failwith ("vsock: bad op " ^ tok)

let wakes_str r w d =
  let s = (if r then "R" else "") ^ (if w then "W" else "") ^ (if d then "D" else "") in
  if s = "" then "-" else s

let obs_str (o : cubic vobs) =
  match o.vo_out with
  | VrPoll (r, pkts, wakes, arm) ->
    if r = PollPanic then "PANIC" else
    let has x = List.mem x wakes in
    Printf.sprintf "P:%s/%s/%s/%s/%s" (result_str r)
      (match pkts with [] -> "-" | l -> String.concat ";" (List.map packet_str l))
      (wakes_str (has VwReader) (has VwWriter) (has VwSelf)) (optz arm) (fingerprint o.vo_state)
  | out ->
    let res = match out with
      | VrNone -> "-"
      | VrWrite (WrOk n) -> "W" ^ string_of_z n
      | VrWrite WrPending -> "WP"
      | VrWrite WrErrClosed -> "WEC"
      | VrWrite WrErrShutdown -> "WES"
      | VrWrite WrErrDropped -> "WED"
      | VrUnit UrOk -> "UOK" | VrUnit UrPending -> "UPEND" | VrUnit UrErr -> "UERR"
      | VrRead (RdOk bs) -> Printf.sprintf "R%d:%s" (List.length bs) (C_rx.bytes_dot bs)
      | VrRead RdEof -> "REOF" | VrRead RdErrMsg -> "RERRMSG" | VrRead RdErrDead -> "RERRDEAD"
      | VrRead RdPending -> "RPEND"
      | VrPoll _ -> "?" in
    res ^ "/" ^ wakes_str false o.vo_self_woken o.vo_disp_woken

let run_vsock toks =
  let a = Array.of_list toks in
  if Array.length a < 17 then "BADCASE" else
  let z i = z_of_string a.(i) in
  let incoming = a.(0) = "in" in
  let cfg = { vc_incoming = incoming; vc_ipv4 = (a.(1) = "1"); vc_link_mtu = z 2; vc_rx_buf = z 3;
              vc_tx_init = z 4; vc_tx_max = z 5; vc_nagle = (a.(6) = "1"); vc_max_retx = z 7;
              vc_inactivity = z 8; vc_wait_last_ack = (a.(9) = "1"); vc_mtu_probe_max_retx = z 10;
              vc_isn = z 11; vc_remote_seq = z 12; vc_remote_conn_id = z 13; vc_remote_wnd = z 14;
              vc_remote_ts = z 15; vc_syn_sent = Z0;
              vc_now0 = (if incoming then Z0 else z 16) } in
  match vsock_new_cubic C_cubic.cbrt_oracle C_cubic.powf3_oracle cfg with
  | None -> "BADCONFIG"
  | Some s0 ->
    let ops = List.map parse_op (Array.to_list (Array.sub a 17 (Array.length a - 17))) in
    let tr = vtrace_cubic C_cubic.cbrt_oracle C_cubic.powf3_oracle s0 ops in
    String.concat " " (List.map obs_str tr)

let dispatch = function
  | "vsock" :: r -> Some (run_vsock r)
  | _ -> None

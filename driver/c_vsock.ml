(* One connection (VirtualSocket::poll): model side (coq/theories/Conn/VSock.v, VSockRun.v).
   The congestion controller is the extracted CUBIC model with the libm oracles of c_cubic.ml. *)
open Model
open Zutil

let pattern start len = List.init len (fun j -> z_of_int ((start + j) mod 251))

let hash_bytes (bs : z list) =
  let h = ref 0 and p = ref 1 in
  List.iter (fun b ->
      h := (!h + (int_of_z b + 1) * !p) mod 1_000_000_007;
      p := (!p * 31) mod 1_000_000_007) bs;
  !h

let type_num = function ST_DATA -> 0 | ST_FIN -> 1 | ST_STATE -> 2 | ST_RESET -> 3 | ST_SYN -> 4
let type_of = function 0 -> ST_DATA | 1 -> ST_FIN | 2 -> ST_STATE | 3 -> ST_RESET | _ -> ST_SYN

let sack_hex_bits = function
  | None -> "-"
  | Some (k : sackbits) -> C_rx.sack_hex (Some k.sk_bits)

let packet_str (p : packet) =
  let h = p.p_hdr in
  Printf.sprintf "%d,%s,%s,%s,%s,%s,%s,%s,%d:%d" (type_num h.ch_type) (string_of_z h.ch_seq)
    (string_of_z h.ch_ack) (string_of_z h.ch_wnd) (string_of_z h.ch_ts) (string_of_z h.ch_ts_diff)
    (string_of_z h.ch_conn_id) (sack_hex_bits h.ch_sack) (List.length p.p_payload)
    (hash_bytes p.p_payload)

let bug_name = function
  | BugRecvInClosed -> "RecvInClosed"
  | BugUnexpectedPacketInSynReceived -> "UnexpectedPacketInSynReceived"
  | BugEmsgSizeNoProbe -> "EmsgSizeNoProbe"
  | BugInBufferComputations -> "InBufferComputations"
  | BugCantEnqueue -> "CantEnqueue"
  | BugOffsetBeyondBufferBounds -> "OffsetBeyondBufferBounds"
  | BugRequestedLengthExceedsBufferBounds -> "RequestedLengthExceedsBufferBounds"
  | BugTruncateFront -> "TruncateFront"
  | BugInvalidMessageExpectedStDataOrFin -> "InvalidMessageExpectedStDataOrFin"
  | BugAssemblerMissingSlot -> "AssemblerMissingSlot"
  | BugUnreachable -> "Unreachable"

let result_str = function
  | PollPending -> "PEND"
  | PollReadyOk -> "OK"
  | PollPanic -> "PANIC"
  | PollReadyErr e -> (match e with
      | ErrStResetReceived -> "ERESET"
      | ErrMaxRetransmissionsReached -> "EMAXRETX"
      | ErrMaxSynAckRetransmissionsReached -> "EMAXSYNACK"
      | ErrRemoteInactiveForTooLong -> "EINACTIVE"
      | ErrSend -> "ESEND"
      | ErrZeroPayloadStData -> "EZEROPAY"
      | ErrBug b -> "EBUG_" ^ bug_name b)

let optz = function None -> "-" | Some z -> string_of_z z

let fingerprint (s : cubic vsock) =
  let st, a, b = match s.v_state with
    | SynReceived -> 0, "-1", "-1"
    | SynAckSent c -> 1, string_of_z c, "-1"
    | Established -> 2, "-1", "-1"
    | FinWait1 f -> 3, string_of_z f, "-1"
    | FinWait2 -> 4, "-1", "-1"
    | LastAck (f, r) -> 5, string_of_z f, string_of_z r
    | Closed -> 6, "-1", "-1" in
  let rk, r1, r2, r3, r4, r5 = match s.v_recovery.rv_phase with
    | CountingDuplicates d -> 0, string_of_z d, "-1", "-1", "-1", "-1"
    | IgnoringUntilRecoveryPoint rp -> 1, string_of_z rp, "-1", "-1", "-1", "-1"
    | Recovering r -> 2, string_of_z r.rc_recovery_point, string_of_z r.rc_high_rxt,
                      string_of_z r.rc_total_retx, string_of_z r.rc_pipe, string_of_z r.rc_cwnd in
  let rx = s.v_rx and tx = s.v_tx in
  String.concat "," [
    string_of_int st; a; b; string_of_z s.v_seq_nr; string_of_z s.v_last_sent_seq_nr;
    string_of_z s.v_last_consumed; string_of_z s.v_last_sent_ack_nr;
    string_of_z s.v_last_sent_window; string_of_z s.v_last_remote_window; string_of_z s.v_cbu;
    string_of_z s.v_rto_retransmissions;
    optz s.v_t_retransmit; optz s.v_t_inactivity; optz s.v_t_ack_delay; optz s.v_t_recovery_pipe;
    optz s.v_t_syn_ack_resend;
    string_of_z s.v_ss.min_ss; string_of_z s.v_ss.max_ss; string_of_z s.v_unsegmented;
    string_of_z (retransmission_timeout s.v_rtte); string_of_z (roundtrip_time s.v_rtte);
    string_of_z (cubic_window s.v_cc); string_of_z (cubic_sshthresh s.v_cc);
    string_of_int rk; r1; r2; r3; r4; r5; string_of_bool s.v_recovery.rv_supports_sack;
    string_of_bool s.v_transport_pending ]
  ^ "|" ^ C_segs.digest s.v_segs
  ^ "|" ^ Printf.sprintf "%s,%s,%s,%s,%s%s%s%s,%s" (string_of_z rx.filled_front) (string_of_z rx.ooq_len)
            (string_of_z rx.ooq_len_bytes) (string_of_z rx.q_len_bytes) (string_of_bool rx.disp_waker)
            (string_of_bool rx.reader_waker) (string_of_bool rx.reader_dropped)
            (string_of_bool rx.vsock_closed) (string_of_z rx.last_remaining_rx_window)
  ^ "|" ^ Printf.sprintf "%d:%d,%s,%s%s%s%s%s" (List.length tx.ring) (hash_bytes tx.ring)
            (string_of_z tx.cap) (string_of_bool tx.t_vsock_closed) (string_of_bool tx.writer_dropped)
            (string_of_bool tx.writer_shutdown) (string_of_bool tx.t_disp_waker)
            (string_of_bool tx.writer_waker)

let parse_op tok : vop =
  let c = tok.[0] and rest = String.sub tok 1 (String.length tok - 1) in
  match c with
  | 'T' -> VoSetNow (z_of_string rest)
  | 'L' -> VoSetLimit (if rest = "-" then None else Some (z_of_string rest))
  | 'P' -> VoPoll (List.map (function 'S' -> TSent | 'P' -> TPending | 'E' -> TEmsgsize | _ -> TIoErr)
                     (List.of_seq (String.to_seq rest)))
  | 'M' ->
    (match String.split_on_char ',' rest with
     | [ty; seq; ack; wnd; ts; plen; pstart; sk] ->
       VoDeliver { m_hdr = { ch_type = type_of (int_of_string ty); ch_conn_id = Z0;
                             ch_ts = z_of_string ts; ch_ts_diff = Z0; ch_wnd = z_of_string wnd;
                             ch_seq = z_of_string seq; ch_ack = z_of_string ack;
                             ch_sack = C_segs.parse_sack sk; ch_close_reason = None };
                   m_payload = pattern (int_of_string pstart) (int_of_string plen) }
     | _ -> failwith "vsock: bad M")
  | 'Z' -> VoCloseInbox
  | 'W' -> (match List.map int_of_string (String.split_on_char ',' rest) with
      | [len; start] -> VoWrite (pattern start len)
      | _ -> failwith "vsock: bad W")
  | 'F' -> VoFlush
  | 'H' -> VoShutdown
  | 'R' -> VoRead (z_of_string rest)
  | 'D' -> if rest = "R" then VoDropReader else VoDropWriter
  | _ -> failwith ("vsock: bad op " ^ tok)

let wakes_str r w d =
  let s = (if r then "R" else "") ^ (if w then "W" else "") ^ (if d then "D" else "") in
  if s = "" then "-" else s

let obs_str (o : cubic vobs) =
  match o.vo_out with
  | VrPoll (r, pkts, wakes, arm) ->
    if r = PollPanic then "PANIC" else
    let has x = List.mem x wakes in
    Printf.sprintf "P:%s/%s/%s/%s/%s" (result_str r)
      (match pkts with [] -> "-" | l -> String.concat ";" (List.map packet_str l))
      (wakes_str (has VwReader) (has VwWriter) (has VwSelf)) (optz arm) (fingerprint o.vo_state)
  | out ->
    let res = match out with
      | VrNone -> "-"
      | VrWrite (WrOk n) -> "W" ^ string_of_z n
      | VrWrite WrPending -> "WP"
      | VrWrite WrErrClosed -> "WEC"
      | VrWrite WrErrShutdown -> "WES"
      | VrWrite WrErrDropped -> "WED"
      | VrUnit UrOk -> "UOK" | VrUnit UrPending -> "UPEND" | VrUnit UrErr -> "UERR"
      | VrRead (RdOk bs) -> Printf.sprintf "R%d:%s" (List.length bs) (C_rx.bytes_dot bs)
      | VrRead RdEof -> "REOF" | VrRead RdErrMsg -> "RERRMSG" | VrRead RdErrDead -> "RERRDEAD"
      | VrRead RdPending -> "RPEND"
      | VrPoll _ -> "?" in
    res ^ "/" ^ wakes_str false o.vo_self_woken o.vo_disp_woken ^ "/" ^ fingerprint o.vo_state

let run_vsock toks =
  let a = Array.of_list toks in
  if Array.length a < 17 then "BADCASE" else
  let z i = z_of_string a.(i) in
  let incoming = a.(0) = "in" in
  let cfg = { vc_incoming = incoming; vc_ipv4 = (a.(1) = "1"); vc_link_mtu = z 2; vc_rx_buf = z 3;
              vc_tx_init = z 4; vc_tx_max = z 5; vc_nagle = (a.(6) = "1"); vc_max_retx = z 7;
              vc_inactivity = z 8; vc_wait_last_ack = (a.(9) = "1"); vc_mtu_probe_max_retx = z 10;
              vc_isn = z 11; vc_remote_seq = z 12; vc_remote_conn_id = z 13; vc_remote_wnd = z 14;
              vc_remote_ts = z 15; vc_syn_sent = Z0;
              vc_now0 = (if incoming then Z0 else z 16) } in
  match vsock_new_cubic C_cubic.cbrt_oracle C_cubic.powf3_oracle cfg with
  | None -> "BADCONFIG"
  | Some s0 ->
    let ops = List.map parse_op (Array.to_list (Array.sub a 17 (Array.length a - 17))) in
    let tr = vtrace_cubic C_cubic.cbrt_oracle C_cubic.powf3_oracle s0 ops in
    String.concat " " (("I:-/-/" ^ fingerprint s0) :: List.map obs_str tr)

(* ------------------------------------------------------------------ parsing observations back
   (so that the extracted Coq predicates can be evaluated on the implementation's output) *)
let optz_of s = if s = "-" then None else Some (z_of_string s)
let bool_of c = (c = '1')

let fseg_of_string t : fseg =
  match String.split_on_char '.' t with
  | [sz; ab; dl; kind; rc; ls; pr; lo; ex; ha] ->
    { fg_size = z_of_string sz; fg_abs = z_of_string ab; fg_delivered = (dl = "1");
      fg_sent_kind = z_of_string kind; fg_retx = z_of_string rc; fg_last_sent = optz_of ls;
      fg_probe = (pr = "1"); fg_lost = (lo = "1"); fg_expired = (ex = "1");
      fg_sacks_after = (ha = "1") }
  | _ -> failwith ("vsock: bad segment digest " ^ t)

let vfp_of_string (fp : string) : vfp =
  match String.split_on_char '|' fp with
  | [core; segh; segl; rx; tx] ->
    let c = Array.of_list (String.split_on_char ',' core) in
    let z i = z_of_string c.(i) in
    let state = (match int_of_string c.(0) with
        | 0 -> SynReceived | 1 -> SynAckSent (z 1) | 2 -> Established | 3 -> FinWait1 (z 1)
        | 4 -> FinWait2 | 5 -> LastAck (z 1, z 2) | _ -> Closed) in
    let recovery = (match int_of_string c.(23) with
        | 0 -> CountingDuplicates (z 24)
        | 1 -> IgnoringUntilRecoveryPoint (z 24)
        | _ -> Recovering { rc_recovery_point = z 24; rc_high_rxt = z 25; rc_total_retx = z 26;
                            rc_pipe = z 27; rc_recalc = None; rc_cwnd = z 28 }) in
    let sh = Array.of_list (String.split_on_char ',' segh) in
    let r = Array.of_list (String.split_on_char ',' rx) in
    let t = Array.of_list (String.split_on_char ',' tx) in
    let tlen = List.hd (String.split_on_char ':' t.(0)) in
    { f_state = state; f_seq_nr = z 3; f_last_sent_seq_nr = z 4; f_last_consumed = z 5;
      f_last_sent_ack_nr = z 6; f_last_sent_window = z 7; f_last_remote_window = z 8; f_cbu = z 9;
      f_rto_retx = z 10;
      f_t_retransmit = optz_of c.(11); f_t_inactivity = optz_of c.(12); f_t_ack_delay = optz_of c.(13);
      f_t_recovery_pipe = optz_of c.(14); f_t_syn_ack_resend = optz_of c.(15);
      f_mss = z 16; f_max_ss = z 17; f_unsegmented = z 18; f_rto = z 19; f_rtt = z 20;
      f_cc_window = z 21; f_cc_sshthresh = z 22; f_recovery = recovery;
      f_supports_sack = (c.(29) = "1"); f_transport_pending = (c.(30) = "1");
      f_snd_una = z_of_string sh.(0); f_seg_len_bytes = z_of_string sh.(1);
      f_seg_offset = z_of_string sh.(2); f_seg_removed = z_of_string sh.(3);
      f_sack_depth = z_of_string sh.(4); f_last_sack_empty = (sh.(5) = "1");
      f_segs = (if segl = "-" then [] else List.map fseg_of_string (String.split_on_char ';' segl));
      f_rx_ff = z_of_string r.(0); f_rx_len = z_of_string r.(1); f_rx_len_bytes = z_of_string r.(2);
      f_rx_qbytes = z_of_string r.(3);
      f_rx_disp_waker = bool_of r.(4).[0]; f_rx_reader_waker = bool_of r.(4).[1];
      f_rx_reader_dropped = bool_of r.(4).[2]; f_rx_closed = bool_of r.(4).[3];
      f_rx_last_remaining = z_of_string r.(5);
      f_tx_len = z_of_string tlen; f_tx_cap = z_of_string t.(1);
      f_tx_closed = bool_of t.(2).[0]; f_tx_writer_dropped = bool_of t.(2).[1];
      f_tx_writer_shutdown = bool_of t.(2).[2]; f_tx_disp_waker = bool_of t.(2).[3];
      f_tx_writer_waker = bool_of t.(2).[4] }
  | _ -> failwith "vsock: bad fingerprint"

let fpacket_of_string (t : string) : fpacket =
  match String.split_on_char ',' t with
  | [ty; seq; ack; wnd; ts; tsd; conn; sk; pl] ->
    { fq_hdr = { ch_type = type_of (int_of_string ty); ch_conn_id = z_of_string conn;
                 ch_ts = z_of_string ts; ch_ts_diff = z_of_string tsd; ch_wnd = z_of_string wnd;
                 ch_seq = z_of_string seq; ch_ack = z_of_string ack;
                 ch_sack = C_segs.parse_sack sk; ch_close_reason = None };
      fq_plen = z_of_string (List.hd (String.split_on_char ':' pl)) }
  | _ -> failwith ("vsock: bad packet " ^ t)

let result_of_string (r : string) : poll_result =
  match r with
  | "PEND" -> PollPending | "OK" -> PollReadyOk | "PANIC" -> PollPanic
  | "ERESET" -> PollReadyErr ErrStResetReceived
  | "EMAXRETX" -> PollReadyErr ErrMaxRetransmissionsReached
  | "EMAXSYNACK" -> PollReadyErr ErrMaxSynAckRetransmissionsReached
  | "EINACTIVE" -> PollReadyErr ErrRemoteInactiveForTooLong
  | "ESEND" -> PollReadyErr ErrSend
  | "EZEROPAY" -> PollReadyErr ErrZeroPayloadStData
  | s when String.length s > 5 && String.sub s 0 5 = "EBUG_" ->
    let n = String.sub s 5 (String.length s - 5) in
    let b = List.find_opt (fun b -> bug_name b = n)
        [BugRecvInClosed; BugUnexpectedPacketInSynReceived; BugEmsgSizeNoProbe; BugInBufferComputations;
         BugCantEnqueue; BugOffsetBeyondBufferBounds; BugRequestedLengthExceedsBufferBounds;
         BugTruncateFront; BugInvalidMessageExpectedStDataOrFin; BugAssemblerMissingSlot; BugUnreachable] in
    (match b with Some b -> PollReadyErr (ErrBug b) | None -> PollPanic)
  | _ -> PollPanic      (* an error the model has no name for: treated as the worst outcome *)

let has c s = String.contains s c

(* tokens of one observation -> (result, disp_woken, self_woken, post fingerprint) *)
let parse_obs (tok : string) : fresult * bool * bool * vfp =
  if String.length tok > 2 && String.sub tok 0 2 = "P:" then
    (match String.split_on_char '/' (String.sub tok 2 (String.length tok - 2)) with
     | [r; pk; wk; arm; fp] ->
       let wakes = (if has 'R' wk then [VwReader] else []) @ (if has 'W' wk then [VwWriter] else [])
                   @ (if has 'D' wk then [VwSelf] else []) in
       (FrPoll (result_of_string r,
                (if pk = "-" then [] else List.map fpacket_of_string (String.split_on_char ';' pk)),
                wakes, optz_of arm), false, false, vfp_of_string fp)
     | _ -> failwith "vsock: bad poll observation")
  else
    (match String.split_on_char '/' tok with
     | [r; wk; fp] ->
       let res =
         if r = "-" || r = "I:-" then FrNone
         else if r = "WP" then FrWrite WrPending else if r = "WEC" then FrWrite WrErrClosed
         else if r = "WES" then FrWrite WrErrShutdown else if r = "WED" then FrWrite WrErrDropped
         else if r = "UOK" then FrUnit UrOk else if r = "UPEND" then FrUnit UrPending
         else if r = "UERR" then FrUnit UrErr
         else if r = "REOF" then FrReadEof else if r = "RERRMSG" then FrReadErrMsg
         else if r = "RERRDEAD" then FrReadErrDead else if r = "RPEND" then FrReadPending
         else if r.[0] = 'W' then FrWrite (WrOk (z_of_string (String.sub r 1 (String.length r - 1))))
         else if r.[0] = 'R' then
           FrReadBytes (z_of_string (List.hd (String.split_on_char ':' (String.sub r 1 (String.length r - 1)))))
         else failwith ("vsock: bad result " ^ r) in
       (res, has 'D' wk, has 'W' wk, vfp_of_string fp)
     | _ -> failwith ("vsock: bad observation " ^ tok))

let config_of a : vconfig =
  let z i = z_of_string a.(i) in
  let incoming = a.(0) = "in" in
  { vc_incoming = incoming; vc_ipv4 = (a.(1) = "1"); vc_link_mtu = z 2; vc_rx_buf = z 3;
    vc_tx_init = z 4; vc_tx_max = z 5; vc_nagle = (a.(6) = "1"); vc_max_retx = z 7;
    vc_inactivity = z 8; vc_wait_last_ack = (a.(9) = "1"); vc_mtu_probe_max_retx = z 10;
    vc_isn = z 11; vc_remote_seq = z 12; vc_remote_conn_id = z 13; vc_remote_wnd = z 14;
    vc_remote_ts = z 15; vc_syn_sent = Z0; vc_now0 = (if incoming then Z0 else z 16) }

(* case tokens + observation tokens -> the list of steps *)
let steps_of (case : string list) (obs : string list) : vconfig * fstep list =
  let a = Array.of_list case in
  let cfg = config_of a in
  let ops = List.map parse_op (Array.to_list (Array.sub a 17 (Array.length a - 17))) in
  match obs with
  | [] -> (cfg, [])
  | init :: rest ->
    let (_, _, _, fp0) = parse_obs init in
    let rec go now pre ops obs acc =
      match ops, obs with
      | o :: ops', t :: obs' ->
        if t = "PANIC" then
          (* a Rust panic (or a model None-as-panic): the step is kept, as a PollPanic result
             with an unchanged fingerprint, so that predicates see it; the trace ends here *)
          List.rev ({ fs_now = (match o with VoSetNow t -> t | _ -> now); fs_pre = pre;
                      fs_event = fevent_of o; fs_result = FrPoll (PollPanic, [], [], None);
                      fs_disp_woken = false; fs_self_woken = false; fs_post = pre } :: acc)
        else
        let (res, dw, sw, post) = parse_obs t in
        let now' = (match o with VoSetNow t -> t | _ -> now) in
        go now' post ops' obs'
          ({ fs_now = now'; fs_pre = pre; fs_event = fevent_of o; fs_result = res;
             fs_disp_woken = dw; fs_self_woken = sw; fs_post = post } :: acc)
      | _, _ -> List.rev acc in
    (cfg, go cfg.vc_now0 fp0 ops rest [])

(* registry of the extracted property predicates, by name.
   step-local: vconfig -> fstep -> bool ; trace-level: vconfig -> fstep list -> bool *)
let step_preds : (string * (vconfig -> fstep -> bool)) list = [
  ("c10_bounded", c10_bounded);
  ("c02_write_wakes", c02_write_wakes);
  ("c02_drop_writer_wakes", c02_drop_writer_wakes);
  ("c02_shutdown_wakes", c02_shutdown_wakes);
  ("c02_read_wakes", c02_read_wakes);
  ("c02_parked_ok", c02_parked_ok);
  ("c02_eof_wakes", c02_eof_wakes);
  ("c02_zero_window_waker", c02_zero_window_waker);
  ("c02_timer_ok", c02_timer_ok);
  ("c02_timer_ok_g", c02_timer_ok_g);
  ("c02_rto_armed", c02_rto_armed);
  ("c02_no_silent_stall", c02_no_silent_stall);
  ("c05_window_ok", c05_window_ok);
  ("c05_zero_window_ok", c05_zero_window_ok);
  ("c05_rto_single_ok", c05_rto_single_ok);
  ("c05_monitor_ok", c05_monitor_ok);
  ("c05_rto_exit_ok", c05_rto_exit_ok);
  ("c14_datagram_ok", c14_datagram_ok);
  ("c14_segments_ok", c14_segments_ok);
  ("c08_deadline_ok", c08_deadline_ok);
  ("c14_wire_ok", c14_wire_ok);
  ("c02_rto_mode_armed", c02_rto_mode_armed);
  ("c02_no_silent_stall_g", c02_no_silent_stall_g);
  ("c02_rto_armed_fin_g", c02_rto_armed_fin_g);
  ("c17_fin_covers_data_ok", c17_fin_covers_data_ok);
  ("c18_off_all_segmented_ok", c18_off_all_segmented_ok);
  ("c18_drain_sends_ok", c18_drain_sends_ok);
  ("c18_buffered_segmented_ok", c18_buffered_segmented_ok);
  ("c18_pre_ok", c18_pre_ok);
  ("c05_window_ok2", c05_window_ok2);
  ("c05_rto_exit_ok2", c05_rto_exit_ok2);
  ("c05_zero_window_ok_open", c05_zero_window_ok_open);
  ("c05_zero_window_strict_or_d16_open", c05_zero_window_strict_or_d16_open);
  ("c05_monitor_core_ok", c05_monitor_core_ok);
  ("c06_no_resend_acked", c06_no_resend_acked);
  ("c05_zero_window_strict", c05_zero_window_strict);
  ("c05_d16_class_neg", (fun c st -> not (c05_d16_class c st)));
  ("c05_zero_window_strict_or_d16", (fun c st -> c05_zero_window_strict c st || c05_d16_class c st));
  ("c06_backoff_ok", c06_backoff_ok);
  ("c06_cap_ok", c06_cap_ok);
  ("c06_emitted_live_ok", c06_emitted_live_ok);
  ("c06_fast_retx_ok", c06_fast_retx_ok);
  ("c07_immediate_ok", c07_immediate_ok);
  ("c07_pre_monitor", c07_pre_monitor);
  ("c07_delayed_ok", c07_delayed_ok);
  ("c07_fires_ok", c07_fires_ok);
  ("c07_window_update_ok", c07_window_update_ok);
  ("c07_reasm_change_ok", c07_reasm_change_ok);
  ("c07_dist_ok", c07_dist_ok);
  ("c07_pre_monitor_g", c07_pre_monitor_g);
  ("c18_nagle_ok", c18_nagle_ok);
  ("c18_pre_monitor", c18_pre_monitor);
  ("c17_synack_ok", c17_synack_ok);
  ("c17_fin_after_data_ok", c17_fin_after_data_ok);
  ("c17_fin_after_data_noerr", c17_fin_after_data_noerr);
  ("c17_fin_number_step_ok", c17_fin_number_step_ok);
  ("c17_reset_ok", c17_reset_ok);
  ("c03_ready_closed_ok", c03_ready_closed_ok);
  ("c03_no_hang_ok", c03_no_hang_ok);
  ("c11_emitted_ok", c11_emitted_ok);
  ("c11_conn_types_ok", c11_conn_types_ok);
  (* classifiers of known classes: OK = the step is in the class *)
  ("c02_d2_class_neg", (fun c st -> not (c02_d2_class c st)));
  ("c02_d8_class_neg", (fun c st -> not (c02_d8_class c st)));
  ("c02_d9_class_neg", (fun c st -> not (c02_d9_class c st)));
  ("c02_zero_window_waker_or_d9", (fun c st -> c02_zero_window_waker c st || c02_d9_class c st));
  ("c02_d14_class_neg", (fun c st -> not (c02_d14_class c st)));
]
let trace_preds : (string * (vconfig -> fstep list -> bool)) list = [
  ("c10_step_ok", c10_step_ok);
  ("c04_vsock_ack_ok", c04_vsock_ack_ok);
  ("c04_consumed_honest_ok", c04_consumed_honest_ok);
  ("c05_slow_start_ok", c05_slow_start_ok);
  ("c04_d19_class", c04_d19_class);
  ("c02_prompt", c02_prompt);
  ("c06_stable_plen_ok", c06_stable_plen_ok);
  ("c06_joint_ok", c06_joint_ok);
  ("c06_rp_exit_ok", c06_rp_exit_ok);
  ("c07_idle_silent_partial", c07_idle_silent_partial);
  ("c07_trigger_ok", c07_trigger_ok);
  ("c02_prompt_write_g", c02_prompt_write_g);
  ("c06_emitted_live_ok_g", c06_emitted_live_ok_g);
  ("c06_no_resend_acked_g", c06_no_resend_acked_g);
  ("c06_fast_retx_ok_g", c06_fast_retx_ok_g);
  ("c08_fires_ok", c08_fires_ok);
  ("c17_fin_seq_ok", c17_fin_seq_ok);
  ("c17_peer_fin_ok", c17_peer_fin_ok);
  ("c17_peer_fin_ok2", c17_peer_fin_ok2);
  ("c04_vsock_ack_guarded", c04_vsock_ack_guarded);
  ("c04_consumed_honest_guarded", c04_consumed_honest_guarded);
  ("c04_d22_class", c04_d22_class);
  ("c06_stable_plen_ok_p", c06_stable_plen_ok_p);
  ("c17_reset_trace_ok", c17_reset_trace_ok);
  ("c03_after_death_ok", c03_after_death_ok);
  (* classifiers of known classes: OK = the trace is in the class *)
  ("c10_kf2_class", c10_kf2_class);
  ("c10_closed_pending_class", c10_closed_pending_class);
]

(* vsock_pred <name>[+<name>...] <case tokens> | <observations>
   several predicates may be evaluated on the same trace: the first failing one is reported *)
let run_one_pred name cfg steps =
  match List.assoc_opt name step_preds, List.assoc_opt name trace_preds with
  | Some p, _ ->
    let rec first i = function
      | [] -> None
      | st :: r -> if p cfg st then first (i + 1) r else Some i in
    (match first 0 steps with None -> None | Some i -> Some (Printf.sprintf "FAIL %s step=%d" name i))
  | None, Some p -> if p cfg steps then None else Some ("FAIL " ^ name)
  | None, None -> failwith ("vsock_pred: unknown predicate " ^ name)

let run_vsock_pred toks =
  match toks with
  | names :: rest ->
    let (case, obs) = split_bar [] rest in
    let (cfg, steps) = steps_of case obs in
    let rec go = function
      | [] -> "OK"
      | n :: r -> (match run_one_pred n cfg steps with None -> go r | Some f -> f) in
    go (String.split_on_char '+' names)
  | _ -> failwith "vsock_pred: bad case"

(* vsock_pred_all <name,name,...> : <case tokens> | <observations> — first failing predicate *)
let run_vsock_pred_all toks =
  match toks with
  | names :: ":" :: rest ->
    let rec go = function
      | [] -> "OK"
      | n :: ns -> (match run_vsock_pred (n :: rest) with "OK" -> go ns | r -> r) in
    go (String.split_on_char ',' names)
  | _ -> failwith "vsock_pred_all: bad case"

(* vsock_shift <da> <db> <dc> <tol> <case1> | <obs1> | <case2> | <obs2>
   C09: the second run (inputs relabelled by da/db/dc) must be the first run relabelled; SKIP when either
   trace leaves the tolerance guard (the property is claimed within it only) *)
let run_vsock_shift toks =
  match toks with
  | da :: db :: dc :: tol :: rest ->
    let (case1, r1) = split_bar [] rest in
    let (obs1, r2) = split_bar [] r1 in
    let (case2, obs2) = split_bar [] r2 in
    let (_, tr1) = steps_of case1 obs1 in
    let (_, tr2) = steps_of case2 obs2 in
    let da = z_of_string da and db = z_of_string db and dc = z_of_string dc and tol = z_of_string tol in
    if not (c09_within_tol tol tr1 && c09_within_tol tol tr2) then "SKIP"
    else if c09_shift_ok da db dc tr1 tr2 then "OK"
    else (match c09_first_bad da db dc tr1 tr2 Z0 with
        | Some i -> "FAIL c09_shift_ok step=" ^ string_of_z i
        | None -> "FAIL c09_shift_ok")
  | _ -> failwith "vsock_shift: bad case"

(* vsock_shift_g <da> <db> <dc> <tol> <case1> | <obs1> | <case2> | <obs2>
   as vsock_shift, but judged under the guard of the model theorem: a case is judged when the extracted model,
   run on the inputs of the first case, finds every sequence-number comparison within the tolerance
   (c09_guard_trace; by c09_model_runs_shift_ok the model's two traces are then relabellings of each other, and
   by c09_guard_trace_shift the same holds seen from the second case), or when both traces satisfy the
   fingerprint-level guard c09_within_tol; SKIP otherwise *)
let run_vsock_shift_g toks =
  match toks with
  | da :: db :: dc :: tol :: rest ->
    let (case1, r1) = split_bar [] rest in
    let (obs1, r2) = split_bar [] r1 in
    let (case2, obs2) = split_bar [] r2 in
    let (cfg1, tr1) = steps_of case1 obs1 in
    let (_, tr2) = steps_of case2 obs2 in
    let a = Array.of_list case1 in
    let ops = List.map parse_op (Array.to_list (Array.sub a 17 (Array.length a - 17))) in
    let da = z_of_string da and db = z_of_string db and dc = z_of_string dc and tol = z_of_string tol in
    let g = c09_guard_trace_cubic C_cubic.cbrt_oracle C_cubic.powf3_oracle cfg1 ops in
    if not (g || (c09_within_tol tol tr1 && c09_within_tol tol tr2)) then "SKIP"
    else if c09_shift_ok da db dc tr1 tr2 then "OK"
    else (match c09_first_bad da db dc tr1 tr2 Z0 with
        | Some i -> "FAIL c09_shift_ok step=" ^ string_of_z i ^ (if g then " model_guard" else " fingerprint_guard")
        | None -> "FAIL c09_shift_ok")
  | _ -> failwith "vsock_shift_g: bad case"

(* vsock_shift_guard <case as vsock>
   C09: the guard of the MODEL theorem c09_model_runs_shift_ok (Conn/C09_Shift.v c09_guard_trace), evaluated
   by running the extracted model on the inputs of the case: GUARD = every sequence-number comparison the
   model makes along the scenario is within the tolerance, hence (theorem) the model's relabelled run is the
   relabelled trace *)
let run_vsock_shift_guard toks =
  let a = Array.of_list toks in
  if Array.length a < 17 then "BADCASE" else
  let cfg = config_of a in
  let ops = List.map parse_op (Array.to_list (Array.sub a 17 (Array.length a - 17))) in
  if c09_guard_trace_cubic C_cubic.cbrt_oracle C_cubic.powf3_oracle cfg ops then "GUARD"
  else (match c09_guard_first_bad_cubic C_cubic.cbrt_oracle C_cubic.powf3_oracle cfg ops with
      | Some i -> "NOGUARD step=" ^ string_of_z i
      | None -> "NOGUARD")

(* vdrop <case as vsock> : the ops may contain one `X` = the connection future is dropped without having
   returned (cancellation; model: drop_vsock = Drop for VirtualSocket); after it only application ops follow
   and each observation is `result/wakes` (the connection object and with it the fingerprint are gone) *)
let app_res_str (out : vout) =
  match out with
  | VrNone -> "-"
  | VrWrite (WrOk n) -> "W" ^ string_of_z n
  | VrWrite WrPending -> "WP"
  | VrWrite WrErrClosed -> "WEC"
  | VrWrite WrErrShutdown -> "WES"
  | VrWrite WrErrDropped -> "WED"
  | VrUnit UrOk -> "UOK" | VrUnit UrPending -> "UPEND" | VrUnit UrErr -> "UERR"
  | VrRead (RdOk bs) -> Printf.sprintf "R%d:%s" (List.length bs) (C_rx.bytes_dot bs)
  | VrRead RdEof -> "REOF" | VrRead RdErrMsg -> "RERRMSG" | VrRead RdErrDead -> "RERRDEAD"
  | VrRead RdPending -> "RPEND"
  | VrPoll _ -> "?"

let run_vdrop toks =
  let a = Array.of_list toks in
  if Array.length a < 17 then "BADCASE" else
  let cfg = config_of a in
  match vsock_new_cubic C_cubic.cbrt_oracle C_cubic.powf3_oracle cfg with
  | None -> "BADCONFIG"
  | Some s0 ->
    let toks = Array.to_list (Array.sub a 17 (Array.length a - 17)) in
    let rec split acc = function
      | [] -> (List.rev acc, None)
      | "X" :: r -> (List.rev acc, Some r)
      | x :: r -> split (x :: acc) r in
    let (pre, post) = split [] toks in
    let tr = vtrace_cubic C_cubic.cbrt_oracle C_cubic.powf3_oracle s0 (List.map parse_op pre) in
    let head = ("I:-/-/" ^ fingerprint s0) :: List.map obs_str tr in
    let finished = List.exists (fun o -> poll_finished o.vo_out) tr in
    (match post with
     | None -> String.concat " " head
     | Some _ when finished || List.length tr < List.length pre -> String.concat " " head
     | Some post ->
       let s = (match List.rev tr with o :: _ -> o.vo_state | [] -> s0) in
       let s1 = drop_vsock { s with v_wakes = [] } in
       let has x = List.mem x s1.v_wakes in
       let xobs = "X/" ^ wakes_str (has VwReader) (has VwWriter) false in
       let rec go s acc = function
         | [] -> List.rev acc
         | t :: r ->
           (match t.[0] with
            | 'T' | 'L' | 'P' | 'M' | 'Z' | 'X' -> go s (("BADOP/-") :: acc) r
            | _ ->
              (match vtrace_cubic C_cubic.cbrt_oracle C_cubic.powf3_oracle s [parse_op t] with
               | [o] -> go o.vo_state ((app_res_str o.vo_out ^ "/" ^
                                       wakes_str false o.vo_self_woken false) :: acc) r
               | _ -> go s ("?" :: acc) r)) in
       String.concat " " (head @ (xobs :: go s1 [] post)))

(* vdrop_pred <case> | <observations> : the extracted c03_drop_wakes_ok / c03_post_drop_ok on the
   implementation's observations of a `vdrop` case; the part before X is judged by the vsock predicates *)
let run_vdrop_pred toks =
  let (case, obs) = split_bar [] toks in
  let ops = (match case with _ when List.length case > 17 ->
      List.filteri (fun i _ -> i >= 17) case | _ -> []) in
  let rec idx i = function [] -> None | "X" :: _ -> Some i | _ :: r -> idx (i + 1) r in
  match idx 0 ops with
  | None -> "OK"
  | Some k ->
    (* obs.(0) is the initial one; op j has observation j+1 *)
    let oa = Array.of_list obs in
    if Array.length oa <= k + 1 then "OK"        (* the connection ended before the drop *)
    else if oa.(k + 1) = "PANIC" then "FAIL c03_drop_panic"
    else begin
      let (_, _, _, pre) = parse_obs oa.(k) in
      let xw = (match String.split_on_char '/' oa.(k + 1) with [_; w] -> w | _ -> "") in
      if not (c03_drop_wakes_ok pre (has 'R' xw) (has 'W' xw)) then "FAIL c03_drop_wakes_ok"
      else begin
        let post_ops = List.filteri (fun i _ -> i > k) ops in
        let rec pairs i = function
          | [] -> []
          | t :: r ->
            if k + 2 + i >= Array.length oa then []
            else begin
              let o = oa.(k + 2 + i) in
              if o = "PANIC" then [((FeFlush, FrUnit UrPending), false)]      (* a panic is never acceptable *)
              else match String.split_on_char '/' o with
                | [res; w] when res <> "BADOP" ->
                  let (r0, _, _, _) = parse_obs (res ^ "/" ^ w ^ "/" ^ (match String.split_on_char '/' oa.(k) with
                      | l -> List.nth l (List.length l - 1))) in
                  ((fevent_of (parse_op t), r0), has 'W' w) :: pairs (i + 1) r
                | _ -> pairs (i + 1) r
            end in
        if c03_post_drop_ok (pairs 0 post_ops) then "OK" else "FAIL c03_post_drop_ok"
      end
    end

let dispatch = function
  | "vdrop_pred" :: r -> Some (run_vdrop_pred r)
  | "vdrop" :: r -> Some (run_vdrop r)
  | "vsock_shift_guard" :: r -> Some (run_vsock_shift_guard r)
  | "vsock_shift_g" :: r -> Some (run_vsock_shift_g r)
  | "vsock_shift" :: r -> Some (run_vsock_shift r)
  | "vsock_pred" :: r -> Some (run_vsock_pred r)
  | "vsock_pred_all" :: r -> Some (run_vsock_pred_all r)
  | "vsock" :: r -> Some (run_vsock r)
  | _ -> None

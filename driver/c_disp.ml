(* The socket Dispatcher: model side (coq/theories/Sock/Dispatcher.v).
   Mirrors harness/src/comp_disp.rs op by op, including its bookkeeping of live futures. *)
open Model
open Zutil

let type_of = function 0 -> ST_DATA | 1 -> ST_FIN | 2 -> ST_STATE | 3 -> ST_RESET | _ -> ST_SYN

module IM = Map.Make (Int)

type book = {
  mutable accepts : bool IM.t;            (* live accept futures *)
  mutable connects : int IM.t;            (* live connect futures: id -> addr *)
  mutable dgrams : (z * dmsg option) list; (* datagrams waiting in the transport, oldest first *)
  mutable tokens : (int * int) list;      (* token relabelling by first appearance *)
  mutable used_acc : int list;            (* ids ever used: re-use is a BADOP on both sides *)
  mutable used_con : int list;
}

let tok_id b t =
  match List.assoc_opt t b.tokens with
  | Some i -> i
  | None -> let i = List.length b.tokens in b.tokens <- b.tokens @ [(t, i)]; i

let digest b (s : dstate) =
  let j = function [] -> "-" | l -> String.concat "," l in
  let st = List.sort compare (List.map (fun e ->
      (int_of_z e.se_key.k_addr, int_of_z e.se_key.k_conn, e.se_alive)) s.d_streams) in
  let st = List.map (fun (a, c, al) -> Printf.sprintf "%d:%d:%s" a c (string_of_bool al)) st in
  let cn = List.sort (fun (a, _) (b, _) -> compare (int_of_z a) (int_of_z b)) s.d_connecting in
  let cn = List.map (fun (a, slots) ->
      Printf.sprintf "%s:%s" (string_of_z a)
        (String.concat "+" (List.map (function
             | Some c -> Printf.sprintf "%d.%s" (tok_id b (int_of_z c.cn_token)) (string_of_z c.cn_seq)
             | None -> "-") slots))) cn in
  let sy = List.map (fun y -> Printf.sprintf "%s:%s:%s" (string_of_z y.sy_addr) (string_of_z y.sy_conn)
                        (string_of_z y.sy_seq)) s.d_syns in
  Printf.sprintf "st=%s;cn=%s;sy=%s;na=%s;ch=%d;ct=%d;id=%s" (j st) (j cn) (j sy)
    (match s.d_next_acc with Some _ -> "1" | None -> "0") (List.length s.d_chan)
    (List.length s.d_control) (string_of_z s.d_next_conn_id)

let sent_str evs =
  let l = List.filter_map (function
      | EvSentSyn (a, c, q) -> Some (Printf.sprintf "%s:4:%s:%s:0" (string_of_z a) (string_of_z c) (string_of_z q))
      | EvSentRst (a, c, k) -> Some (Printf.sprintf "%s:3:%s:0:%s" (string_of_z a) (string_of_z c) (string_of_z k))
      | _ -> None) evs in
  match l with [] -> "-" | _ -> String.concat "," l

let fwd_str evs =
  let l = List.filter_map (function
      | EvForward k -> Some (Printf.sprintf "%s:%s" (string_of_z k.k_addr) (string_of_z k.k_conn))
      | _ -> None) evs in
  match l with [] -> "-" | _ -> String.concat "," l

let parse_dgram f : z * dmsg option =
  match f with
  | [a; t; c; q; k] ->
    (z_of_string a, Some { dm_type = type_of (int_of_string t); dm_conn = z_of_string c;
                           dm_seq = z_of_string q; dm_ack = z_of_string k })
  | _ -> failwith "disp: bad datagram"

let syn_send_of script =
  (* the SYN is the only datagram a control arm sends; default Sent *)
  if String.length script = 0 then SynSent
  else match script.[0] with 'S' -> SynSent | 'P' -> SynShort | _ -> SynErr

(* requested arm -> model arm if it is enabled in the state after cleanup (+ parked pushes) *)
let run_arm b (s : dstate) (pushes : z list) (want : string) (script : string)
  : (dstate * devent list * string) =
  let (s1, _) = cleanup_accept_queue s in
  let s2 = List.fold_left push_acceptor s1 pushes in
  let acc_en = (s2.d_next_acc = None && s2.d_chan <> []) in
  let ctl_en = (s2.d_control <> []) in
  let rcv_en = (b.dgrams <> []) in
  let enabled = (match want with "a" -> acc_en | "c" -> ctl_en | _ -> rcv_en) in
  if not enabled then begin
    if acc_en || ctl_en || rcv_en then (s, [], "ARM-NOT-ENABLED")
    else
      (* nothing is ready: run_once stays parked after its cleanup (and the pushes happened) *)
      let (s', evs) = dstep s (DoRunOnce (pushes, ArmControl SynSent)) in
      (s', evs, "PENDING")
  end else begin
    let arm = (match want with
        | "a" -> ArmAccept
        | "c" -> ArmControl (syn_send_of script)
        | _ ->
          (match b.dgrams with
           | (a, m) :: r -> b.dgrams <- r; ArmRecv (a, m)
           | [] -> ArmAccept)) in
    let (s', evs) = dstep s (DoRunOnce (pushes, arm)) in
    (s', evs, "OK" ^ want)
  end

let run_disp toks =
  match toks with
  | max_streams :: random :: ops ->
    let rnd = List.filter_map (fun x -> if x = "" then None else Some (z_of_string x))
        (String.split_on_char ',' random) in
    let s = ref (dstate_new (z_of_string max_streams) rnd) in
    let b = { accepts = IM.empty; connects = IM.empty; dgrams = []; tokens = []; used_acc = []; used_con = [] } in
    let out = ref [Printf.sprintf "I/-/-/%s" (digest b !s)] in
    let arm_problem = ref false in
    List.iter (fun op ->
        if not !arm_problem then begin
          let c = op.[0] and rest = String.sub op 1 (String.length op - 1) in
          let step o = let (s', evs) = dstep !s o in s := s'; evs in
          let (res, evs) =
            match c with
            | 'A' -> let id = int_of_string rest in
              if List.mem id b.used_acc then ("BADOP", []) else begin
                b.used_acc <- id :: b.used_acc;
                b.accepts <- IM.add id true b.accepts;
                ("-", step (DoPushAcceptor (z_of_int id)))
              end
            | 'a' -> let id = int_of_string rest in
              if IM.mem id b.accepts then begin
                b.accepts <- IM.remove id b.accepts;
                ("-", step (DoDropAcceptor (z_of_int id)))
              end else ("-", [])
            | 'p' -> let id = int_of_string rest in
              if not (IM.mem id b.accepts) then ("NOFUT", [])
              else (match List.find_opt (fun (a, _) -> int_of_z a = id) !s.d_handed with
                  | Some (_, (k, _)) ->
                    b.accepts <- IM.remove id b.accepts;
                    let evs = step (DoPickupAccept (z_of_int id)) in
                    ("ACC" ^ string_of_z k.k_addr, evs)
                  | None -> ("PEND", []))
            | 'C' -> (match String.split_on_char ',' rest with
                | [id; addr] ->
                  if List.mem (int_of_string id) b.used_con then ("BADOP", []) else begin
                    b.used_con <- int_of_string id :: b.used_con;
                    b.connects <- IM.add (int_of_string id) (int_of_string addr) b.connects;
                    ("-", step (DoConnect (z_of_string addr, z_of_string id)))
                  end
                | _ -> failwith "disp: bad C")
            | 'c' -> let id = int_of_string rest in
              (match IM.find_opt id b.connects with
               | Some addr ->
                 b.connects <- IM.remove id b.connects;
                 ("-", step (DoDropConnect (z_of_int addr, z_of_int id)))
               | None -> ("-", []))
            | 'q' -> let id = int_of_string rest in
              if not (IM.mem id b.connects) then ("NOFUT", [])
              else (match List.find_opt (fun (t, _) -> int_of_z t = id) !s.d_results with
                  | Some (_, r) ->
                    let addr = IM.find id b.connects in
                    b.connects <- IM.remove id b.connects;
                    let evs = step (DoPickupConnect (z_of_int addr, z_of_int id)) in
                    ((match r with
                        | CrOk k -> "CON" ^ string_of_z k.k_addr
                        | CrTooMany -> "CONERR_TOOMANY"
                        | CrSynErr -> "CONERR_SYN"
                        | CrDead -> "CONERR_DEAD"), evs)
                  | None -> ("PEND", []))
            | 'S' -> (match String.split_on_char ',' rest with
                | [a; cid] -> ("-", step (DoShutdown { k_addr = z_of_string a; k_conn = z_of_string cid }))
                | _ -> failwith "disp: bad S")
            | 'D' -> b.dgrams <- b.dgrams @ [parse_dgram (String.split_on_char ',' rest)]; ("-", [])
            | 'G' -> (match String.split_on_char ',' rest with
                | [a; hex] ->
                  (* raw bytes off the wire: the dispatcher parses them with UtpMessage::deserialize - model:
                     the extracted wire model msg_deserialize (Wire/Header.v, property C11) composed with the
                     dispatcher model; anything it rejects is dropped *)
                  let n = String.length hex / 2 in
                  let bytes = List.init n (fun i -> z_of_int (int_of_string ("0x" ^ String.sub hex (2 * i) 2))) in
                  let m = (match msg_deserialize bytes with
                      | MsgSome (h, _) -> Some { dm_type = h.h_type; dm_conn = h.h_conn; dm_seq = h.h_seq; dm_ack = h.h_ack }
                      | MsgNone | MsgPanic -> None) in
                  b.dgrams <- b.dgrams @ [(z_of_string a, m)]; ("-", [])
                | _ -> failwith "disp: bad G")
            | 'R' ->
              let want = String.sub rest 0 1 and script = String.sub rest 1 (String.length rest - 1) in
              let (s', evs, r) = run_arm b !s [] want script in
              if r = "ARM-NOT-ENABLED" then arm_problem := true;
              s := s'; (r, evs)
            | 'Q' -> (match String.split_on_char ':' rest with
                | [want; ids; dg] ->
                  let ids = List.filter_map (fun x -> if x = "" then None else Some (int_of_string x))
                      (String.split_on_char '.' ids) in
                  let ids = List.filter (fun id ->
                      if List.mem id b.used_acc then false else (b.used_acc <- id :: b.used_acc; true)) ids in
                  List.iter (fun id -> b.accepts <- IM.add id true b.accepts) ids;
                  (* the datagram arrives while the dispatcher is parked *)
                  let first_poll_ready =
                    (let (s1, _) = cleanup_accept_queue !s in
                     (s1.d_next_acc = None && s1.d_chan <> []) || s1.d_control <> [] || b.dgrams <> []) in
                  if first_poll_ready then begin
                    (* the first poll already completes: the harness reports whatever arm that was;
                       such cases are not generated *)
                    arm_problem := true; ("ARM-NOT-ENABLED", [])
                  end else begin
                    b.dgrams <- b.dgrams @ [parse_dgram (String.split_on_char ',' dg)];
                    let (s', evs, r) = run_arm b !s (List.map z_of_int ids) want "" in
                    if r = "ARM-NOT-ENABLED" then arm_problem := true;
                    s := s'; (r, evs)
                  end
                | _ -> failwith "disp: bad Q")
            | _ -> ("BADOP", []) in
          if !arm_problem then out := "ARM-NOT-ENABLED" :: !out
          else out := Printf.sprintf "%s/%s/%s/%s" res (sent_str evs) (fwd_str evs) (digest b !s) :: !out
        end) ops;
    String.concat " " (List.rev !out)
  | _ -> "BADCASE"

(* ---- parsing observations back, for the extracted predicates ---- *)
let dobs_of_digest (d : string) : dobs =
  let get key =
    let parts = String.split_on_char ';' d in
    let p = List.find (fun x -> String.length x > String.length key && String.sub x 0 (String.length key + 1) = key ^ "=") parts in
    String.sub p (String.length key + 1) (String.length p - String.length key - 1) in
  let lst v = if v = "-" then [] else String.split_on_char ',' v in
  { ob_streams = List.map (fun t -> match String.split_on_char ':' t with
        | [a; c; al] -> ({ k_addr = z_of_string a; k_conn = z_of_string c }, al = "1")
        | _ -> failwith "disp_pred: bad stream") (lst (get "st"));
    ob_syns = List.map (fun t -> match String.split_on_char ':' t with
        | [a; c; q] -> { sy_addr = z_of_string a; sy_conn = z_of_string c; sy_seq = z_of_string q }
        | _ -> failwith "disp_pred: bad syn") (lst (get "sy"));
    ob_na = (get "na" = "1"); ob_ch = z_of_string (get "ch"); ob_ct = z_of_string (get "ct") }

(* ---- C10, socket half, on the implementation's own observations ----
   disp_pred c10 <max_streams> <random> <op> ... | <observations>      (the whole case line, then the observation line)
   The ops are replayed only as far as the bookkeeping of the transport's datagram queue needs (D / G / Q push, a
   run_once whose recv arm fired - result OKr - pops the oldest); everything judged is the implementation's own
   observation.  On every run_once whose recv arm fired: c10_disp_step_ok with the sender and what the datagram parsed
   to (raw bytes: the extracted parse_raw, None for garbage); on every post-state (and the initial one):
   c10_disp_bounds_ok; and, as before, no PANIC anywhere and c12_step_ok on every step.
   `c10n` is the same and prints the number of steps judged after OK. *)
let c10_parse_tok tok =
  match String.split_on_char '/' tok with
  | [res; sent; fwd; dg] ->
    let rsts = if sent = "-" then 0 else
        List.length (List.filter (fun t -> match String.split_on_char ':' t with
            | _ :: "3" :: _ -> true | _ -> false) (String.split_on_char ',' sent)) in
    let fw = if fwd = "-" then [] else List.map (fun t -> match String.split_on_char ':' t with
        | [a; c] -> { k_addr = z_of_string a; k_conn = z_of_string c }
        | _ -> failwith "disp_pred: bad fwd") (String.split_on_char ',' fwd) in
    Some (res, rsts, fw, dobs_of_digest dg)
  | _ -> None

let c10_raw_of_hex hex : raw_parse =
  let n = String.length hex / 2 in
  parse_raw (List.init n (fun i -> z_of_int (int_of_string ("0x" ^ String.sub hex (2 * i) 2))))

let run_disp_pred_c10 (counts : bool) max_streams ops obs =
  let ms = z_of_string max_streams in
  let queue : (z * raw_parse * bool) list ref = ref [] in    (* sender, parse, came as raw bytes *)
  let push_parsed f = let (a, m) = parse_dgram f in
    queue := !queue @ [(a, (match m with Some m -> RpMsg m | None -> RpGarbage), false)] in
  let n_recv = ref 0 and n_raw = ref 0 and n_garbage = ref 0 and n_states = ref 0 in
  let fin () = if counts then Printf.sprintf "OK recv=%d raw=%d garbage=%d states=%d" !n_recv !n_raw !n_garbage !n_states
    else "OK" in
  let rec go pre i ops obs =
    match ops, obs with
    | _, [] | [], _ -> fin ()
    | _, "PANIC" :: _ -> Printf.sprintf "FAIL c10_disp_no_panic step=%d" i
    | op :: ops', tok :: obs' ->
      (match c10_parse_tok tok with
       | None -> fin ()          (* ARM-NOT-* tokens end the usable part of the trace *)
       | Some (res, rsts, fw, post) ->
         let o = { so_pre = pre; so_rsts = z_of_int rsts; so_fwd = fw; so_post = post } in
         let c = op.[0] and rest = String.sub op 1 (String.length op - 1) in
         if res <> "BADOP" then
           (match c with
            | 'D' -> push_parsed (String.split_on_char ',' rest)
            | 'G' -> (match String.split_on_char ',' rest with
                | [a; hex] -> queue := !queue @ [(z_of_string a, c10_raw_of_hex hex, true)]
                | _ -> failwith "disp_pred: bad G")
            | 'Q' -> (match String.split_on_char ':' rest with
                | [_; _; dg] -> push_parsed (String.split_on_char ',' dg)
                | _ -> failwith "disp_pred: bad Q")
            | _ -> ());
         let is_run = (c = 'R' || c = 'Q') in
         let verdict =
           if is_run && res = "ERR" then Some "c10_disp_no_err"
           else if is_run && res = "OKr" then
             (match !queue with
              | [] -> Some "c10_disp_recv_without_datagram"
              | (addr, p, raw) :: r ->
                queue := r;
                (match p with
                 | RpPanic -> Some "c10_disp_parse_total"
                 | RpGarbage | RpMsg _ ->
                   let om = (match p with RpMsg m -> Some m | _ -> None) in
                   incr n_recv;
                   if raw then incr n_raw;
                   if om = None then incr n_garbage;
                   if c10_disp_step_ok addr om o then None else Some "c10_disp_step_ok"))
           else None in
         (match verdict with
          | Some w -> Printf.sprintf "FAIL %s step=%d" w i
          | None ->
            if not (c10_disp_bounds_ok ms post) then Printf.sprintf "FAIL c10_disp_bounds_ok step=%d" i
            else if not (c12_step_ok ms o) then Printf.sprintf "FAIL c12_step_ok step=%d" i
            else (incr n_states; go post (i + 1) ops' obs'))) in
  match obs with
  | "PANIC" :: _ -> "FAIL c10_disp_no_panic step=-1"
  | first :: rest ->
    (match c10_parse_tok first with
     | Some (_, _, _, d0) ->
       if not (c10_disp_bounds_ok ms d0) then "FAIL c10_disp_bounds_ok step=-1"
       else (incr n_states; go d0 0 ops rest)
     | None -> fin ())
  | [] -> fin ()


(* disp_pred <c12|c13|c10|c11> <max_streams> | <observations> *)
(* the per-address connecting slots of a digest (cn=<addr>:<tok>.<seq>+-+-+-,...), tokens as relabelled *)
let ctable_of_digest (d : string) =
  let parts = String.split_on_char ';' d in
  let p = List.find (fun x -> String.length x > 3 && String.sub x 0 3 = "cn=") parts in
  let v = String.sub p 3 (String.length p - 3) in
  let lst = if v = "-" then [] else String.split_on_char ',' v in
  List.map (fun t -> match String.split_on_char ':' t with
      | [a; slots] ->
        (z_of_string a, List.map (fun sl ->
             if sl = "-" then None else
               match String.split_on_char '.' sl with
               | [tk; q] -> Some { cn_token = z_of_string tk; cn_seq = z_of_string q }
               | _ -> failwith "disp_pred: bad slot") (String.split_on_char '+' slots))
      | _ -> failwith "disp_pred: bad connecting entry") lst

(* C13 "every pending connect is accounted for": c13_pending_ok on every step of the observations *)
let run_c13_pending obs =
  let parse tok =
    match String.split_on_char '/' tok with
    | [res; sent; _fwd; dg] ->
      let kind = (match res with "OKa" -> 1 | "OKc" | "PENDING" -> 2 | "OKr" -> 3 | _ -> 0) in
      let syns = if sent = "-" then [] else
          List.filter_map (fun t -> match String.split_on_char ':' t with
              | [a; "4"; _; q; _] -> Some (z_of_string a, z_of_string q)
              | _ -> None) (String.split_on_char ',' sent) in
      Some (kind, syns, ctable_of_digest dg)
    | _ -> None in
  let rec go pre i = function
    | [] -> "OK"
    | tok :: rest ->
      (match parse tok with
       | None -> "OK"
       | Some (kind, syns, post) ->
         let o = { po_kind = z_of_int kind; po_syns = syns; po_pre = pre; po_post = post } in
         if not (c13_pending_ok o) then Printf.sprintf "FAIL c13_pending_ok step=%d" i
         else go post (i + 1) rest) in
  match obs with
  | first :: rest -> (match parse first with Some (_, _, t0) -> go t0 0 rest | None -> "OK")
  | [] -> "OK"

(* disp_pred <c12|c13|c10|c11|c13p> <max_streams> | <observations> *)
let run_disp_pred toks =
  match split_bar [] toks with
  | (("c10" | "c10n" as which) :: max_streams :: _random :: ops, obs) ->
    run_disp_pred_c10 (which = "c10n") max_streams ops obs
  | ([which; max_streams], obs) ->
    let parse tok =
      match String.split_on_char '/' tok with
      | [_res; sent; fwd; dg] ->
        let rsts = if sent = "-" then 0 else
            List.length (List.filter (fun t -> match String.split_on_char ':' t with
                | _ :: "3" :: _ -> true | _ -> false) (String.split_on_char ',' sent)) in
        let fw = if fwd = "-" then [] else List.map (fun t -> match String.split_on_char ':' t with
            | [a; c] -> { k_addr = z_of_string a; k_conn = z_of_string c }
            | _ -> failwith "disp_pred: bad fwd") (String.split_on_char ',' fwd) in
        let syns = if sent = "-" then [] else
            List.filter_map (fun t -> match String.split_on_char ':' t with
                | [a; "4"; c; _; _] -> Some { k_addr = z_of_string a; k_conn = z_of_string c }
                | _ -> None) (String.split_on_char ',' sent) in
        Some (rsts, fw, dobs_of_digest dg, syns)
      | _ -> None in
    (* C11: every datagram the dispatcher sent in this step, as events of the model; None = a datagram the
       real parser rejected or of a type the dispatcher never sends *)
    let sent_events tok : devent list option =
      match String.split_on_char '/' tok with
      | [_res; sent; _; _] when sent <> "-" ->
        let evs = List.map (fun t -> match String.split_on_char ':' t with
            | [a; "4"; c; q; _] -> Some (EvSentSyn (z_of_string a, z_of_string c, z_of_string q))
            | [a; "3"; c; _; k] -> Some (EvSentRst (z_of_string a, z_of_string c, z_of_string k))
            | _ -> None) (String.split_on_char ',' sent) in
        if List.mem None evs then None else Some (List.filter_map (fun x -> x) evs)
      | _ -> Some [] in
    let rec go pre i = function
      | [] -> "OK"
      | tok :: rest ->
        (match parse tok with
         | None -> "OK"     (* PANIC / ARM-NOT-* tokens end the usable part of the trace *)
         | Some (rsts, fw, post, syns) ->
           let o = { so_pre = pre; so_rsts = z_of_int rsts; so_fwd = fw; so_post = post } in
           let ok = (if which = "c13" then c13_step_ok o else c12_step_ok (z_of_string max_streams) o) in
           if not ok then Printf.sprintf "FAIL %s_step_ok step=%d" (if which = "c10" then "c12" else which) i
           else if which = "c12" && not (c12_syn_fresh_ok pre syns) then Printf.sprintf "FAIL c12_syn_fresh_ok step=%d" i
           else go post (i + 1) rest) in
    if which = "c13p" then run_c13_pending obs
    else
    if which = "c11" then
      (let rec first i = function
          | [] -> "OK"
          | tok :: rest ->
            (match sent_events tok with
             | None -> Printf.sprintf "FAIL c11_disp_datagram_parses step=%d" i
             | Some evs -> if c11_dstep_ok evs then first (i + 1) rest
               else Printf.sprintf "FAIL c11_dstep_ok step=%d" i) in
       first 0 obs)
    else
    if which = "c10" then
      (* socket half of C10: no datagram, however malformed, makes the dispatcher panic, evicts a live connection
         or forwards anything to a connection it does not name (c12_step_ok), whatever is sent to it *)
      (if List.mem "PANIC" obs then "FAIL c10_disp_no_panic"
       else match obs with
         | first :: rest -> (match parse first with Some (_, _, d0, _) -> go d0 0 rest | None -> "OK")
         | [] -> "OK")
    else
    (match obs with
     | first :: rest -> (match parse first with Some (_, _, d0, _) -> go d0 0 rest | None -> "OK")
     | [] -> "OK")
  | _ -> failwith "disp_pred: bad case"

let dispatch = function
  | "disp_pred" :: r -> Some (run_disp_pred r)
  | "disp" :: r -> Some (run_disp r)
  | _ -> None

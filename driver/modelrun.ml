(* Model runner: reads one case per line on stdin, prints one observation line
   per case on stdout, in exactly the format of the Rust harness. Trusted glue. *)
open Model
open Zutil

let split s = List.filter (fun t -> t <> "") (String.split_on_char ' ' s)

let run_seqnr toks =
  (* seqnr <new> <old> <tol> *)
  match toks with
  | [a; b; t] ->
    string_of_z (seq_nr_offset (z_of_string a) (z_of_string b) (z_of_string t))
  | _ -> failwith "seqnr: bad case"

(* seqnr_row <old> <tol> : all 65536 values of new *)
let run_seqnr_row toks =
  match toks with
  | [b; t] ->
    let old = z_of_string b and tol = z_of_string t in
    let buf = Buffer.create (65536 * 7) in
    for n = 0 to 65535 do
      if n > 0 then Buffer.add_char buf ',';
      Buffer.add_string buf (string_of_z (seq_nr_offset (z_of_int n) old tol))
    done;
    Buffer.contents buf
  | _ -> failwith "seqnr_row: bad case"

let run_rtte toks =
  let ops = List.map (fun t ->
      if t = "t" then OpTimeout
      else if String.length t > 1 && t.[0] = 's' then
        OpSample (z_of_string (String.sub t 1 (String.length t - 1)))
      else failwith ("rtte: bad op " ^ t)) toks in
  let tr = rtte_trace rtte_default ops in
  String.concat " " (List.map (function
      | Some (rto, rtt) -> string_of_z rto ^ "," ^ string_of_z rtt
      | None -> "PANIC") tr)

let parse_rtte_ops toks = List.map (fun t ->
      if t = "t" then OpTimeout
      else OpSample (z_of_string (String.sub t 1 (String.length t - 1)))) toks

let rec split_bar acc = function
  | [] -> (List.rev acc, [])
  | "|" :: r -> (List.rev acc, r)
  | x :: r -> split_bar (x :: acc) r

(* rtte_pred <ops> | <observations>  : the extracted c16_ok on an observed trace *)
let run_rtte_pred toks =
  let (ops, obs) = split_bar [] toks in
  let obs = List.map (fun t ->
      if t = "PANIC" then None else
      match String.split_on_char ',' t with
      | [a; b] -> Some (z_of_string a, z_of_string b)
      | _ -> failwith "rtte_pred: bad obs") obs in
  if c16_ok (parse_rtte_ops ops) obs then "OK" else "FAIL c16_ok"

(* seqnr_pred <new> <old> <tol> <res> *)
let run_seqnr_pred toks =
  match List.map z_of_string toks with
  | [a; b; t; r] -> if c09_obs_ok a b t r then "OK" else "FAIL c09_obs_ok"
  | _ -> failwith "seqnr_pred"

(* seqnr_row_pred <old> <tol> | r0,r1,...,r65535 *)
let run_seqnr_row_pred toks =
  match toks with
  | [b; t; "|"; row] ->
    let old = z_of_string b and tol = z_of_string t in
    let rs = String.split_on_char ',' row in
    let bad = ref None in
    List.iteri (fun n r ->
        if !bad = None && not (c09_obs_ok (z_of_int n) old tol (z_of_string r)) then bad := Some n) rs;
    if List.length rs <> 65536 then "FAIL row length"
    else (match !bad with None -> "OK" | Some n -> Printf.sprintf "FAIL c09_obs_ok new=%d" n)
  | _ -> failwith "seqnr_row_pred"

let run_consts _ =
  Printf.sprintf "WRAP_TOLERANCE=%s RTTE_MIN_RTO=%s RTTE_MAX_RTO=%s CLOCK_GRANULARITY=%s RTTE_INITIAL_RTT=%s"
    (string_of_z wRAP_TOLERANCE) (string_of_z rTTE_MIN_RTO) (string_of_z rTTE_MAX_RTO)
    (string_of_z cLOCK_GRANULARITY) (string_of_z rTTE_INITIAL_RTT)

let dispatch line =
  match split line with
  | [] -> ""
  | "seqnr" :: r -> run_seqnr r
  | "seqnr_row" :: r -> run_seqnr_row r
  | "rtte" :: r -> run_rtte r
  | "rtte_pred" :: r -> run_rtte_pred r
  | "seqnr_pred" :: r -> run_seqnr_pred r
  | "seqnr_row_pred" :: r -> run_seqnr_row_pred r
  | "consts" :: r -> run_consts r
  | c :: _ -> failwith ("unknown component " ^ c)

let () =
  try
    while true do
      let line = input_line stdin in
      let out = try dispatch line with Failure m -> "MODEL-ERROR " ^ m in
      print_string out;
      print_char '\n'
    done
  with End_of_file -> ()

(* Model runner: reads one case per line on stdin, prints one observation line
   per case on stdout, in exactly the format of the Rust harness. Trusted glue.
   Components live in c_*.ml; each exports `dispatch : string list -> string option`. *)
open Model
open Zutil

let run_consts _ =
  Printf.sprintf "WRAP_TOLERANCE=%s RTTE_MIN_RTO=%s RTTE_MAX_RTO=%s CLOCK_GRANULARITY=%s RTTE_INITIAL_RTT=%s"
    (string_of_z wRAP_TOLERANCE) (string_of_z rTTE_MIN_RTO) (string_of_z rTTE_MAX_RTO)
    (string_of_z cLOCK_GRANULARITY) (string_of_z rTTE_INITIAL_RTT)
  ^ Printf.sprintf " IPV4_HEADER=%s IPV6_HEADER=%s UDP_HEADER=%s UTP_HEADER=%s"
    (string_of_z iPV4_HEADER) (string_of_z iPV6_HEADER) (string_of_z uDP_HEADER) (string_of_z uTP_HEADER)
  ^ Printf.sprintf " ACK_DELAY=%s IMMEDIATE_ACK_EVERY_RMSS=%s"
    (string_of_z aCK_DELAY) (string_of_z iMMEDIATE_ACK_EVERY_RMSS)


let dispatchers : (string list -> string option) list = [
  C_seqnr.dispatch;
  C_rtte.dispatch;
  C_rx.dispatch;
  C_segs.dispatch;
  C_tx.dispatch;
  C_cubic.dispatch;
  C_wire.dispatch;
  C_vsock.dispatch;
  C_pair.dispatch;
  C_mtu.dispatch;
  C_disp.dispatch;
]

let dispatch line =
  match split line with
  | [] -> ""
  | "consts" :: r -> run_consts r
  | toks ->
    let rec go = function
      | [] -> failwith ("unknown component " ^ List.hd toks)
      | d :: ds -> (match d toks with Some s -> s | None -> go ds)
    in go dispatchers

let () =
  try
    while true do
      let line = input_line stdin in
      let out = try dispatch line with
        | Failure m -> "MODEL-ERROR " ^ m
        | Not_found -> "MODEL-ERROR Not_found"
        | Invalid_argument m -> "MODEL-ERROR " ^ m in
      print_string out;
      print_char '\n'
    done
  with End_of_file -> ()

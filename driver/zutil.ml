(* Trusted glue: conversions between OCaml ints/strings and the extracted Z. *)
open Model

let rec pos_of_int (n : int) : positive =
  if n = 1 then XH
  else if n land 1 = 0 then XO (pos_of_int (n lsr 1))
  else XI (pos_of_int (n lsr 1))

let z_of_int (n : int) : z =
  if n = 0 then Z0 else if n > 0 then Zpos (pos_of_int n) else Zneg (pos_of_int (-n))

let rec nat_of_int (n : int) : nat = if n <= 0 then O else S (nat_of_int (n - 1))
let rec int_of_nat (n : nat) : int = match n with O -> 0 | S m -> 1 + int_of_nat m

(* returns None if it does not fit in 62 bits *)
let int_of_pos_opt (p : positive) : int option =
  let rec go p acc bit =
    if bit > 61 then None else
    match p with
    | XH -> Some (acc lor (1 lsl bit))
    | XO q -> go q acc (bit + 1)
    | XI q -> go q (acc lor (1 lsl bit)) (bit + 1)
  in go p 0 0

let int_of_z_opt (x : z) : int option =
  match x with
  | Z0 -> Some 0
  | Zpos p -> int_of_pos_opt p
  | Zneg p -> (match int_of_pos_opt p with Some n -> Some (-n) | None -> None)

let int_of_z (x : z) : int =
  match int_of_z_opt x with Some n -> n | None -> failwith "int_of_z: too large"

let ten = z_of_int 10

let z_of_string (s : string) : z =
  let neg = String.length s > 0 && s.[0] = '-' in
  let start = if neg then 1 else 0 in
  if String.length s - start <= 18 then z_of_int (int_of_string s)
  else begin
    let acc = ref Z0 in
    for i = start to String.length s - 1 do
      let d = Char.code s.[i] - 48 in
      if d < 0 || d > 9 then failwith ("z_of_string: " ^ s);
      acc := Z.add (Z.mul !acc ten) (z_of_int d)
    done;
    if neg then Z.opp !acc else !acc
  end

let rec string_of_z (x : z) : string =
  match int_of_z_opt x with
  | Some n -> string_of_int n
  | None ->
    (match x with
     | Zneg p -> "-" ^ string_of_z (Zpos p)
     | _ ->
       let q = Z.div x ten and r = Z.modulo x ten in
       string_of_z q ^ string_of_z r)

let string_of_bool (b : bool) = if b then "1" else "0"

let split s = List.filter (fun t -> t <> "") (String.split_on_char ' ' s)

let rec split_bar acc = function
  | [] -> (List.rev acc, [])
  | "|" :: r -> (List.rev acc, r)
  | x :: r -> split_bar (x :: acc) r

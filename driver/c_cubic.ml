(* Cubic congestion controller: model side.  Trusted glue.
   case:  cubic <mss> <op> ...     ops: w<win> a<now_ns>,<len>,<rtt_ns> t e<now_ns>
                                        r<cwnd_bytes>,<ssthresh_bytes> m<mss>
   out :  <window>,<sshthresh>,<smss> after every op; PANIC for a model None.
   The libm oracles cbrt / powf(.,3.) (Section variables of the model, no hypothesis in any
   theorem) are instantiated with OCaml's Float.cbrt / Float.pow (the C library's cbrt/pow,
   the same symbols Rust's f64::cbrt / f64::powf call), through a bit-exact conversion
   between the extracted B754 constructors and OCaml floats. *)
open Model
open Zutil

(* ---- binary64 bits <-> extracted B754 (canonical mantissa/exponent) *)
let b754_of_float (x : float) : binary_float =
  let bits = Int64.bits_of_float x in
  let s = Int64.compare bits 0L < 0 in
  let e = Int64.to_int (Int64.logand (Int64.shift_right_logical bits 52) 0x7FFL) in
  let frac = Int64.to_int (Int64.logand bits 0xFFFFFFFFFFFFFL) in
  if e = 0x7FF then (if frac = 0 then B754_infinity s else B754_nan)
  else if e = 0 then
    (if frac = 0 then B754_zero s else B754_finite (s, pos_of_int frac, z_of_int (-1074)))
  else B754_finite (s, pos_of_int (frac lor (1 lsl 52)), z_of_int (e - 1075))

let float_of_b754 (b : binary_float) : float =
  match b with
  | B754_zero s -> if s then (-0.) else 0.
  | B754_infinity s -> if s then neg_infinity else infinity
  | B754_nan -> nan
  | B754_finite (s, m, e) ->
    let m = (match int_of_pos_opt m with Some n -> n | None -> failwith "b754: mantissa") in
    let e = int_of_z e in
    let bits =
      if m >= (1 lsl 52) then begin
        if m >= (1 lsl 53) || e < -1074 || e > 971 then failwith "b754: not canonical";
        Int64.logor (Int64.shift_left (Int64.of_int (e + 1075)) 52)
          (Int64.of_int (m land ((1 lsl 52) - 1)))
      end else begin
        if e <> -1074 then failwith "b754: not canonical (subnormal)";
        Int64.of_int m
      end in
    let bits = if s then Int64.logor bits Int64.min_int else bits in
    Int64.float_of_bits bits

(* Rust's f64::cbrt (1.95: compiler-builtins libm, CORE-MATH port) is correctly rounded and is NOT the C
   library's cbrt; the oracle is the exact correctly rounded cube root extracted from Cubic/Libm.v. *)
let cbrt_oracle (x : binary_float) : binary_float = cbrt_cr x
let cbrt_glibc (x : binary_float) : binary_float = b754_of_float (Float.cbrt (float_of_b754 x))
let powf3_oracle (x : binary_float) : binary_float = b754_of_float (Float.pow (float_of_b754 x) 3.)

let after t = String.sub t 1 (String.length t - 1)
let zs s = List.map z_of_string (String.split_on_char ',' s)

let parse_op t =
  if t = "t" then OnRto else
  match t.[0], zs (after t) with
  | 'w', [w] -> SetRemoteWindow w
  | 'a', [now; len; rtt] -> OnAck (now, len, rtt)
  | 'e', [now] -> OnEnterRecovery now
  | 'r', [c; s] -> OnRecovered (c, s)
  | 'm', [m] -> SetMss m
  | _ -> failwith ("cubic: bad op " ^ t)

(* same well-formedness rule as harness/src/comp_cubic.rs *)
let is_num x = x <> "" && String.length x <= 30 && String.for_all (fun c -> c >= '0' && c <= '9') x
let u64_max = z_of_string "18446744073709551615"
let fits_u64 x = is_num x && (match Z.compare (z_of_string x) u64_max with Gt -> false | _ -> true)
let well_formed toks =
  match toks with
  | [] -> false
  | mss :: ops -> fits_u64 mss && List.for_all (fun t ->
      t <> "" &&
      let rest = String.split_on_char ',' (after t) in
      match t.[0] with
      | 't' -> String.length t = 1
      | 'w' | 'e' | 'm' -> List.length rest = 1 && List.for_all fits_u64 rest
      | 'r' -> List.length rest = 2 && List.for_all fits_u64 rest
      | 'a' -> (match rest with [a; b; c] -> fits_u64 a && fits_u64 b && is_num c | _ -> false)
      | _ -> false) ops

let run_cubic toks =
  if not (well_formed toks) then "BADCASE" else
  match toks with
  | mss :: ops ->
    let ops = List.map parse_op ops in
    let tr = cubic_trace cbrt_oracle powf3_oracle (cubic_new Z0 (z_of_string mss)) ops in
    String.concat " " (List.map (function
        | Some ((w, ss), m) -> string_of_z w ^ "," ^ string_of_z ss ^ "," ^ string_of_z m
        | None -> "PANIC") tr)
  | [] -> failwith "cubic: missing mss"

(* cubic_pred <mss> <ops> | <observations> : the extracted c15_obs_ok on an observed trace *)
let run_cubic_pred which toks =
  let (case, obs) = split_bar [] toks in
  match case with
  | mss :: ops ->
    let ops = List.map parse_op ops in
    let obs = List.map (fun t ->
        if t = "PANIC" then None else
        match zs t with
        | [w; ss; m] -> Some ((w, ss), m)
        | _ -> failwith "cubic_pred: bad obs") obs in
    let mss = z_of_string mss in
    if which = "core" then (if c15_obs_core mss ops obs then "OK" else "FAIL c15_obs_core")
    else if not (c15_obs_core mss ops obs) then "FAIL c15_obs_core"
    else if not (c15_obs_ok_b mss ops obs) then "FAIL c15_obs_ok_b"
    else if c15_obs_ok mss ops obs then "OK" else "FAIL c15_obs_ok"
  | [] -> failwith "cubic_pred: missing mss"

(* cubic_consts : bit views of the literals, for the log only *)
let run_cubic_consts () =
  let v x = let ((s, m), e) = f64_view x in
    Printf.sprintf "%s:%s:%s" (string_of_z s) (string_of_z m) (string_of_z e) in
  Printf.sprintf "BETA=%s C=%s" (v bETA_CUBIC) (v c_CUBIC)

(* cubic_libm <u64 bit pattern> ... : bit patterns (as unsigned decimal integers) of cbrt(x), powf(x,3.)
   from the oracles used to run the model; compared with the real f64::cbrt / f64::powf on every run *)
let u64_string_of_bits (b : int64) = Printf.sprintf "%Lu" b
let run_cubic_libm toks =
  String.concat " " (List.map (fun t ->
      if not (fits_u64 t) then "BADCASE" else
      let x = b754_of_float (Int64.float_of_bits (Int64.of_string ("0u" ^ t))) in
      let canon y = if Float.is_nan y then "nan" else u64_string_of_bits (Int64.bits_of_float y) in
      canon (float_of_b754 (cbrt_oracle x)) ^ "," ^ canon (float_of_b754 (powf3_oracle x))) toks)

let dispatch = function
  | "cubic" :: r -> Some (run_cubic r)
  | "cubic_libm" :: r -> Some (run_cubic_libm r)
  | "cubic_pred" :: r -> Some (run_cubic_pred "all" r)
  | "cubic_pred_core" :: r -> Some (run_cubic_pred "core" r)
  | "cubic_consts" :: _ -> Some (run_cubic_consts ())
  | _ -> None

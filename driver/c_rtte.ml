(* RttEstimator: model side *)
open Model
open Zutil

let run_rtte toks =
  let ops = List.map (fun t ->
      if t = "t" then OpTimeout
      else if String.length t > 1 && t.[0] = 's' then
        OpSample (z_of_string (String.sub t 1 (String.length t - 1)))
      else failwith ("rtte: bad op " ^ t)) toks in
  let tr = rtte_trace rtte_default ops in
  String.concat " " (List.map (function
      | Some (rto, rtt) -> string_of_z rto ^ "," ^ string_of_z rtt
      | None -> "PANIC") tr)

let parse_rtte_ops toks = List.map (fun t ->
      if t = "t" then OpTimeout
      else OpSample (z_of_string (String.sub t 1 (String.length t - 1)))) toks

(* rtte_pred <ops> | <observations>  : the extracted c16_ok on an observed trace *)
let run_rtte_pred toks =
  let (ops, obs) = split_bar [] toks in
  let obs = List.map (fun t ->
      if t = "PANIC" then None else
      match String.split_on_char ',' t with
      | [a; b] -> Some (z_of_string a, z_of_string b)
      | _ -> failwith "rtte_pred: bad obs") obs in
  let ops = parse_rtte_ops ops in
  if not (c16_ok ops obs) then "FAIL c16_ok"
  else if not (c16_exact_ok ops obs) then "FAIL c16_exact_ok"
  else "OK"


let dispatch = function
  | "rtte" :: r -> Some (run_rtte r)
  | "rtte_pred" :: r -> Some (run_rtte_pred r)
  | _ -> None

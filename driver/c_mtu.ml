(* SegmentSizes (src/mtu.rs): model side of the correspondence and the extracted predicates.
   mtu <is_ipv4> <link_mtu> <cooldown> <op>...     ops: d<n> delivered, n next_segment_size,
                                                    f<n> probe failed, x disarm,
                                                    N<is_ipv4>,<link_mtu>,<cooldown> new
     after each op: min_ss,max_ss,is_probing,<returned size or ->      (PANIC ends the line)
   mtu_search <is_ipv4> <link_mtu> <P>             scripted path delivering exactly sizes <= P
     output: <probe outcomes> <mss> <max_ss> <is_probing>
   mtu_d3 <is_ipv4> <link_mtu> <n>                 regression of D3: new; on_payload_delivered(n) (a
     payload size reported by the peer): output: <max_ss before> <mss> <max_ss> *)
open Model
open Zutil

(* Malformed case lines print BADCASE on both sides (keeps the shrinker inside well-formed cases). *)
exception Bad
let usize_max = z_of_string "18446744073709551615"
let digits t = t <> "" && String.length t <= 20 && (let ok = ref true in String.iter (fun ch -> if ch < '0' || ch > '9' then ok := false) t; !ok)
let usize_of t = if not (digits t) then raise Bad else let z = z_of_string t in if Z.leb z usize_max then z else raise Bad
let u16_of t = if not (digits t) || String.length t > 5 || int_of_string t > 65535 then raise Bad else z_of_string t
let bool_of t = match t with "1" -> true | "0" -> false | _ -> raise Bad

let cfg_of v4 mtu cd =
  { cfg_ipv4 = bool_of v4; cfg_link_mtu = u16_of mtu; cfg_cooldown = u16_of cd }

let tail t = String.sub t 1 (String.length t - 1)

let parse_op t =
  if t = "n" then OpNextSize
  else if t = "x" then OpDisarm
  else if String.length t > 1 && t.[0] = 'd' then OpDelivered (usize_of (tail t))
  else if String.length t > 1 && t.[0] = 'f' then OpProbeFailed (usize_of (tail t))
  else if String.length t > 1 && t.[0] = 'N' then
    (match String.split_on_char ',' (tail t) with
     | [a; b; c] -> OpNew (cfg_of a b c)
     | _ -> raise Bad)
  else raise Bad

let show_obs = function
  | Some (((mn, mx), pr), ret) ->
    Printf.sprintf "%s,%s,%s,%s" (string_of_z mn) (string_of_z mx) (string_of_bool pr)
      (match ret with Some r -> string_of_z r | None -> "-")
  | None -> "PANIC"

let parse_obs t =
  if t = "PANIC" then None else
    match String.split_on_char ',' t with
    | [a; b; p; r] ->
      let pr = (match p with "1" -> true | "0" -> false | _ -> failwith "mtu_pred: bad bool") in
      Some (((z_of_string a, z_of_string b), pr), (if r = "-" then None else Some (z_of_string r)))
    | _ -> failwith "mtu_pred: bad obs"

let run_mtu = function
  | v4 :: mtu :: cd :: ops ->
    let c = cfg_of v4 mtu cd in
    String.concat " " (List.map show_obs (ss_trace (ss_new c) (List.map parse_op ops)))
  | _ -> raise Bad

let show_search = function
  | Some (((cnt, m), mx), pr) ->
    Printf.sprintf "%s %s %s %s" (string_of_z cnt) (string_of_z m) (string_of_z mx) (string_of_bool pr)
  | None -> "PANIC"

let run_search = function
  | [v4; mtu; p] -> show_search (mtu_search (cfg_of v4 mtu "0") (usize_of p))
  | _ -> raise Bad

let run_d3 = function
  | [v4; mtu; n] ->
    let ((ceil, m), mx) = mtu_d3 (cfg_of v4 mtu "3") (usize_of n) in
    Printf.sprintf "%s %s %s" (string_of_z ceil) (string_of_z m) (string_of_z mx)
  | _ -> raise Bad

(* mtu_pred <case tokens incl. kind> | <observations> *)
let run_pred toks =
  let (case, obs) = split_bar [] toks in
  match case with
  | "mtu" :: v4 :: mtu :: cd :: ops ->
    let c = cfg_of v4 mtu cd in
    if c14_ok c (List.map parse_op ops) (List.map parse_obs obs) then "OK" else "FAIL c14_ok"
  | ["mtu_search"; v4; mtu; p] ->
    let ob = (match obs with
        | [cnt; m; mx; pr] ->
          Some (((z_of_string cnt, z_of_string m), z_of_string mx), (pr = "1"))
        | _ -> None) in
    if c14_search_ok (cfg_of v4 mtu "0") (usize_of p) ob then "OK" else "FAIL c14_search_ok"
  | ["mtu_d3"; v4; mtu; n] ->
    ignore (usize_of n);
    (match obs with
     | [ceil; m; mx] ->
       if c14_d3_ok (cfg_of v4 mtu "3") ((z_of_string ceil, z_of_string m), z_of_string mx)
       then "OK" else "FAIL c14_d3_ok"
     | _ -> "FAIL c14_d3_ok")
  | _ -> failwith "mtu_pred: bad case"

let guard f r = try f r with Bad | Failure _ | Invalid_argument _ -> "BADCASE"

let dispatch = function
  | "mtu" :: r -> Some (guard run_mtu r)
  | "mtu_search" :: r -> Some (guard run_search r)
  | "mtu_d3" :: r -> Some (guard run_d3 r)
  | "mtu_pred" :: r -> Some (guard run_pred r)
  | _ -> None

(* Segments: model side (coq/theories/Tx/Segments.v) *)
open Model
open Zutil

let fields s = String.split_on_char ',' s

let opt_z s = if s = "-" then None else Some (z_of_string s)

let bits_of_bytes (bytes : int list) : bool list =
  (* first 8 bytes, LSB first, padded to 64 bits *)
  List.init 64 (fun i ->
      let byte = i / 8 and bit = i mod 8 in
      match List.nth_opt bytes byte with
      | Some v -> (v lsr bit) land 1 = 1
      | None -> false)

let parse_sack s : sackbits option =
  if s = "-" then None else
  let n = String.length s / 2 in
  let bytes = List.init n (fun i -> int_of_string ("0x" ^ String.sub s (2 * i) 2)) in
  Some { sk_bits = bits_of_bytes bytes; sk_len = z_of_int (n * 8) }

let parse_op tok : seg_op =
  let c = tok.[0] and rest = String.sub tok 1 (String.length tok - 1) in
  let f = Array.of_list (fields rest) in
  match c with
  | 'q' -> SoEnqueue (z_of_string f.(0), f.(1) = "1")
  | 'p' -> SoPopProbe (z_of_string f.(0))
  | 'x' -> SoPopExpired (f.(0) = "1", z_of_string f.(1))
  | 'k' -> SoAck (z_of_string f.(0), z_of_string f.(1), parse_sack f.(2))
  | 'f' -> SoFlight (z_of_string f.(0))
  | 'i' -> SoIter (opt_z f.(0))
  | 's' -> SoOnSent (opt_z f.(0), nat_of_int (int_of_string f.(1)), z_of_string f.(2))
  | 'c' -> SoPipe (z_of_string f.(0), z_of_string f.(1), z_of_string f.(2), z_of_string f.(3))
  | _ -> failwith ("segs: bad op " ^ tok)

let string_of_optz = function None -> "-" | Some z -> string_of_z z

let string_of_seg (g : seg) =
  let kind, rc, ls = match g.sg_sent with
    | NotSent -> "0", "0", "-"
    | SentTime t -> "1", "0", string_of_z t
    | Retransmitted (c, t) -> "2", string_of_z c, string_of_z t in
  String.concat "." [string_of_z g.sg_size; string_of_z g.sg_abs; string_of_bool g.sg_delivered;
                     kind; rc; ls; string_of_bool g.sg_probe; string_of_bool g.sg_lost;
                     string_of_bool g.sg_expired; string_of_bool g.sg_sacks_after]

let digest (t : segments) =
  Printf.sprintf "%s,%s,%s,%s,%s,%s|%s" (string_of_z t.ss_snd_una) (string_of_z t.ss_len_bytes)
    (string_of_z t.ss_offset) (string_of_z t.ss_removed) (string_of_z t.ss_sack_depth)
    (string_of_bool t.ss_last_sack_empty)
    (match t.ss_segs with [] -> "-" | l -> String.concat ";" (List.map string_of_seg l))

let string_of_out = function
  | SrUnit -> "U"
  | SrBool b -> "B" ^ string_of_bool b
  | SrPop (PeExpired (rw, sz)) -> Printf.sprintf "XE%s,%s" (string_of_z rw) (string_of_z sz)
  | SrPop PeNotExpired -> "XN"
  | SrPop PeEmpty -> "XM"
  | SrAck r -> Printf.sprintf "A%s,%s,%s,%s,%s,%s" (string_of_z r.ar_acked_segments)
                 (string_of_z r.ar_acked_bytes) (string_of_z r.ar_max_acked_payload)
                 (string_of_z r.ar_newly_sacked_segments) (string_of_z r.ar_newly_sacked_bytes)
                 (string_of_optz r.ar_new_rtt)
  | SrNum n -> "N" ^ string_of_z n
  | SrIter [] -> "I-"
  | SrIter l -> "I" ^ String.concat ";" (List.map (fun f ->
      Printf.sprintf "%s:%s:%s" (string_of_z f.fs_seq) (string_of_z f.fs_payload_offset)
        (string_of_z f.fs_seg.sg_size)) l)
  | SrPipe (p, rc) -> Printf.sprintf "P%s,%s" (string_of_z p) (string_of_optz rc)
  | SrPanic -> "PANIC"

let run_segs toks =
  match toks with
  | snd_una :: ops ->
    let tr = seg_trace (segments_new (z_of_string snd_una)) (List.map parse_op ops) in
    String.concat " " (List.map (fun (o, t) ->
        match o with SrPanic -> "PANIC" | _ -> string_of_out o ^ "|" ^ digest t) tr)
  | _ -> failwith "segs: bad case"

let dispatch = function
  | "segs" :: r -> Some (run_segs r)
  | _ -> None

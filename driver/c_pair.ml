(* Two connections joined by a simulated network: model side (coq/theories/Pair/Pair.v).
   case: pair <17 config tokens> <op> ...      (see tools/props/pairgen.py)
   Reuses the printers/parsers of c_vsock.ml. *)
open Model
open Zutil

let ncfg = 17

let config_of a : pconfig =
  let z i = z_of_string a.(i) in
  { pc_ipv4 = (a.(0) = "1"); pc_mtu_a = z 1; pc_mtu_b = z 2; pc_rx_a = z 3; pc_rx_b = z 4;
    pc_tx_init = z 5; pc_tx_max = z 6; pc_nagle_a = (a.(7) = "1"); pc_nagle_b = (a.(8) = "1");
    pc_max_retx = z 9; pc_inactivity = z 10; pc_wait_last_ack = (a.(11) = "1"); pc_probe_retx = z 12;
    pc_syn_seq = z 13; pc_isn_b = z 14; pc_conn_id = z 15; pc_syn_rtt = z 16 }

let script_of rest =
  List.map (function 'S' -> TSent | 'P' -> TPending | 'E' -> TEmsgsize | _ -> TIoErr)
    (List.of_seq (String.to_seq rest))

let parse_op tok : pop =
  let n = String.length tok in
  let c = tok.[0] in
  let rest1 = String.sub tok 1 (n - 1) in
  match c with
  | 'T' -> PoNow (z_of_string rest1)
  | 'B' -> PoHole (if rest1 = "-" then None else Some (z_of_string rest1))
  | 'a' | 'b' ->
    let sd = if c = 'a' then SA else SB in
    let k = tok.[1] and rest = String.sub tok 2 (n - 2) in
    (match k with
     | 'P' -> PoPoll (sd, script_of rest)
     | 'W' -> (match List.map int_of_string (String.split_on_char ',' rest) with
         | [len; start] -> PoApp (sd, AWrite (C_vsock.pattern start len))
         | _ -> failwith "pair: bad W")
     | 'R' -> PoApp (sd, ARead (z_of_string rest))
     | 'F' -> PoApp (sd, AFlush)
     | 'H' -> PoApp (sd, AShutdown)
     | 'D' -> PoApp (sd, if rest = "R" then ADropReader else ADropWriter)
     | 'L' -> PoApp (sd, ALimit (if rest = "-" then None else Some (z_of_string rest)))
     | 'Z' -> PoApp (sd, ACloseInbox)
     | _ -> failwith ("pair: bad op " ^ tok))
  | 'x' | 'y' ->
    let from = if c = 'x' then SA else SB in
    let k = tok.[1] and i = z_of_string (String.sub tok 2 (n - 2)) in
    (match k with
     | 'D' -> PoDeliver (from, i)
     | 'X' -> PoDrop (from, i)
     | 'C' -> PoDup (from, i)
     | _ -> failwith ("pair: bad op " ^ tok))
  | _ -> failwith ("pair: bad op " ^ tok)

let hacc_str (h : hacc) = string_of_z h.ha_len ^ ":" ^ string_of_z h.ha_h

let tail_str (s : cubic pair) =
  Printf.sprintf "%d,%d#%s,%s,%s,%s" (List.length s.p_ab) (List.length s.p_ba)
    (hacc_str s.p_wa) (hacc_str s.p_ra) (hacc_str s.p_wb) (hacc_str s.p_rb)

let side_chr = function SA -> "a" | SB -> "b"

let obs_str (o : cubic pobs) =
  let s = o.pb_state and out = o.pb_out in
  let mine, theirs = (match out.po_side with SA -> s.p_a, s.p_b | SB -> s.p_b, s.p_a) in
  let body =
    match out.po_out with
    | VrPoll (r, pkts, wakes, arm) ->
      if r = PollPanic then "PANIC" else
      let has x = List.mem x wakes in
      Printf.sprintf "P:%s/%s/%s/%s/%s" (C_vsock.result_str r)
        (match pkts with [] -> "-" | l -> String.concat ";" (List.map C_vsock.packet_str l))
        (C_vsock.wakes_str (has VwReader) (has VwWriter) (has VwSelf)) (C_vsock.optz arm)
        (C_vsock.fingerprint mine)
    | res ->
      let r = match res with
        | VrNone -> "-"
        | VrWrite (WrOk n) -> "W" ^ string_of_z n
        | VrWrite WrPending -> "WP"
        | VrWrite WrErrClosed -> "WEC"
        | VrWrite WrErrShutdown -> "WES"
        | VrWrite WrErrDropped -> "WED"
        | VrUnit UrOk -> "UOK" | VrUnit UrPending -> "UPEND" | VrUnit UrErr -> "UERR"
        | VrRead (RdOk bs) -> Printf.sprintf "R%d:%d" (List.length bs) (C_vsock.hash_bytes bs)
        | VrRead RdEof -> "REOF" | VrRead RdErrMsg -> "RERRMSG" | VrRead RdErrDead -> "RERRDEAD"
        | VrRead RdPending -> "RPEND"
        | VrPoll _ -> "?" in
      r ^ "/" ^ C_vsock.wakes_str false out.po_self_woken out.po_disp_woken ^ "/" ^ C_vsock.fingerprint mine in
  if body = "PANIC" then "PANIC"
  else side_chr out.po_side ^ ":" ^ body ^ "#" ^ C_vsock.fingerprint theirs ^ "#" ^ tail_str s

let run_pair toks =
  let a = Array.of_list toks in
  if Array.length a < ncfg then "BADCASE" else
  let cfg = config_of a in
  match pair_new_cubic C_cubic.cbrt_oracle C_cubic.powf3_oracle cfg with
  | None -> "BADCONFIG"
  | Some s0 ->
    let ops = List.map parse_op (Array.to_list (Array.sub a ncfg (Array.length a - ncfg))) in
    let tr = ptrace_cubic C_cubic.cbrt_oracle C_cubic.powf3_oracle s0 ops in
    String.concat " "
      (("I:" ^ C_vsock.fingerprint s0.p_a ^ "#" ^ C_vsock.fingerprint s0.p_b) :: List.map obs_str tr)

(* ------------------------------------------------------------------ parsing observations back:
   the extracted predicates c01_pair_bad / c01_kf1_class evaluated on the IMPLEMENTATION's output *)

(* one emitted datagram as the observation shows it *)
type wpkt = { w_type : int; w_seq : z; w_plen : int; w_sack : bool }

let wpkt_of_string (t : string) : wpkt =
  match String.split_on_char ',' t with
  | [ty; seq; _; _; _; _; _; sk; pl] ->
    { w_type = int_of_string ty; w_seq = z_of_string seq; w_sack = (sk <> "-");
      w_plen = int_of_string (List.hd (String.split_on_char ':' pl)) }
  | _ -> failwith ("pair: bad packet " ^ t)

let wsize p = (if p.w_sack then 30 else 20) + p.w_plen

(* observation token -> (side, result token, packets emitted, (ra, rb)) *)
let parse_obs (tok : string) =
  match String.split_on_char '#' tok with
  | [main; _; _; ctr] ->
    let sd = if main.[0] = 'a' then SA else SB in
    let body = String.sub main 2 (String.length main - 2) in
    let parts = String.split_on_char '/' body in
    let res, pkts =
      if String.length body > 2 && String.sub body 0 2 = "P:" then
        (match parts with
         | r :: pk :: _ -> (r, if pk = "-" then [] else List.map wpkt_of_string (String.split_on_char ';' pk))
         | _ -> failwith "pair: bad poll observation")
      else (List.hd parts, []) in
    let lh s = match String.split_on_char ':' s with
      | [l; h] -> (z_of_string l, z_of_string h) | _ -> failwith "pair: bad counter" in
    (match String.split_on_char ',' ctr with
     | [_; ra; _; rb] -> (sd, res, pkts, lh ra, lh rb)
     | _ -> failwith "pair: bad counters")
  | _ -> failwith ("pair: bad observation " ^ tok)

let rec remove_nth k = function
  | [] -> [] | x :: r -> if k = 0 then r else x :: remove_nth (k - 1) r

(* replays the network bookkeeping of the case on the emitted packets of the observations *)
let steps_of (case : string list) (obs : string list) : pstep_obs list * kev list =
  let a = Array.of_list case in
  let ops = List.map parse_op (Array.to_list (Array.sub a ncfg (Array.length a - ncfg))) in
  let obs = (match obs with _ :: r -> r | [] -> []) in
  let steps = ref [] and evs = ref [] in
  let ab = ref [] and ba = ref [] and hole = ref None in
  let rec go ops obs =
    match ops, obs with
    | o :: ops', t :: obs' when t <> "PANIC" ->
      let (sd, res, pkts, ra, rb) = parse_obs t in
      let wrote side =
        (match o with
         | PoApp (s0, AWrite buf) when s0 = side && String.length res > 1 && res.[0] = 'W'
                                       && res.[1] >= '0' && res.[1] <= '9' ->
           let n = int_of_string (String.sub res 1 (String.length res - 1)) in
           List.filteri (fun i _ -> i < n) buf
         | _ -> []) in
      steps := { so_wrote_a = wrote SA; so_wrote_b = wrote SB; so_read_a = ra; so_read_b = rb } :: !steps;
      (match o with
       | PoHole m -> hole := (match m with None -> None | Some z -> Some (int_of_z z))
       | PoApp (s0, ACloseInbox) -> evs := KeClose s0 :: !evs
       | PoPoll (s0, _) ->
         List.iter (fun p -> if p.w_type = 0 then evs := KeEmit (s0, p.w_seq, z_of_int p.w_plen) :: !evs) pkts;
         let pass = List.filter (fun p -> match !hole with None -> true | Some m -> wsize p <= m) pkts in
         if s0 = SA then ab := !ab @ pass else ba := !ba @ pass
       | PoDeliver (from, i) | PoDrop (from, i) | PoDup (from, i) ->
         let net = if from = SA then ab else ba in
         let n = List.length !net in
         if n > 0 then begin
           let k = ((int_of_z i mod n) + n) mod n in
           let p = List.nth !net k in
           (match o with
            | PoDeliver _ ->
              if p.w_type = 0 then evs := KeDeliver (from, p.w_seq, z_of_int p.w_plen) :: !evs;
              net := remove_nth k !net
            | PoDrop _ -> net := remove_nth k !net
            | _ -> net := !net @ [p])
         end
       | _ -> ());
      ignore sd;
      go ops' obs'
    | _, _ -> () in
  go ops obs;
  (List.rev !steps, List.rev !evs)

(* the fingerprints (A, B) of the initial token and of every observation (Pair/C01_Pred2.v) *)
let fps_of (obs : string list) : (vfp * vfp) list =
  List.filter_map (fun tok ->
    if tok = "PANIC" then None else
    match String.split_on_char '#' tok with
    | [main; fb] when String.length main > 2 && String.sub main 0 2 = "I:" ->
      Some (C_vsock.vfp_of_string (String.sub main 2 (String.length main - 2)), C_vsock.vfp_of_string fb)
    | main :: theirs :: _ ->
      let parts = String.split_on_char '/' main in
      let mine = List.nth parts (List.length parts - 1) in
      let fm = C_vsock.vfp_of_string mine and ft = C_vsock.vfp_of_string theirs in
      Some (if main.[0] = 'a' then (fm, ft) else (ft, fm))
    | _ -> None) obs

(* pair_pred <name> <case tokens> | <observations> *)
let run_pair_pred toks =
  match toks with
  | name :: rest ->
    let (case, obs) = split_bar [] rest in
    let (steps, evs) = steps_of case obs in
    let bad rd = c01_dir_bad rd Z0 dchk0 steps in
    let report nm =
      (match bad SB, bad SA with
       | None, None -> "OK"
       | Some i, _ -> Printf.sprintf "FAIL %s step=%s reader=b" nm (string_of_z i)
       | None, Some i -> Printf.sprintf "FAIL %s step=%s reader=a" nm (string_of_z i)) in
    (match name with
     | "c01_pair_ok" -> if c01_pair_ok steps then "OK" else report name
     | "c01_pair_guarded" ->
       if c01_pair_guarded evs steps then "OK"
       else
         (* report the direction that is not excused *)
         (match (if c01_kf1_class_dir SA evs then None else bad SB),
                (if c01_kf1_class_dir SB evs then None else bad SA) with
          | Some i, _ -> Printf.sprintf "FAIL %s step=%s reader=b" name (string_of_z i)
          | None, Some i -> Printf.sprintf "FAIL %s step=%s reader=a" name (string_of_z i)
          | None, None -> "FAIL " ^ name)
     | "c02_pair_settled_ok" ->
       (* died = some poll observation reports Ready with an error (token P:E...) *)
       let died = List.exists (fun t ->
           let n = String.length t in
           let rec has i = i + 3 < n && ((t.[i] = ':' && t.[i+1] = 'P' && t.[i+2] = ':' && t.[i+3] = 'E') || has (i + 1)) in
           has 0) obs in
       if c02_pair_settled_ok died steps then "OK"
       else if died then "FAIL c02_pair_settled_ok (an endpoint gave up although the network delivers)"
       else Printf.sprintf "FAIL c02_pair_settled_ok (written %s/%s read %s/%s)"
           (string_of_z (wrote_total SA steps)) (string_of_z (wrote_total SB steps))
           (string_of_z (read_final SB steps)) (string_of_z (read_final SA steps))
     | "c01_pair_guarded2" ->
       let fps = fps_of obs in
       if c01_pair_guarded2 fps evs steps then "OK"
       else
         (match (if c01_kf1_class2_dir SA fps evs then None else bad SB),
                (if c01_kf1_class2_dir SB fps evs then None else bad SA) with
          | Some i, _ -> Printf.sprintf "FAIL %s step=%s reader=b" name (string_of_z i)
          | None, Some i -> Printf.sprintf "FAIL %s step=%s reader=a" name (string_of_z i)
          | None, None -> "FAIL " ^ name)
     | "c01_kf1_class2" -> if c01_kf1_class2 (fps_of obs) evs then "OK" else "FAIL c01_kf1_class2"
     | "c01_kf1_class" -> if c01_kf1_class evs then "OK" else "FAIL c01_kf1_class"
     | "c01_d17_class" -> if c01_d17_class evs then "OK" else "FAIL c01_d17_class"
     | _ -> failwith ("pair_pred: unknown predicate " ^ name))
  | _ -> failwith "pair_pred: bad case"

let dispatch = function
  | "pair_pred" :: r -> Some (run_pair_pred r)
  | "pair" :: r -> Some (run_pair r)
  | _ -> None

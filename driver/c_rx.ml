(* UserRx + read half: model side (coq/theories/Rx/Rx.v) *)
open Model
open Zutil

let pattern start len =
  List.init len (fun j -> z_of_int ((start + j) mod 251))

let ints_of s = List.map int_of_string (String.split_on_char ',' s)

let parse_op tok =
  let c = tok.[0] and rest = String.sub tok 1 (String.length tok - 1) in
  match c with
  | 'a' ->
    (match ints_of rest with
     | [k; len; start; offset] ->
       let kind = (match k with 0 -> KData | 1 -> KFin | _ -> KOther) in
       OAddRemove (kind, pattern start len, z_of_int offset)
     | _ -> failwith "rx: bad a op")
  | 'f' -> OFlush
  | 'r' -> ORead (z_of_int (int_of_string rest))
  | 'd' -> ODropReader
  | 'c' -> OMarkClosed
  | 'e' -> OEnqueueError
  | _ -> failwith ("rx: bad op " ^ tok)

let sack_hex = function
  | None -> "-"
  | Some bits ->
    let arr = Array.of_list bits in
    let buf = Buffer.create 16 in
    for byte = 0 to 7 do
      let v = ref 0 in
      for bit = 0 to 7 do
        let i = byte * 8 + bit in
        if i < Array.length arr && arr.(i) then v := !v lor (1 lsl bit)
      done;
      Buffer.add_string buf (Printf.sprintf "%02x" !v)
    done;
    Buffer.contents buf

let bytes_dot bs = String.concat "." (List.map string_of_z bs)

let string_of_out = function
  | OutAdd (UarOk (ArConsumed (n, b))) -> "C" ^ string_of_z n ^ "," ^ string_of_z b
  | OutAdd (UarOk ArAlreadyPresent) -> "AP"
  | OutAdd (UarOk ArUnavailable) -> "UN"
  | OutAdd (UarOk ArErrZeroPayload) -> "EZ"
  | OutAdd (UarOk ArErrBugInvalidMessage) -> "EBI"
  | OutAdd (UarOk ArErrBugMissingSlot) -> "EBM"
  | OutAdd UarPanic -> "PANIC"
  | OutFlush (FlOk n) -> "F" ^ string_of_z n
  | OutFlush FlPanic -> "PANIC"
  | OutRead (RdOk bs) -> Printf.sprintf "R%d:%s" (List.length bs) (bytes_dot bs)
  | OutRead RdEof -> "EOF"
  | OutRead RdErrMsg -> "ERRMSG"
  | OutRead RdErrDead -> "ERRDEAD"
  | OutRead RdPending -> "PEND"
  | OutUnit -> "U"

let string_of_obs (o : rx_obs) =
  let out = string_of_out o.ob_out in
  if out = "PANIC" then "PANIC" else
  let wakes = String.concat "" (List.map (function WakeDispatcher -> "D" | WakeReader -> "R") o.ob_wakes) in
  (* the harness prints dispatcher wakes before reader wakes *)
  let d = String.concat "" (List.filter (fun x -> x = "D") (List.map (String.make 1) (List.of_seq (String.to_seq wakes)))) in
  let r = String.concat "" (List.filter (fun x -> x = "R") (List.map (String.make 1) (List.of_seq (String.to_seq wakes)))) in
  let wakes = if wakes = "" then "-" else d ^ r in
  Printf.sprintf "%s/%s/%s/%s/%s/%s/%s/%s/%s/%s%s%s/%s" out wakes (string_of_z o.ob_window)
    (sack_hex o.ob_sack) (string_of_bool o.ob_asm_empty) (string_of_z o.ob_ff)
    (string_of_z o.ob_len) (string_of_z o.ob_len_bytes) (string_of_z o.ob_qbytes)
    (string_of_bool o.ob_dw) (string_of_bool o.ob_rw) (string_of_bool o.ob_rd)
    (sack_hex (Some o.ob_occ))

let run_rx toks =
  match toks with
  | max_rx :: max_in :: ops ->
    let s0 = rx_build (z_of_string max_rx) (z_of_string max_in) in
    let tr = rx_trace s0 (List.map parse_op ops) in
    String.concat " " (List.map string_of_obs tr)
  | _ -> failwith "rx: bad case"

let bits_of_hex h =
  List.concat (List.init 8 (fun byte ->
      let v = int_of_string ("0x" ^ String.sub h (2 * byte) 2) in
      List.init 8 (fun bit -> (v lsr bit) land 1 = 1)))

(* parse one printed observation back into an rx_obs (only the fields c04_ok reads) *)
let obs_of_string tok : rx_obs =
  if tok = "PANIC" then
    { ob_out = OutFlush FlPanic; ob_wakes = []; ob_window = Z0; ob_sack = None; ob_asm_empty = true;
      ob_ff = Z0; ob_len = Z0; ob_len_bytes = Z0; ob_qbytes = Z0; ob_dw = false; ob_rw = false;
      ob_rd = false; ob_occ = [] }
  else
  match String.split_on_char '/' tok with
  | [_out; _wakes; window; sack; asm; ff; len; lb; qb; flags; occ] ->
    { ob_out = OutUnit; ob_wakes = [];
      ob_window = z_of_string window;
      ob_sack = (if sack = "-" then None else Some (bits_of_hex sack));
      ob_asm_empty = (asm = "1"); ob_ff = z_of_string ff; ob_len = z_of_string len;
      ob_len_bytes = z_of_string lb; ob_qbytes = z_of_string qb;
      ob_dw = (flags.[0] = '1'); ob_rw = (flags.[1] = '1'); ob_rd = (flags.[2] = '1');
      ob_occ = bits_of_hex occ }
  | _ -> failwith ("rx_pred: bad observation " ^ tok)

(* rx_pred <max_rx> <max_in> | <observations> *)
let run_rx_pred toks =
  match split_bar [] toks with
  | ([max_rx; max_in], obs) ->
    let obs = List.map obs_of_string obs in
    if c04_ok (z_of_string max_rx) (z_of_string max_in) obs then "OK" else "FAIL c04_ok"
  | _ -> failwith "rx_pred: bad case"

let dispatch = function
  | "rx_pred" :: r -> Some (run_rx_pred r)
  | "rx" :: r -> Some (run_rx r)
  (* rxconc: reader thread against dispatcher thread, both really parked on their wakers.  What EVERY linearisation of
     atomic methods gives is fixed by the receive-side theorems (Props/C04.v accounting / no-discard, Props/C01.v T2 in-order
     bytes, Props/C02.v c02_read_wakes_ok, c02_rx_flush_wakes_reader, c02_flush_registers_waker_partial): the exact stream,
     then EOF, and never both sides parked with no wake-up pending. *)
  | "rxconc" :: _ -> Some "OK"
  | _ -> None

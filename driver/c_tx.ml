(* UserTx + write half: model side (coq/theories/Tx/Ring.v) *)
open Model
open Zutil

let pattern start len = List.init len (fun j -> z_of_int ((start + j) mod 251))

let parse_op tok : tx_op =
  let c = tok.[0] and rest = String.sub tok 1 (String.length tok - 1) in
  match c with
  | 'w' -> (match List.map int_of_string (String.split_on_char ',' rest) with
      | [len; start] -> ToWrite (pattern start len)
      | _ -> failwith "tx: bad w")
  | 'f' -> ToFlush
  | 'h' -> ToShutdown
  | 'd' -> ToDropWriter
  | 'c' -> ToMarkClosed
  | 't' -> ToTruncate (z_of_string rest)
  | 'g' -> ToGrow (z_of_string rest)
  | 'e' -> ToRegisterIfEmpty
  | 'k' -> ToWakeWriter
  | _ -> failwith ("tx: bad op " ^ tok)

let ring_hash (bs : z list) =
  let h = ref 0 and p = ref 1 in
  List.iter (fun b ->
      h := (!h + (int_of_z b + 1) * !p) mod 1_000_000_007;
      p := (!p * 31) mod 1_000_000_007) bs;
  !h

let string_of_out = function
  | TxWrite (WrOk n) -> "W" ^ string_of_z n
  | TxWrite WrPending -> "WP"
  | TxWrite WrErrClosed -> "WEC"
  | TxWrite WrErrShutdown -> "WES"
  | TxWrite WrErrDropped -> "WED"
  | TxUnit UrOk -> "OK"
  | TxUnit UrPending -> "PEND"
  | TxUnit UrErr -> "ERR"
  | TxTrunc TrOk -> "TOK"
  | TxTrunc (TrBug (s, c)) -> Printf.sprintf "TBUG%s,%s" (string_of_z s) (string_of_z c)
  | TxGrow (Some n) -> "G" ^ string_of_z n
  | TxGrow None -> "G-"
  | TxNone -> "NONE"

let string_of_obs (o : tx_obs) =
  let d = String.concat "" (List.filter_map (function TwDispatcher -> Some "D" | _ -> None) o.to_wakes) in
  let w = String.concat "" (List.filter_map (function TwDispatcher -> None | _ -> Some "W") o.to_wakes) in
  let wakes = if d ^ w = "" then "-" else d ^ w in
  Printf.sprintf "%s/%s/%d:%d/%s/%s" (string_of_out o.to_out) wakes (List.length o.to_ring)
    (ring_hash o.to_ring) (string_of_z o.to_cap)
    (String.concat "" (List.map string_of_bool o.to_flags))

let run_tx toks =
  match toks with
  | initial :: _max :: ops ->
    let tr = tx_trace (tx_new (z_of_string initial)) (List.map parse_op ops) in
    String.concat " " (List.map string_of_obs tr)
  | _ -> failwith "tx: bad case"

(* tx_pred <initial> <max> | <observations> : the extracted c19_ok.
   Only lengths, capacity, result kind and flags are read by the predicate. *)
let obs_of_string tok : tx_obs =
  match String.split_on_char '/' tok with
  | [out; wakes; ring; cap; flags] ->
    let len = int_of_string (List.hd (String.split_on_char ':' ring)) in
    let o =
      if out = "WP" then TxWrite WrPending
      else if String.length out > 1 && out.[0] = 'W' && out.[1] >= '0' && out.[1] <= '9'
      then TxWrite (WrOk (z_of_string (String.sub out 1 (String.length out - 1))))
      else TxNone in
    { to_out = o;
      to_wakes = (if wakes = "W" && out = "WP" then [TwSelf] else []);
      to_ring = List.init len (fun _ -> Z0); to_cap = z_of_string cap;
      to_flags = List.init (String.length flags) (fun i -> flags.[i] = '1') }
  | _ -> failwith ("tx_pred: bad observation " ^ tok)

let run_tx_pred toks =
  match split_bar [] toks with
  | ([initial; max], obs) ->
    let view = List.map (fun tok ->
        match String.split_on_char '/' tok with
        | [out; _; ring; _; _] ->
          let o = if String.length out > 0 && out.[0] = 'G' then TxGrow None else TxNone in
          (match String.split_on_char ':' ring with
           | [l; h] -> ((o, z_of_string l), z_of_string h)
           | _ -> failwith "tx_pred: bad ring")
        | _ -> failwith ("tx_pred: bad observation " ^ tok)) obs in
    if not (c19_ok (z_of_string initial) (z_of_string max) (List.map obs_of_string obs)) then "FAIL c19_ok"
    else if not (c19_grow_ok view) then "FAIL c19_grow_ok"
    else "OK"
  | _ -> failwith "tx_pred: bad case"

let dispatch = function
  | "tx" :: r -> Some (run_tx r)
  (* txconc: the writer thread against the dispatcher thread.  What EVERY linearisation of the atomic methods
     gives is fixed by the ring theorems (Props/C19.v c19_bound / c19_grow_preserves, Props/C01.v T1: the ring is
     skipn removed written, for every op list): nothing lost, nothing duplicated, capacity within the limit. *)
  | "txconc" :: _ -> Some "OK"
  | "tx_pred" :: r -> Some (run_tx_pred r)
  | _ -> None

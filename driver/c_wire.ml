(* Wire format (raw.rs / message.rs): model side and the extracted C11 predicates.
   Cases:
     wire_de  <bytes>      -> NONE | <type> <conn> <ts> <tsdiff> <wnd> <seq> <ack> <sack> <close> <n>
     wire_msg <bytes>      -> PANIC | NONE | <the 9 header tokens> <payload_len>
     wire_ser <type> <conn> <ts> <tsdiff> <wnd> <seq> <ack> <sackspec> <closespec> <buflen>
                           -> ERR | <bytes written>
   <bytes>     = comma-separated integers, "-" for the empty list
   <sack>      = -1 | <len>,<b0>,...,<b7>         <close> = -1 | <u16>
   <sackspec>  = - | n[<idx>,<idx>,..] (SelectiveAck::new) | d[<byte>,..] (SelectiveAck::deserialize)
   <closespec> = - | <u16> *)
open Model
open Zutil

let csv_z s = if s = "-" || s = "" then [] else List.map z_of_string (String.split_on_char ',' s)
let z_csv l = if l = [] then "-" else String.concat "," (List.map string_of_z l)

let type_of_tok t = match int_of_string t with
  | 0 -> ST_DATA | 1 -> ST_FIN | 2 -> ST_STATE | 3 -> ST_RESET | 4 -> ST_SYN
  | _ -> failwith "wire: bad type"
let tok_of_type = function
  | ST_DATA -> "0" | ST_FIN -> "1" | ST_STATE -> "2" | ST_RESET -> "3" | ST_SYN -> "4"

let sack_tok = function
  | None -> "-1"
  | Some s -> String.concat "," (List.map string_of_z (s.sack_len :: s.sack_bytes))
let close_tok = function None -> "-1" | Some c -> string_of_z c

let header_toks h =
  [tok_of_type h.h_type; string_of_z h.h_conn; string_of_z h.h_ts; string_of_z h.h_tsdiff;
   string_of_z h.h_wnd; string_of_z h.h_seq; string_of_z h.h_ack;
   sack_tok h.h_ext.e_sack; close_tok h.h_ext.e_close]

(* 9 observation tokens -> header, remaining tokens *)
let header_of_obs toks =
  match toks with
  | t :: c :: ts :: td :: w :: s :: a :: sk :: cl :: rest ->
    let sack = if sk = "-1" then None else
        (match csv_z sk with
         | l :: bytes -> Some { sack_bytes = bytes; sack_len = l }
         | [] -> failwith "wire: bad sack obs") in
    let close = if cl = "-1" then None else Some (z_of_string cl) in
    ({ h_type = type_of_tok t; h_conn = z_of_string c; h_ts = z_of_string ts;
       h_tsdiff = z_of_string td; h_wnd = z_of_string w; h_seq = z_of_string s;
       h_ack = z_of_string a; h_ext = { e_sack = sack; e_close = close } }, rest)
  | _ -> failwith "wire: bad header obs"

let sack_of_spec s =
  if s = "-" then None
  else if s.[0] = 'n' then Some (sack_new (csv_z (String.sub s 1 (String.length s - 1))))
  else if s.[0] = 'd' then Some (sack_deserialize (csv_z (String.sub s 1 (String.length s - 1))))
  else failwith "wire: bad sack spec"

(* the 10 case tokens of wire_ser -> header, buflen *)
let ser_case toks =
  match toks with
  | [t; c; ts; td; w; s; a; sk; cl; bl] ->
    ({ h_type = type_of_tok t; h_conn = z_of_string c; h_ts = z_of_string ts;
       h_tsdiff = z_of_string td; h_wnd = z_of_string w; h_seq = z_of_string s;
       h_ack = z_of_string a;
       h_ext = { e_sack = sack_of_spec sk;
                 e_close = if cl = "-" then None else Some (z_of_string cl) } },
     z_of_string bl)
  | _ -> failwith "wire_ser: bad case"

let run_de toks =
  match toks with
  | [bs] ->
    (match deserialize (csv_z bs) with
     | None -> "NONE"
     | Some (h, n) -> String.concat " " (header_toks h @ [string_of_z n]))
  | _ -> failwith "wire_de: bad case"

let run_msg toks =
  match toks with
  | [bs] ->
    (match msg_deserialize (csv_z bs) with
     | MsgPanic -> "PANIC"
     | MsgNone -> "NONE"
     | MsgSome (h, p) -> String.concat " " (header_toks h @ [string_of_int (List.length p)]))
  | _ -> failwith "wire_msg: bad case"

let run_ser toks =
  let (h, bl) = ser_case toks in
  match serialize h bl with
  | None -> "ERR"
  | Some bs -> z_csv bs

(* wire_pred <case line> | <observation>
   wire_pred bep29_fail <why> <case line> | <observation>   : the independent python BEP-29 parser
   (tools/bep29.py) disagreed with the observation; the verdict is FAIL, and the Coq predicate's
   own verdict is appended for the record *)
let rec run_pred toks =
  match toks with
  | "bep29_fail" :: why :: rest ->
    "FAIL bep29-oracle " ^ why ^ " coq-predicate=" ^ String.concat "_" (split (run_pred rest))
  | _ ->
  let (case, obs) = split_bar [] toks in
  match case with
  | _ when obs = ["PANIC"] -> "FAIL panic"
  | ["wire_de"; bs] ->
    let o = (match obs with
        | ["NONE"] -> None
        | _ -> (match header_of_obs obs with
            | (h, [n]) -> Some (h, z_of_string n)
            | _ -> failwith "wire_pred: bad wire_de obs")) in
    if c11_de_ok (csv_z bs) o then "OK" else "FAIL c11_de_ok"
  | ["wire_msg"; bs] ->
    let o = (match obs with
        | ["NONE"] -> None
        | _ -> (match header_of_obs obs with
            | (h, [pl]) -> Some (h, z_of_string pl)
            | _ -> failwith "wire_pred: bad wire_msg obs")) in
    if c11_msg_ok (csv_z bs) o then "OK" else "FAIL c11_msg_ok"
  | "wire_ser" :: r ->
    let (h, bl) = ser_case r in
    (match obs with
     | ["ERR"] -> if c11_ser_ok h bl None then "OK" else "FAIL c11_ser_ok err"
     | [bs] -> if c11_ser_ok h bl (Some (csv_z bs)) then "OK" else "FAIL c11_ser_ok"
     | _ -> "FAIL c11_ser_ok obs")   (* e.g. DIRTY: bytes beyond the returned length were written *)
  | _ -> failwith "wire_pred: bad case"

(* a case line with the wrong number of tokens or a value outside its Rust type (only the
   shrinker produces those) is answered with the same fixed text by both sides *)
let int_in lo hi s =
  match int_of_string_opt s with Some n -> n >= lo && n <= hi && s <> "" && s.[0] <> '+' && s.[0] <> '-' | None -> false
let csv_in lo hi s = s = "" || List.for_all (int_in lo hi) (String.split_on_char ',' s)
let bytes_tok s = s = "-" || (s <> "" && csv_in 0 255 s)
let tail s = String.sub s 1 (String.length s - 1)
let ser_ok = function
  | [t; c; ts; td; w; s; a; sk; cl; bl] ->
    int_in 0 4 t && int_in 0 65535 c && int_in 0 4294967295 ts && int_in 0 4294967295 td
    && int_in 0 4294967295 w && int_in 0 65535 s && int_in 0 65535 a
    && (sk = "-" || (sk <> "" && sk.[0] = 'n' && csv_in 0 1000000000 (tail sk))
        || (sk <> "" && sk.[0] = 'd' && csv_in 0 255 (tail sk)))
    && (cl = "-" || int_in 0 65535 cl) && int_in 0 65536 bl
  | _ -> false

let dispatch = function
  | "wire_de" :: r -> Some (match r with [b] when bytes_tok b -> run_de r | _ -> "BAD-CASE")
  | "wire_msg" :: r -> Some (match r with [b] when bytes_tok b -> run_msg r | _ -> "BAD-CASE")
  | "wire_ser" :: r -> Some (if ser_ok r then run_ser r else "BAD-CASE")
  | "wire_pred" :: r -> Some (run_pred r)
  | _ -> None
